import KG.Spec.LocalLimiter
/-! Simulation between the sequential limiter model (`KG.Model.LocalLimiter`) and the judgeExact's bookkeeping
    (`KG.Spec.LocalLimiter`): the relation `Rel` holds initially and is preserved by every op, and in related
    states every answer of the model is what the judgeExact demands. -/
namespace KG.Lemmas.LocalLimiter
open KG KG.Model.MaxInflight KG.Model.LocalLimiter KG.Spec.LocalLimiter

/-! ### basic facts about the state updates -/

def putCache (w : World) (c n : Str) (x : Option Cache) : World :=
  w.setLim c ((w.lims c).setCache n x)

theorem putCache_cache (w : World) (c n : Str) (x : Option Cache) (c' n' : Str) :
    (putCache w c n x).cache c' n' = if c' = c ∧ n' = n then x else w.cache c' n' := by
  unfold putCache World.cache World.setLim Limiter.setCache
  by_cases hc : c' = c
  · subst hc
    by_cases hn : n' = n <;> simp [hn]
  · simp [hc]

@[simp] theorem putCache_heap (w : World) (c n : Str) (x : Option Cache) : (putCache w c n x).heap = w.heap := rfl
@[simp] theorem putCache_next (w : World) (c n : Str) (x : Option Cache) : (putCache w c n x).next = w.next := rfl
@[simp] theorem putCache_reqs (w : World) (c n : Str) (x : Option Cache) : (putCache w c n x).reqs = w.reqs := rfl
theorem putCache_spec (w : World) (c n : Str) (x : Option Cache) (d : Str) :
    ((putCache w c n x).lims d).spec = (w.lims d).spec := by
  unfold putCache World.setLim Limiter.setCache
  by_cases h : d = c <;> simp [h]

@[simp] theorem alloc_cache (w : World) (k : Kind) (c n : Str) : (w.alloc k).cache c n = w.cache c n := rfl
@[simp] theorem alloc_reqs (w : World) (k : Kind) : (w.alloc k).reqs = w.reqs := rfl
@[simp] theorem alloc_next (w : World) (k : Kind) : (w.alloc k).next = w.next + 1 := rfl
theorem alloc_heap (w : World) (k : Kind) (i : Nat) : (w.alloc k).heap i = if i = w.next then some k else w.heap i := rfl
@[simp] theorem alloc_lims (w : World) (k : Kind) : (w.alloc k).lims = w.lims := rfl

@[simp] theorem setHeap_cache (w : World) (id : Nat) (k : Kind) (c n : Str) : (w.setHeap id k).cache c n = w.cache c n := rfl
@[simp] theorem setHeap_reqs (w : World) (id : Nat) (k : Kind) : (w.setHeap id k).reqs = w.reqs := rfl
@[simp] theorem setHeap_next (w : World) (id : Nat) (k : Kind) : (w.setHeap id k).next = w.next := rfl
theorem setHeap_heap (w : World) (id : Nat) (k : Kind) (i : Nat) : (w.setHeap id k).heap i = if i = id then some k else w.heap i := rfl
@[simp] theorem setHeap_lims (w : World) (id : Nat) (k : Kind) : (w.setHeap id k).lims = w.lims := rfl

theorem setHeap_self (w : World) (id : Nat) (k : Kind) (h : w.heap id = some k) : w.setHeap id k = w := by
  unfold World.setHeap
  have : (fun i => if i = id then some k else w.heap i) = w.heap := by
    funext i; by_cases hi : i = id <;> simp [hi, h]
  rw [this]

theorem setEntry_entries (σ : SState) (c n : Str) (e : Option Entry) (c' n' : Str) :
    (σ.setEntry c n e).entries c' n' = if c' = c ∧ n' = n then e else σ.entries c' n' := rfl
@[simp] theorem setEntry_reqs (σ : SState) (c n : Str) (e : Option Entry) : (σ.setEntry c n e).reqs = σ.reqs := rfl
@[simp] theorem setEntry_last (σ : SState) (c n : Str) (e : Option Entry) : (σ.setEntry c n e).last = σ.last := rfl

/-- the limit of a counter is the `uint32` of the schema's `max` -/
def KindOk (k : Kind) (s : Schema) : Prop :=
  ∀ cnt, k = .counter cnt → ∃ m, s.mi = some m ∧ cnt.max = toU32 m

/-- request `i` is unfinished and holds the limiter `cur` -/
def HoldsL (reqs : List Req) (i : Nat) (cur : Option Nat) : Prop :=
  ∃ r, reqs[i]? = some r ∧ r.admitted = true ∧ r.released = false ∧ r.obj.isSome = true ∧ r.obj = cur

abbrev Holds (w : World) (i : Nat) (cur : Option Nat) : Prop := HoldsL w.reqs i cur

theorem holdsL_lt {reqs : List Req} {i : Nat} {cur : Option Nat} (h : HoldsL reqs i cur) : i < reqs.length := by
  obtain ⟨r, hr, _⟩ := h
  exact (List.getElem?_eq_some_iff.1 hr).1

theorem holdsL_append_old (reqs : List Req) (x : Req) (i : Nat) (cur : Option Nat) (hi : i < reqs.length) :
    HoldsL (reqs ++ [x]) i cur ↔ HoldsL reqs i cur := by
  unfold HoldsL
  rw [List.getElem?_append_left hi]

theorem holdsL_append_new (reqs : List Req) (x : Req) (cur : Option Nat) :
    HoldsL (reqs ++ [x]) reqs.length cur ↔
      (x.admitted = true ∧ x.released = false ∧ x.obj.isSome = true ∧ x.obj = cur) := by
  unfold HoldsL
  simp

theorem holdsL_append_iff (reqs : List Req) (x : Req) (i : Nat) (cur : Option Nat) :
    HoldsL (reqs ++ [x]) i cur ↔
      (HoldsL reqs i cur ∨ (i = reqs.length ∧ x.admitted = true ∧ x.released = false ∧ x.obj.isSome = true ∧ x.obj = cur)) := by
  by_cases hi : i < reqs.length
  · rw [holdsL_append_old _ _ _ _ hi]
    constructor
    · exact Or.inl
    · rintro (h | ⟨h, _⟩)
      · exact h
      · omega
  · by_cases he : i = reqs.length
    · subst he
      rw [holdsL_append_new]
      constructor
      · intro h; exact Or.inr ⟨rfl, h⟩
      · rintro (h | ⟨_, h⟩)
        · exact absurd (holdsL_lt h) hi
        · exact h
    · constructor
      · intro h
        have := holdsL_lt h
        simp at this; omega
      · rintro (h | ⟨h, _⟩)
        · exact absurd (holdsL_lt h) hi
        · exact absurd h he

/-- The simulation relation (everything except the stored spec list). -/
structure RelCore (w : World) (σ : SState) : Prop where
  dom : ∀ c n, (w.cache c n).isSome = (σ.entries c n).isSome
  cfg : ∀ c n cache e, w.cache c n = some cache → σ.entries c n = some e → cache.config = e.config
  name : ∀ c n cache, w.cache c n = some cache → cache.config.name = n
  curOk : ∀ c n cache id, w.cache c n = some cache → cache.cur = some id →
    id < w.next ∧ ∃ k, w.heap id = some k ∧ k.type = guessType cache.config ∧ KindOk k cache.config
  curNone : ∀ c n cache, w.cache c n = some cache → cache.cur = none → cache.config = Schema.zero
  inj : ∀ c n c' n' cache cache' id, w.cache c n = some cache → w.cache c' n' = some cache' →
    cache.cur = some id → cache'.cur = some id → c = c' ∧ n = n'
  reqsLen : w.reqs.length = σ.reqs.length
  reqsEq : ∀ (i : Nat) (r : Req), w.reqs[i]? = some r → σ.reqs[i]? = some (SReq.mk r.c r.n r.admitted r.released)
  reqObj : ∀ (i : Nat) (r : Req) (id : Nat), w.reqs[i]? = some r → r.obj = some id → id < w.next
  own : ∀ (i : Nat) (r : Req) (id : Nat) c n cache, w.reqs[i]? = some r → r.obj = some id → w.cache c n = some cache →
    cache.cur = some id → c = r.c ∧ n = r.n
  count : ∀ c n cache e id cnt, w.cache c n = some cache → σ.entries c n = some e → cache.cur = some id →
    w.heap id = some (.counter cnt) → cnt.count = e.inflight.length
  infl : ∀ c n cache e i, w.cache c n = some cache → σ.entries c n = some e →
    (i ∈ e.inflight ↔ Holds w i cache.cur)
  nodup : ∀ c n e, σ.entries c n = some e → e.inflight.Nodup

structure Rel (w : World) (σ : SState) : Prop where
  core : RelCore w σ
  last : ∀ c, (w.lims c).spec = σ.last c
  /-- every configured name is in the stored spec list -/
  dom2 : ∀ c n, (w.cache c n).isSome = true → n ∈ names (w.lims c).spec

theorem rel_init : Rel World.init SState.init := by
  refine ⟨⟨?_, ?_, ?_, ?_, ?_, ?_, rfl, ?_, ?_, ?_, ?_, ?_, ?_⟩, ?_, ?_⟩ <;>
    simp [World.init, SState.init, World.cache]


/-! ### a request arrives -/

theorem counter_tryAcquire_eq (cnt : Counter) (h : 0 ≤ cnt.count) :
    cnt.tryAcquire = if cnt.count < (cnt.max : Int) then ({ cnt with count := cnt.count + 1 }, true) else (cnt, false) := by
  unfold Counter.tryAcquire
  have h1 : ¬ cnt.count < 0 := by omega
  simp only [h1, if_false]
  by_cases h2 : cnt.count < (cnt.max : Int)
  · have h3 : ¬ cnt.count ≥ (cnt.max : Int) := by omega
    have h4 : ¬ cnt.count + 1 > (cnt.max : Int) := by omega
    simp [h2, h3, h4]
  · have h3 : cnt.count ≥ (cnt.max : Int) := by omega
    simp [h2, h3]


/-- normal form of the judgeExact's bookkeeping when a request arrives for an existing entry -/
theorem specAcquire_nf (σ : SState) (c n : Str) (b : Bool) (e : Entry) (hn : n ≠ []) (he : σ.entries c n = some e) :
    (specAcquire σ c n b).reqs = σ.reqs ++ [⟨c, n, b, false⟩] ∧ (specAcquire σ c n b).last = σ.last ∧
    (specAcquire σ c n b).entries = fun c' n' =>
      if c' = c ∧ n' = n then some { e with inflight := if b then σ.reqs.length :: e.inflight else e.inflight }
      else σ.entries c' n' := by
  unfold specAcquire
  cases b with
  | false =>
    simp only [hn, false_or, Bool.false_eq_true, not_false_eq_true, if_true, if_false, true_and]
    funext c' n'
    by_cases h : c' = c ∧ n' = n
    · obtain ⟨rfl, rfl⟩ := h; simp [he]
    · simp [h]
  | true =>
    simp only [hn, false_or, not_true_eq_false, if_false, he, if_true]
    refine ⟨rfl, rfl, ?_⟩
    funext c' n'
    simp [SState.setEntry]

theorem specAcquire_default (σ : SState) (c n : Str) (b : Bool) (h : n = [] ∨ σ.entries c n = none) :
    specAcquire σ c n b = { σ with reqs := σ.reqs ++ [⟨c, n, b, false⟩] } := by
  unfold specAcquire
  rcases h with h | h
  · simp [h]
  · simp only [h]
    split <;> rfl

/-- A request arrives for `(c, n)` whose current limiter is object `id`; `k'`, `b` are what `TryAcquire` made of it. -/
theorem rel_arrive {w : World} {σ : SState} (h : RelCore w σ) (c n : Str) (cache : Cache) (id : Nat) (k k' : Kind)
    (b : Bool) (e : Entry) (hn : n ≠ []) (hc : w.cache c n = some cache) (hcur : cache.cur = some id)
    (hk : w.heap id = some k) (he : σ.entries c n = some e) (hty : k'.type = k.type)
    (hok : KindOk k' cache.config)
    (hcnt : ∀ cnt', k' = .counter cnt' →
      cnt'.count = ((if b then σ.reqs.length :: e.inflight else e.inflight).length : Nat)) :
    RelCore { (w.setHeap id k') with reqs := w.reqs ++ [⟨c, n, some id, b, false⟩] } (specAcquire σ c n b) := by
  obtain ⟨hr, hl, hen⟩ := specAcquire_nf σ c n b e hn he
  have hlen := h.reqsLen
  have hcacheEq : ∀ c' n', World.cache { (w.setHeap id k') with reqs := w.reqs ++ [⟨c, n, some id, b, false⟩] } c' n' = w.cache c' n' :=
    fun _ _ => rfl
  have hidlt := (h.curOk c n cache id hc hcur).1
  refine ⟨?_, ?_, ?_, ?_, ?_, ?_, ?_, ?_, ?_, ?_, ?_, ?_, ?_⟩
  · -- dom
    intro c' n'
    rw [hcacheEq, hen]
    by_cases hcn : c' = c ∧ n' = n
    · obtain ⟨rfl, rfl⟩ := hcn; simp [hc]
    · simp only [hcn, if_false]; exact h.dom c' n'
  · -- cfg
    intro c' n' cache' e' hc' he'
    rw [hcacheEq] at hc'
    rw [hen] at he'
    by_cases hcn : c' = c ∧ n' = n
    · obtain ⟨rfl, rfl⟩ := hcn
      simp only [and_self, if_true] at he'
      injection he' with he'; subst he'
      rw [hc] at hc'; injection hc' with hc'; subst hc'
      exact h.cfg c' n' cache e hc he
    · simp only [hcn, if_false] at he'
      exact h.cfg _ _ _ _ hc' he'
  · intro c' n' cache' hc'; exact h.name c' n' cache' hc'
  · -- curOk
    intro c' n' cache' id' hc' hcur'
    rw [hcacheEq] at hc'
    obtain ⟨hlt, k0, hk0, hty0, hok0⟩ := h.curOk c' n' cache' id' hc' hcur'
    refine ⟨hlt, ?_⟩
    show ∃ k1, (w.setHeap id k').heap id' = some k1 ∧ _
    rw [setHeap_heap]
    by_cases hid : id' = id
    · subst hid
      obtain ⟨rfl, rfl⟩ := h.inj c' n' c n cache' cache id' hc' hc hcur' hcur
      rw [hc] at hc'; injection hc' with hc'; subst hc'
      rw [hk] at hk0; injection hk0 with hk0; subst hk0
      exact ⟨k', by simp, hty.trans hty0, hok⟩
    · exact ⟨k0, by simp [hid, hk0], hty0, hok0⟩
  · intro c' n' cache' hc' hn'; exact h.curNone c' n' cache' hc' hn'
  · intro c1 n1 c2 n2 cache1 cache2 id' h1 h2 h3 h4; exact h.inj c1 n1 c2 n2 cache1 cache2 id' h1 h2 h3 h4
  · -- reqsLen
    show (w.reqs ++ _).length = _
    rw [hr]; simp [hlen]
  · -- reqsEq
    intro i r hi
    change (w.reqs ++ [_])[i]? = some r at hi
    rw [hr]
    rw [List.getElem?_append] at hi ⊢
    by_cases hlt : i < w.reqs.length
    · have hlt' : i < σ.reqs.length := by omega
      simp only [hlt, if_true] at hi
      simp only [hlt', if_true]
      exact h.reqsEq i r hi
    · have hlt' : ¬ i < σ.reqs.length := by omega
      simp only [hlt, if_false] at hi
      simp only [hlt', if_false]
      rw [← hlen]
      cases hd : i - w.reqs.length with
      | zero => rw [hd] at hi; simp at hi; subst hi; simp
      | succ j => rw [hd] at hi; simp at hi
  · -- reqObj
    intro i r id' hi hobj
    change (w.reqs ++ [_])[i]? = some r at hi
    show id' < w.next
    rw [List.getElem?_append] at hi
    by_cases hlt : i < w.reqs.length
    · simp only [hlt, if_true] at hi; exact h.reqObj i r id' hi hobj
    · simp only [hlt, if_false] at hi
      cases hd : i - w.reqs.length with
      | zero => rw [hd] at hi; simp at hi; subst hi; simp at hobj; omega
      | succ j => rw [hd] at hi; simp at hi
  · -- own
    intro i r id' c' n' cache' hi hobj hc' hcur'
    change (w.reqs ++ [_])[i]? = some r at hi
    rw [hcacheEq] at hc'
    rw [List.getElem?_append] at hi
    by_cases hlt : i < w.reqs.length
    · simp only [hlt, if_true] at hi; exact h.own i r id' c' n' cache' hi hobj hc' hcur'
    · simp only [hlt, if_false] at hi
      cases hd : i - w.reqs.length with
      | zero =>
        rw [hd] at hi; simp at hi; subst hi
        simp at hobj; subst hobj
        exact h.inj c' n' c n cache' cache id hc' hc hcur' hcur
      | succ j => rw [hd] at hi; simp at hi
  · -- count
    intro c' n' cache' e' id' cnt' hc' he' hcur' hh
    rw [hcacheEq] at hc'
    rw [hen] at he'
    change (w.setHeap id k').heap id' = some (.counter cnt') at hh
    rw [setHeap_heap] at hh
    by_cases hcn : c' = c ∧ n' = n
    · obtain ⟨rfl, rfl⟩ := hcn
      simp only [and_self, if_true] at he'
      injection he' with he'; subst he'
      rw [hc] at hc'; injection hc' with hc'; subst hc'
      rw [hcur] at hcur'; injection hcur' with hcur'; subst hcur'
      simp only [if_true] at hh
      injection hh with hh
      exact hcnt cnt' hh
    · simp only [hcn, if_false] at he'
      have hne : id' ≠ id := by
        intro heq; subst heq
        exact hcn (h.inj c' n' c n cache' cache id' hc' hc hcur' hcur)
      simp only [hne, if_false] at hh
      exact h.count c' n' cache' e' id' cnt' hc' he' hcur' hh
  · -- infl
    intro c' n' cache' e' i hc' he'
    rw [hcacheEq] at hc'
    rw [hen] at he'
    show i ∈ e'.inflight ↔ HoldsL (w.reqs ++ [_]) i cache'.cur
    rw [holdsL_append_iff]
    by_cases hcn : c' = c ∧ n' = n
    · obtain ⟨rfl, rfl⟩ := hcn
      simp only [and_self, if_true] at he'
      injection he' with he'; subst he'
      rw [hc] at hc'; injection hc' with hc'; subst hc'
      have hold := h.infl c' n' cache e i hc he
      cases b with
      | true =>
        simp only [if_true, List.mem_cons, hold, hcur, hlen, Option.isSome_some, and_true]
        exact Or.comm
      | false =>
        simp only [Bool.false_eq_true, if_false, false_and, and_false, or_false]
        exact hold
    · simp only [hcn, if_false] at he'
      have hold := h.infl c' n' cache' e' i hc' he'
      have hne : ¬ (some id = cache'.cur) := by
        intro heq
        exact hcn (h.inj c' n' c n cache' cache id hc' hc heq.symm hcur)
      simp [hold, hne]
  · -- nodup
    intro c' n' e' he'
    rw [hen] at he'
    by_cases hcn : c' = c ∧ n' = n
    · obtain ⟨rfl, rfl⟩ := hcn
      simp only [and_self, if_true] at he'
      injection he' with he'; subst he'
      have hnd := h.nodup c' n' e he
      cases b with
      | false => simpa using hnd
      | true =>
        simp only [if_true]
        refine List.nodup_cons.2 ⟨?_, hnd⟩
        intro hmem
        have := holdsL_lt ((h.infl c' n' cache e _ hc he).1 hmem)
        omega
    · simp only [hcn, if_false] at he'
      exact h.nodup c' n' e' he'


theorem rel_arrive_full {w : World} {σ : SState} (h : Rel w σ) (c n : Str) (cache : Cache) (id : Nat) (k k' : Kind)
    (b : Bool) (e : Entry) (hn : n ≠ []) (hc : w.cache c n = some cache) (hcur : cache.cur = some id)
    (hk : w.heap id = some k) (he : σ.entries c n = some e) (hty : k'.type = k.type)
    (hok : KindOk k' cache.config)
    (hcnt : ∀ cnt', k' = .counter cnt' →
      cnt'.count = ((if b then σ.reqs.length :: e.inflight else e.inflight).length : Nat)) :
    Rel { (w.setHeap id k') with reqs := w.reqs ++ [⟨c, n, some id, b, false⟩] } (specAcquire σ c n b) := by
  refine ⟨rel_arrive h.core c n cache id k k' b e hn hc hcur hk he hty hok hcnt, ?_, ?_⟩
  · intro d
    rw [(specAcquire_nf σ c n b e hn he).2.1]
    exact h.last d
  · exact h.dom2

/-- A request arrives that is handed the default (exempt) limiter. -/
theorem rel_arrive_default {w : World} {σ : SState} (h : RelCore w σ) (c n : Str) (b : Bool) :
    RelCore { w with reqs := w.reqs ++ [⟨c, n, none, b, false⟩] } { σ with reqs := σ.reqs ++ [⟨c, n, b, false⟩] } := by
  have hlen := h.reqsLen
  have hH : ∀ i cur, HoldsL (w.reqs ++ [⟨c, n, none, b, false⟩]) i cur ↔ HoldsL w.reqs i cur := by
    intro i cur; rw [holdsL_append_iff]; simp
  have hget : ∀ i (r : Req), (w.reqs ++ [(⟨c, n, none, b, false⟩ : Req)])[i]? = some r →
      w.reqs[i]? = some r ∨ (i = w.reqs.length ∧ r = ⟨c, n, none, b, false⟩) := by
    intro i r hi
    rw [List.getElem?_append] at hi
    by_cases hlt : i < w.reqs.length
    · simp only [hlt, if_true] at hi; exact Or.inl hi
    · simp only [hlt, if_false] at hi
      cases hd : i - w.reqs.length with
      | zero => rw [hd] at hi; simp at hi; exact Or.inr ⟨by omega, hi.symm⟩
      | succ j => rw [hd] at hi; simp at hi
  refine ⟨h.dom, h.cfg, h.name, h.curOk, h.curNone, h.inj, ?_, ?_, ?_, ?_, h.count, ?_, h.nodup⟩
  · show (w.reqs ++ _).length = (σ.reqs ++ _).length
    simp [hlen]
  · intro i r hi
    change (w.reqs ++ [_])[i]? = some r at hi
    show (σ.reqs ++ [_])[i]? = _
    rcases hget i r hi with h1 | ⟨h1, h2⟩
    · have hlt : i < σ.reqs.length := by rw [← hlen]; exact (List.getElem?_eq_some_iff.1 h1).1
      rw [List.getElem?_append_left hlt]; exact h.reqsEq i r h1
    · subst h1; subst h2; rw [hlen]; simp
  · intro i r id hi hobj
    change (w.reqs ++ [_])[i]? = some r at hi
    rcases hget i r hi with h1 | ⟨_, h2⟩
    · exact h.reqObj i r id h1 hobj
    · subst h2; simp at hobj
  · intro i r id c' n' cache hi hobj hc hcur
    change (w.reqs ++ [_])[i]? = some r at hi
    rcases hget i r hi with h1 | ⟨_, h2⟩
    · exact h.own i r id c' n' cache h1 hobj hc hcur
    · subst h2; simp at hobj
  · intro c' n' cache e i hc he
    show _ ↔ HoldsL (w.reqs ++ [_]) i cache.cur
    rw [hH]; exact h.infl c' n' cache e i hc he

theorem getOrDefault_eq (w : World) (c n : Str) :
    getOrDefault w c n = if n = [] then none else (w.cache c n).map (·.cur) := by
  unfold getOrDefault World.cache
  split
  · rfl
  · cases (w.lims c).caches n with
    | none => rfl
    | some x => simp [loadLimiter_eq]

/-- Arrival: the model never panics, its answer is what the judgeExact demands, and the relation is kept. -/
theorem acquire_step {w : World} {σ : SState} (h : Rel w σ) (c n : Str) (tb : Bool) :
    ∃ w' b, acquire w c n tb = .ok (w', b) ∧ checkExact σ (.acquire c n tb) (.acquired b) = true ∧
      Rel w' (specAcquire σ c n b) := by
  have hc := h.core
  unfold acquire
  rw [getOrDefault_eq]
  by_cases hn : n = []
  · -- no schema name: the default limiter
    simp only [hn, if_true]
    refine ⟨_, true, rfl, by simp [checkExact, demandExact], ?_⟩
    rw [specAcquire_default σ c [] true (Or.inl rfl)]
    exact ⟨rel_arrive_default hc c [] true, h.last, h.dom2⟩
  · simp only [hn, if_false]
    cases hcache : w.cache c n with
    | none =>
      have hen : σ.entries c n = none := by
        have := hc.dom c n; rw [hcache] at this
        cases he : σ.entries c n with
        | none => rfl
        | some e => rw [he] at this; simp at this
      simp only [Option.map_none]
      refine ⟨_, true, rfl, by simp [checkExact, demandExact, hn, hen], ?_⟩
      rw [specAcquire_default σ c n true (Or.inr hen)]
      exact ⟨rel_arrive_default hc c n true, h.last, h.dom2⟩
    | some cache =>
      obtain ⟨e, he⟩ : ∃ e, σ.entries c n = some e := by
        have := hc.dom c n; rw [hcache] at this
        cases he : σ.entries c n with
        | none => rw [he] at this; simp at this
        | some e => exact ⟨e, rfl⟩
      have hcfg := hc.cfg c n cache e hcache he
      simp only [Option.map_some]
      cases hcur : cache.cur with
      | none =>
        -- a nil limiter is only ever stored under the empty name
        have hz := hc.curNone c n cache hcache hcur
        have hname := hc.name c n cache hcache
        rw [hz] at hname
        exact absurd hname.symm hn
      | some id =>
        obtain ⟨hlt, k, hk, hty, hok⟩ := hc.curOk c n cache id hcache hcur
        simp only [hk]
        cases k with
        | counter cnt =>
          have hcount := hc.count c n cache e id cnt hcache he hcur hk
          have hnn : 0 ≤ cnt.count := by omega
          obtain ⟨m, hmi, hmax⟩ := hok cnt rfl
          have hgt : guessType e.config = .maxInflight := by rw [← hcfg, ← hty]; rfl
          rw [hcfg] at hmi
          simp only [Kind.tryAcquire, counter_tryAcquire_eq cnt hnn]
          by_cases hfree : cnt.count < (cnt.max : Int)
          · simp only [hfree, if_true]
            refine ⟨_, true, rfl, ?_, ?_⟩
            · have : e.inflight.length < toU32 m := by omega
              simp [checkExact, demandExact, hn, he, hgt, hmi, this]
            · refine rel_arrive_full h c n cache id _ (.counter { cnt with count := cnt.count + 1 }) true e hn hcache hcur hk he rfl ?_ ?_
              · intro cnt' hc'; injection hc' with hc'; subst hc'; exact ⟨m, hcfg ▸ hmi, hmax⟩
              · intro cnt' hc'; injection hc' with hc'; subst hc'
                simp only [if_true, List.length_cons]; push_cast; omega
          · simp only [hfree, if_false]
            refine ⟨_, false, rfl, ?_, ?_⟩
            · have : ¬ e.inflight.length < toU32 m := by omega
              simp [checkExact, demandExact, hn, he, hgt, hmi, this]
            · refine rel_arrive_full h c n cache id _ (.counter cnt) false e hn hcache hcur hk he rfl hok ?_
              intro cnt' hc'; injection hc' with hc'; subst hc'
              simpa using hcount
        | infinity =>
          have hgt : guessType e.config = .exempt := by rw [← hcfg, ← hty]; rfl
          simp only [Kind.tryAcquire]
          refine ⟨_, true, rfl, by simp [checkExact, demandExact, hn, he, hgt], ?_⟩
          refine rel_arrive_full h c n cache id _ .infinity true e hn hcache hcur hk he rfl hok ?_
          intro cnt' hc'; cases hc'
        | bucket q bb =>
          have hgt : guessType e.config = .tokenBucket := by rw [← hcfg, ← hty]; rfl
          simp only [Kind.tryAcquire]
          refine ⟨_, tb, rfl, by simp [checkExact, demandExact, hn, he, hgt], ?_⟩
          refine rel_arrive_full h c n cache id _ (.bucket q bb) tb e hn hcache hcur hk he rfl hok ?_
          intro cnt' hc'; cases hc'


/-! ### a request finishes -/

theorem markReleased_get (reqs : List Req) (i : Nat) (r : Req) (hr : reqs[i]? = some r) (j : Nat) :
    (markReleased reqs i)[j]? = if j = i then some { r with released := true } else reqs[j]? := by
  unfold markReleased
  simp only [hr]
  rw [List.getElem?_set]
  have hi : i < reqs.length := (List.getElem?_eq_some_iff.1 hr).1
  by_cases hji : j = i
  · subst hji; simp [hi]
  · have : ¬ i = j := fun h => hji h.symm
    simp [hji, this]

theorem specMark_get (reqs : List SReq) (i : Nat) (r : SReq) (hr : reqs[i]? = some r) (j : Nat) :
    (specMark reqs i)[j]? = if j = i then some { r with released := true } else reqs[j]? := by
  unfold specMark
  simp only [hr]
  rw [List.getElem?_set]
  have hi : i < reqs.length := (List.getElem?_eq_some_iff.1 hr).1
  by_cases hji : j = i
  · subst hji; simp [hi]
  · have : ¬ i = j := fun h => hji h.symm
    simp [hji, this]

theorem markReleased_length (reqs : List Req) (i : Nat) : (markReleased reqs i).length = reqs.length := by
  unfold markReleased; split <;> simp

theorem specMark_length (reqs : List SReq) (i : Nat) : (specMark reqs i).length = reqs.length := by
  unfold specMark; split <;> simp

theorem holdsL_markReleased (reqs : List Req) (i : Nat) (r : Req) (hr : reqs[i]? = some r) (j : Nat) (cur : Option Nat) :
    HoldsL (markReleased reqs i) j cur ↔ (j ≠ i ∧ HoldsL reqs j cur) := by
  unfold HoldsL
  rw [markReleased_get reqs i r hr j]
  by_cases hji : j = i
  · subst hji; simp
  · simp [hji]

theorem kind_release_type (k : Kind) : k.release.type = k.type := by cases k <;> rfl

theorem kindOk_release {k : Kind} {s : Schema} (h : KindOk k s) : KindOk k.release s := by
  intro cnt hc
  cases k with
  | counter c0 =>
    simp only [Kind.release] at hc
    injection hc with hc
    obtain ⟨m, hm, hmax⟩ := h c0 rfl
    refine ⟨m, hm, ?_⟩
    rw [← hc, ← hmax]
    unfold Counter.release
    split
    · rfl
    · split <;> rfl
  | infinity => cases hc
  | bucket q b => cases hc

theorem counter_release_count (c : Counter) (h : 0 < c.count) : c.release.count = c.count - 1 := by
  unfold Counter.release
  have h1 : ¬ c.count ≤ 0 := by omega
  have h2 : ¬ c.count - 1 < 0 := by omega
  simp [h1, h2]

theorem specRelease_nf (σ : SState) (i : Nat) (c n : Str) (hr : σ.reqs[i]? = some ⟨c, n, true, false⟩) :
    (specRelease σ i).reqs = specMark σ.reqs i ∧ (specRelease σ i).last = σ.last ∧
    (specRelease σ i).entries = fun c' n' =>
      if c' = c ∧ n' = n then (σ.entries c n).map (fun e => { e with inflight := e.inflight.erase i })
      else σ.entries c' n' := by
  unfold specRelease
  simp only [hr]
  cases he : σ.entries c n with
  | none =>
    simp only [Bool.false_eq_true, not_false_eq_true, and_self, if_true, Option.map_none, true_and]
    funext c' n'
    by_cases h : c' = c ∧ n' = n
    · obtain ⟨rfl, rfl⟩ := h; simp [he]
    · simp [h]
  | some e =>
    simp only [Bool.false_eq_true, not_false_eq_true, and_self, if_true, Option.map_some]
    exact ⟨rfl, rfl, rfl⟩

/-- The `i`-th request finishes; `heap'` is the heap after its `Release()`. -/
theorem rel_finish {w : World} {σ : SState} (h : RelCore w σ) (i : Nat) (r : Req) (hr : w.reqs[i]? = some r)
    (hadm : r.admitted = true) (hrel : r.released = false) (heap' : Nat → Option Kind)
    (hH1 : ∀ c n cache id', w.cache c n = some cache → cache.cur = some id' → ¬ Holds w i (some id') →
      heap' id' = w.heap id')
    (hH2 : ∀ c n cache id' k, w.cache c n = some cache → cache.cur = some id' → Holds w i (some id') →
      w.heap id' = some k → heap' id' = some k.release) :
    RelCore { w with heap := heap', reqs := markReleased w.reqs i } (specRelease σ i) := by
  have hsr : σ.reqs[i]? = some ⟨r.c, r.n, true, false⟩ := by
    have := h.reqsEq i r hr; rw [hadm, hrel] at this; exact this
  obtain ⟨hrq, _, hen⟩ := specRelease_nf σ i r.c r.n hsr
  have hlen := h.reqsLen
  have hcacheEq : ∀ c' n', World.cache { w with heap := heap', reqs := markReleased w.reqs i } c' n' = w.cache c' n' :=
    fun _ _ => rfl
  -- if request i holds the current limiter of (c', n'), that is its own schema
  have hownH : ∀ c' n' cache', w.cache c' n' = some cache' → Holds w i cache'.cur → c' = r.c ∧ n' = r.n := by
    intro c' n' cache' hc' hh
    obtain ⟨r', hr', _, _, hsome, hobj⟩ := hh
    rw [hr] at hr'; injection hr' with hr'; subst hr'
    cases hcur : cache'.cur with
    | none => rw [hcur] at hobj; rw [hobj] at hsome; simp at hsome
    | some id' => rw [hcur] at hobj; exact h.own i r id' c' n' cache' hr hobj hc' hcur
  refine ⟨?_, ?_, ?_, ?_, ?_, ?_, ?_, ?_, ?_, ?_, ?_, ?_, ?_⟩
  · -- dom
    intro c' n'
    rw [hcacheEq, hen]
    by_cases hcn : c' = r.c ∧ n' = r.n
    · obtain ⟨rfl, rfl⟩ := hcn
      simp only [and_self, if_true, Option.isSome_map]
      exact h.dom _ _
    · simp only [hcn, if_false]; exact h.dom c' n'
  · -- cfg
    intro c' n' cache' e' hc' he'
    rw [hcacheEq] at hc'
    rw [hen] at he'
    by_cases hcn : c' = r.c ∧ n' = r.n
    · obtain ⟨rfl, rfl⟩ := hcn
      simp only [and_self, if_true] at he'
      cases he0 : σ.entries r.c r.n with
      | none => rw [he0] at he'; simp at he'
      | some e0 =>
        rw [he0] at he'; simp only [Option.map_some] at he'
        injection he' with he'; subst he'
        exact h.cfg _ _ cache' e0 hc' he0
    · simp only [hcn, if_false] at he'
      exact h.cfg _ _ _ _ hc' he'
  · intro c' n' cache' hc'; exact h.name c' n' cache' hc'
  · -- curOk
    intro c' n' cache' id' hc' hcur'
    rw [hcacheEq] at hc'
    obtain ⟨hlt, k0, hk0, hty0, hok0⟩ := h.curOk c' n' cache' id' hc' hcur'
    refine ⟨hlt, ?_⟩
    show ∃ k1, heap' id' = some k1 ∧ _
    by_cases hh : Holds w i (some id')
    · rw [hH2 c' n' cache' id' k0 hc' hcur' hh hk0]
      exact ⟨_, rfl, (kind_release_type k0).trans hty0, kindOk_release hok0⟩
    · rw [hH1 c' n' cache' id' hc' hcur' hh]
      exact ⟨k0, hk0, hty0, hok0⟩
  · intro c' n' cache' hc' hn'; exact h.curNone c' n' cache' hc' hn'
  · intro c1 n1 c2 n2 cache1 cache2 id' h1 h2 h3 h4; exact h.inj c1 n1 c2 n2 cache1 cache2 id' h1 h2 h3 h4
  · -- reqsLen
    show (markReleased w.reqs i).length = _
    rw [hrq, markReleased_length, specMark_length, hlen]
  · -- reqsEq
    intro j r' hj
    change (markReleased w.reqs i)[j]? = some r' at hj
    rw [markReleased_get w.reqs i r hr j] at hj
    rw [hrq, specMark_get σ.reqs i _ hsr j]
    by_cases hji : j = i
    · simp only [hji, if_true] at hj ⊢
      injection hj with hj; subst hj
      simp [hadm]
    · simp only [hji, if_false] at hj ⊢
      exact h.reqsEq j r' hj
  · -- reqObj
    intro j r' id' hj hobj
    change (markReleased w.reqs i)[j]? = some r' at hj
    rw [markReleased_get w.reqs i r hr j] at hj
    show id' < w.next
    by_cases hji : j = i
    · simp only [hji, if_true] at hj
      injection hj with hj; subst hj
      exact h.reqObj i r id' hr hobj
    · simp only [hji, if_false] at hj
      exact h.reqObj j r' id' hj hobj
  · -- own
    intro j r' id' c' n' cache' hj hobj hc' hcur'
    change (markReleased w.reqs i)[j]? = some r' at hj
    rw [markReleased_get w.reqs i r hr j] at hj
    rw [hcacheEq] at hc'
    by_cases hji : j = i
    · simp only [hji, if_true] at hj
      injection hj with hj; subst hj
      exact h.own i r id' c' n' cache' hr hobj hc' hcur'
    · simp only [hji, if_false] at hj
      exact h.own j r' id' c' n' cache' hj hobj hc' hcur'
  · -- count
    intro c' n' cache' e' id' cnt' hc' he' hcur' hh'
    rw [hcacheEq] at hc'
    rw [hen] at he'
    change heap' id' = some (.counter cnt') at hh'
    obtain ⟨_, k0, hk0, _, _⟩ := h.curOk c' n' cache' id' hc' hcur'
    by_cases hh : Holds w i (some id')
    · obtain ⟨rfl, rfl⟩ := hownH c' n' cache' hc' (hcur' ▸ hh)
      simp only [and_self, if_true] at he'
      cases he0 : σ.entries r.c r.n with
      | none => rw [he0] at he'; simp at he'
      | some e0 =>
        rw [he0] at he'; simp only [Option.map_some] at he'
        injection he' with he'; subst he'
        have hmem : i ∈ e0.inflight := (h.infl _ _ cache' e0 i hc' he0).2 (hcur' ▸ hh)
        rw [hH2 _ _ cache' id' k0 hc' hcur' hh hk0] at hh'
        cases k0 with
        | counter c0 =>
          simp only [Kind.release] at hh'
          injection hh' with hh'; injection hh' with hh'; subst hh'
          have hc0 := h.count _ _ cache' e0 id' c0 hc' he0 hcur' hk0
          have hpos : 0 < e0.inflight.length := List.length_pos_of_mem hmem
          rw [counter_release_count c0 (by omega), List.length_erase_of_mem hmem, hc0]
          omega
        | infinity => simp [Kind.release] at hh'
        | bucket q b => simp [Kind.release] at hh'
    · rw [hH1 c' n' cache' id' hc' hcur' hh] at hh'
      by_cases hcn : c' = r.c ∧ n' = r.n
      · obtain ⟨rfl, rfl⟩ := hcn
        simp only [and_self, if_true] at he'
        cases he0 : σ.entries r.c r.n with
        | none => rw [he0] at he'; simp at he'
        | some e0 =>
          rw [he0] at he'; simp only [Option.map_some] at he'
          injection he' with he'; subst he'
          have hnm : i ∉ e0.inflight := fun hm => hh (hcur' ▸ (h.infl _ _ cache' e0 i hc' he0).1 hm)
          simp only [List.erase_of_not_mem hnm]
          exact h.count _ _ cache' e0 id' cnt' hc' he0 hcur' hh'
      · simp only [hcn, if_false] at he'
        exact h.count c' n' cache' e' id' cnt' hc' he' hcur' hh'
  · -- infl
    intro c' n' cache' e' j hc' he'
    rw [hcacheEq] at hc'
    rw [hen] at he'
    show j ∈ e'.inflight ↔ HoldsL (markReleased w.reqs i) j cache'.cur
    rw [holdsL_markReleased w.reqs i r hr]
    by_cases hcn : c' = r.c ∧ n' = r.n
    · obtain ⟨rfl, rfl⟩ := hcn
      simp only [and_self, if_true] at he'
      cases he0 : σ.entries r.c r.n with
      | none => rw [he0] at he'; simp at he'
      | some e0 =>
        rw [he0] at he'; simp only [Option.map_some] at he'
        injection he' with he'; subst he'
        have hnd := h.nodup _ _ e0 he0
        simp only [hnd.mem_erase_iff]
        rw [h.infl _ _ cache' e0 j hc' he0]
    · simp only [hcn, if_false] at he'
      rw [h.infl c' n' cache' e' j hc' he']
      constructor
      · intro hh
        refine ⟨?_, hh⟩
        intro hji; subst hji
        exact hcn (hownH c' n' cache' hc' hh)
      · exact fun hh => hh.2
  · -- nodup
    intro c' n' e' he'
    rw [hen] at he'
    by_cases hcn : c' = r.c ∧ n' = r.n
    · obtain ⟨rfl, rfl⟩ := hcn
      simp only [and_self, if_true] at he'
      cases he0 : σ.entries r.c r.n with
      | none => rw [he0] at he'; simp at he'
      | some e0 =>
        rw [he0] at he'; simp only [Option.map_some] at he'
        injection he' with he'; subst he'
        exact (h.nodup _ _ e0 he0).erase i
    · simp only [hcn, if_false] at he'
      exact h.nodup c' n' e' he'


theorem release_step {w : World} {σ : SState} (h : Rel w σ) (i : Nat) : Rel (release w i).1 (specRelease σ i) := by
  have hc := h.core
  unfold release
  cases hr : w.reqs[i]? with
  | none =>
    have : σ.reqs[i]? = none := by
      rw [List.getElem?_eq_none_iff] at hr ⊢
      rw [← hc.reqsLen]; exact hr
    simp only [specRelease, this]
    exact h
  | some r =>
    have hsr := hc.reqsEq i r hr
    by_cases hcond : r.admitted = true ∧ ¬ r.released = true
    · have hcondT := hcond
      obtain ⟨hadm, hrel⟩ := hcond
      have hrel' : r.released = false := by simpa using hrel
      dsimp only
      rw [if_pos hcondT]
      have hlast : ∀ d, (specRelease σ i).last d = σ.last d := by
        intro d
        have := (specRelease_nf σ i r.c r.n (by rw [hsr, hadm, hrel'])).2.1
        rw [this]
      -- whatever the heap becomes, the stored spec lists and the set of configured names are untouched
      have wrap : ∀ heap', RelCore { w with heap := heap', reqs := markReleased w.reqs i } (specRelease σ i) →
          Rel { w with heap := heap', reqs := markReleased w.reqs i } (specRelease σ i) := by
        intro heap' hcore
        exact ⟨hcore, fun d => (h.last d).trans (hlast d).symm, h.dom2⟩
      cases hobj : r.obj with
      | none =>
        dsimp only
        refine wrap w.heap (rel_finish hc i r hr hadm hrel' w.heap (fun _ _ _ _ _ _ _ => rfl) ?_)
        intro c n cache id' k _ _ hh _
        obtain ⟨r', hr', _, _, _, ho⟩ := hh
        rw [hr] at hr'; injection hr' with hr'; subst hr'
        rw [hobj] at ho; cases ho
      | some id =>
        dsimp only
        cases hk : w.heap id with
        | none =>
          dsimp only
          refine wrap w.heap (rel_finish hc i r hr hadm hrel' w.heap (fun _ _ _ _ _ _ _ => rfl) ?_)
          intro c n cache id' k _ _ hh hk'
          obtain ⟨r', hr', _, _, _, ho⟩ := hh
          rw [hr] at hr'; injection hr' with hr'; subst hr'
          rw [hobj] at ho; injection ho with ho; subst ho
          rw [hk] at hk'; cases hk'
        | some k =>
          dsimp only
          refine wrap _ (rel_finish hc i r hr hadm hrel' (fun j => if j = id then some k.release else w.heap j) ?_ ?_)
          · intro c n cache id' hcache hcur hnh
            by_cases hid : id' = id
            · subst hid
              exact absurd ⟨r, hr, hadm, hrel', by simp [hobj], hobj⟩ hnh
            · simp [hid]
          · intro c n cache id' k' _ _ hh hk'
            obtain ⟨r', hr', _, _, _, ho⟩ := hh
            rw [hr] at hr'; injection hr' with hr'; subst hr'
            rw [hobj] at ho; injection ho with ho; subst ho
            rw [hk] at hk'; injection hk' with hk'; subst hk'
            simp
    · have hcond' : ¬ ((⟨r.c, r.n, r.admitted, r.released⟩ : SReq).admitted = true ∧
          ¬ (⟨r.c, r.n, r.admitted, r.released⟩ : SReq).released = true) := hcond
      simp only [hcond, if_false, specRelease, hsr]
      exact h


/-! ### reconfiguration -/

theorem putCache_self (w : World) (c n : Str) (x : Option Cache) (h : w.cache c n = x) : putCache w c n x = w := by
  unfold putCache World.setLim Limiter.setCache
  have : (fun d => if d = c then { spec := (w.lims c).spec, caches := fun m => if m = n then x else (w.lims c).caches m, mode := (w.lims c).mode } else w.lims d) = w.lims := by
    funext d
    by_cases hd : d = c
    · subst hd
      simp only [if_true]
      have : (fun m => if m = n then x else (w.lims d).caches m) = (w.lims d).caches := by
        funext m
        by_cases hm : m = n
        · subst hm; simp only [if_true]; exact h.symm
        · simp [hm]
      rw [this]
    · simp [hd]
  rw [this]

theorem setEntry_self (σ : SState) (c n : Str) (x : Option Entry) (h : σ.entries c n = x) : σ.setEntry c n x = σ := by
  unfold SState.setEntry
  have : (fun c' n' => if c' = c ∧ n' = n then x else σ.entries c' n') = σ.entries := by
    funext c' n'
    by_cases hcn : c' = c ∧ n' = n
    · obtain ⟨rfl, rfl⟩ := hcn; simp [h]
    · simp [hcn]
  rw [this]

/-- A new limiter object becomes the current one of `(c, s.name)` (creation or type change). -/
theorem rel_create {w : World} {σ : SState} (h : RelCore w σ) (c : Str) (s : Schema) (k : Kind)
    (hty : k.type = guessType s) (hok : KindOk k s) (hzero : ∀ cnt, k = .counter cnt → cnt.count = 0) :
    RelCore (putCache (w.alloc k) c s.name (some ⟨s, some w.next⟩)) (σ.setEntry c s.name (some ⟨s, []⟩)) := by
  have hcache : ∀ c' n', (putCache (w.alloc k) c s.name (some ⟨s, some w.next⟩)).cache c' n' =
      if c' = c ∧ n' = s.name then some ⟨s, some w.next⟩ else w.cache c' n' := by
    intro c' n'; rw [putCache_cache]; rfl
  have hentry : ∀ c' n', (σ.setEntry c s.name (some ⟨s, []⟩)).entries c' n' =
      if c' = c ∧ n' = s.name then some ⟨s, []⟩ else σ.entries c' n' := fun _ _ => rfl
  have hheap : ∀ i, (putCache (w.alloc k) c s.name (some ⟨s, some w.next⟩)).heap i = if i = w.next then some k else w.heap i :=
    fun _ => rfl
  have hnext : (putCache (w.alloc k) c s.name (some ⟨s, some w.next⟩)).next = w.next + 1 := rfl
  have hreqs : (putCache (w.alloc k) c s.name (some ⟨s, some w.next⟩)).reqs = w.reqs := rfl
  have noHold : ∀ i, ¬ HoldsL w.reqs i (some w.next) := by
    rintro i ⟨r, hr, _, _, _, ho⟩
    have := h.reqObj i r w.next hr ho
    omega
  refine ⟨?_, ?_, ?_, ?_, ?_, ?_, ?_, ?_, ?_, ?_, ?_, ?_, ?_⟩
  · intro c' n'
    rw [hcache, hentry]
    by_cases hcn : c' = c ∧ n' = s.name
    · simp [hcn]
    · simp only [hcn, if_false]; exact h.dom c' n'
  · intro c' n' cache' e' hc' he'
    rw [hcache] at hc'; rw [hentry] at he'
    by_cases hcn : c' = c ∧ n' = s.name
    · simp only [hcn, and_self, if_true] at hc' he'
      injection hc' with hc'; injection he' with he'; subst hc'; subst he'; rfl
    · simp only [hcn, if_false] at hc' he'; exact h.cfg c' n' cache' e' hc' he'
  · intro c' n' cache' hc'
    rw [hcache] at hc'
    by_cases hcn : c' = c ∧ n' = s.name
    · simp only [hcn, and_self, if_true] at hc'
      injection hc' with hc'; subst hc'; exact hcn.2.symm
    · simp only [hcn, if_false] at hc'; exact h.name c' n' cache' hc'
  · intro c' n' cache' id' hc' hcur'
    rw [hcache] at hc'
    rw [hnext]
    by_cases hcn : c' = c ∧ n' = s.name
    · simp only [hcn, and_self, if_true] at hc'
      injection hc' with hc'; subst hc'
      simp only at hcur'; injection hcur' with hcur'; subst hcur'
      exact ⟨by omega, k, by rw [hheap]; simp, hty, hok⟩
    · simp only [hcn, if_false] at hc'
      obtain ⟨hlt, k0, hk0, hty0, hok0⟩ := h.curOk c' n' cache' id' hc' hcur'
      refine ⟨by omega, k0, ?_, hty0, hok0⟩
      rw [hheap]
      have : id' ≠ w.next := by omega
      simp [this, hk0]
  · intro c' n' cache' hc' hcur'
    rw [hcache] at hc'
    by_cases hcn : c' = c ∧ n' = s.name
    · simp only [hcn, and_self, if_true] at hc'
      injection hc' with hc'; subst hc'; simp at hcur'
    · simp only [hcn, if_false] at hc'; exact h.curNone c' n' cache' hc' hcur'
  · intro c1 n1 c2 n2 cache1 cache2 id' h1 h2 h3 h4
    rw [hcache] at h1 h2
    by_cases hcn1 : c1 = c ∧ n1 = s.name
    · by_cases hcn2 : c2 = c ∧ n2 = s.name
      · exact ⟨hcn1.1.trans hcn2.1.symm, hcn1.2.trans hcn2.2.symm⟩
      · simp only [hcn1, and_self, if_true] at h1
        simp only [hcn2, if_false] at h2
        injection h1 with h1; subst h1
        simp only at h3; injection h3 with h3; subst h3
        have := (h.curOk c2 n2 cache2 _ h2 h4).1
        omega
    · simp only [hcn1, if_false] at h1
      by_cases hcn2 : c2 = c ∧ n2 = s.name
      · simp only [hcn2, and_self, if_true] at h2
        injection h2 with h2; subst h2
        simp only at h4; injection h4 with h4; subst h4
        have := (h.curOk c1 n1 cache1 _ h1 h3).1
        omega
      · simp only [hcn2, if_false] at h2
        exact h.inj c1 n1 c2 n2 cache1 cache2 id' h1 h2 h3 h4
  · rw [hreqs]; exact h.reqsLen
  · intro i r hi; rw [hreqs] at hi; exact h.reqsEq i r hi
  · intro i r id' hi hobj; rw [hreqs] at hi; rw [hnext]
    have := h.reqObj i r id' hi hobj; omega
  · intro i r id' c' n' cache' hi hobj hc' hcur'
    rw [hreqs] at hi; rw [hcache] at hc'
    by_cases hcn : c' = c ∧ n' = s.name
    · simp only [hcn, and_self, if_true] at hc'
      injection hc' with hc'; subst hc'
      simp only at hcur'; injection hcur' with hcur'; subst hcur'
      have := h.reqObj i r _ hi hobj
      omega
    · simp only [hcn, if_false] at hc'
      exact h.own i r id' c' n' cache' hi hobj hc' hcur'
  · intro c' n' cache' e' id' cnt' hc' he' hcur' hh
    rw [hcache] at hc'; rw [hentry] at he'; rw [hheap] at hh
    by_cases hcn : c' = c ∧ n' = s.name
    · simp only [hcn, and_self, if_true] at hc' he'
      injection hc' with hc'; injection he' with he'; subst hc'; subst he'
      simp only at hcur'; injection hcur' with hcur'; subst hcur'
      simp only [if_true] at hh; injection hh with hh
      simp [hzero cnt' hh]
    · simp only [hcn, if_false] at hc' he'
      have hlt := (h.curOk c' n' cache' id' hc' hcur').1
      have : id' ≠ w.next := by omega
      simp only [this, if_false] at hh
      exact h.count c' n' cache' e' id' cnt' hc' he' hcur' hh
  · intro c' n' cache' e' i hc' he'
    rw [hcache] at hc'; rw [hentry] at he'
    show _ ↔ HoldsL (putCache (w.alloc k) c s.name _).reqs i cache'.cur
    rw [hreqs]
    by_cases hcn : c' = c ∧ n' = s.name
    · simp only [hcn, and_self, if_true] at hc' he'
      injection hc' with hc'; injection he' with he'; subst hc'; subst he'
      simp only [List.not_mem_nil, false_iff]
      exact noHold i
    · simp only [hcn, if_false] at hc' he'
      exact h.infl c' n' cache' e' i hc' he'
  · intro c' n' e' he'
    rw [hentry] at he'
    by_cases hcn : c' = c ∧ n' = s.name
    · simp only [hcn, and_self, if_true] at he'
      injection he' with he'; subst he'; exact List.nodup_nil
    · simp only [hcn, if_false] at he'; exact h.nodup c' n' e' he'


/-- The current limiter object of `(c, n)` is kept and changed in place to `k'` (resize), the schema becomes `s`. -/
theorem rel_resize {w : World} {σ : SState} (h : RelCore w σ) (c n : Str) (cache : Cache) (id : Nat) (k' : Kind)
    (e : Entry) (s : Schema) (hc : w.cache c n = some cache) (hcur : cache.cur = some id)
    (he : σ.entries c n = some e) (hname : s.name = n) (hty : k'.type = guessType s) (hok : KindOk k' s)
    (hcnt : ∀ cnt', k' = .counter cnt' → cnt'.count = e.inflight.length) :
    RelCore (putCache (w.setHeap id k') c n (some ⟨s, some id⟩)) (σ.setEntry c n (some { e with config := s })) := by
  have hcache : ∀ c' n', (putCache (w.setHeap id k') c n (some ⟨s, some id⟩)).cache c' n' =
      if c' = c ∧ n' = n then some ⟨s, some id⟩ else w.cache c' n' := by
    intro c' n'; rw [putCache_cache]; rfl
  have hentry : ∀ c' n', (σ.setEntry c n (some { e with config := s })).entries c' n' =
      if c' = c ∧ n' = n then some { e with config := s } else σ.entries c' n' := fun _ _ => rfl
  have hheap : ∀ i, (putCache (w.setHeap id k') c n (some ⟨s, some id⟩)).heap i = if i = id then some k' else w.heap i :=
    fun _ => rfl
  have hnext : (putCache (w.setHeap id k') c n (some ⟨s, some id⟩)).next = w.next := rfl
  have hreqs : (putCache (w.setHeap id k') c n (some ⟨s, some id⟩)).reqs = w.reqs := rfl
  have hidlt := (h.curOk c n cache id hc hcur).1
  -- another configured name never shares the object
  have hother : ∀ c' n' cache' id', ¬ (c' = c ∧ n' = n) → w.cache c' n' = some cache' → cache'.cur = some id' → id' ≠ id := by
    intro c' n' cache' id' hcn hc' hcur' heq
    subst heq
    exact hcn (h.inj c' n' c n cache' cache id' hc' hc hcur' hcur)
  refine ⟨?_, ?_, ?_, ?_, ?_, ?_, ?_, ?_, ?_, ?_, ?_, ?_, ?_⟩
  · intro c' n'
    rw [hcache, hentry]
    by_cases hcn : c' = c ∧ n' = n
    · simp [hcn]
    · simp only [hcn, if_false]; exact h.dom c' n'
  · intro c' n' cache' e' hc' he'
    rw [hcache] at hc'; rw [hentry] at he'
    by_cases hcn : c' = c ∧ n' = n
    · simp only [hcn, and_self, if_true] at hc' he'
      injection hc' with hc'; injection he' with he'; subst hc'; subst he'; rfl
    · simp only [hcn, if_false] at hc' he'; exact h.cfg c' n' cache' e' hc' he'
  · intro c' n' cache' hc'
    rw [hcache] at hc'
    by_cases hcn : c' = c ∧ n' = n
    · simp only [hcn, and_self, if_true] at hc'
      injection hc' with hc'; subst hc'; exact hname.trans hcn.2.symm
    · simp only [hcn, if_false] at hc'; exact h.name c' n' cache' hc'
  · intro c' n' cache' id' hc' hcur'
    rw [hcache] at hc'
    rw [hnext]
    by_cases hcn : c' = c ∧ n' = n
    · simp only [hcn, and_self, if_true] at hc'
      injection hc' with hc'; subst hc'
      simp only at hcur'; injection hcur' with hcur'; subst hcur'
      exact ⟨hidlt, k', by rw [hheap]; simp, hty, hok⟩
    · simp only [hcn, if_false] at hc'
      obtain ⟨hlt, k0, hk0, hty0, hok0⟩ := h.curOk c' n' cache' id' hc' hcur'
      refine ⟨hlt, k0, ?_, hty0, hok0⟩
      rw [hheap]
      simp [hother c' n' cache' id' hcn hc' hcur', hk0]
  · intro c' n' cache' hc' hcur'
    rw [hcache] at hc'
    by_cases hcn : c' = c ∧ n' = n
    · simp only [hcn, and_self, if_true] at hc'
      injection hc' with hc'; subst hc'; simp at hcur'
    · simp only [hcn, if_false] at hc'; exact h.curNone c' n' cache' hc' hcur'
  · intro c1 n1 c2 n2 cache1 cache2 id' h1 h2 h3 h4
    rw [hcache] at h1 h2
    by_cases hcn1 : c1 = c ∧ n1 = n
    · by_cases hcn2 : c2 = c ∧ n2 = n
      · exact ⟨hcn1.1.trans hcn2.1.symm, hcn1.2.trans hcn2.2.symm⟩
      · simp only [hcn1, and_self, if_true] at h1
        simp only [hcn2, if_false] at h2
        injection h1 with h1; subst h1
        simp only at h3; injection h3 with h3; subst h3
        exact absurd rfl (hother c2 n2 cache2 _ hcn2 h2 h4)
    · simp only [hcn1, if_false] at h1
      by_cases hcn2 : c2 = c ∧ n2 = n
      · simp only [hcn2, and_self, if_true] at h2
        injection h2 with h2; subst h2
        simp only at h4; injection h4 with h4; subst h4
        exact absurd rfl (hother c1 n1 cache1 _ hcn1 h1 h3)
      · simp only [hcn2, if_false] at h2
        exact h.inj c1 n1 c2 n2 cache1 cache2 id' h1 h2 h3 h4
  · rw [hreqs]; exact h.reqsLen
  · intro i r hi; rw [hreqs] at hi; exact h.reqsEq i r hi
  · intro i r id' hi hobj; rw [hreqs] at hi; rw [hnext]; exact h.reqObj i r id' hi hobj
  · intro i r id' c' n' cache' hi hobj hc' hcur'
    rw [hreqs] at hi; rw [hcache] at hc'
    by_cases hcn : c' = c ∧ n' = n
    · simp only [hcn, and_self, if_true] at hc'
      injection hc' with hc'; subst hc'
      simp only at hcur'; injection hcur' with hcur'; subst hcur'
      obtain ⟨rfl, rfl⟩ := hcn
      exact h.own i r _ _ _ cache hi hobj hc hcur
    · simp only [hcn, if_false] at hc'
      exact h.own i r id' c' n' cache' hi hobj hc' hcur'
  · intro c' n' cache' e' id' cnt' hc' he' hcur' hh
    rw [hcache] at hc'; rw [hentry] at he'; rw [hheap] at hh
    by_cases hcn : c' = c ∧ n' = n
    · simp only [hcn, and_self, if_true] at hc' he'
      injection hc' with hc'; injection he' with he'; subst hc'; subst he'
      simp only at hcur'; injection hcur' with hcur'; subst hcur'
      simp only [if_true] at hh; injection hh with hh
      exact hcnt cnt' hh
    · simp only [hcn, if_false] at hc' he'
      simp only [hother c' n' cache' id' hcn hc' hcur', if_false] at hh
      exact h.count c' n' cache' e' id' cnt' hc' he' hcur' hh
  · intro c' n' cache' e' i hc' he'
    rw [hcache] at hc'; rw [hentry] at he'
    show _ ↔ HoldsL (putCache (w.setHeap id k') c n _).reqs i cache'.cur
    rw [hreqs]
    by_cases hcn : c' = c ∧ n' = n
    · simp only [hcn, and_self, if_true] at hc' he'
      injection hc' with hc'; injection he' with he'; subst hc'; subst he'
      obtain ⟨rfl, rfl⟩ := hcn
      have := h.infl _ _ cache e i hc he
      rw [hcur] at this
      exact this
    · simp only [hcn, if_false] at hc' he'
      exact h.infl c' n' cache' e' i hc' he'
  · intro c' n' e' he'
    rw [hentry] at he'
    by_cases hcn : c' = c ∧ n' = n
    · simp only [hcn, and_self, if_true] at he'
      injection he' with he'; subst he'
      obtain ⟨rfl, rfl⟩ := hcn
      exact h.nodup _ _ e he
    · simp only [hcn, if_false] at he'; exact h.nodup c' n' e' he'


/-- A cache without limiter is stored for the zero schema (only under the empty name). -/
theorem rel_nil {w : World} {σ : SState} (h : RelCore w σ) (c : Str) :
    RelCore (putCache w c Schema.zero.name (some ⟨Schema.zero, none⟩))
      (σ.setEntry c Schema.zero.name (some ⟨Schema.zero, []⟩)) := by
  have hcache : ∀ c' n', (putCache w c Schema.zero.name (some ⟨Schema.zero, none⟩)).cache c' n' =
      if c' = c ∧ n' = Schema.zero.name then some ⟨Schema.zero, none⟩ else w.cache c' n' := by
    intro c' n'; rw [putCache_cache]
  have hentry : ∀ c' n', (σ.setEntry c Schema.zero.name (some ⟨Schema.zero, []⟩)).entries c' n' =
      if c' = c ∧ n' = Schema.zero.name then some ⟨Schema.zero, []⟩ else σ.entries c' n' := fun _ _ => rfl
  have hreqs : (putCache w c Schema.zero.name (some ⟨Schema.zero, none⟩)).reqs = w.reqs := rfl
  refine ⟨?_, ?_, ?_, ?_, ?_, ?_, ?_, ?_, ?_, ?_, ?_, ?_, ?_⟩
  · intro c' n'
    rw [hcache, hentry]
    by_cases hcn : c' = c ∧ n' = Schema.zero.name
    · simp [hcn]
    · simp only [hcn, if_false]; exact h.dom c' n'
  · intro c' n' cache' e' hc' he'
    rw [hcache] at hc'; rw [hentry] at he'
    by_cases hcn : c' = c ∧ n' = Schema.zero.name
    · simp only [hcn, and_self, if_true] at hc' he'
      injection hc' with hc'; injection he' with he'; subst hc'; subst he'; rfl
    · simp only [hcn, if_false] at hc' he'; exact h.cfg c' n' cache' e' hc' he'
  · intro c' n' cache' hc'
    rw [hcache] at hc'
    by_cases hcn : c' = c ∧ n' = Schema.zero.name
    · simp only [hcn, and_self, if_true] at hc'
      injection hc' with hc'; subst hc'; exact hcn.2.symm
    · simp only [hcn, if_false] at hc'; exact h.name c' n' cache' hc'
  · intro c' n' cache' id' hc' hcur'
    rw [hcache] at hc'
    by_cases hcn : c' = c ∧ n' = Schema.zero.name
    · simp only [hcn, and_self, if_true] at hc'
      injection hc' with hc'; subst hc'; simp at hcur'
    · simp only [hcn, if_false] at hc'; exact h.curOk c' n' cache' id' hc' hcur'
  · intro c' n' cache' hc' hcur'
    rw [hcache] at hc'
    by_cases hcn : c' = c ∧ n' = Schema.zero.name
    · simp only [hcn, and_self, if_true] at hc'
      injection hc' with hc'; subst hc'; rfl
    · simp only [hcn, if_false] at hc'; exact h.curNone c' n' cache' hc' hcur'
  · intro c1 n1 c2 n2 cache1 cache2 id' h1 h2 h3 h4
    rw [hcache] at h1 h2
    by_cases hcn1 : c1 = c ∧ n1 = Schema.zero.name
    · simp only [hcn1, and_self, if_true] at h1
      injection h1 with h1; subst h1; simp at h3
    · simp only [hcn1, if_false] at h1
      by_cases hcn2 : c2 = c ∧ n2 = Schema.zero.name
      · simp only [hcn2, and_self, if_true] at h2
        injection h2 with h2; subst h2; simp at h4
      · simp only [hcn2, if_false] at h2
        exact h.inj c1 n1 c2 n2 cache1 cache2 id' h1 h2 h3 h4
  · rw [hreqs]; exact h.reqsLen
  · intro i r hi; rw [hreqs] at hi; exact h.reqsEq i r hi
  · intro i r id' hi hobj; rw [hreqs] at hi; exact h.reqObj i r id' hi hobj
  · intro i r id' c' n' cache' hi hobj hc' hcur'
    rw [hreqs] at hi; rw [hcache] at hc'
    by_cases hcn : c' = c ∧ n' = Schema.zero.name
    · simp only [hcn, and_self, if_true] at hc'
      injection hc' with hc'; subst hc'; simp at hcur'
    · simp only [hcn, if_false] at hc'
      exact h.own i r id' c' n' cache' hi hobj hc' hcur'
  · intro c' n' cache' e' id' cnt' hc' he' hcur' hh
    rw [hcache] at hc'; rw [hentry] at he'
    by_cases hcn : c' = c ∧ n' = Schema.zero.name
    · simp only [hcn, and_self, if_true] at hc'
      injection hc' with hc'; subst hc'; simp at hcur'
    · simp only [hcn, if_false] at hc' he'
      exact h.count c' n' cache' e' id' cnt' hc' he' hcur' hh
  · intro c' n' cache' e' i hc' he'
    rw [hcache] at hc'; rw [hentry] at he'
    show _ ↔ HoldsL (putCache w c Schema.zero.name _).reqs i cache'.cur
    rw [hreqs]
    by_cases hcn : c' = c ∧ n' = Schema.zero.name
    · simp only [hcn, and_self, if_true] at hc' he'
      injection hc' with hc'; injection he' with he'; subst hc'; subst he'
      simp only [List.not_mem_nil, false_iff]
      rintro ⟨r, _, _, _, hsome, ho⟩
      rw [ho] at hsome; simp at hsome
    · simp only [hcn, if_false] at hc' he'
      exact h.infl c' n' cache' e' i hc' he'
  · intro c' n' e' he'
    rw [hentry] at he'
    by_cases hcn : c' = c ∧ n' = Schema.zero.name
    · simp only [hcn, and_self, if_true] at he'
      injection he' with he'; subst he'; exact List.nodup_nil
    · simp only [hcn, if_false] at he'; exact h.nodup c' n' e' he'

theorem newFlowControl_ok {s : Schema} {k : Kind} (h : newFlowControl s = .ok k) :
    k.type = guessType s ∧ KindOk k s ∧ (∀ cnt, k = .counter cnt → cnt.count = 0) := by
  unfold newFlowControl at h
  cases hg : guessType s with
  | maxInflight =>
    rw [hg] at h
    cases hm : s.mi with
    | none => rw [hm] at h; cases h
    | some m =>
      rw [hm] at h; injection h with h; subst h
      refine ⟨rfl, ?_, ?_⟩
      · intro cnt hc; injection hc with hc; subst hc; exact ⟨m, hm, rfl⟩
      · intro cnt hc; injection hc with hc; subst hc; rfl
  | tokenBucket =>
    rw [hg] at h
    cases ht : s.tb with
    | none => rw [ht] at h; cases h
    | some qb =>
      obtain ⟨q, b⟩ := qb
      rw [ht] at h; injection h with h; subst h
      refine ⟨rfl, ?_, ?_⟩
      · intro cnt hc; cases hc
      · intro cnt hc; cases hc
  | exempt =>
    rw [hg] at h; injection h with h; subst h
    refine ⟨rfl, ?_, ?_⟩
    · intro cnt hc; cases hc
    · intro cnt hc; cases hc


/-- the `create` branch of `localWrapper.Sync` -/
def createLimiter (w : World) (s : Schema) : Except String (World × Cache) :=
  match newFlowControl s with
  | .error e => .error e
  | .ok k => .ok (w.alloc k, { config := s, cur := some w.next })

theorem createLimiter_rel {w : World} {σ : SState} (h : RelCore w σ) (c : Str) (s : Schema) (w1 : World) (cache1 : Cache)
    (hs : createLimiter w s = .ok (w1, cache1)) :
    RelCore (putCache w1 c s.name (some cache1)) (σ.setEntry c s.name (some ⟨s, []⟩)) ∧ w1.lims = w.lims := by
  unfold createLimiter at hs
  cases hnew : newFlowControl s with
  | error e => rw [hnew] at hs; cases hs
  | ok k =>
    rw [hnew] at hs
    injection hs with hs; injection hs with h1 h2; subst h1; subst h2
    obtain ⟨hty, hok, hzero⟩ := newFlowControl_ok hnew
    exact ⟨rel_create h c s k hty hok hzero, rfl⟩

theorem localSync_eq (w : World) (cache : Cache) (s : Schema) :
    localSync w cache s =
      if s = cache.config then .ok (w, cache)
      else match cache.cur with
        | none => createLimiter w s
        | some id =>
          match w.heap id with
          | none => .error "model: dangling limiter"
          | some k =>
            if k.type ≠ guessType s then createLimiter w s
            else
              match guessType s with
              | .maxInflight =>
                match s.mi with
                | none => .error panicNil
                | some m => .ok (w.setHeap id (k.resize (toU32 m) 0), { config := s, cur := some id })
              | .tokenBucket =>
                match s.tb with
                | none => .error panicNil
                | some (q, b) => .ok (w.setHeap id (k.resize (toU32 q) (toU32 b)), { config := s, cur := some id })
              | .exempt => .ok (w, { config := s, cur := some id }) := by
  unfold localSync createLimiter
  rfl

theorem syncOne_rel {w : World} {σ : SState} (h : RelCore w σ) (c : Str) (s : Schema) (w1 : World) (cache1 : Cache)
    (hs : localSync w ((w.cache c s.name).getD ⟨Schema.zero, none⟩) s = .ok (w1, cache1)) :
    RelCore (putCache w1 c s.name (some cache1)) (applySchema σ c s) ∧ w1.lims = w.lims := by
  rw [localSync_eq] at hs
  cases hcache : w.cache c s.name with
  | none =>
    have hen : σ.entries c s.name = none := by
      have := h.dom c s.name; rw [hcache] at this
      cases he : σ.entries c s.name with
      | none => rfl
      | some e => rw [he] at this; simp at this
    have happ : applySchema σ c s = σ.setEntry c s.name (some ⟨s, []⟩) := by
      unfold applySchema; rw [hen]
    rw [hcache] at hs
    simp only [Option.getD_none] at hs
    by_cases hz : s = Schema.zero
    · simp only [hz, if_true] at hs
      injection hs with hs; injection hs with h1 h2; subst h1; subst h2
      rw [happ, hz]; exact ⟨rel_nil h c, rfl⟩
    · simp only [hz, if_false] at hs
      rw [happ]; exact createLimiter_rel h c s w1 cache1 hs
  | some cache =>
    obtain ⟨e, he⟩ : ∃ e, σ.entries c s.name = some e := by
      have := h.dom c s.name; rw [hcache] at this
      cases he : σ.entries c s.name with
      | none => rw [he] at this; simp at this
      | some e => exact ⟨e, rfl⟩
    have hcfg := h.cfg c s.name cache e hcache he
    rw [hcache] at hs
    simp only [Option.getD_some] at hs
    by_cases hsame : s = cache.config
    · simp only [hsame, if_true] at hs
      injection hs with hs; injection hs with h1 h2; subst h1; subst h2
      have happ : applySchema σ c s = σ := by
        unfold applySchema; rw [he]; simp [hsame, hcfg]
      rw [happ, putCache_self w c s.name (some cache) hcache]
      exact ⟨h, rfl⟩
    · simp only [hsame, if_false] at hs
      have hne : s ≠ e.config := by rw [← hcfg]; exact hsame
      cases hcur : cache.cur with
      | none =>
        rw [hcur] at hs
        simp only at hs
        -- nothing is in flight under a schema without limiter
        have hnil : e.inflight = [] := by
          cases hl : e.inflight with
          | nil => rfl
          | cons x xs =>
            have : x ∈ e.inflight := by simp [hl]
            obtain ⟨r, _, _, _, hsome, ho⟩ := (h.infl c s.name cache e x hcache he).1 this
            rw [hcur] at ho; rw [ho] at hsome; simp at hsome
        have happ : applySchema σ c s = σ.setEntry c s.name (some ⟨s, []⟩) := by
          unfold applySchema; rw [he]
          simp only [hne, if_false]
          split
          · rfl
          · rw [← hnil]
        rw [happ]; exact createLimiter_rel h c s w1 cache1 hs
      | some id =>
        rw [hcur] at hs
        simp only at hs
        obtain ⟨hlt, k, hk, hty, hok⟩ := h.curOk c s.name cache id hcache hcur
        rw [hk] at hs
        simp only at hs
        by_cases htype : k.type ≠ guessType s
        · rw [if_pos htype] at hs
          have happ : applySchema σ c s = σ.setEntry c s.name (some ⟨s, []⟩) := by
            unfold applySchema; rw [he]
            have : guessType s ≠ guessType e.config := by
              rw [← hcfg, ← hty]; exact fun hh => htype hh.symm
            simp only [hne, if_false]
            rw [if_pos this]
          rw [happ]; exact createLimiter_rel h c s w1 cache1 hs
        · have htype' : k.type = guessType s := by
            cases hd : decide (k.type = guessType s) with
            | true => exact of_decide_eq_true hd
            | false => exact absurd (of_decide_eq_false hd) htype
          rw [if_neg (fun hh : k.type ≠ guessType s => hh htype')] at hs
          have happ : applySchema σ c s = σ.setEntry c s.name (some { e with config := s }) := by
            unfold applySchema; rw [he]
            have : ¬ guessType s ≠ guessType e.config := by
              rw [← hcfg, ← hty, htype']; simp
            simp only [hne, if_false]
            rw [if_neg this]
          rw [happ]
          cases hg : guessType s with
          | maxInflight =>
            rw [hg] at hs
            simp only at hs
            cases hm : s.mi with
            | none => rw [hm] at hs; cases hs
            | some m =>
              rw [hm] at hs
              injection hs with hs; injection hs with h1 h2; subst h1; subst h2
              cases k with
              | counter cnt =>
                refine ⟨rel_resize h c s.name cache id _ e s hcache hcur he rfl ?_ ?_ ?_, rfl⟩
                · simp [Kind.resize, Kind.type, hg]
                · intro cnt' hc'
                  simp only [Kind.resize] at hc'
                  injection hc' with hc'; subst hc'
                  exact ⟨m, hm, rfl⟩
                · intro cnt' hc'
                  simp only [Kind.resize] at hc'
                  injection hc' with hc'; subst hc'
                  exact h.count c s.name cache e id cnt hcache he hcur hk
              | infinity => rw [hg] at htype'; cases htype'
              | bucket q b => rw [hg] at htype'; cases htype'
          | tokenBucket =>
            rw [hg] at hs
            simp only at hs
            cases ht : s.tb with
            | none => rw [ht] at hs; cases hs
            | some qb =>
              obtain ⟨q, b⟩ := qb
              rw [ht] at hs
              injection hs with hs; injection hs with h1 h2; subst h1; subst h2
              cases k with
              | counter cnt => rw [hg] at htype'; cases htype'
              | infinity => rw [hg] at htype'; cases htype'
              | bucket q0 b0 =>
                refine ⟨rel_resize h c s.name cache id _ e s hcache hcur he rfl ?_ ?_ ?_, rfl⟩
                · simp [Kind.resize, Kind.type, hg]
                · intro cnt' hc'; simp [Kind.resize] at hc'
                · intro cnt' hc'; simp [Kind.resize] at hc'
          | exempt =>
            rw [hg] at hs
            simp only at hs
            injection hs with hs; injection hs with h1 h2; subst h1; subst h2
            cases k with
            | counter cnt => rw [hg] at htype'; cases htype'
            | bucket q0 b0 => rw [hg] at htype'; cases htype'
            | infinity =>
              have := rel_resize h c s.name cache id .infinity e s hcache hcur he rfl (by simp [Kind.type, hg])
                (fun cnt' hc' => by cases hc') (fun cnt' hc' => by cases hc')
              rw [setHeap_self w id .infinity hk] at this
              exact ⟨this, rfl⟩


theorem cache_of_lims {w1 w : World} (h : w1.lims = w.lims) (c n : Str) : w1.cache c n = w.cache c n := by
  unfold World.cache; rw [h]

theorem applySchema_last (σ : SState) (c : Str) (s : Schema) : (applySchema σ c s).last = σ.last := by
  unfold applySchema
  split
  · rfl
  · split
    · rfl
    · split <;> rfl

theorem applySchemas_last (c : Str) (σ : SState) (l : List Schema) : (applySchemas c σ l).last = σ.last := by
  induction l generalizing σ with
  | nil => rfl
  | cons s rest ih => simp only [applySchemas]; rw [ih, applySchema_last]

/-- the loop over the schemas of a `Sync` -/
theorem syncSchemas_rel {w : World} {σ : SState} (h : RelCore w σ) (c : Str) (l : List Schema) (w' : World)
    (hs : syncSchemas c w l = .ok w') :
    RelCore w' (applySchemas c σ l) ∧ (∀ d, (w'.lims d).spec = (w.lims d).spec) ∧
    (∀ c' n', (w'.cache c' n').isSome = true → (w.cache c' n').isSome = true ∨ (c' = c ∧ n' ∈ names l)) ∧
    (∀ c' n', c' ≠ c → w'.cache c' n' = w.cache c' n') := by
  induction l generalizing w σ with
  | nil =>
    simp only [syncSchemas] at hs
    injection hs with hs; subst hs
    exact ⟨h, fun _ => rfl, fun _ _ hh => Or.inl hh, fun _ _ _ => rfl⟩
  | cons s rest ih =>
    simp only [syncSchemas] at hs
    cases hl : localSync w (((w.lims c).caches s.name).getD { config := Schema.zero, cur := none }) s with
    | error e => rw [hl] at hs; cases hs
    | ok p =>
      obtain ⟨w1, cache1⟩ := p
      rw [hl] at hs
      simp only at hs
      obtain ⟨hrel, hlims⟩ := syncOne_rel h c s w1 cache1 hl
      obtain ⟨h1, h2, h3, h4⟩ := ih hrel hs
      have hc1 : ∀ c' n', (putCache w1 c s.name (some cache1)).cache c' n' =
          if c' = c ∧ n' = s.name then some cache1 else w.cache c' n' := by
        intro c' n'; rw [putCache_cache, cache_of_lims hlims]
      refine ⟨h1, ?_, ?_, ?_⟩
      · intro d
        rw [h2 d]
        show ((putCache w1 c s.name (some cache1)).lims d).spec = _
        rw [putCache_spec, hlims]
      · intro c' n' hsome
        rcases h3 c' n' hsome with hh | ⟨hh1, hh2⟩
        · change ((putCache w1 c s.name (some cache1)).cache c' n').isSome = true at hh
          rw [hc1] at hh
          by_cases hcn : c' = c ∧ n' = s.name
          · exact Or.inr ⟨hcn.1, by simp [names, hcn.2]⟩
          · simp only [hcn, if_false] at hh; exact Or.inl hh
        · exact Or.inr ⟨hh1, by simp only [names, List.map_cons, List.mem_cons]; exact Or.inr hh2⟩
      · intro c' n' hne
        rw [h4 c' n' hne]
        change (putCache w1 c s.name (some cache1)).cache c' n' = _
        rw [hc1]
        have : ¬ (c' = c ∧ n' = s.name) := fun hh => hne hh.1
        simp [this]

/-- Names are removed (the same ones on both sides). -/
theorem rel_delete {w : World} {σ : SState} (h : RelCore w σ) (c : Str) (P : Str → Prop) [DecidablePred P]
    (sp : List Schema) (md : Str) (L : Str → List Schema) :
    RelCore (w.setLim c { spec := sp, mode := md, caches := fun n => if P n then none else (w.lims c).caches n })
      { σ with last := L, entries := fun c' n' => if c' = c ∧ P n' then none else σ.entries c' n' } := by
  have hcache : ∀ c' n', (w.setLim c { spec := sp, mode := md, caches := fun n => if P n then none else (w.lims c).caches n }).cache c' n' =
      if c' = c ∧ P n' then none else w.cache c' n' := by
    intro c' n'
    unfold World.cache World.setLim
    by_cases hc : c' = c
    · subst hc; by_cases hp : P n' <;> simp [hp]
    · simp [hc]
  have hc1 : ∀ c' n' cache', (w.setLim c { spec := sp, mode := md, caches := fun n => if P n then none else (w.lims c).caches n }).cache c' n' = some cache' →
      ¬ (c' = c ∧ P n') ∧ w.cache c' n' = some cache' := by
    intro c' n' cache' hh
    rw [hcache] at hh
    by_cases hcn : c' = c ∧ P n'
    · simp [hcn] at hh
    · simp only [hcn, if_false] at hh; exact ⟨hcn, hh⟩
  have he1 : ∀ c' n' e', (if c' = c ∧ P n' then none else σ.entries c' n') = some e' →
      ¬ (c' = c ∧ P n') ∧ σ.entries c' n' = some e' := by
    intro c' n' e' hh
    by_cases hcn : c' = c ∧ P n'
    · simp [hcn] at hh
    · simp only [hcn, if_false] at hh; exact ⟨hcn, hh⟩
  refine ⟨?_, ?_, ?_, ?_, ?_, ?_, h.reqsLen, h.reqsEq, h.reqObj, ?_, ?_, ?_, ?_⟩
  · intro c' n'
    rw [hcache]
    show _ = (if c' = c ∧ P n' then none else σ.entries c' n').isSome
    by_cases hcn : c' = c ∧ P n'
    · simp [hcn]
    · simp only [hcn, if_false]; exact h.dom c' n'
  · intro c' n' cache' e' hc' he'
    exact h.cfg c' n' cache' e' (hc1 _ _ _ hc').2 (he1 _ _ _ he').2
  · intro c' n' cache' hc'; exact h.name c' n' cache' (hc1 _ _ _ hc').2
  · intro c' n' cache' id' hc' hcur'; exact h.curOk c' n' cache' id' (hc1 _ _ _ hc').2 hcur'
  · intro c' n' cache' hc' hcur'; exact h.curNone c' n' cache' (hc1 _ _ _ hc').2 hcur'
  · intro c1 n1 c2 n2 cache1 cache2 id' h1 h2 h3 h4
    exact h.inj c1 n1 c2 n2 cache1 cache2 id' (hc1 _ _ _ h1).2 (hc1 _ _ _ h2).2 h3 h4
  · intro i r id' c' n' cache' hi hobj hc' hcur'
    exact h.own i r id' c' n' cache' hi hobj (hc1 _ _ _ hc').2 hcur'
  · intro c' n' cache' e' id' cnt' hc' he' hcur' hh
    exact h.count c' n' cache' e' id' cnt' (hc1 _ _ _ hc').2 (he1 _ _ _ he').2 hcur' hh
  · intro c' n' cache' e' i hc' he'
    exact h.infl c' n' cache' e' i (hc1 _ _ _ hc').2 (he1 _ _ _ he').2
  · intro c' n' e' he'
    exact h.nodup c' n' e' (he1 _ _ _ he').2

theorem sync_step {w : World} {σ : SState} (h : Rel w σ) (c : Str) (schemas : List Schema) (w' : World)
    (hs : sync w c schemas = .ok w') : Rel w' (specSync σ c schemas) := by
  unfold sync at hs
  unfold specSync
  by_cases hsame : (w.lims c).spec = schemas
  · simp only [hsame, if_true] at hs
    injection hs with hs; subst hs
    have : σ.last c = schemas := by rw [← h.last c]; exact hsame
    simp only [this, if_true]
    exact h
  · simp only [hsame, if_false] at hs
    have hsame' : ¬ σ.last c = schemas := by rw [← h.last c]; exact hsame
    simp only [hsame', if_false]
    cases hss : syncSchemas c w schemas with
    | error e => rw [hss] at hs; cases hs
    | ok w1 =>
      rw [hss] at hs
      simp only at hs
      injection hs with hs
      obtain ⟨h1, h2, h3, h4⟩ := syncSchemas_rel h.core c schemas w1 hss
      -- the model's deletion rule removes exactly the names absent from the new list
      have hfun : (fun n => if n ∈ names (w.lims c).spec ∧ n ∉ names schemas then none else (w1.lims c).caches n) =
          (fun n => if n ∉ names schemas then none else (w1.lims c).caches n) := by
        funext n
        by_cases hn : n ∈ names schemas
        · simp [hn]
        · by_cases ho : n ∈ names (w.lims c).spec
          · simp [hn, ho]
          · simp only [hn, ho, false_and, if_false, not_false_eq_true, if_true]
            cases hcn : (w1.lims c).caches n with
            | none => rfl
            | some x =>
              have hsome : (w1.cache c n).isSome = true := by unfold World.cache; rw [hcn]; rfl
              rcases h3 c n hsome with hh | ⟨_, hh⟩
              · exact absurd (h.dom2 c n hh) ho
              · exact absurd hh hn
      rw [hfun] at hs
      subst hs
      have hdel := rel_delete h1 c (fun n => n ∉ names schemas) schemas (w1.lims c).mode
        (fun d => if d = c then schemas else (applySchemas c σ schemas).last d)
      refine ⟨hdel, ?_, ?_⟩
      · intro d
        show ((w1.setLim c _).lims d).spec = (if d = c then schemas else (applySchemas c σ schemas).last d)
        unfold World.setLim
        by_cases hd : d = c
        · simp [hd]
        · simp only [hd, if_false]
          rw [h2 d, h.last d, applySchemas_last]
      · intro c' n' hsome
        have hcache : (w1.setLim c { spec := schemas, mode := (w1.lims c).mode, caches := fun n => if n ∉ names schemas then none else (w1.lims c).caches n }).cache c' n' =
            if c' = c ∧ n' ∉ names schemas then none else w1.cache c' n' := by
          unfold World.cache World.setLim
          by_cases hc : c' = c
          · subst hc; by_cases hp : n' ∉ names schemas <;> simp [hp]
          · simp [hc]
        rw [hcache] at hsome
        show n' ∈ names ((w1.setLim c _).lims c').spec
        unfold World.setLim
        by_cases hc : c' = c
        · subst hc
          simp only [if_true]
          by_cases hp : n' ∈ names schemas
          · exact hp
          · simp [hp] at hsome
        · have : ¬ (c' = c ∧ n' ∉ names schemas) := fun hh => hc hh.1
          simp only [this, if_false] at hsome
          simp only [hc, if_false]
          rw [h2 c']
          rw [h4 c' n' hc] at hsome
          exact h.dom2 c' n' hsome


/-! ### a mode switch (`ResetLimiter`) keeps everything -/

theorem resetLimiter_cache (w : World) (c m : Str) (c' n' : Str) : (resetLimiter w c m).cache c' n' = w.cache c' n' := by
  unfold resetLimiter World.cache World.setLim
  by_cases hc : c' = c
  · subst hc; simp
  · simp [hc]

theorem resetLimiter_spec (w : World) (c m : Str) (d : Str) : ((resetLimiter w c m).lims d).spec = (w.lims d).spec := by
  unfold resetLimiter World.setLim
  by_cases hd : d = c
  · subst hd; simp
  · simp [hd]

theorem reset_rel {w : World} {σ : SState} (h : Rel w σ) (c m : Str) : Rel (resetLimiter w c m) σ := by
  have hc := h.core
  have hcache := resetLimiter_cache w c m
  have hheap : (resetLimiter w c m).heap = w.heap := rfl
  have hnext : (resetLimiter w c m).next = w.next := rfl
  have hreqs : (resetLimiter w c m).reqs = w.reqs := rfl
  refine ⟨⟨?_, ?_, ?_, ?_, ?_, ?_, ?_, ?_, ?_, ?_, ?_, ?_, hc.nodup⟩, ?_, ?_⟩
  · intro c' n'; rw [hcache]; exact hc.dom c' n'
  · intro c' n' cache' e' h1 h2; rw [hcache] at h1; exact hc.cfg c' n' cache' e' h1 h2
  · intro c' n' cache' h1; rw [hcache] at h1; exact hc.name c' n' cache' h1
  · intro c' n' cache' id' h1 h2; rw [hcache] at h1; rw [hheap, hnext]; exact hc.curOk c' n' cache' id' h1 h2
  · intro c' n' cache' h1 h2; rw [hcache] at h1; exact hc.curNone c' n' cache' h1 h2
  · intro c1 n1 c2 n2 cache1 cache2 id' h1 h2 h3 h4; rw [hcache] at h1 h2
    exact hc.inj c1 n1 c2 n2 cache1 cache2 id' h1 h2 h3 h4
  · rw [hreqs]; exact hc.reqsLen
  · intro i r h1; rw [hreqs] at h1; exact hc.reqsEq i r h1
  · intro i r id' h1 h2; rw [hreqs] at h1; rw [hnext]; exact hc.reqObj i r id' h1 h2
  · intro i r id' c' n' cache' h1 h2 h3 h4; rw [hreqs] at h1; rw [hcache] at h3
    exact hc.own i r id' c' n' cache' h1 h2 h3 h4
  · intro c' n' cache' e' id' cnt' h1 h2 h3 h4; rw [hcache] at h1; rw [hheap] at h4
    exact hc.count c' n' cache' e' id' cnt' h1 h2 h3 h4
  · intro c' n' cache' e' i h1 h2; rw [hcache] at h1
    show _ ↔ HoldsL (resetLimiter w c m).reqs i cache'.cur
    rw [hreqs]; exact hc.infl c' n' cache' e' i h1 h2
  · intro d; rw [resetLimiter_spec]; exact h.last d
  · intro c' n' h1; rw [hcache] at h1; rw [resetLimiter_spec]; exact h.dom2 c' n' h1

/-! ### every op, every history -/

theorem step_rel {w : World} {σ : SState} (h : Rel w σ) (op : Op) :
    checkExact σ op (step w op).2 = true ∧
      ((step w op).2.isPanic = false → Rel (step w op).1 (specStep σ op (step w op).2)) := by
  cases op with
  | sync c schemas =>
    simp only [KG.Model.LocalLimiter.step]
    cases hs : sync w c schemas with
    | error e => simp [checkExact, Out.isPanic]
    | ok w' =>
      refine ⟨by simp [checkExact], fun _ => ?_⟩
      simp only [specStep]
      exact sync_step h c schemas w' hs
  | acquire c n tb =>
    obtain ⟨w', b, ha, hchk, hrel⟩ := acquire_step h c n tb
    simp only [KG.Model.LocalLimiter.step, ha]
    exact ⟨hchk, fun _ => hrel⟩
  | release i =>
    simp only [KG.Model.LocalLimiter.step]
    exact ⟨by simp [checkExact], fun _ => release_step h i⟩
  | reset c m =>
    simp only [KG.Model.LocalLimiter.step]
    exact ⟨by simp [checkExact], fun _ => by simp only [specStep]; exact reset_rel h c m⟩

theorem judgeFrom_run {w : World} {σ : SState} (h : Rel w σ) (k : Nat) (ops : List Op) :
    judgeExactFrom σ k ops (run w ops) = none := by
  induction ops generalizing w σ k with
  | nil => simp [judgeExactFrom]
  | cons op ops ih =>
    obtain ⟨hchk, hrel⟩ := step_rel h op
    simp only [KG.Model.LocalLimiter.run]
    cases hp : (step w op).2.isPanic with
    | true =>
      simp only [if_true, judgeExactFrom, hchk, hp]
    | false =>
      simp only [Bool.false_eq_true, if_false, judgeExactFrom, hchk, if_true, hp]
      exact ih (hrel hp) (k + 1)

/-- reachable worlds are related to some bookkeeping state of the judgeExact -/
theorem rel_exec {w : World} {σ : SState} (h : Rel w σ) (ops : List Op) : ∃ σ', Rel (exec w ops) σ' := by
  induction ops generalizing w σ with
  | nil => exact ⟨σ, h⟩
  | cons op ops ih =>
    simp only [exec]
    cases hp : (step w op).2.isPanic with
    | true => simp only [if_true]; exact ⟨σ, h⟩
    | false =>
      simp only [Bool.false_eq_true, if_false]
      exact ih ((step_rel h op).2 hp)


theorem reachable_rel {w : World} (h : KG.Model.LocalLimiter.Reachable w) : ∃ σ, Rel w σ := by
  obtain ⟨ops, rfl⟩ := h
  exact rel_exec rel_init ops

/-! ### isolation (frame lemmas) -/

theorem answer_congr (w1 w2 : World) (c n : Str) (tb : Bool)
    (hg : getOrDefault w1 c n = getOrDefault w2 c n)
    (hh : ∀ id, getOrDefault w1 c n = some (some id) → w1.heap id = w2.heap id) :
    answer w1 c n tb = answer w2 c n tb := by
  unfold answer acquire
  rw [← hg]
  cases hgo : getOrDefault w1 c n with
  | none => rfl
  | some o =>
    cases o with
    | none => rfl
    | some id =>
      simp only
      rw [← hh id hgo]
      cases w1.heap id <;> rfl

theorem getOrDefault_congr (w1 w2 : World) (c n : Str) (h : w1.cache c n = w2.cache c n) :
    getOrDefault w1 c n = getOrDefault w2 c n := by
  rw [getOrDefault_eq, getOrDefault_eq, h]

theorem getOrDefault_some {w : World} {c n : Str} {id : Nat} (h : getOrDefault w c n = some (some id)) :
    ∃ cache, w.cache c n = some cache ∧ cache.cur = some id := by
  rw [getOrDefault_eq] at h
  by_cases hn : n = []
  · simp [hn] at h
  · simp only [hn, if_false] at h
    cases hc : w.cache c n with
    | none => rw [hc] at h; simp at h
    | some cache =>
      rw [hc] at h; simp only [Option.map_some] at h
      injection h with h
      exact ⟨cache, rfl, h⟩

theorem acquire_frame {w w' : World} {c0 n0 : Str} {tb b : Bool} (h : acquire w c0 n0 tb = .ok (w', b)) :
    (∀ c n, w'.cache c n = w.cache c n) ∧
    (∀ id, getOrDefault w c0 n0 ≠ some (some id) → w'.heap id = w.heap id) := by
  unfold acquire at h
  cases hg : getOrDefault w c0 n0 with
  | none =>
    rw [hg] at h; simp only at h
    injection h with h; injection h with h1 h2; subst h1
    exact ⟨fun _ _ => rfl, fun _ _ => rfl⟩
  | some o =>
    cases o with
    | none => rw [hg] at h; cases h
    | some id0 =>
      rw [hg] at h; simp only at h
      cases hk : w.heap id0 with
      | none => rw [hk] at h; cases h
      | some k =>
        rw [hk] at h; simp only at h
        injection h with h; injection h with h1 h2; subst h1
        refine ⟨fun _ _ => rfl, ?_⟩
        intro id hne
        show (w.setHeap id0 _).heap id = _
        rw [setHeap_heap]
        have : id ≠ id0 := fun hh => hne (by rw [hh])
        simp [this]

theorem release_frame (w : World) (i : Nat) :
    (∀ c n, (release w i).1.cache c n = w.cache c n) ∧
    (∀ id, (∀ r, w.reqs[i]? = some r → r.obj ≠ some id) → (release w i).1.heap id = w.heap id) := by
  unfold release
  cases hr : w.reqs[i]? with
  | none => exact ⟨fun _ _ => rfl, fun _ _ => rfl⟩
  | some r =>
    dsimp only
    split
    · cases hobj : r.obj with
      | none => exact ⟨fun _ _ => rfl, fun _ _ => rfl⟩
      | some id0 =>
        dsimp only
        cases hk : w.heap id0 with
        | none => exact ⟨fun _ _ => rfl, fun _ _ => rfl⟩
        | some k =>
          dsimp only
          refine ⟨fun _ _ => rfl, ?_⟩
          intro id hne
          show (World.setHeap _ id0 _).heap id = _
          rw [setHeap_heap]
          have : id ≠ id0 := fun hh => hne r rfl (by rw [hobj, hh])
          simp [this]
    · exact ⟨fun _ _ => rfl, fun _ _ => rfl⟩

theorem createLimiter_frame {w w1 : World} {s : Schema} {cache1 : Cache} (h : createLimiter w s = .ok (w1, cache1)) :
    w1.lims = w.lims ∧ w1.next = w.next + 1 ∧ cache1.cur = some w.next ∧ (∀ id, id < w.next → w1.heap id = w.heap id) := by
  unfold createLimiter at h
  cases hnew : newFlowControl s with
  | error e => rw [hnew] at h; cases h
  | ok k =>
    rw [hnew] at h
    injection h with h; injection h with h1 h2; subst h1; subst h2
    refine ⟨rfl, rfl, rfl, ?_⟩
    intro id hlt
    rw [alloc_heap]
    have : id ≠ w.next := by omega
    simp [this]

/-- what `localWrapper.Sync` can touch: the cache's own limiter object, or a fresh one -/
theorem localSync_frame {w w1 : World} {cache cache1 : Cache} {s : Schema}
    (h : localSync w cache s = .ok (w1, cache1)) :
    w1.lims = w.lims ∧ w.next ≤ w1.next ∧ (cache1.cur = cache.cur ∨ cache1.cur = some w.next) ∧
    (∀ id, id < w.next → cache.cur ≠ some id → w1.heap id = w.heap id) := by
  rw [localSync_eq] at h
  by_cases hsame : s = cache.config
  · simp only [hsame, if_true] at h
    injection h with h; injection h with h1 h2; subst h1; subst h2
    exact ⟨rfl, Nat.le_refl _, Or.inl rfl, fun _ _ _ => rfl⟩
  · simp only [hsame, if_false] at h
    have fromCreate : createLimiter w s = .ok (w1, cache1) →
        w1.lims = w.lims ∧ w.next ≤ w1.next ∧ cache1.cur = some w.next ∧
        (∀ id, id < w.next → w1.heap id = w.heap id) := by
      intro hc
      obtain ⟨h1, h2, h3, h4⟩ := createLimiter_frame hc
      exact ⟨h1, by omega, h3, fun id hlt => h4 id hlt⟩
    cases hcur : cache.cur with
    | none =>
      rw [hcur] at h
      obtain ⟨a, b, c, d⟩ := fromCreate h
      exact ⟨a, b, Or.inr c, fun id hlt _ => d id hlt⟩
    | some id0 =>
      rw [hcur] at h; simp only at h
      cases hk : w.heap id0 with
      | none => rw [hk] at h; cases h
      | some k =>
        rw [hk] at h; simp only at h
        by_cases htype : k.type ≠ guessType s
        · rw [if_pos htype] at h
          obtain ⟨a, b, c, d⟩ := fromCreate h
          exact ⟨a, b, Or.inr c, fun id hlt _ => d id hlt⟩
        · rw [if_neg htype] at h
          have resized : ∀ k', (Except.ok (w.setHeap id0 k', ({ config := s, cur := some id0 } : Cache)) : Except String (World × Cache)) = .ok (w1, cache1) →
              w1.lims = w.lims ∧ w.next ≤ w1.next ∧ (cache1.cur = some id0 ∨ cache1.cur = some w.next) ∧
              (∀ id, id < w.next → some id0 ≠ some id → w1.heap id = w.heap id) := by
            intro k' hh
            injection hh with hh; injection hh with h1 h2; subst h1; subst h2
            refine ⟨rfl, Nat.le_refl _, Or.inl rfl, ?_⟩
            intro id _ hne
            rw [setHeap_heap]
            have : id ≠ id0 := fun hh => hne (by rw [hh])
            simp [this]
          cases hg : guessType s with
          | maxInflight =>
            rw [hg] at h; simp only at h
            cases hm : s.mi with
            | none => rw [hm] at h; cases h
            | some m => rw [hm] at h; exact resized _ h
          | tokenBucket =>
            rw [hg] at h; simp only at h
            cases ht : s.tb with
            | none => rw [ht] at h; cases h
            | some qb => obtain ⟨q, b⟩ := qb; rw [ht] at h; exact resized _ h
          | exempt =>
            rw [hg] at h; simp only at h
            injection h with h; injection h with h1 h2; subst h1; subst h2
            exact ⟨rfl, Nat.le_refl _, Or.inl rfl, fun _ _ _ => rfl⟩

/-- a `Sync` of cluster `c` leaves every limiter object that is not current for a schema of `c` untouched -/
theorem syncSchemas_frame (c : Str) (l : List Schema) (w w' : World) (hs : syncSchemas c w l = .ok w')
    (id : Nat) (hlt : id < w.next) (hno : ∀ n cache, w.cache c n = some cache → cache.cur ≠ some id) :
    w'.heap id = w.heap id := by
  induction l generalizing w with
  | nil => simp only [syncSchemas] at hs; injection hs with hs; subst hs; rfl
  | cons s rest ih =>
    simp only [syncSchemas] at hs
    cases hl : localSync w (((w.lims c).caches s.name).getD { config := Schema.zero, cur := none }) s with
    | error e => rw [hl] at hs; cases hs
    | ok p =>
      obtain ⟨w1, cache1⟩ := p
      rw [hl] at hs; simp only at hs
      obtain ⟨hlims, hnext, hcur1, hheap⟩ := localSync_frame hl
      have hcur0 : (((w.lims c).caches s.name).getD { config := Schema.zero, cur := none }).cur ≠ some id := by
        cases hc : (w.lims c).caches s.name with
        | none => simp
        | some cache0 => simp only [Option.getD_some]; exact hno s.name cache0 hc
      have h1 := hheap id hlt hcur0
      rw [← h1]
      refine ih (putCache w1 c s.name (some cache1)) hs (by show id < w1.next; omega) ?_
      intro n cache hc
      rw [putCache_cache, cache_of_lims hlims] at hc
      by_cases hn : n = s.name
      · have : (c = c ∧ n = s.name) := ⟨rfl, hn⟩
        rw [if_pos this] at hc
        injection hc with hc; subst hc
        rcases hcur1 with h2 | h2
        · rw [h2]; exact hcur0
        · rw [h2]; intro hh; injection hh with hh; omega
      · have : ¬ (c = c ∧ n = s.name) := fun hh => hn hh.2
        rw [if_neg this] at hc
        exact hno n cache hc

theorem sync_frame {w w' : World} {c0 : Str} {l : List Schema} (h : Rel w (σ := σ)) (hs : sync w c0 l = .ok w')
    (c n : Str) (hc : c ≠ c0) :
    w'.cache c n = w.cache c n ∧ ∀ id cache, w.cache c n = some cache → cache.cur = some id → w'.heap id = w.heap id := by
  unfold sync at hs
  by_cases hsame : (w.lims c0).spec = l
  · simp only [hsame, if_true] at hs
    injection hs with hs; subst hs
    exact ⟨rfl, fun _ _ _ _ => rfl⟩
  · simp only [hsame, if_false] at hs
    cases hss : syncSchemas c0 w l with
    | error e => rw [hss] at hs; cases hs
    | ok w1 =>
      rw [hss] at hs; simp only at hs
      injection hs with hs; subst hs
      obtain ⟨_, _, _, h4⟩ := syncSchemas_rel h.core c0 l w1 hss
      constructor
      · show (World.setLim w1 c0 _).cache c n = _
        unfold World.cache World.setLim
        simp only [hc, if_false]
        exact h4 c n hc
      · intro id cache hcache hcur
        show w1.heap id = w.heap id
        refine syncSchemas_frame c0 l w w1 hss id (h.core.curOk c n cache id hcache hcur).1 ?_
        intro n' cache' hc' hcur'
        exact hc (h.core.inj c n c0 n' cache cache' id hcache hc' hcur hcur').1

/-- An op that does not concern `(c, n)` does not change the answer a request for `(c, n)` gets. -/
theorem isolation_step {w : World} {σ : SState} (h : Rel w σ) (op : Op) (c n : Str) (tb : Bool)
    (hna : ¬ addresses w op c n) : answer (step w op).1 c n tb = answer w c n tb := by
  cases op with
  | sync c0 l =>
    simp only [KG.Model.LocalLimiter.step]
    have hc : c ≠ c0 := fun hh => hna hh.symm
    cases hs : sync w c0 l with
    | error e => rfl
    | ok w' =>
      obtain ⟨h1, h2⟩ := sync_frame h hs c n hc
      refine answer_congr w' w c n tb (getOrDefault_congr w' w c n h1) ?_
      intro id hg
      obtain ⟨cache, hcache, hcur⟩ := getOrDefault_some hg
      rw [h1] at hcache
      exact h2 id cache hcache hcur
  | acquire c0 n0 tb0 =>
    simp only [KG.Model.LocalLimiter.step]
    cases ha : acquire w c0 n0 tb0 with
    | error e => rfl
    | ok p =>
      obtain ⟨w', b⟩ := p
      obtain ⟨h1, h2⟩ := acquire_frame ha
      refine answer_congr w' w c n tb (getOrDefault_congr w' w c n (h1 c n)) ?_
      intro id hg
      obtain ⟨cache, hcache, hcur⟩ := getOrDefault_some hg
      rw [h1] at hcache
      apply h2
      intro hg0
      obtain ⟨cache0, hcache0, hcur0⟩ := getOrDefault_some hg0
      obtain ⟨e1, e2⟩ := h.core.inj c0 n0 c n cache0 cache id hcache0 hcache hcur0 hcur
      exact hna ⟨e1, e2⟩
  | reset c0 m =>
    simp only [KG.Model.LocalLimiter.step]
    exact answer_congr _ w c n tb (getOrDefault_congr _ w c n (resetLimiter_cache w c0 m c n)) (fun _ _ => rfl)
  | release i =>
    simp only [KG.Model.LocalLimiter.step]
    obtain ⟨h1, h2⟩ := release_frame w i
    refine answer_congr _ w c n tb (getOrDefault_congr _ w c n (h1 c n)) ?_
    intro id hg
    obtain ⟨cache, hcache, hcur⟩ := getOrDefault_some hg
    rw [h1] at hcache
    apply h2
    intro r hr hobj
    obtain ⟨e1, e2⟩ := h.core.own i r id c n cache hr hobj hcache hcur
    apply hna
    simp only [addresses, hr]
    exact ⟨e1.symm, e2.symm⟩


/-! ### (c) the dispatcher gives the slot back exactly once -/

theorem unwind_counts (ds : List Bool) : countAcq (unwind ds) = 0 ∧ countRel (unwind ds) = (ds.filter id).length := by
  unfold unwind countAcq countRel
  induction ds.filter id with
  | nil => simp
  | cons x xs ih => simp [ih.1, ih.2]

/-- after the acquire guard: nothing mentions the limiter any more; every deferred `Release` runs once -/
theorem exec_tail (sc : Scenario) (post : List Stmt) (i : Nat) (ds : List Bool)
    (h : post.any mentionsLimiter = false) :
    countAcq (execStmts sc post i ds) = 0 ∧ countRel (execStmts sc post i ds) = (ds.filter id).length := by
  induction post generalizing i ds with
  | nil => exact unwind_counts ds
  | cons st rest ih =>
    simp only [List.any_cons, Bool.or_eq_false_iff] at h
    obtain ⟨hst, hrest⟩ := h
    cases st with
    | guard =>
      simp only [execStmts]
      cases sc.choice i with
      | go => exact ih (i + 1) ds hrest
      | exit => simp only [if_true]; exact unwind_counts ds
      | panic => exact unwind_counts ds
    | other =>
      simp only [execStmts]
      cases sc.choice i with
      | go => exact ih (i + 1) ds hrest
      | exit =>
        have : ¬ (Stmt.other = Stmt.guard) := by decide
        simp only [this, if_false]; exact ih (i + 1) ds hrest
      | panic => exact unwind_counts ds
    | deferOther =>
      simp only [execStmts]
      have := ih (i + 1) (false :: ds) hrest
      simpa using this
    | acquireGuard => simp [mentionsLimiter] at hst
    | deferRelease => simp [mentionsLimiter] at hst
    | bad => simp [mentionsLimiter] at hst

theorem exec_release_once (sc : Scenario) (p : List Stmt) (i : Nat) (ds : List Bool)
    (h : shapeOk p = true) (hds : ds.filter id = []) :
    countRel (execStmts sc p i ds) = countAcq (execStmts sc p i ds) ∧ countAcq (execStmts sc p i ds) ≤ 1 := by
  induction p generalizing i ds with
  | nil => simp [shapeOk] at h
  | cons st rest ih =>
    have hun : countAcq (unwind ds) = 0 ∧ countRel (unwind ds) = 0 := by
      have := unwind_counts ds; rw [hds] at this; simpa using this
    cases st with
    | acquireGuard =>
      cases rest with
      | nil => simp [shapeOk, mentionsLimiter] at h
      | cons st2 post =>
        cases st2 with
        | deferRelease =>
          simp only [shapeOk, Bool.not_eq_true'] at h
          simp only [execStmts]
          cases sc.choice i with
          | panic => simp [hun.1, hun.2]
          | go =>
            cases sc.granted with
            | true =>
              have := exec_tail sc post (i + 1 + 1) (true :: ds) h
              simp only [if_true, countAcq, countRel, List.count_cons] at this ⊢
              simp [this.1, this.2, hds]
            | false =>
              simp only [Bool.false_eq_true, if_false, countAcq, countRel, List.count_cons]
              have h1 := hun.1; have h2 := hun.2
              simp only [countAcq, countRel] at h1 h2
              simp [h1, h2]
          | exit =>
            cases sc.granted with
            | true =>
              have := exec_tail sc post (i + 1 + 1) (true :: ds) h
              simp only [if_true, countAcq, countRel, List.count_cons] at this ⊢
              simp [this.1, this.2, hds]
            | false =>
              simp only [Bool.false_eq_true, if_false, countAcq, countRel, List.count_cons]
              have h1 := hun.1; have h2 := hun.2
              simp only [countAcq, countRel] at h1 h2
              simp [h1, h2]
        | guard => simp [shapeOk, mentionsLimiter] at h
        | acquireGuard => simp [shapeOk, mentionsLimiter] at h
        | deferOther => simp [shapeOk, mentionsLimiter] at h
        | other => simp [shapeOk, mentionsLimiter] at h
        | bad => simp [shapeOk, mentionsLimiter] at h
    | guard =>
      simp only [shapeOk, mentionsLimiter, Bool.not_false, Bool.true_and] at h
      simp only [execStmts]
      cases sc.choice i with
      | go => exact ih (i + 1) ds h hds
      | exit => simp [hun.1, hun.2]
      | panic => simp [hun.1, hun.2]
    | other =>
      simp only [shapeOk, mentionsLimiter, Bool.not_false, Bool.true_and] at h
      simp only [execStmts]
      cases sc.choice i with
      | go => exact ih (i + 1) ds h hds
      | exit =>
        have : ¬ (Stmt.other = Stmt.guard) := by decide
        simp only [this, if_false]; exact ih (i + 1) ds h hds
      | panic => simp [hun.1, hun.2]
    | deferOther =>
      simp only [shapeOk, mentionsLimiter, Bool.not_false, Bool.true_and] at h
      simp only [execStmts]
      exact ih (i + 1) (false :: ds) h (by simpa using hds)
    | deferRelease => simp [shapeOk, mentionsLimiter] at h
    | bad => simp [shapeOk, mentionsLimiter] at h

end KG.Lemmas.LocalLimiter
