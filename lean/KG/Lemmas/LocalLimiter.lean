import KG.Spec.LocalLimiter
/-! Simulation between the sequential limiter model (`KG.Model.LocalLimiter`) and the judge's bookkeeping
    (`KG.Spec.LocalLimiter`): the relation `Rel` holds initially and is preserved by every op, and in related
    states every answer of the model is what the judge demands. -/
namespace KG.Lemmas.LocalLimiter
open KG KG.Model.MaxInflight KG.Model.LocalLimiter KG.Spec.LocalLimiter

/-! ### basic facts about the state updates -/

def putCache (w : World) (c n : Str) (x : Option Cache) : World :=
  w.setLim c ((w.lims c).setCache n x)

theorem putCache_cache (w : World) (c n : Str) (x : Option Cache) (c' n' : Str) :
    (putCache w c n x).cache c' n' = if c' = c ∧ n' = n then x else w.cache c' n' := by
  unfold putCache World.cache World.setLim Limiter.setCache
  by_cases hc : c' = c
  · subst hc
    by_cases hn : n' = n <;> simp [hn]
  · simp [hc]

@[simp] theorem putCache_heap (w : World) (c n : Str) (x : Option Cache) : (putCache w c n x).heap = w.heap := rfl
@[simp] theorem putCache_next (w : World) (c n : Str) (x : Option Cache) : (putCache w c n x).next = w.next := rfl
@[simp] theorem putCache_reqs (w : World) (c n : Str) (x : Option Cache) : (putCache w c n x).reqs = w.reqs := rfl
theorem putCache_spec (w : World) (c n : Str) (x : Option Cache) (d : Str) :
    ((putCache w c n x).lims d).spec = (w.lims d).spec := by
  unfold putCache World.setLim Limiter.setCache
  by_cases h : d = c <;> simp [h]

@[simp] theorem alloc_cache (w : World) (k : Kind) (c n : Str) : (w.alloc k).cache c n = w.cache c n := rfl
@[simp] theorem alloc_reqs (w : World) (k : Kind) : (w.alloc k).reqs = w.reqs := rfl
@[simp] theorem alloc_next (w : World) (k : Kind) : (w.alloc k).next = w.next + 1 := rfl
theorem alloc_heap (w : World) (k : Kind) (i : Nat) : (w.alloc k).heap i = if i = w.next then some k else w.heap i := rfl
@[simp] theorem alloc_lims (w : World) (k : Kind) : (w.alloc k).lims = w.lims := rfl

@[simp] theorem setHeap_cache (w : World) (id : Nat) (k : Kind) (c n : Str) : (w.setHeap id k).cache c n = w.cache c n := rfl
@[simp] theorem setHeap_reqs (w : World) (id : Nat) (k : Kind) : (w.setHeap id k).reqs = w.reqs := rfl
@[simp] theorem setHeap_next (w : World) (id : Nat) (k : Kind) : (w.setHeap id k).next = w.next := rfl
theorem setHeap_heap (w : World) (id : Nat) (k : Kind) (i : Nat) : (w.setHeap id k).heap i = if i = id then some k else w.heap i := rfl
@[simp] theorem setHeap_lims (w : World) (id : Nat) (k : Kind) : (w.setHeap id k).lims = w.lims := rfl

theorem setHeap_self (w : World) (id : Nat) (k : Kind) (h : w.heap id = some k) : w.setHeap id k = w := by
  unfold World.setHeap
  have : (fun i => if i = id then some k else w.heap i) = w.heap := by
    funext i; by_cases hi : i = id <;> simp [hi, h]
  rw [this]

theorem setEntry_entries (σ : SState) (c n : Str) (e : Option Entry) (c' n' : Str) :
    (σ.setEntry c n e).entries c' n' = if c' = c ∧ n' = n then e else σ.entries c' n' := rfl
@[simp] theorem setEntry_reqs (σ : SState) (c n : Str) (e : Option Entry) : (σ.setEntry c n e).reqs = σ.reqs := rfl
@[simp] theorem setEntry_last (σ : SState) (c n : Str) (e : Option Entry) : (σ.setEntry c n e).last = σ.last := rfl

/-- the limit of a counter is the `uint32` of the schema's `max` -/
def KindOk (k : Kind) (s : Schema) : Prop :=
  ∀ cnt, k = .counter cnt → ∃ m, s.mi = some m ∧ cnt.max = toU32 m

/-- request `i` is unfinished and holds the limiter `cur` -/
def HoldsL (reqs : List Req) (i : Nat) (cur : Option Nat) : Prop :=
  ∃ r, reqs[i]? = some r ∧ r.admitted = true ∧ r.released = false ∧ r.obj.isSome = true ∧ r.obj = cur

abbrev Holds (w : World) (i : Nat) (cur : Option Nat) : Prop := HoldsL w.reqs i cur

theorem holdsL_lt {reqs : List Req} {i : Nat} {cur : Option Nat} (h : HoldsL reqs i cur) : i < reqs.length := by
  obtain ⟨r, hr, _⟩ := h
  exact (List.getElem?_eq_some_iff.1 hr).1

theorem holdsL_append_old (reqs : List Req) (x : Req) (i : Nat) (cur : Option Nat) (hi : i < reqs.length) :
    HoldsL (reqs ++ [x]) i cur ↔ HoldsL reqs i cur := by
  unfold HoldsL
  rw [List.getElem?_append_left hi]

theorem holdsL_append_new (reqs : List Req) (x : Req) (cur : Option Nat) :
    HoldsL (reqs ++ [x]) reqs.length cur ↔
      (x.admitted = true ∧ x.released = false ∧ x.obj.isSome = true ∧ x.obj = cur) := by
  unfold HoldsL
  simp

theorem holdsL_append_iff (reqs : List Req) (x : Req) (i : Nat) (cur : Option Nat) :
    HoldsL (reqs ++ [x]) i cur ↔
      (HoldsL reqs i cur ∨ (i = reqs.length ∧ x.admitted = true ∧ x.released = false ∧ x.obj.isSome = true ∧ x.obj = cur)) := by
  by_cases hi : i < reqs.length
  · rw [holdsL_append_old _ _ _ _ hi]
    constructor
    · exact Or.inl
    · rintro (h | ⟨h, _⟩)
      · exact h
      · omega
  · by_cases he : i = reqs.length
    · subst he
      rw [holdsL_append_new]
      constructor
      · intro h; exact Or.inr ⟨rfl, h⟩
      · rintro (h | ⟨_, h⟩)
        · exact absurd (holdsL_lt h) hi
        · exact h
    · constructor
      · intro h
        have := holdsL_lt h
        simp at this; omega
      · rintro (h | ⟨h, _⟩)
        · exact absurd (holdsL_lt h) hi
        · exact absurd h he

/-- The simulation relation (everything except the stored spec list). -/
structure RelCore (w : World) (σ : SState) : Prop where
  dom : ∀ c n, (w.cache c n).isSome = (σ.entries c n).isSome
  cfg : ∀ c n cache e, w.cache c n = some cache → σ.entries c n = some e → cache.config = e.config
  name : ∀ c n cache, w.cache c n = some cache → cache.config.name = n
  curOk : ∀ c n cache id, w.cache c n = some cache → cache.cur = some id →
    id < w.next ∧ ∃ k, w.heap id = some k ∧ k.type = guessType cache.config ∧ KindOk k cache.config
  curNone : ∀ c n cache, w.cache c n = some cache → cache.cur = none → cache.config = Schema.zero
  inj : ∀ c n c' n' cache cache' id, w.cache c n = some cache → w.cache c' n' = some cache' →
    cache.cur = some id → cache'.cur = some id → c = c' ∧ n = n'
  reqsLen : w.reqs.length = σ.reqs.length
  reqsEq : ∀ (i : Nat) (r : Req), w.reqs[i]? = some r → σ.reqs[i]? = some (SReq.mk r.c r.n r.admitted r.released)
  reqObj : ∀ (i : Nat) (r : Req) (id : Nat), w.reqs[i]? = some r → r.obj = some id → id < w.next
  own : ∀ (i : Nat) (r : Req) (id : Nat) c n cache, w.reqs[i]? = some r → r.obj = some id → w.cache c n = some cache →
    cache.cur = some id → c = r.c ∧ n = r.n
  count : ∀ c n cache e id cnt, w.cache c n = some cache → σ.entries c n = some e → cache.cur = some id →
    w.heap id = some (.counter cnt) → cnt.count = e.inflight.length
  infl : ∀ c n cache e i, w.cache c n = some cache → σ.entries c n = some e →
    (i ∈ e.inflight ↔ Holds w i cache.cur)
  nodup : ∀ c n e, σ.entries c n = some e → e.inflight.Nodup

structure Rel (w : World) (σ : SState) : Prop where
  core : RelCore w σ
  last : ∀ c, (w.lims c).spec = σ.last c
  /-- every configured name is in the stored spec list -/
  dom2 : ∀ c n, (w.cache c n).isSome = true → n ∈ names (w.lims c).spec

theorem rel_init : Rel World.init SState.init := by
  refine ⟨⟨?_, ?_, ?_, ?_, ?_, ?_, rfl, ?_, ?_, ?_, ?_, ?_, ?_⟩, ?_, ?_⟩ <;>
    simp [World.init, SState.init, World.cache]


/-! ### a request arrives -/

theorem counter_tryAcquire_eq (cnt : Counter) (h : 0 ≤ cnt.count) :
    cnt.tryAcquire = if cnt.count < (cnt.max : Int) then ({ cnt with count := cnt.count + 1 }, true) else (cnt, false) := by
  unfold Counter.tryAcquire
  have h1 : ¬ cnt.count < 0 := by omega
  simp only [h1, if_false]
  by_cases h2 : cnt.count < (cnt.max : Int)
  · have h3 : ¬ cnt.count ≥ (cnt.max : Int) := by omega
    have h4 : ¬ cnt.count + 1 > (cnt.max : Int) := by omega
    simp [h2, h3, h4]
  · have h3 : cnt.count ≥ (cnt.max : Int) := by omega
    simp [h2, h3]


/-- normal form of the judge's bookkeeping when a request arrives for an existing entry -/
theorem specAcquire_nf (σ : SState) (c n : Str) (b : Bool) (e : Entry) (hn : n ≠ []) (he : σ.entries c n = some e) :
    (specAcquire σ c n b).reqs = σ.reqs ++ [⟨c, n, b, false⟩] ∧ (specAcquire σ c n b).last = σ.last ∧
    (specAcquire σ c n b).entries = fun c' n' =>
      if c' = c ∧ n' = n then some { e with inflight := if b then σ.reqs.length :: e.inflight else e.inflight }
      else σ.entries c' n' := by
  unfold specAcquire
  cases b with
  | false =>
    simp only [hn, false_or, Bool.false_eq_true, not_false_eq_true, if_true, if_false, true_and]
    funext c' n'
    by_cases h : c' = c ∧ n' = n
    · obtain ⟨rfl, rfl⟩ := h; simp [he]
    · simp [h]
  | true =>
    simp only [hn, false_or, not_true_eq_false, if_false, he, if_true]
    refine ⟨rfl, rfl, ?_⟩
    funext c' n'
    simp [SState.setEntry]

theorem specAcquire_default (σ : SState) (c n : Str) (b : Bool) (h : n = [] ∨ σ.entries c n = none) :
    specAcquire σ c n b = { σ with reqs := σ.reqs ++ [⟨c, n, b, false⟩] } := by
  unfold specAcquire
  rcases h with h | h
  · simp [h]
  · simp only [h]
    split <;> rfl

/-- A request arrives for `(c, n)` whose current limiter is object `id`; `k'`, `b` are what `TryAcquire` made of it. -/
theorem rel_arrive {w : World} {σ : SState} (h : RelCore w σ) (c n : Str) (cache : Cache) (id : Nat) (k k' : Kind)
    (b : Bool) (e : Entry) (hn : n ≠ []) (hc : w.cache c n = some cache) (hcur : cache.cur = some id)
    (hk : w.heap id = some k) (he : σ.entries c n = some e) (hty : k'.type = k.type)
    (hok : KindOk k' cache.config)
    (hcnt : ∀ cnt', k' = .counter cnt' →
      cnt'.count = ((if b then σ.reqs.length :: e.inflight else e.inflight).length : Nat)) :
    RelCore { (w.setHeap id k') with reqs := w.reqs ++ [⟨c, n, some id, b, false⟩] } (specAcquire σ c n b) := by
  obtain ⟨hr, hl, hen⟩ := specAcquire_nf σ c n b e hn he
  have hlen := h.reqsLen
  have hcacheEq : ∀ c' n', World.cache { (w.setHeap id k') with reqs := w.reqs ++ [⟨c, n, some id, b, false⟩] } c' n' = w.cache c' n' :=
    fun _ _ => rfl
  have hidlt := (h.curOk c n cache id hc hcur).1
  refine ⟨?_, ?_, ?_, ?_, ?_, ?_, ?_, ?_, ?_, ?_, ?_, ?_, ?_⟩
  · -- dom
    intro c' n'
    rw [hcacheEq, hen]
    by_cases hcn : c' = c ∧ n' = n
    · obtain ⟨rfl, rfl⟩ := hcn; simp [hc]
    · simp only [hcn, if_false]; exact h.dom c' n'
  · -- cfg
    intro c' n' cache' e' hc' he'
    rw [hcacheEq] at hc'
    rw [hen] at he'
    by_cases hcn : c' = c ∧ n' = n
    · obtain ⟨rfl, rfl⟩ := hcn
      simp only [and_self, if_true] at he'
      injection he' with he'; subst he'
      rw [hc] at hc'; injection hc' with hc'; subst hc'
      exact h.cfg c' n' cache e hc he
    · simp only [hcn, if_false] at he'
      exact h.cfg _ _ _ _ hc' he'
  · intro c' n' cache' hc'; exact h.name c' n' cache' hc'
  · -- curOk
    intro c' n' cache' id' hc' hcur'
    rw [hcacheEq] at hc'
    obtain ⟨hlt, k0, hk0, hty0, hok0⟩ := h.curOk c' n' cache' id' hc' hcur'
    refine ⟨hlt, ?_⟩
    show ∃ k1, (w.setHeap id k').heap id' = some k1 ∧ _
    rw [setHeap_heap]
    by_cases hid : id' = id
    · subst hid
      obtain ⟨rfl, rfl⟩ := h.inj c' n' c n cache' cache id' hc' hc hcur' hcur
      rw [hc] at hc'; injection hc' with hc'; subst hc'
      rw [hk] at hk0; injection hk0 with hk0; subst hk0
      exact ⟨k', by simp, hty.trans hty0, hok⟩
    · exact ⟨k0, by simp [hid, hk0], hty0, hok0⟩
  · intro c' n' cache' hc' hn'; exact h.curNone c' n' cache' hc' hn'
  · intro c1 n1 c2 n2 cache1 cache2 id' h1 h2 h3 h4; exact h.inj c1 n1 c2 n2 cache1 cache2 id' h1 h2 h3 h4
  · -- reqsLen
    show (w.reqs ++ _).length = _
    rw [hr]; simp [hlen]
  · -- reqsEq
    intro i r hi
    change (w.reqs ++ [_])[i]? = some r at hi
    rw [hr]
    rw [List.getElem?_append] at hi ⊢
    by_cases hlt : i < w.reqs.length
    · have hlt' : i < σ.reqs.length := by omega
      simp only [hlt, if_true] at hi
      simp only [hlt', if_true]
      exact h.reqsEq i r hi
    · have hlt' : ¬ i < σ.reqs.length := by omega
      simp only [hlt, if_false] at hi
      simp only [hlt', if_false]
      rw [← hlen]
      cases hd : i - w.reqs.length with
      | zero => rw [hd] at hi; simp at hi; subst hi; simp
      | succ j => rw [hd] at hi; simp at hi
  · -- reqObj
    intro i r id' hi hobj
    change (w.reqs ++ [_])[i]? = some r at hi
    show id' < w.next
    rw [List.getElem?_append] at hi
    by_cases hlt : i < w.reqs.length
    · simp only [hlt, if_true] at hi; exact h.reqObj i r id' hi hobj
    · simp only [hlt, if_false] at hi
      cases hd : i - w.reqs.length with
      | zero => rw [hd] at hi; simp at hi; subst hi; simp at hobj; omega
      | succ j => rw [hd] at hi; simp at hi
  · -- own
    intro i r id' c' n' cache' hi hobj hc' hcur'
    change (w.reqs ++ [_])[i]? = some r at hi
    rw [hcacheEq] at hc'
    rw [List.getElem?_append] at hi
    by_cases hlt : i < w.reqs.length
    · simp only [hlt, if_true] at hi; exact h.own i r id' c' n' cache' hi hobj hc' hcur'
    · simp only [hlt, if_false] at hi
      cases hd : i - w.reqs.length with
      | zero =>
        rw [hd] at hi; simp at hi; subst hi
        simp at hobj; subst hobj
        exact h.inj c' n' c n cache' cache id hc' hc hcur' hcur
      | succ j => rw [hd] at hi; simp at hi
  · -- count
    intro c' n' cache' e' id' cnt' hc' he' hcur' hh
    rw [hcacheEq] at hc'
    rw [hen] at he'
    change (w.setHeap id k').heap id' = some (.counter cnt') at hh
    rw [setHeap_heap] at hh
    by_cases hcn : c' = c ∧ n' = n
    · obtain ⟨rfl, rfl⟩ := hcn
      simp only [and_self, if_true] at he'
      injection he' with he'; subst he'
      rw [hc] at hc'; injection hc' with hc'; subst hc'
      rw [hcur] at hcur'; injection hcur' with hcur'; subst hcur'
      simp only [if_true] at hh
      injection hh with hh
      exact hcnt cnt' hh
    · simp only [hcn, if_false] at he'
      have hne : id' ≠ id := by
        intro heq; subst heq
        exact hcn (h.inj c' n' c n cache' cache id' hc' hc hcur' hcur)
      simp only [hne, if_false] at hh
      exact h.count c' n' cache' e' id' cnt' hc' he' hcur' hh
  · -- infl
    intro c' n' cache' e' i hc' he'
    rw [hcacheEq] at hc'
    rw [hen] at he'
    show i ∈ e'.inflight ↔ HoldsL (w.reqs ++ [_]) i cache'.cur
    rw [holdsL_append_iff]
    by_cases hcn : c' = c ∧ n' = n
    · obtain ⟨rfl, rfl⟩ := hcn
      simp only [and_self, if_true] at he'
      injection he' with he'; subst he'
      rw [hc] at hc'; injection hc' with hc'; subst hc'
      have hold := h.infl c' n' cache e i hc he
      cases b with
      | true =>
        simp only [if_true, List.mem_cons, hold, hcur, hlen, Option.isSome_some, and_true, true_and]
        exact Or.comm
      | false =>
        simp only [Bool.false_eq_true, if_false, false_and, and_false, or_false]
        exact hold
    · simp only [hcn, if_false] at he'
      have hold := h.infl c' n' cache' e' i hc' he'
      have hne : ¬ (some id = cache'.cur) := by
        intro heq
        exact hcn (h.inj c' n' c n cache' cache id hc' hc heq.symm hcur)
      simp [hold, hne]
  · -- nodup
    intro c' n' e' he'
    rw [hen] at he'
    by_cases hcn : c' = c ∧ n' = n
    · obtain ⟨rfl, rfl⟩ := hcn
      simp only [and_self, if_true] at he'
      injection he' with he'; subst he'
      have hnd := h.nodup c' n' e he
      cases b with
      | false => simpa using hnd
      | true =>
        simp only [if_true]
        refine List.nodup_cons.2 ⟨?_, hnd⟩
        intro hmem
        have := holdsL_lt ((h.infl c' n' cache e _ hc he).1 hmem)
        omega
    · simp only [hcn, if_false] at he'
      exact h.nodup c' n' e' he'


theorem rel_arrive_full {w : World} {σ : SState} (h : Rel w σ) (c n : Str) (cache : Cache) (id : Nat) (k k' : Kind)
    (b : Bool) (e : Entry) (hn : n ≠ []) (hc : w.cache c n = some cache) (hcur : cache.cur = some id)
    (hk : w.heap id = some k) (he : σ.entries c n = some e) (hty : k'.type = k.type)
    (hok : KindOk k' cache.config)
    (hcnt : ∀ cnt', k' = .counter cnt' →
      cnt'.count = ((if b then σ.reqs.length :: e.inflight else e.inflight).length : Nat)) :
    Rel { (w.setHeap id k') with reqs := w.reqs ++ [⟨c, n, some id, b, false⟩] } (specAcquire σ c n b) := by
  refine ⟨rel_arrive h.core c n cache id k k' b e hn hc hcur hk he hty hok hcnt, ?_, ?_⟩
  · intro d
    rw [(specAcquire_nf σ c n b e hn he).2.1]
    exact h.last d
  · exact h.dom2

/-- A request arrives that is handed the default (exempt) limiter. -/
theorem rel_arrive_default {w : World} {σ : SState} (h : RelCore w σ) (c n : Str) (b : Bool) :
    RelCore { w with reqs := w.reqs ++ [⟨c, n, none, b, false⟩] } { σ with reqs := σ.reqs ++ [⟨c, n, b, false⟩] } := by
  have hlen := h.reqsLen
  have hH : ∀ i cur, HoldsL (w.reqs ++ [⟨c, n, none, b, false⟩]) i cur ↔ HoldsL w.reqs i cur := by
    intro i cur; rw [holdsL_append_iff]; simp
  have hget : ∀ i (r : Req), (w.reqs ++ [(⟨c, n, none, b, false⟩ : Req)])[i]? = some r →
      w.reqs[i]? = some r ∨ (i = w.reqs.length ∧ r = ⟨c, n, none, b, false⟩) := by
    intro i r hi
    rw [List.getElem?_append] at hi
    by_cases hlt : i < w.reqs.length
    · simp only [hlt, if_true] at hi; exact Or.inl hi
    · simp only [hlt, if_false] at hi
      cases hd : i - w.reqs.length with
      | zero => rw [hd] at hi; simp at hi; exact Or.inr ⟨by omega, hi.symm⟩
      | succ j => rw [hd] at hi; simp at hi
  refine ⟨h.dom, h.cfg, h.name, h.curOk, h.curNone, h.inj, ?_, ?_, ?_, ?_, h.count, ?_, h.nodup⟩
  · show (w.reqs ++ _).length = (σ.reqs ++ _).length
    simp [hlen]
  · intro i r hi
    change (w.reqs ++ [_])[i]? = some r at hi
    show (σ.reqs ++ [_])[i]? = _
    rcases hget i r hi with h1 | ⟨h1, h2⟩
    · have hlt : i < σ.reqs.length := by rw [← hlen]; exact (List.getElem?_eq_some_iff.1 h1).1
      rw [List.getElem?_append_left hlt]; exact h.reqsEq i r h1
    · subst h1; subst h2; rw [hlen]; simp
  · intro i r id hi hobj
    change (w.reqs ++ [_])[i]? = some r at hi
    rcases hget i r hi with h1 | ⟨_, h2⟩
    · exact h.reqObj i r id h1 hobj
    · subst h2; simp at hobj
  · intro i r id c' n' cache hi hobj hc hcur
    change (w.reqs ++ [_])[i]? = some r at hi
    rcases hget i r hi with h1 | ⟨_, h2⟩
    · exact h.own i r id c' n' cache h1 hobj hc hcur
    · subst h2; simp at hobj
  · intro c' n' cache e i hc he
    show _ ↔ HoldsL (w.reqs ++ [_]) i cache.cur
    rw [hH]; exact h.infl c' n' cache e i hc he

theorem getOrDefault_eq (w : World) (c n : Str) :
    getOrDefault w c n = if n = [] then none else (w.cache c n).map (·.cur) := by
  unfold getOrDefault World.cache
  split
  · rfl
  · cases (w.lims c).caches n <;> rfl

/-- Arrival: the model never panics, its answer is what the judge demands, and the relation is kept. -/
theorem acquire_step {w : World} {σ : SState} (h : Rel w σ) (c n : Str) (tb : Bool) :
    ∃ w' b, acquire w c n tb = .ok (w', b) ∧ check σ (.acquire c n tb) (.acquired b) = true ∧
      Rel w' (specAcquire σ c n b) := by
  have hc := h.core
  unfold acquire
  rw [getOrDefault_eq]
  by_cases hn : n = []
  · -- no schema name: the default limiter
    simp only [hn, if_true]
    refine ⟨_, true, rfl, by simp [check, demand], ?_⟩
    rw [specAcquire_default σ c [] true (Or.inl rfl)]
    exact ⟨rel_arrive_default hc c [] true, h.last, h.dom2⟩
  · simp only [hn, if_false]
    cases hcache : w.cache c n with
    | none =>
      have hen : σ.entries c n = none := by
        have := hc.dom c n; rw [hcache] at this
        cases he : σ.entries c n with
        | none => rfl
        | some e => rw [he] at this; simp at this
      simp only [Option.map_none]
      refine ⟨_, true, rfl, by simp [check, demand, hn, hen], ?_⟩
      rw [specAcquire_default σ c n true (Or.inr hen)]
      exact ⟨rel_arrive_default hc c n true, h.last, h.dom2⟩
    | some cache =>
      obtain ⟨e, he⟩ : ∃ e, σ.entries c n = some e := by
        have := hc.dom c n; rw [hcache] at this
        cases he : σ.entries c n with
        | none => rw [he] at this; simp at this
        | some e => exact ⟨e, rfl⟩
      have hcfg := hc.cfg c n cache e hcache he
      simp only [Option.map_some]
      cases hcur : cache.cur with
      | none =>
        -- a nil limiter is only ever stored under the empty name
        have hz := hc.curNone c n cache hcache hcur
        have hname := hc.name c n cache hcache
        rw [hz] at hname
        exact absurd hname.symm hn
      | some id =>
        obtain ⟨hlt, k, hk, hty, hok⟩ := hc.curOk c n cache id hcache hcur
        simp only [hk]
        cases k with
        | counter cnt =>
          have hcount := hc.count c n cache e id cnt hcache he hcur hk
          have hnn : 0 ≤ cnt.count := by omega
          obtain ⟨m, hmi, hmax⟩ := hok cnt rfl
          have hgt : guessType e.config = .maxInflight := by rw [← hcfg, ← hty]; rfl
          rw [hcfg] at hmi
          simp only [Kind.tryAcquire, counter_tryAcquire_eq cnt hnn]
          by_cases hfree : cnt.count < (cnt.max : Int)
          · simp only [hfree, if_true]
            refine ⟨_, true, rfl, ?_, ?_⟩
            · have : e.inflight.length < toU32 m := by omega
              simp [check, demand, hn, he, hgt, hmi, this]
            · refine rel_arrive_full h c n cache id _ (.counter { cnt with count := cnt.count + 1 }) true e hn hcache hcur hk he rfl ?_ ?_
              · intro cnt' hc'; injection hc' with hc'; subst hc'; exact ⟨m, hcfg ▸ hmi, hmax⟩
              · intro cnt' hc'; injection hc' with hc'; subst hc'
                simp only [if_true, List.length_cons]; push_cast; omega
          · simp only [hfree, if_false]
            refine ⟨_, false, rfl, ?_, ?_⟩
            · have : ¬ e.inflight.length < toU32 m := by omega
              simp [check, demand, hn, he, hgt, hmi, this]
            · refine rel_arrive_full h c n cache id _ (.counter cnt) false e hn hcache hcur hk he rfl hok ?_
              intro cnt' hc'; injection hc' with hc'; subst hc'
              simpa using hcount
        | infinity =>
          have hgt : guessType e.config = .exempt := by rw [← hcfg, ← hty]; rfl
          simp only [Kind.tryAcquire]
          refine ⟨_, true, rfl, by simp [check, demand, hn, he, hgt], ?_⟩
          refine rel_arrive_full h c n cache id _ .infinity true e hn hcache hcur hk he rfl hok ?_
          intro cnt' hc'; cases hc'
        | bucket q bb =>
          have hgt : guessType e.config = .tokenBucket := by rw [← hcfg, ← hty]; rfl
          simp only [Kind.tryAcquire]
          refine ⟨_, tb, rfl, by simp [check, demand, hn, he, hgt], ?_⟩
          refine rel_arrive_full h c n cache id _ (.bucket q bb) tb e hn hcache hcur hk he rfl hok ?_
          intro cnt' hc'; cases hc'

end KG.Lemmas.LocalLimiter
