import KG.Spec.Strategy
/-! Helper lemmas for C20: `int64` wrap, and inversion of `beforeCreate` / `beforeUpdate`. -/
namespace KG.Lemmas.Strategy
open KG.Model.Strategy KG.Spec.Strategy

theorem toI64_isI64 (x : Int) : isI64 (toI64 x) := by
  unfold isI64 toI64 i64Lo i64Hi; omega

/-- The "must not be decremented" check of `ValidateObjectMetaAccessorUpdate` rules the wrap out. -/
theorem toI64_succ_of_ge {g : Int} (hg : isI64 g) (h : ¬ toI64 (g + 1) < g) : toI64 (g + 1) = g + 1 := by
  unfold isI64 i64Lo i64Hi at hg; unfold toI64 at *; omega

theorem toI64_succ_ne (g : Int) : toI64 (g + 1) ≠ g := by
  unfold toI64; omega

section
variable {L A M S T A' S' : Type} [DecidableEq S'] [DecidableEq A']

omit [DecidableEq S'] [DecidableEq A'] in
/-- What an accepted `beforeCreate` returned. -/
theorem beforeCreate_ok {r : Reg} {mr : MetaRules L A M S T} {zero : T} {o o' : Obj L A M S T}
    (h : beforeCreate r mr zero o = .ok o') :
    r.shape.hasMeta = true ∧
    o' = { prepareForCreate r.subStatus r.shape zero o with
            otherMeta := mr.fixCreate (prepareForCreate r.subStatus r.shape zero o).otherMeta } := by
  unfold beforeCreate at h
  split at h
  · cases h
  · rename_i hm
    simp only at h
    split at h
    · cases h
    · split at h
      · cases h
      · injection h with h
        exact ⟨by simpa using hm, h.symm⟩

/-- What an accepted `beforeUpdate` returned, and the checks it passed. -/
theorem beforeUpdate_ok {sem : Sem A S A' S'} {r : Reg} {ep : Endpoint} {mr : MetaRules L A M S T}
    {obj old o' : Obj L A M S T} (h : beforeUpdate sem r ep mr obj old = .ok o') :
    (ep = .status → r.served = true) ∧ r.shape.hasMeta = true ∧
    o' = { updatePrepare sem r ep { obj with generation := old.generation } old with
            otherMeta := mr.fixUpdate (updatePrepare sem r ep { obj with generation := old.generation } old).otherMeta old.otherMeta } ∧
    ¬ o'.generation < 0 ∧ ¬ o'.generation < old.generation := by
  unfold beforeUpdate at h
  split at h
  · cases h
  · rename_i hs
    split at h
    · cases h
    · rename_i hm
      simp only at h
      split at h
      · cases h
      · rename_i h0
        split at h
        · cases h
        · rename_i h1
          split at h
          · cases h
          · injection h with h
            subst h
            refine ⟨?_, by simpa using hm, rfl, h0, h1⟩
            intro he
            cases hsv : r.served
            · exact absurd ⟨he, by simp [hsv]⟩ hs
            · rfl

end
end KG.Lemmas.Strategy
