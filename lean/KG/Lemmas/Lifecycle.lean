import KG.Spec.Lifecycle
/-! Helper lemmas for C15 (`KG.Props.C15`). -/
namespace KG.Lemmas.Lifecycle
open KG KG.Model.Lifecycle KG.Spec.Lifecycle

/-! ## membership / done -/

theorem memSid_iff (cs : List Sid) (s : Sid) : memSid cs s = true ↔ s ∈ cs := by
  simp [memSid]

theorem done_iff (cs : List Sid) (ch : Chain) : done cs ch = true ↔ ∃ s, s ∈ ch ∧ s ∈ cs := by
  simp [done, memSid_iff]

theorem done_false_iff (cs : List Sid) (ch : Chain) : done cs ch = false ↔ ∀ s, s ∈ ch → s ∉ cs := by
  rw [← Bool.not_eq_true, done_iff]
  constructor
  · intro h s hs hc; exact h ⟨s, hs, hc⟩
  · intro h ⟨s, hs, hc⟩; exact h s hs hc

theorem done_mono {cs cs' : List Sid} {ch : Chain} (h : ∀ s, s ∈ cs → s ∈ cs') (hd : done cs ch = true) :
    done cs' ch = true := by
  rw [done_iff] at *
  obtain ⟨s, hs, hc⟩ := hd
  exact ⟨s, hs, h s hc⟩

theorem done_congr {cs cs' : List Sid} {ch : Chain} (h : ∀ s, s ∈ ch → (s ∈ cs' ↔ s ∈ cs)) :
    done cs' ch = done cs ch := by
  rw [Bool.eq_iff_iff, done_iff, done_iff]
  constructor
  · intro ⟨s, hs, hc⟩; exact ⟨s, hs, (h s hs).1 hc⟩
  · intro ⟨s, hs, hc⟩; exact ⟨s, hs, (h s hs).2 hc⟩

theorem hasStr_iff (l : List Str) (u : Str) : hasStr l u = true ↔ u ∈ l := by
  simp [hasStr]

theorem hasStr_false_iff (l : List Str) (u : Str) : hasStr l u = false ↔ u ∉ l := by
  rw [← Bool.not_eq_true, hasStr_iff]

/-! ## strings.ToLower is idempotent -/

theorem lowerByte_idem (b : UInt8) : lowerByte (lowerByte b) = lowerByte b := by
  unfold lowerByte
  by_cases h : 65 ≤ b.toNat ∧ b.toNat ≤ 90
  · have h2 : (UInt8.ofNat (b.toNat + 32)).toNat = b.toNat + 32 := by
      rw [UInt8.toNat_ofNat']
      omega
    simp only [h, and_self, if_true, h2]
    rw [if_neg]
    omega
  · simp [h]

theorem lower_idem (s : Str) : lower (lower s) = lower s := by
  unfold lower
  rw [List.map_map]
  apply List.map_congr_left
  intro b _
  exact lowerByte_idem b


/-! ## generic: folds -/

theorem foldl_inv {α β : Type} (P : α → Prop) (f : α → β → α) (h : ∀ s x, P s → P (f s x)) :
    ∀ (l : List β) (s : α), P s → P (l.foldl f s) := by
  intro l
  induction l with
  | nil => intro s hs; exact hs
  | cons x xs ih => intro s hs; exact ih (f s x) (h s x hs)

/-! ## EnsureGatewayHealthCheck -/

theorem ensureHC_id (e : Ep) : (ensureHC e).2.id = e.id := by
  obtain ⟨id, owner, url, inMap, d, healthy, on, gen⟩ := e
  cases d <;> cases on <;> rfl
theorem ensureHC_owner (e : Ep) : (ensureHC e).2.owner = e.owner := by
  obtain ⟨id, owner, url, inMap, d, healthy, on, gen⟩ := e
  cases d <;> cases on <;> rfl
theorem ensureHC_url (e : Ep) : (ensureHC e).2.url = e.url := by
  obtain ⟨id, owner, url, inMap, d, healthy, on, gen⟩ := e
  cases d <;> cases on <;> rfl
theorem ensureHC_inMap (e : Ep) : (ensureHC e).2.inMap = e.inMap := by
  obtain ⟨id, owner, url, inMap, d, healthy, on, gen⟩ := e
  cases d <;> cases on <;> rfl
theorem ensureHC_disabled (e : Ep) : (ensureHC e).2.disabled = e.disabled := by
  obtain ⟨id, owner, url, inMap, d, healthy, on, gen⟩ := e
  cases d <;> cases on <;> rfl
theorem ensureHC_healthy (e : Ep) : (ensureHC e).2.healthy = e.healthy := by
  obtain ⟨id, owner, url, inMap, d, healthy, on, gen⟩ := e
  cases d <;> cases on <;> rfl
theorem ensureHC_hcOn (e : Ep) : (ensureHC e).2.hcOn = !e.disabled := by
  obtain ⟨id, owner, url, inMap, d, healthy, on, gen⟩ := e
  cases d <;> cases on <;> rfl

/-- the only scope `EnsureGatewayHealthCheck` ever cancels is the running loop of an endpoint being disabled -/
theorem ensureHC_cancels (e : Ep) (s : Sid) (h : s ∈ (ensureHC e).1) :
    e.disabled = true ∧ e.hcOn = true ∧ s = Sid.hc e.id (e.hcGen - 1) := by
  obtain ⟨id, owner, url, inMap, d, healthy, on, gen⟩ := e
  cases d <;> cases on <;> simp [ensureHC] at h
  exact ⟨rfl, rfl, h⟩

theorem ensureHC_hc_old (e : Ep) (cs : List Sid)
    (hold : ∀ g, g + 1 < e.hcGen → Sid.hc e.id g ∈ cs)
    (hoff : e.hcOn = false → ∀ g, g < e.hcGen → Sid.hc e.id g ∈ cs) :
    ∀ g, g + 1 < (ensureHC e).2.hcGen → Sid.hc (ensureHC e).2.id g ∈ (ensureHC e).1 ++ cs := by
  intro g hg
  rw [ensureHC_id]
  apply List.mem_append_right
  obtain ⟨id, owner, url, inMap, d, healthy, on, gen⟩ := e
  cases d <;> cases on <;> simp [ensureHC] at hg hold hoff ⊢
  · exact hoff g (by omega)
  · exact hold g hg
  · exact hold g hg
  · exact hold g hg

theorem ensureHC_hc_off (e : Ep) (cs : List Sid)
    (hold : ∀ g, g + 1 < e.hcGen → Sid.hc e.id g ∈ cs)
    (hoff : e.hcOn = false → ∀ g, g < e.hcGen → Sid.hc e.id g ∈ cs) :
    (ensureHC e).2.hcOn = false → ∀ g, g < (ensureHC e).2.hcGen → Sid.hc (ensureHC e).2.id g ∈ (ensureHC e).1 ++ cs := by
  intro hon g hg
  rw [ensureHC_id]
  rw [ensureHC_hcOn] at hon
  obtain ⟨id, owner, url, inMap, d, healthy, on, gen⟩ := e
  cases d <;> cases on <;> simp [ensureHC] at hon hg hold hoff ⊢
  · exact hoff g hg
  · by_cases hlast : g + 1 < gen
    · exact Or.inr (hold g hlast)
    · left; omega

/-! ## the endpoint-side invariant -/

structure InvE (next : Nat) (eps : List Ep) (cs : List Sid) : Prop where
  ep_lt : ∀ e, e ∈ eps → e.id < next
  nodup : eps.Pairwise (fun a b => a.id ≠ b.id)
  gone : ∀ e, e ∈ eps → e.inMap = false → Sid.ep e.id ∈ cs
  hc_sync : ∀ e, e ∈ eps → e.hcOn = !e.disabled
  hc_old : ∀ e, e ∈ eps → ∀ g, g + 1 < e.hcGen → Sid.hc e.id g ∈ cs
  hc_off : ∀ e, e ∈ eps → e.hcOn = false → ∀ g, g < e.hcGen → Sid.hc e.id g ∈ cs

theorem InvE.eq_of_id {next : Nat} {eps : List Ep} {cs : List Sid} (h : InvE next eps cs) {a b : Ep}
    (ha : a ∈ eps) (hb : b ∈ eps) (hid : a.id = b.id) : a = b := by
  have := h.nodup
  clear h
  induction eps with
  | nil => cases ha
  | cons x xs ih =>
    rw [List.pairwise_cons] at this
    cases ha with
    | head =>
      cases hb with
      | head => rfl
      | tail _ hb' => exact absurd hid (this.1 b hb')
    | tail _ ha' =>
      cases hb with
      | head => exact absurd hid.symm (this.1 a ha')
      | tail _ hb' => exact ih ha' hb' this.2

/-- more cancelled scopes, a larger counter: still fine -/
theorem InvE.weaken {next next' : Nat} {eps : List Ep} {cs cs' : List Sid} (h : InvE next eps cs)
    (hn : next ≤ next') (hc : ∀ s, s ∈ cs → s ∈ cs') : InvE next' eps cs' where
  ep_lt e he := Nat.lt_of_lt_of_le (h.ep_lt e he) hn
  nodup := h.nodup
  gone e he hi := hc _ (h.gone e he hi)
  hc_sync := h.hc_sync
  hc_old e he g hg := hc _ (h.hc_old e he g hg)
  hc_off e he ho g hg := hc _ (h.hc_off e he ho g hg)

theorem updEp_id (o : Nat) (u : Str) (dis : Bool) (e : Ep) : (updEp o u dis e).id = e.id := by
  unfold updEp; split <;> simp [ensureHC_id]
theorem updEp_owner (o : Nat) (u : Str) (dis : Bool) (e : Ep) : (updEp o u dis e).owner = e.owner := by
  unfold updEp; split <;> simp [ensureHC_owner]
theorem updEp_url (o : Nat) (u : Str) (dis : Bool) (e : Ep) : (updEp o u dis e).url = e.url := by
  unfold updEp; split <;> simp [ensureHC_url]
theorem updEp_inMap (o : Nat) (u : Str) (dis : Bool) (e : Ep) : (updEp o u dis e).inMap = e.inMap := by
  unfold updEp; split <;> simp [ensureHC_inMap]
theorem updEp_healthy (o : Nat) (u : Str) (dis : Bool) (e : Ep) : (updEp o u dis e).healthy = e.healthy := by
  unfold updEp; split <;> simp [ensureHC_healthy]

theorem epMatches_iff (o : Nat) (u : Str) (e : Ep) : epMatches o u e = true ↔ e.owner = o ∧ e.inMap = true ∧ e.url = u := by
  simp [epMatches, and_assoc]

theorem isDropped_iff (o : Nat) (w : List Str) (e : Ep) : isDropped o w e = true ↔ e.owner = o ∧ e.inMap = true ∧ e.url ∉ w := by
  simp [isDropped, hasStr, and_assoc]

theorem addOrUpdate_invE (st : State) (o : Nat) (u : Str) (dis : Bool) (h : InvE st.next st.eps st.cancels) :
    InvE (addOrUpdate st o u dis).next (addOrUpdate st o u dis).eps (addOrUpdate st o u dis).cancels := by
  unfold addOrUpdate
  split
  · -- existing endpoint
    refine ⟨?_, ?_, ?_, ?_, ?_, ?_⟩
    · intro e he
      simp only [List.mem_map] at he
      obtain ⟨e0, he0, rfl⟩ := he
      rw [updEp_id]; exact h.ep_lt e0 he0
    · exact List.Pairwise.map _ (fun a b hab => by rw [updEp_id, updEp_id]; exact hab) h.nodup
    · intro e he hi
      simp only [List.mem_map] at he
      obtain ⟨e0, he0, rfl⟩ := he
      rw [updEp_inMap] at hi
      rw [updEp_id]
      exact List.mem_append_right _ (h.gone e0 he0 hi)
    · intro e he
      simp only [List.mem_map] at he
      obtain ⟨e0, he0, rfl⟩ := he
      unfold updEp
      split
      · rw [ensureHC_hcOn, ensureHC_disabled]
      · exact h.hc_sync e0 he0
    · intro e he g hg
      simp only [List.mem_map] at he
      obtain ⟨e0, he0, rfl⟩ := he
      unfold updEp at hg ⊢
      split at hg
      · rename_i hm
        simp only [hm, if_true]
        have := ensureHC_hc_old { e0 with disabled := dis } st.cancels (h.hc_old e0 he0) (h.hc_off e0 he0) g hg
        rcases List.mem_append.1 this with h1 | h1
        · apply List.mem_append_left
          exact List.mem_flatMap.2 ⟨e0, he0, by unfold updCancels; simp only [hm, if_true]; exact h1⟩
        · exact List.mem_append_right _ h1
      · rename_i hm
        simp only [hm]
        exact List.mem_append_right _ (h.hc_old e0 he0 g hg)
    · intro e he hon g hg
      simp only [List.mem_map] at he
      obtain ⟨e0, he0, rfl⟩ := he
      unfold updEp at hg hon ⊢
      split at hg
      · rename_i hm
        simp only [hm, if_true] at hon ⊢
        have := ensureHC_hc_off { e0 with disabled := dis } st.cancels (h.hc_old e0 he0) (h.hc_off e0 he0) hon g hg
        rcases List.mem_append.1 this with h1 | h1
        · apply List.mem_append_left
          exact List.mem_flatMap.2 ⟨e0, he0, by unfold updCancels; simp only [hm, if_true]; exact h1⟩
        · exact List.mem_append_right _ h1
      · rename_i hm
        simp only [hm] at hon ⊢
        exact List.mem_append_right _ (h.hc_off e0 he0 hon g hg)
  · -- new endpoint
    refine ⟨?_, ?_, ?_, ?_, ?_, ?_⟩
    · intro e he
      simp only [List.mem_append, List.mem_singleton] at he
      rcases he with he | rfl
      · exact Nat.lt_succ_of_lt (h.ep_lt e he)
      · rw [ensureHC_id]; exact Nat.lt_succ_self _
    · rw [List.pairwise_append]
      refine ⟨h.nodup, List.pairwise_singleton _ _, ?_⟩
      intro a ha b hb
      simp only [List.mem_singleton] at hb
      subst hb
      rw [ensureHC_id]
      exact Nat.ne_of_lt (h.ep_lt a ha)
    · intro e he hi
      simp only [List.mem_append, List.mem_singleton] at he
      rcases he with he | rfl
      · exact List.mem_append_right _ (h.gone e he hi)
      · rw [ensureHC_inMap] at hi; cases hi
    · intro e he
      simp only [List.mem_append, List.mem_singleton] at he
      rcases he with he | rfl
      · exact h.hc_sync e he
      · rw [ensureHC_hcOn, ensureHC_disabled]
    · intro e he g hg
      simp only [List.mem_append, List.mem_singleton] at he
      rcases he with he | rfl
      · exact List.mem_append_right _ (h.hc_old e he g hg)
      · exfalso
        unfold ensureHC at hg
        cases dis <;> simp at hg
    · intro e he hon g hg
      simp only [List.mem_append, List.mem_singleton] at he
      rcases he with he | rfl
      · exact List.mem_append_right _ (h.hc_off e he hon g hg)
      · exfalso
        unfold ensureHC at hg hon
        cases dis <;> simp at hg hon

theorem dropEp_id (o : Nat) (w : List Str) (e : Ep) : (dropEp o w e).id = e.id := by
  unfold dropEp; split <;> rfl

/-- the state after the first loop of `syncEndpoints` -/
def dropPhase (st : State) (o : Nat) (wanted : List Str) : State :=
  { st with eps := st.eps.map (dropEp o wanted),
            cancels := (st.eps.filter (isDropped o wanted)).map (fun e => Sid.ep e.id) ++ st.cancels }

theorem syncEndpoints_eq (st : State) (o : Nat) (servers : List (Str × Bool)) :
    syncEndpoints st o servers =
      servers.foldl (fun s sv => addOrUpdate s o sv.1 (disabledOf servers sv.1)) (dropPhase st o (servers.map (·.1))) := rfl

theorem dropPhase_invE (st : State) (o : Nat) (w : List Str) (h : InvE st.next st.eps st.cancels) :
    InvE (dropPhase st o w).next (dropPhase st o w).eps (dropPhase st o w).cancels := by
  unfold dropPhase
  refine ⟨?_, ?_, ?_, ?_, ?_, ?_⟩
  · intro e he
    simp only [List.mem_map] at he
    obtain ⟨e0, he0, rfl⟩ := he
    rw [dropEp_id]; exact h.ep_lt e0 he0
  · exact List.Pairwise.map _ (fun a b hab => by rw [dropEp_id, dropEp_id]; exact hab) h.nodup
  · intro e he hi
    simp only [List.mem_map] at he
    obtain ⟨e0, he0, rfl⟩ := he
    rw [dropEp_id]
    by_cases hd : isDropped o w e0 = true
    · apply List.mem_append_left
      exact List.mem_map.2 ⟨e0, List.mem_filter.2 ⟨he0, hd⟩, rfl⟩
    · apply List.mem_append_right
      unfold dropEp at hi
      simp only [hd] at hi
      exact h.gone e0 he0 hi
  · intro e he
    simp only [List.mem_map] at he
    obtain ⟨e0, he0, rfl⟩ := he
    unfold dropEp; split <;> exact h.hc_sync e0 he0
  · intro e he g hg
    simp only [List.mem_map] at he
    obtain ⟨e0, he0, rfl⟩ := he
    apply List.mem_append_right
    unfold dropEp at hg ⊢; split at hg <;> exact h.hc_old e0 he0 g hg
  · intro e he hon g hg
    simp only [List.mem_map] at he
    obtain ⟨e0, he0, rfl⟩ := he
    apply List.mem_append_right
    unfold dropEp at hg hon ⊢; split at hg <;> exact h.hc_off e0 he0 hon g hg

theorem syncEndpoints_invE (st : State) (o : Nat) (servers : List (Str × Bool)) (h : InvE st.next st.eps st.cancels) :
    InvE (syncEndpoints st o servers).next (syncEndpoints st o servers).eps (syncEndpoints st o servers).cancels := by
  rw [syncEndpoints_eq]
  exact foldl_inv (fun s => InvE s.next s.eps s.cancels) _ (fun s sv hs => addOrUpdate_invE s o sv.1 _ hs) _ _
    (dropPhase_invE st o _ h)

end KG.Lemmas.Lifecycle
