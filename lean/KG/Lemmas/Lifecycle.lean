import KG.Spec.Lifecycle
/-! Helper lemmas for C15 (`KG.Props.C15`). -/
namespace KG.Lemmas.Lifecycle
open KG KG.Model.Lifecycle KG.Spec.Lifecycle

/-! ## membership / done -/

theorem memSid_iff (cs : List Sid) (s : Sid) : memSid cs s = true ↔ s ∈ cs := by
  simp [memSid]

theorem done_iff (cs : List Sid) (ch : Chain) : done cs ch = true ↔ ∃ s, s ∈ ch ∧ s ∈ cs := by
  simp [done, memSid_iff]

theorem done_false_iff (cs : List Sid) (ch : Chain) : done cs ch = false ↔ ∀ s, s ∈ ch → s ∉ cs := by
  rw [← Bool.not_eq_true, done_iff]
  constructor
  · intro h s hs hc; exact h ⟨s, hs, hc⟩
  · intro h ⟨s, hs, hc⟩; exact h s hs hc

theorem done_mono {cs cs' : List Sid} {ch : Chain} (h : ∀ s, s ∈ cs → s ∈ cs') (hd : done cs ch = true) :
    done cs' ch = true := by
  rw [done_iff] at *
  obtain ⟨s, hs, hc⟩ := hd
  exact ⟨s, hs, h s hc⟩

theorem done_congr {cs cs' : List Sid} {ch : Chain} (h : ∀ s, s ∈ ch → (s ∈ cs' ↔ s ∈ cs)) :
    done cs' ch = done cs ch := by
  rw [Bool.eq_iff_iff, done_iff, done_iff]
  constructor
  · intro ⟨s, hs, hc⟩; exact ⟨s, hs, (h s hs).1 hc⟩
  · intro ⟨s, hs, hc⟩; exact ⟨s, hs, (h s hs).2 hc⟩

theorem hasStr_iff (l : List Str) (u : Str) : hasStr l u = true ↔ u ∈ l := by
  simp [hasStr]

theorem hasStr_false_iff (l : List Str) (u : Str) : hasStr l u = false ↔ u ∉ l := by
  rw [← Bool.not_eq_true, hasStr_iff]

/-! ## the chains -/

theorem Ep.chain_eq (e : Ep) : e.chain = [Sid.ep e.id, Sid.cl e.owner] := rfl
theorem Ep.hcChain_eq (e : Ep) (g : Nat) (h : e.hcParent g = e.chain) :
    e.hcChain g = [Sid.hc e.id g, Sid.ep e.id, Sid.cl e.owner] := by
  unfold Ep.hcChain; rw [h]; rfl
theorem reqChain_eq (r eid o : Nat) : reqChain r eid o = [Sid.rq r, Sid.ep eid, Sid.cl o] := rfl
theorem droppedCancels_eq (o : Nat) (w : List Str) (eps : List Ep) :
    droppedCancels o w eps = (eps.filter (isDropped o w)).map (fun e => Sid.ep e.id) := rfl
theorem dropEp_eq (o : Nat) (w : List Str) (e : Ep) :
    dropEp o w e = if isDropped o w e then { e with inMap := false } else e := rfl

/-! ## strings.ToLower is idempotent -/

theorem lowerByte_idem (b : UInt8) : lowerByte (lowerByte b) = lowerByte b := by
  unfold lowerByte
  by_cases h : 65 ≤ b.toNat ∧ b.toNat ≤ 90
  · have h2 : (UInt8.ofNat (b.toNat + 32)).toNat = b.toNat + 32 := by
      rw [UInt8.toNat_ofNat']
      omega
    simp only [h, and_self, if_true, h2]
    rw [if_neg]
    omega
  · simp [h]

theorem lower_idem (s : Str) : lower (lower s) = lower s := by
  unfold lower
  rw [List.map_map]
  apply List.map_congr_left
  intro b _
  exact lowerByte_idem b


/-! ## generic: folds -/

theorem foldl_inv {α β : Type} (P : α → Prop) (f : α → β → α) (h : ∀ s x, P s → P (f s x)) :
    ∀ (l : List β) (s : α), P s → P (l.foldl f s) := by
  intro l
  induction l with
  | nil => intro s hs; exact hs
  | cons x xs ih => intro s hs; exact ih (f s x) (h s x hs)

/-! ## EnsureGatewayHealthCheck -/

theorem ensureHC_id (e : Ep) (ctx : Chain) : (ensureHC e ctx).2.id = e.id := by
  obtain ⟨id, owner, url, inMap, d, healthy, on, gen, par⟩ := e
  cases d <;> cases on <;> rfl
theorem ensureHC_owner (e : Ep) (ctx : Chain) : (ensureHC e ctx).2.owner = e.owner := by
  obtain ⟨id, owner, url, inMap, d, healthy, on, gen, par⟩ := e
  cases d <;> cases on <;> rfl
theorem ensureHC_url (e : Ep) (ctx : Chain) : (ensureHC e ctx).2.url = e.url := by
  obtain ⟨id, owner, url, inMap, d, healthy, on, gen, par⟩ := e
  cases d <;> cases on <;> rfl
theorem ensureHC_inMap (e : Ep) (ctx : Chain) : (ensureHC e ctx).2.inMap = e.inMap := by
  obtain ⟨id, owner, url, inMap, d, healthy, on, gen, par⟩ := e
  cases d <;> cases on <;> rfl
theorem ensureHC_disabled (e : Ep) (ctx : Chain) : (ensureHC e ctx).2.disabled = e.disabled := by
  obtain ⟨id, owner, url, inMap, d, healthy, on, gen, par⟩ := e
  cases d <;> cases on <;> rfl
theorem ensureHC_healthy (e : Ep) (ctx : Chain) : (ensureHC e ctx).2.healthy = e.healthy := by
  obtain ⟨id, owner, url, inMap, d, healthy, on, gen, par⟩ := e
  cases d <;> cases on <;> rfl
theorem ensureHC_hcOn (e : Ep) (ctx : Chain) : (ensureHC e ctx).2.hcOn = !e.disabled := by
  obtain ⟨id, owner, url, inMap, d, healthy, on, gen, par⟩ := e
  cases d <;> cases on <;> rfl

/-- the only scope `EnsureGatewayHealthCheck` ever cancels is the running loop of an endpoint being disabled -/
theorem ensureHC_cancels (e : Ep) (ctx : Chain) (s : Sid) (h : s ∈ (ensureHC e ctx).1) :
    e.disabled = true ∧ e.hcOn = true ∧ s = Sid.hc e.id (e.hcGen - 1) := by
  obtain ⟨id, owner, url, inMap, d, healthy, on, gen, par⟩ := e
  cases d <;> cases on <;> simp [ensureHC] at h
  exact ⟨rfl, rfl, h⟩

theorem ensureHC_hc_old (e : Ep) (ctx : Chain) (cs : List Sid)
    (hold : ∀ g, g + 1 < e.hcGen → Sid.hc e.id g ∈ cs)
    (hoff : e.hcOn = false → ∀ g, g < e.hcGen → Sid.hc e.id g ∈ cs) :
    ∀ g, g + 1 < (ensureHC e ctx).2.hcGen → Sid.hc (ensureHC e ctx).2.id g ∈ (ensureHC e ctx).1 ++ cs := by
  intro g hg
  rw [ensureHC_id]
  apply List.mem_append_right
  obtain ⟨id, owner, url, inMap, d, healthy, on, gen, par⟩ := e
  cases d <;> cases on <;> simp [ensureHC] at hg hold hoff ⊢
  · exact hoff g (by omega)
  · exact hold g hg
  · exact hold g hg
  · exact hold g hg

theorem ensureHC_hc_off (e : Ep) (ctx : Chain) (cs : List Sid)
    (hold : ∀ g, g + 1 < e.hcGen → Sid.hc e.id g ∈ cs)
    (hoff : e.hcOn = false → ∀ g, g < e.hcGen → Sid.hc e.id g ∈ cs) :
    (ensureHC e ctx).2.hcOn = false → ∀ g, g < (ensureHC e ctx).2.hcGen →
      Sid.hc (ensureHC e ctx).2.id g ∈ (ensureHC e ctx).1 ++ cs := by
  intro hon g hg
  rw [ensureHC_id]
  rw [ensureHC_hcOn] at hon
  obtain ⟨id, owner, url, inMap, d, healthy, on, gen, par⟩ := e
  cases d <;> cases on <;> simp [ensureHC] at hon hg hold hoff ⊢
  · exact hoff g hg
  · by_cases hlast : g + 1 < gen
    · exact Or.inr (hold g hlast)
    · left; omega

/-- every loop `EnsureGatewayHealthCheck` has started or starts runs under the context its call sites pass -/
theorem ensureHC_parent (e : Ep) (ctx : Chain) (hold : ∀ g, g < e.hcGen → e.hcParent g = ctx) :
    ∀ g, g < (ensureHC e ctx).2.hcGen → (ensureHC e ctx).2.hcParent g = ctx := by
  intro g hg
  obtain ⟨id, owner, url, inMap, d, healthy, on, gen, par⟩ := e
  cases d <;> cases on <;> simp [ensureHC] at hg hold ⊢
  · by_cases h : g = gen
    · simp [h]
    · simp [h]; exact hold g (by omega)
  · exact hold g hg
  · exact hold g hg
  · exact hold g hg

theorem ensureHC_pos (e : Ep) (ctx : Chain) (hold : e.hcOn = true → 0 < e.hcGen) :
    (ensureHC e ctx).2.hcOn = true → 0 < (ensureHC e ctx).2.hcGen := by
  obtain ⟨id, owner, url, inMap, d, healthy, on, gen, par⟩ := e
  cases d <;> cases on <;> simp [ensureHC] at hold ⊢
  exact hold

/-! ## the endpoint-side invariant -/

structure InvE (next : Nat) (eps : List Ep) (cs : List Sid) : Prop where
  ep_lt : ∀ e, e ∈ eps → e.id < next
  owner_lt : ∀ e, e ∈ eps → e.owner < next
  nodup : eps.Pairwise (fun a b => a.id ≠ b.id)
  gone : ∀ e, e ∈ eps → e.inMap = false → Sid.ep e.id ∈ cs
  hc_sync : ∀ e, e ∈ eps → e.hcOn = !e.disabled
  hc_old : ∀ e, e ∈ eps → ∀ g, g + 1 < e.hcGen → Sid.hc e.id g ∈ cs
  hc_off : ∀ e, e ∈ eps → e.hcOn = false → ∀ g, g < e.hcGen → Sid.hc e.id g ∈ cs
  hc_parent : ∀ e, e ∈ eps → ∀ g, g < e.hcGen → e.hcParent g = e.chain
  hc_pos : ∀ e, e ∈ eps → e.hcOn = true → 0 < e.hcGen

theorem InvE.eq_of_id {next : Nat} {eps : List Ep} {cs : List Sid} (h : InvE next eps cs) {a b : Ep}
    (ha : a ∈ eps) (hb : b ∈ eps) (hid : a.id = b.id) : a = b := by
  have := h.nodup
  clear h
  induction eps with
  | nil => cases ha
  | cons x xs ih =>
    rw [List.pairwise_cons] at this
    cases ha with
    | head =>
      cases hb with
      | head => rfl
      | tail _ hb' => exact absurd hid (this.1 b hb')
    | tail _ ha' =>
      cases hb with
      | head => exact absurd hid.symm (this.1 a ha')
      | tail _ hb' => exact ih ha' hb' this.2

/-- every health-check loop ever started for an endpoint (restarted ones included) runs under the endpoint's context -/
theorem InvE.hcChain_eq {next : Nat} {eps : List Ep} {cs : List Sid} (h : InvE next eps cs) {e : Ep} (he : e ∈ eps)
    {g : Nat} (hg : g < e.hcGen) : e.hcChain g = [Sid.hc e.id g, Sid.ep e.id, Sid.cl e.owner] :=
  Ep.hcChain_eq e g (h.hc_parent e he g hg)

/-- an endpoint whose context is done has no running health-check loop -/
theorem InvE.hcLive_false {next : Nat} {eps : List Ep} {cs : List Sid} (h : InvE next eps cs) {e : Ep} (he : e ∈ eps)
    (cs' : List Sid) (hd : done cs' e.chain = true) : hcLive cs' e = false := by
  unfold hcLive
  cases hon : e.hcOn with
  | false => rfl
  | true =>
    have hpos := h.hc_pos e he hon
    have hg : e.hcGen - 1 < e.hcGen := by omega
    obtain ⟨s, hs, hc⟩ := (done_iff _ _).1 hd
    have : done cs' (e.hcChain (e.hcGen - 1)) = true := by
      rw [h.hcChain_eq he hg]
      rw [Ep.chain_eq] at hs
      exact (done_iff _ _).2 ⟨s, List.mem_cons_of_mem _ hs, hc⟩
    simp [this]

/-- more cancelled scopes, a larger counter: still fine -/
theorem InvE.weaken {next next' : Nat} {eps : List Ep} {cs cs' : List Sid} (h : InvE next eps cs)
    (hn : next ≤ next') (hc : ∀ s, s ∈ cs → s ∈ cs') : InvE next' eps cs' where
  ep_lt e he := Nat.lt_of_lt_of_le (h.ep_lt e he) hn
  owner_lt e he := Nat.lt_of_lt_of_le (h.owner_lt e he) hn
  nodup := h.nodup
  gone e he hi := hc _ (h.gone e he hi)
  hc_sync := h.hc_sync
  hc_old e he g hg := hc _ (h.hc_old e he g hg)
  hc_off e he ho g hg := hc _ (h.hc_off e he ho g hg)
  hc_parent := h.hc_parent
  hc_pos := h.hc_pos

theorem updEp_id (o : Nat) (u : Str) (dis : Bool) (e : Ep) : (updEp o u dis e).id = e.id := by
  unfold updEp; split <;> simp [ensureHC_id]
theorem updEp_owner (o : Nat) (u : Str) (dis : Bool) (e : Ep) : (updEp o u dis e).owner = e.owner := by
  unfold updEp; split <;> simp [ensureHC_owner]
theorem updEp_url (o : Nat) (u : Str) (dis : Bool) (e : Ep) : (updEp o u dis e).url = e.url := by
  unfold updEp; split <;> simp [ensureHC_url]
theorem updEp_inMap (o : Nat) (u : Str) (dis : Bool) (e : Ep) : (updEp o u dis e).inMap = e.inMap := by
  unfold updEp; split <;> simp [ensureHC_inMap]
theorem updEp_healthy (o : Nat) (u : Str) (dis : Bool) (e : Ep) : (updEp o u dis e).healthy = e.healthy := by
  unfold updEp; split <;> simp [ensureHC_healthy]

theorem epMatches_iff (o : Nat) (u : Str) (e : Ep) : epMatches o u e = true ↔ e.owner = o ∧ e.inMap = true ∧ e.url = u := by
  simp [epMatches, and_assoc]

theorem isDropped_iff (o : Nat) (w : List Str) (e : Ep) : isDropped o w e = true ↔ e.owner = o ∧ e.inMap = true ∧ e.url ∉ w := by
  unfold isDropped
  rw [Bool.and_eq_true, Bool.and_eq_true, Bool.not_eq_true', hasStr_false_iff]
  simp [and_assoc]

theorem addOrUpdate_invE (st : State) (o : Nat) (u : Str) (dis : Bool) (h : InvE st.next st.eps st.cancels)
    (ho : o < st.next) :
    InvE (addOrUpdate st o u dis).next (addOrUpdate st o u dis).eps (addOrUpdate st o u dis).cancels := by
  unfold addOrUpdate
  split
  · -- existing endpoint
    refine ⟨?_, ?_, ?_, ?_, ?_, ?_, ?_, ?_, ?_⟩
    rotate_right 2
    · intro e he g hg
      simp only [List.mem_map] at he
      obtain ⟨e0, he0, rfl⟩ := he
      unfold updEp at hg ⊢
      split at hg
      · rename_i hm
        simp only [hm, if_true]
        have hc : (ensureHC { e0 with disabled := dis } e0.chain).2.chain = e0.chain := by
          unfold Ep.chain; rw [ensureHC_id, ensureHC_owner]
        rw [hc]
        exact ensureHC_parent { e0 with disabled := dis } e0.chain (h.hc_parent e0 he0) g hg
      · rename_i hm
        simp only [hm]
        exact h.hc_parent e0 he0 g hg
    · intro e he hon
      simp only [List.mem_map] at he
      obtain ⟨e0, he0, rfl⟩ := he
      unfold updEp at hon ⊢
      split at hon
      · rename_i hm
        simp only [hm, if_true]
        exact ensureHC_pos { e0 with disabled := dis } e0.chain (h.hc_pos e0 he0) hon
      · rename_i hm
        simp only [hm]
        exact h.hc_pos e0 he0 hon
    · intro e he
      simp only [List.mem_map] at he
      obtain ⟨e0, he0, rfl⟩ := he
      rw [updEp_id]; exact h.ep_lt e0 he0
    · intro e he
      simp only [List.mem_map] at he
      obtain ⟨e0, he0, rfl⟩ := he
      rw [updEp_owner]; exact h.owner_lt e0 he0
    · exact List.Pairwise.map _ (fun a b hab => by rw [updEp_id, updEp_id]; exact hab) h.nodup
    · intro e he hi
      simp only [List.mem_map] at he
      obtain ⟨e0, he0, rfl⟩ := he
      rw [updEp_inMap] at hi
      rw [updEp_id]
      exact List.mem_append_right _ (h.gone e0 he0 hi)
    · intro e he
      simp only [List.mem_map] at he
      obtain ⟨e0, he0, rfl⟩ := he
      unfold updEp
      split
      · rw [ensureHC_hcOn, ensureHC_disabled]
      · exact h.hc_sync e0 he0
    · intro e he g hg
      simp only [List.mem_map] at he
      obtain ⟨e0, he0, rfl⟩ := he
      unfold updEp at hg ⊢
      split at hg
      · rename_i hm
        simp only [hm, if_true]
        have := ensureHC_hc_old { e0 with disabled := dis } e0.chain st.cancels (h.hc_old e0 he0) (h.hc_off e0 he0) g hg
        rcases List.mem_append.1 this with h1 | h1
        · apply List.mem_append_left
          exact List.mem_flatMap.2 ⟨e0, he0, by unfold updCancels; simp only [hm, if_true]; exact h1⟩
        · exact List.mem_append_right _ h1
      · rename_i hm
        simp only [hm]
        exact List.mem_append_right _ (h.hc_old e0 he0 g hg)
    · intro e he hon g hg
      simp only [List.mem_map] at he
      obtain ⟨e0, he0, rfl⟩ := he
      unfold updEp at hg hon ⊢
      split at hg
      · rename_i hm
        simp only [hm, if_true] at hon ⊢
        have := ensureHC_hc_off { e0 with disabled := dis } e0.chain st.cancels (h.hc_old e0 he0) (h.hc_off e0 he0) hon g hg
        rcases List.mem_append.1 this with h1 | h1
        · apply List.mem_append_left
          exact List.mem_flatMap.2 ⟨e0, he0, by unfold updCancels; simp only [hm, if_true]; exact h1⟩
        · exact List.mem_append_right _ h1
      · rename_i hm
        simp only [hm] at hon ⊢
        exact List.mem_append_right _ (h.hc_off e0 he0 hon g hg)
  · -- new endpoint
    refine ⟨?_, ?_, ?_, ?_, ?_, ?_, ?_, ?_, ?_⟩
    rotate_right 2
    · intro e he g hg
      simp only [List.mem_append, List.mem_singleton] at he
      rcases he with he | rfl
      · exact h.hc_parent e he g hg
      · have hc : ∀ (e1 : Ep) (ctx : Chain), (ensureHC e1 ctx).2.chain = e1.chain := by
          intro e1 ctx; unfold Ep.chain; rw [ensureHC_id, ensureHC_owner]
        rw [hc]
        exact ensureHC_parent _ _ (fun g' hg' => absurd hg' (Nat.not_lt_zero _)) g hg
    · intro e he hon
      simp only [List.mem_append, List.mem_singleton] at he
      rcases he with he | rfl
      · exact h.hc_pos e he hon
      · exact ensureHC_pos _ _ (fun h' => by cases h') hon
    · intro e he
      simp only [List.mem_append, List.mem_singleton] at he
      rcases he with he | rfl
      · exact Nat.lt_succ_of_lt (h.ep_lt e he)
      · rw [ensureHC_id]; exact Nat.lt_succ_self _
    · intro e he
      simp only [List.mem_append, List.mem_singleton] at he
      rcases he with he | rfl
      · exact Nat.lt_succ_of_lt (h.owner_lt e he)
      · rw [ensureHC_owner]; exact Nat.lt_succ_of_lt ho
    · rw [List.pairwise_append]
      refine ⟨h.nodup, List.pairwise_singleton _ _, ?_⟩
      intro a ha b hb
      simp only [List.mem_singleton] at hb
      subst hb
      rw [ensureHC_id]
      exact Nat.ne_of_lt (h.ep_lt a ha)
    · intro e he hi
      simp only [List.mem_append, List.mem_singleton] at he
      rcases he with he | rfl
      · exact List.mem_append_right _ (h.gone e he hi)
      · rw [ensureHC_inMap] at hi; cases hi
    · intro e he
      simp only [List.mem_append, List.mem_singleton] at he
      rcases he with he | rfl
      · exact h.hc_sync e he
      · rw [ensureHC_hcOn, ensureHC_disabled]
    · intro e he g hg
      simp only [List.mem_append, List.mem_singleton] at he
      rcases he with he | rfl
      · exact List.mem_append_right _ (h.hc_old e he g hg)
      · exfalso
        unfold ensureHC at hg
        cases dis <;> simp at hg
    · intro e he hon g hg
      simp only [List.mem_append, List.mem_singleton] at he
      rcases he with he | rfl
      · exact List.mem_append_right _ (h.hc_off e he hon g hg)
      · exfalso
        unfold ensureHC at hg hon
        cases dis <;> simp at hg hon

theorem dropEp_id (o : Nat) (w : List Str) (e : Ep) : (dropEp o w e).id = e.id := by
  unfold dropEp; split <;> rfl
theorem dropEp_owner (o : Nat) (w : List Str) (e : Ep) : (dropEp o w e).owner = e.owner := by
  unfold dropEp; split <;> rfl
theorem dropEp_url (o : Nat) (w : List Str) (e : Ep) : (dropEp o w e).url = e.url := by
  unfold dropEp; split <;> rfl
theorem dropEp_disabled (o : Nat) (w : List Str) (e : Ep) : (dropEp o w e).disabled = e.disabled := by
  unfold dropEp; split <;> rfl
theorem dropEp_healthy (o : Nat) (w : List Str) (e : Ep) : (dropEp o w e).healthy = e.healthy := by
  unfold dropEp; split <;> rfl
theorem dropEp_hcParent (o : Nat) (w : List Str) (e : Ep) : (dropEp o w e).hcParent = e.hcParent := by
  unfold dropEp; split <;> rfl
theorem dropEp_chain (o : Nat) (w : List Str) (e : Ep) : (dropEp o w e).chain = e.chain := by
  unfold dropEp; split <;> rfl
theorem dropEp_hcOn (o : Nat) (w : List Str) (e : Ep) : (dropEp o w e).hcOn = e.hcOn := by
  unfold dropEp; split <;> rfl
theorem dropEp_hcGen (o : Nat) (w : List Str) (e : Ep) : (dropEp o w e).hcGen = e.hcGen := by
  unfold dropEp; split <;> rfl

/-- the state after the first loop of `syncEndpoints` -/
def dropPhase (st : State) (o : Nat) (wanted : List Str) : State :=
  { st with eps := st.eps.map (dropEp o wanted), cancels := droppedCancels o wanted st.eps ++ st.cancels }

theorem syncEndpoints_eq (st : State) (o : Nat) (servers : List (Str × Bool)) :
    syncEndpoints st o servers =
      servers.foldl (fun s sv => addOrUpdate s o sv.1 (disabledOf servers sv.1)) (dropPhase st o (servers.map (·.1))) := rfl

theorem dropPhase_invE (st : State) (o : Nat) (w : List Str) (h : InvE st.next st.eps st.cancels) :
    InvE (dropPhase st o w).next (dropPhase st o w).eps (dropPhase st o w).cancels := by
  unfold dropPhase
  refine ⟨?_, ?_, ?_, ?_, ?_, ?_, ?_, ?_, ?_⟩
  rotate_right 2
  · intro e he g hg
    simp only [List.mem_map] at he
    obtain ⟨e0, he0, rfl⟩ := he
    rw [dropEp_hcGen] at hg
    rw [dropEp_hcParent, dropEp_chain]; exact h.hc_parent e0 he0 g hg
  · intro e he hon
    simp only [List.mem_map] at he
    obtain ⟨e0, he0, rfl⟩ := he
    rw [dropEp_hcOn] at hon
    rw [dropEp_hcGen]; exact h.hc_pos e0 he0 hon
  · intro e he
    simp only [List.mem_map] at he
    obtain ⟨e0, he0, rfl⟩ := he
    rw [dropEp_id]; exact h.ep_lt e0 he0
  · intro e he
    simp only [List.mem_map] at he
    obtain ⟨e0, he0, rfl⟩ := he
    rw [dropEp_owner]; exact h.owner_lt e0 he0
  · exact List.Pairwise.map _ (fun a b hab => by rw [dropEp_id, dropEp_id]; exact hab) h.nodup
  · intro e he hi
    simp only [List.mem_map] at he
    obtain ⟨e0, he0, rfl⟩ := he
    rw [dropEp_id]
    by_cases hd : isDropped o w e0 = true
    · apply List.mem_append_left
      exact List.mem_map.2 ⟨e0, List.mem_filter.2 ⟨he0, hd⟩, rfl⟩
    · apply List.mem_append_right
      unfold dropEp at hi
      simp only [hd] at hi
      exact h.gone e0 he0 hi
  · intro e he
    simp only [List.mem_map] at he
    obtain ⟨e0, he0, rfl⟩ := he
    rw [dropEp_hcOn, dropEp_disabled]; exact h.hc_sync e0 he0
  · intro e he g hg
    simp only [List.mem_map] at he
    obtain ⟨e0, he0, rfl⟩ := he
    apply List.mem_append_right
    rw [dropEp_hcGen] at hg
    rw [dropEp_id]
    exact h.hc_old e0 he0 g hg
  · intro e he hon g hg
    simp only [List.mem_map] at he
    obtain ⟨e0, he0, rfl⟩ := he
    apply List.mem_append_right
    rw [dropEp_hcGen] at hg
    rw [dropEp_hcOn] at hon
    rw [dropEp_id]
    exact h.hc_off e0 he0 hon g hg

theorem addOrUpdate_next_le (st : State) (o : Nat) (u : Str) (dis : Bool) : st.next ≤ (addOrUpdate st o u dis).next := by
  unfold addOrUpdate; split
  · exact Nat.le_refl _
  · exact Nat.le_succ _

theorem syncEndpoints_invE (st : State) (o : Nat) (servers : List (Str × Bool)) (h : InvE st.next st.eps st.cancels)
    (ho : o < st.next) :
    InvE (syncEndpoints st o servers).next (syncEndpoints st o servers).eps (syncEndpoints st o servers).cancels := by
  rw [syncEndpoints_eq]
  exact (foldl_inv (fun s => InvE s.next s.eps s.cancels ∧ o < s.next) _
    (fun s (sv : Str × Bool) hs => ⟨addOrUpdate_invE s o sv.1 _ hs.1 hs.2, Nat.lt_of_lt_of_le hs.2 (addOrUpdate_next_le ..)⟩) _ _
    ⟨dropPhase_invE st o _ h, ho⟩).1


/-! ## what `syncEndpoints` does (relation between the state before and after) -/

structure SyncRel (o : Nat) (disf : Str → Bool) (wanted : List Str) (a b : State) : Prop where
  heap_eq : b.heap = a.heap
  names_eq : b.names = a.names
  reqs_eq : b.reqs = a.reqs
  next_le : a.next ≤ b.next
  sub : ∀ s, s ∈ a.cancels → s ∈ b.cancels
  fwd : ∀ e, e ∈ a.eps → ∃ e', e' ∈ b.eps ∧ e'.id = e.id ∧ e'.owner = e.owner ∧ e'.url = e.url ∧ e'.inMap = e.inMap ∧ e'.healthy = e.healthy
  bwd : ∀ e', e' ∈ b.eps →
        (∃ e, e ∈ a.eps ∧ e'.id = e.id ∧ e'.owner = e.owner ∧ e'.url = e.url ∧ e'.inMap = e.inMap) ∨
        (a.next ≤ e'.id ∧ e'.owner = o ∧ e'.url ∈ wanted ∧ e'.inMap = true)
  newc : ∀ s, s ∈ b.cancels → s ∈ a.cancels ∨ ∃ e', e' ∈ b.eps ∧ e'.owner = o ∧ disf e'.url = true ∧ ∃ g, s = Sid.hc e'.id g

theorem SyncRel.refl (o : Nat) (disf : Str → Bool) (w : List Str) (a : State) : SyncRel o disf w a a where
  heap_eq := rfl
  names_eq := rfl
  reqs_eq := rfl
  next_le := Nat.le_refl _
  sub _ h := h
  fwd e he := ⟨e, he, rfl, rfl, rfl, rfl, rfl⟩
  bwd e he := Or.inl ⟨e, he, rfl, rfl, rfl, rfl⟩
  newc _ h := Or.inl h

theorem SyncRel.trans {o : Nat} {disf : Str → Bool} {w : List Str} {a b c : State}
    (h1 : SyncRel o disf w a b) (h2 : SyncRel o disf w b c) : SyncRel o disf w a c where
  heap_eq := h2.heap_eq.trans h1.heap_eq
  names_eq := h2.names_eq.trans h1.names_eq
  reqs_eq := h2.reqs_eq.trans h1.reqs_eq
  next_le := Nat.le_trans h1.next_le h2.next_le
  sub s hs := h2.sub s (h1.sub s hs)
  fwd e he := by
    obtain ⟨e1, he1, a1, a2, a3, a4, a5⟩ := h1.fwd e he
    obtain ⟨e2, he2, b1, b2, b3, b4, b5⟩ := h2.fwd e1 he1
    exact ⟨e2, he2, b1.trans a1, b2.trans a2, b3.trans a3, b4.trans a4, b5.trans a5⟩
  bwd e2 he2 := by
    rcases h2.bwd e2 he2 with ⟨e1, he1, b1, b2, b3, b4⟩ | ⟨b1, b2, b3, b4⟩
    · rcases h1.bwd e1 he1 with ⟨e, he, a1, a2, a3, a4⟩ | ⟨a1, a2, a3, a4⟩
      · exact Or.inl ⟨e, he, b1.trans a1, b2.trans a2, b3.trans a3, b4.trans a4⟩
      · exact Or.inr ⟨by rw [b1]; exact a1, b2.trans a2, by rw [b3]; exact a3, b4.trans a4⟩
    · exact Or.inr ⟨Nat.le_trans h1.next_le b1, b2, b3, b4⟩
  newc s hs := by
    rcases h2.newc s hs with h | h
    · rcases h1.newc s h with h' | ⟨e1, he1, a1, a2, g, a3⟩
      · exact Or.inl h'
      · obtain ⟨e2, he2, b1, b2, b3, _, _⟩ := h2.fwd e1 he1
        exact Or.inr ⟨e2, he2, b2.trans a1, by rw [b3]; exact a2, g, by rw [b1]; exact a3⟩
    · exact Or.inr h

theorem addOrUpdate_rel (st : State) (o : Nat) (disf : Str → Bool) (w : List Str) (u : Str) (hu : u ∈ w) :
    SyncRel o disf w st (addOrUpdate st o u (disf u)) := by
  unfold addOrUpdate
  split
  · refine ⟨rfl, rfl, rfl, Nat.le_refl _, fun s hs => List.mem_append_right _ hs, ?_, ?_, ?_⟩
    · intro e he
      exact ⟨updEp o u (disf u) e, List.mem_map.2 ⟨e, he, rfl⟩, updEp_id .., updEp_owner .., updEp_url .., updEp_inMap .., updEp_healthy ..⟩
    · intro e' he'
      obtain ⟨e, he, rfl⟩ := List.mem_map.1 he'
      exact Or.inl ⟨e, he, updEp_id .., updEp_owner .., updEp_url .., updEp_inMap ..⟩
    · intro s hs
      rcases List.mem_append.1 hs with h | h
      · right
        obtain ⟨e, he, hse⟩ := List.mem_flatMap.1 h
        unfold updCancels at hse
        split at hse
        · rename_i hm
          obtain ⟨hd, _, hsg⟩ := ensureHC_cancels _ _ s hse
          obtain ⟨ho, _, hurl⟩ := (epMatches_iff o u e).1 hm
          refine ⟨updEp o u (disf u) e, List.mem_map.2 ⟨e, he, rfl⟩, by rw [updEp_owner]; exact ho, ?_, e.hcGen - 1, ?_⟩
          · rw [updEp_url, hurl]; exact hd
          · rw [updEp_id]; exact hsg
        · cases hse
      · exact Or.inl h
  · refine ⟨rfl, rfl, rfl, Nat.le_succ _, fun s hs => List.mem_append_right _ hs, ?_, ?_, ?_⟩
    · intro e he
      exact ⟨e, List.mem_append_left _ he, rfl, rfl, rfl, rfl, rfl⟩
    · intro e' he'
      rcases List.mem_append.1 he' with h | h
      · exact Or.inl ⟨e', h, rfl, rfl, rfl, rfl⟩
      · simp only [List.mem_singleton] at h
        subst h
        exact Or.inr ⟨by rw [ensureHC_id]; exact Nat.le_refl _, by rw [ensureHC_owner], by rw [ensureHC_url]; exact hu, by rw [ensureHC_inMap]⟩
    · intro s hs
      rcases List.mem_append.1 hs with h | h
      · exfalso
        have := ensureHC_cancels _ _ s h
        simp at this
      · exact Or.inl h

theorem syncFold_rel (o : Nat) (disf : Str → Bool) (w : List Str) :
    ∀ (l : List Str) (st : State), (∀ u, u ∈ l → u ∈ w) →
      SyncRel o disf w st (l.foldl (fun s u => addOrUpdate s o u (disf u)) st) := by
  intro l
  induction l with
  | nil => intro st _; exact SyncRel.refl ..
  | cons u us ih =>
    intro st hl
    exact SyncRel.trans (addOrUpdate_rel st o disf w u (hl u (List.mem_cons_self ..)))
      (ih _ (fun v hv => hl v (List.mem_cons_of_mem _ hv)))

theorem syncEndpoints_rel (st : State) (o : Nat) (servers : List (Str × Bool)) :
    SyncRel o (disabledOf servers) (servers.map (·.1)) (dropPhase st o (servers.map (·.1))) (syncEndpoints st o servers) := by
  rw [syncEndpoints_eq]
  have := syncFold_rel o (disabledOf servers) (servers.map (·.1)) (servers.map (·.1)) (dropPhase st o (servers.map (·.1))) (fun _ h => h)
  rw [List.foldl_map] at this
  exact this


/-! ## the manager's name map: the loops of `DeleteForServerNames` and `AddOrUpdateForServerNames` -/

theorem nameOf_congr {a b : State} (h : b.heap = a.heap) (o : Nat) : nameOf b o = nameOf a o := by
  unfold nameOf; rw [h]

/-- one iteration of `DeleteForServerNames`: either the key maps to a cluster of that name, then the key is deleted and
    that cluster stopped, or nothing happens -/
theorem delStep_spec (cname : Str) (s : State) (sn : Str) :
    (∃ o', s.names (lower sn) = some o' ∧ nameOf s o' = some cname ∧
        (delStep cname s sn).names (lower sn) = none ∧ (delStep cname s sn).cancels = Sid.cl o' :: s.cancels ∧
        (∀ k, k ≠ lower sn → (delStep cname s sn).names k = s.names k) ∧
        (delStep cname s sn).heap = s.heap ∧ (delStep cname s sn).eps = s.eps ∧ (delStep cname s sn).reqs = s.reqs ∧
        (delStep cname s sn).next = s.next) ∨
    ((∀ o', s.names (lower sn) = some o' → nameOf s o' ≠ some cname) ∧ delStep cname s sn = s) := by
  unfold delStep Model.Lifecycle.get
  cases h : s.names (lower sn) with
  | none => right; exact ⟨fun o' ho => (by cases ho), rfl⟩
  | some o' =>
    by_cases hn : nameOf s o' = some cname
    · left
      refine ⟨o', rfl, hn, ?_⟩
      simp only [hn, if_true]
      unfold doDelete
      simp only [h]
      refine ⟨?_, ?_, ?_, ?_⟩
      · simp
      · simp
      · intro k hk; simp [hk]
      · simp
    · right
      refine ⟨fun o'' ho => (by cases ho; exact hn), ?_⟩
      simp [hn]

structure DelRel (cname : Str) (L : List Str) (s f : State) : Prop where
  heap_eq : f.heap = s.heap
  eps_eq : f.eps = s.eps
  reqs_eq : f.reqs = s.reqs
  next_eq : f.next = s.next
  sub : ∀ x, x ∈ s.cancels → x ∈ f.cancels
  shrink : ∀ k o', f.names k = some o' → s.names k = some o'
  keep : ∀ k o', s.names k = some o' → f.names k = some o' ∨
      (f.names k = none ∧ nameOf s o' = some cname ∧ (∃ sn, sn ∈ L ∧ lower sn = k) ∧ Sid.cl o' ∈ f.cancels)
  kill : ∀ k o', s.names k = some o' → nameOf s o' = some cname → (∃ sn, sn ∈ L ∧ lower sn = k) →
      f.names k = none ∧ Sid.cl o' ∈ f.cancels
  newc : ∀ x, x ∈ f.cancels → x ∈ s.cancels ∨
      ∃ k o', s.names k = some o' ∧ nameOf s o' = some cname ∧ (∃ sn, sn ∈ L ∧ lower sn = k) ∧ x = Sid.cl o'

theorem delFold_rel (cname : Str) : ∀ (L : List Str) (s : State), DelRel cname L s (L.foldl (delStep cname) s) := by
  intro L
  induction L with
  | nil =>
    intro s
    exact ⟨rfl, rfl, rfl, rfl, fun _ h => h, fun _ _ h => h, fun _ _ h => Or.inl h,
      fun _ _ _ _ ⟨_, h, _⟩ => (by cases h), fun _ h => Or.inl h⟩
  | cons sn xs ih =>
    intro s
    simp only [List.foldl_cons]
    have IH := ih (delStep cname s sn)
    rcases delStep_spec cname s sn with ⟨o0, hk0, hn0, hnone, hcs, hoth, hheap, heps, hreqs, hnext⟩ | ⟨hno, heq⟩
    · have hname : ∀ o, nameOf (delStep cname s sn) o = nameOf s o := nameOf_congr hheap
      have hnoneF : (xs.foldl (delStep cname) (delStep cname s sn)).names (lower sn) = none := by
        cases hf : (xs.foldl (delStep cname) (delStep cname s sn)).names (lower sn) with
        | none => rfl
        | some o' => have := IH.shrink _ _ hf; rw [hnone] at this; cases this
      have hcl0 : Sid.cl o0 ∈ (xs.foldl (delStep cname) (delStep cname s sn)).cancels :=
        IH.sub _ (by rw [hcs]; exact List.mem_cons_self ..)
      refine ⟨IH.heap_eq.trans hheap, IH.eps_eq.trans heps, IH.reqs_eq.trans hreqs, IH.next_eq.trans hnext, ?_, ?_, ?_, ?_, ?_⟩
      · intro x hx; exact IH.sub x (by rw [hcs]; exact List.mem_cons_of_mem _ hx)
      · intro k o' hf
        have h1 := IH.shrink k o' hf
        by_cases hk : k = lower sn
        · subst hk; rw [hnone] at h1; cases h1
        · rw [hoth k hk] at h1; exact h1
      · intro k o' hs
        by_cases hk : k = lower sn
        · subst hk
          rw [hk0] at hs; cases hs
          exact Or.inr ⟨hnoneF, hn0, ⟨sn, List.mem_cons_self .., rfl⟩, hcl0⟩
        · have hs1 : (delStep cname s sn).names k = some o' := by rw [hoth k hk]; exact hs
          rcases IH.keep k o' hs1 with h | ⟨h1, h2, ⟨sn', h3, h4⟩, h5⟩
          · exact Or.inl h
          · exact Or.inr ⟨h1, by rw [← hname]; exact h2, ⟨sn', List.mem_cons_of_mem _ h3, h4⟩, h5⟩
      · intro k o' hs hn ⟨sn', hsn', hl⟩
        by_cases hk : k = lower sn
        · subst hk
          rw [hk0] at hs; cases hs
          exact ⟨hnoneF, hcl0⟩
        · have hs1 : (delStep cname s sn).names k = some o' := by rw [hoth k hk]; exact hs
          have hsn'' : sn' ∈ xs := by
            rcases List.mem_cons.1 hsn' with h | h
            · subst h; exact absurd hl.symm hk
            · exact h
          exact IH.kill k o' hs1 (by rw [hname]; exact hn) ⟨sn', hsn'', hl⟩
      · intro x hx
        rcases IH.newc x hx with h | ⟨k, o', h1, h2, ⟨sn', h3, h4⟩, h5⟩
        · rw [hcs] at h
          rcases List.mem_cons.1 h with h | h
          · exact Or.inr ⟨lower sn, o0, hk0, hn0, ⟨sn, List.mem_cons_self .., rfl⟩, h⟩
          · exact Or.inl h
        · have hk : k ≠ lower sn := by
            intro hk; subst hk; rw [hnone] at h1; cases h1
          exact Or.inr ⟨k, o', by rw [← hoth k hk]; exact h1, by rw [← hname]; exact h2, ⟨sn', List.mem_cons_of_mem _ h3, h4⟩, h5⟩
    · rw [heq] at IH ⊢
      refine ⟨IH.heap_eq, IH.eps_eq, IH.reqs_eq, IH.next_eq, IH.sub, IH.shrink, ?_, ?_, ?_⟩
      · intro k o' hs
        rcases IH.keep k o' hs with h | ⟨h1, h2, ⟨sn', h3, h4⟩, h5⟩
        · exact Or.inl h
        · exact Or.inr ⟨h1, h2, ⟨sn', List.mem_cons_of_mem _ h3, h4⟩, h5⟩
      · intro k o' hs hn ⟨sn', hsn', hl⟩
        rcases List.mem_cons.1 hsn' with h | h
        · subst h; subst hl
          exact absurd hn (hno o' hs)
        · exact IH.kill k o' hs hn ⟨sn', h, hl⟩
      · intro x hx
        rcases IH.newc x hx with h | ⟨k, o', h1, h2, ⟨sn', h3, h4⟩, h5⟩
        · exact Or.inl h
        · exact Or.inr ⟨k, o', h1, h2, ⟨sn', List.mem_cons_of_mem _ h3, h4⟩, h5⟩


/-- one iteration of the first loop of `AddOrUpdateForServerNames` -/
theorem dropNameStep_spec (cname : Str) (new : List Str) (s : State) (on : Str) :
    (on ∉ new ∧ ∃ o', s.names (lower on) = some o' ∧ nameOf s o' = some cname ∧
        (dropNameStep cname new s on).names (lower on) = none ∧ (dropNameStep cname new s on).cancels = s.cancels ∧
        (∀ k, k ≠ lower on → (dropNameStep cname new s on).names k = s.names k) ∧
        (dropNameStep cname new s on).heap = s.heap ∧ (dropNameStep cname new s on).eps = s.eps ∧
        (dropNameStep cname new s on).reqs = s.reqs ∧ (dropNameStep cname new s on).next = s.next) ∨
    ((on ∈ new ∨ ∀ o', s.names (lower on) = some o' → nameOf s o' ≠ some cname) ∧ dropNameStep cname new s on = s) := by
  unfold dropNameStep
  by_cases hin : on ∈ new
  · right
    have : hasStr new on = true := (hasStr_iff _ _).2 hin
    exact ⟨Or.inl hin, by simp [this]⟩
  · have hf : hasStr new on = false := (hasStr_false_iff _ _).2 hin
    simp only [hf]
    unfold Model.Lifecycle.get
    cases h : s.names (lower on) with
    | none => right; exact ⟨Or.inr (fun o' ho => (by cases ho)), by simp⟩
    | some o' =>
      by_cases hn : nameOf s o' = some cname
      · left
        refine ⟨hin, o', rfl, hn, ?_⟩
        simp only [hn, if_true]
        unfold doDelete
        simp only [h]
        refine ⟨?_, ?_, ?_, ?_⟩
        · simp
        · simp
        · intro k hk; simp [hk]
        · simp
      · right
        refine ⟨Or.inr (fun o'' ho => (by cases ho; exact hn)), ?_⟩
        simp [hn]

structure DropRel (cname : Str) (new L : List Str) (s g : State) : Prop where
  heap_eq : g.heap = s.heap
  eps_eq : g.eps = s.eps
  reqs_eq : g.reqs = s.reqs
  next_eq : g.next = s.next
  cancels_eq : g.cancels = s.cancels
  shrink : ∀ k o', g.names k = some o' → s.names k = some o'
  keep : ∀ k o', s.names k = some o' → g.names k = some o' ∨
      (g.names k = none ∧ nameOf s o' = some cname ∧ ∃ on, on ∈ L ∧ lower on = k ∧ on ∉ new)
  kill : ∀ k o', s.names k = some o' → nameOf s o' = some cname → (∃ on, on ∈ L ∧ lower on = k ∧ on ∉ new) →
      g.names k = none

theorem dropFold_rel (cname : Str) (new : List Str) :
    ∀ (L : List Str) (s : State), DropRel cname new L s (L.foldl (dropNameStep cname new) s) := by
  intro L
  induction L with
  | nil =>
    intro s
    exact ⟨rfl, rfl, rfl, rfl, rfl, fun _ _ h => h, fun _ _ h => Or.inl h, fun _ _ _ _ ⟨_, h, _⟩ => (by cases h)⟩
  | cons on xs ih =>
    intro s
    simp only [List.foldl_cons]
    have IH := ih (dropNameStep cname new s on)
    rcases dropNameStep_spec cname new s on with ⟨hnin, o0, hk0, hn0, hnone, hcs, hoth, hheap, heps, hreqs, hnext⟩ | ⟨hno, heq⟩
    · have hname : ∀ o, nameOf (dropNameStep cname new s on) o = nameOf s o := nameOf_congr hheap
      have hnoneF : (xs.foldl (dropNameStep cname new) (dropNameStep cname new s on)).names (lower on) = none := by
        cases hf : (xs.foldl (dropNameStep cname new) (dropNameStep cname new s on)).names (lower on) with
        | none => rfl
        | some o' => have := IH.shrink _ _ hf; rw [hnone] at this; cases this
      refine ⟨IH.heap_eq.trans hheap, IH.eps_eq.trans heps, IH.reqs_eq.trans hreqs, IH.next_eq.trans hnext,
        IH.cancels_eq.trans hcs, ?_, ?_, ?_⟩
      · intro k o' hf
        have h1 := IH.shrink k o' hf
        by_cases hk : k = lower on
        · subst hk; rw [hnone] at h1; cases h1
        · rw [hoth k hk] at h1; exact h1
      · intro k o' hs
        by_cases hk : k = lower on
        · subst hk
          rw [hk0] at hs; cases hs
          exact Or.inr ⟨hnoneF, hn0, on, List.mem_cons_self .., rfl, hnin⟩
        · have hs1 : (dropNameStep cname new s on).names k = some o' := by rw [hoth k hk]; exact hs
          rcases IH.keep k o' hs1 with h | ⟨h1, h2, on', h3, h4, h5⟩
          · exact Or.inl h
          · exact Or.inr ⟨h1, by rw [← hname]; exact h2, on', List.mem_cons_of_mem _ h3, h4, h5⟩
      · intro k o' hs hn ⟨on', hon', hl, hnn⟩
        by_cases hk : k = lower on
        · subst hk; exact hnoneF
        · have hs1 : (dropNameStep cname new s on).names k = some o' := by rw [hoth k hk]; exact hs
          have hon'' : on' ∈ xs := by
            rcases List.mem_cons.1 hon' with h | h
            · subst h; exact absurd hl.symm hk
            · exact h
          exact IH.kill k o' hs1 (by rw [hname]; exact hn) ⟨on', hon'', hl, hnn⟩
    · rw [heq] at IH ⊢
      refine ⟨IH.heap_eq, IH.eps_eq, IH.reqs_eq, IH.next_eq, IH.cancels_eq, IH.shrink, ?_, ?_⟩
      · intro k o' hs
        rcases IH.keep k o' hs with h | ⟨h1, h2, on', h3, h4, h5⟩
        · exact Or.inl h
        · exact Or.inr ⟨h1, h2, on', List.mem_cons_of_mem _ h3, h4, h5⟩
      · intro k o' hs hn ⟨on', hon', hl, hnn⟩
        rcases List.mem_cons.1 hon' with h | h
        · subst h; subst hl
          rcases hno with h' | h'
          · exact absurd h' hnn
          · exact absurd hn (h' o' hs)
        · exact IH.kill k o' hs hn ⟨on', h, hl, hnn⟩

/-- the second loop of `AddOrUpdateForServerNames` -/
structure AddRel (old : List Str) (o : Nat) (L : List Str) (g h : State) : Prop where
  heap_eq : h.heap = g.heap
  eps_eq : h.eps = g.eps
  reqs_eq : h.reqs = g.reqs
  next_eq : h.next = g.next
  cancels_eq : h.cancels = g.cancels
  added : ∀ k, (∃ nn, nn ∈ L ∧ nn ∉ old ∧ lower nn = k) → h.names k = some o
  other : ∀ k, (¬ ∃ nn, nn ∈ L ∧ nn ∉ old ∧ lower nn = k) → h.names k = g.names k

theorem addFold_rel (old : List Str) (o : Nat) :
    ∀ (L : List Str) (g : State), AddRel old o L g (L.foldl (addNameStep old o) g) := by
  intro L
  induction L with
  | nil =>
    intro g
    exact ⟨rfl, rfl, rfl, rfl, rfl, fun _ ⟨_, h, _⟩ => (by cases h), fun _ _ => rfl⟩
  | cons nn xs ih =>
    intro g
    simp only [List.foldl_cons]
    have IH := ih (addNameStep old o g nn)
    by_cases hin : nn ∈ old
    · have hs : addNameStep old o g nn = g := by
        unfold addNameStep; simp [(hasStr_iff _ _).2 hin]
      rw [hs] at IH ⊢
      refine ⟨IH.heap_eq, IH.eps_eq, IH.reqs_eq, IH.next_eq, IH.cancels_eq, ?_, ?_⟩
      · intro k ⟨n', hn', hno, hl⟩
        rcases List.mem_cons.1 hn' with h | h
        · subst h; exact absurd hin hno
        · exact IH.added k ⟨n', h, hno, hl⟩
      · intro k hk
        exact IH.other k (fun ⟨n', hn', hno, hl⟩ => hk ⟨n', List.mem_cons_of_mem _ hn', hno, hl⟩)
    · have hs : addNameStep old o g nn = addWithKey g nn o := by
        unfold addNameStep; simp [(hasStr_false_iff _ _).2 hin]
      rw [hs] at IH ⊢
      refine ⟨IH.heap_eq, IH.eps_eq, IH.reqs_eq, IH.next_eq, IH.cancels_eq, ?_, ?_⟩
      · intro k ⟨n', hn', hno, hl⟩
        by_cases hx : ∃ n'', n'' ∈ xs ∧ n'' ∉ old ∧ lower n'' = k
        · exact IH.added k hx
        · rw [IH.other k hx]
          rcases List.mem_cons.1 hn' with h | h
          · subst h; subst hl; simp [addWithKey]
          · exact absurd ⟨n', h, hno, hl⟩ hx
      · intro k hk
        have hx : ¬ ∃ n'', n'' ∈ xs ∧ n'' ∉ old ∧ lower n'' = k :=
          fun ⟨n', hn', hno, hl⟩ => hk ⟨n', List.mem_cons_of_mem _ hn', hno, hl⟩
        rw [IH.other k hx]
        have : k ≠ lower nn := fun h => hk ⟨nn, List.mem_cons_self .., hin, h.symm⟩
        simp [addWithKey, this]


/-! ## `syncEndpoints`, summary -/

theorem dropEp_inMap (o : Nat) (w : List Str) (e : Ep) : (dropEp o w e).inMap = (e.inMap && !isDropped o w e) := by
  unfold dropEp
  by_cases h : isDropped o w e = true
  · have := ((isDropped_iff o w e).1 h).2.1
    simp [h]
  · simp [h]

section
variable (st : State) (o : Nat) (servers : List (Str × Bool))

theorem syncEndpoints_heap : (syncEndpoints st o servers).heap = st.heap := (syncEndpoints_rel st o servers).heap_eq
theorem syncEndpoints_names : (syncEndpoints st o servers).names = st.names := (syncEndpoints_rel st o servers).names_eq
theorem syncEndpoints_reqs : (syncEndpoints st o servers).reqs = st.reqs := (syncEndpoints_rel st o servers).reqs_eq
theorem syncEndpoints_next_le : st.next ≤ (syncEndpoints st o servers).next := (syncEndpoints_rel st o servers).next_le

theorem syncEndpoints_sub (s : Sid) (h : s ∈ st.cancels) : s ∈ (syncEndpoints st o servers).cancels :=
  (syncEndpoints_rel st o servers).sub s (List.mem_append_right _ h)

/-- what `syncEndpoints` cancels: the endpoints it drops, and the health-check loop of endpoints the new server list disables -/
theorem syncEndpoints_newc (s : Sid) (h : s ∈ (syncEndpoints st o servers).cancels) :
    s ∈ st.cancels ∨ (∃ e, e ∈ st.eps ∧ isDropped o (servers.map (·.1)) e = true ∧ s = Sid.ep e.id) ∨
    (∃ e', e' ∈ (syncEndpoints st o servers).eps ∧ e'.owner = o ∧ disabledOf servers e'.url = true ∧ ∃ g, s = Sid.hc e'.id g) := by
  rcases (syncEndpoints_rel st o servers).newc s h with h1 | h1
  · rcases List.mem_append.1 h1 with h2 | h2
    · obtain ⟨e, he, rfl⟩ := List.mem_map.1 h2
      obtain ⟨he1, he2⟩ := List.mem_filter.1 he
      exact Or.inr (Or.inl ⟨e, he1, he2, rfl⟩)
    · exact Or.inl h2
  · exact Or.inr (Or.inr h1)

theorem syncEndpoints_fwd (e : Ep) (he : e ∈ st.eps) :
    ∃ e', e' ∈ (syncEndpoints st o servers).eps ∧ e'.id = e.id ∧ e'.owner = e.owner ∧ e'.url = e.url ∧
      e'.healthy = e.healthy ∧ e'.inMap = (e.inMap && !isDropped o (servers.map (·.1)) e) := by
  have hd : dropEp o (servers.map (·.1)) e ∈ (dropPhase st o (servers.map (·.1))).eps := List.mem_map.2 ⟨e, he, rfl⟩
  obtain ⟨e', he', h1, h2, h3, h4, h5⟩ := (syncEndpoints_rel st o servers).fwd _ hd
  exact ⟨e', he', by rw [h1, dropEp_id], by rw [h2, dropEp_owner], by rw [h3, dropEp_url], by rw [h5, dropEp_healthy],
    by rw [h4, dropEp_inMap]⟩

theorem syncEndpoints_bwd (e' : Ep) (he' : e' ∈ (syncEndpoints st o servers).eps) :
    (∃ e, e ∈ st.eps ∧ e'.id = e.id ∧ e'.owner = e.owner ∧ e'.url = e.url ∧
        e'.inMap = (e.inMap && !isDropped o (servers.map (·.1)) e)) ∨
    (st.next ≤ e'.id ∧ e'.owner = o ∧ e'.url ∈ servers.map (·.1) ∧ e'.inMap = true) := by
  rcases (syncEndpoints_rel st o servers).bwd e' he' with ⟨d, hd, h1, h2, h3, h4⟩ | h
  · obtain ⟨e, he, rfl⟩ := List.mem_map.1 hd
    exact Or.inl ⟨e, he, by rw [h1, dropEp_id], by rw [h2, dropEp_owner], by rw [h3, dropEp_url], by rw [h4, dropEp_inMap]⟩
  · exact Or.inr h

theorem syncEndpoints_cl (x : Nat) : Sid.cl x ∈ (syncEndpoints st o servers).cancels ↔ Sid.cl x ∈ st.cancels := by
  constructor
  · intro h
    rcases syncEndpoints_newc st o servers _ h with h | ⟨_, _, _, h⟩ | ⟨_, _, _, _, _, h⟩
    · exact h
    · cases h
    · cases h
  · exact syncEndpoints_sub st o servers _

theorem syncEndpoints_rq (x : Nat) : Sid.rq x ∈ (syncEndpoints st o servers).cancels ↔ Sid.rq x ∈ st.cancels := by
  constructor
  · intro h
    rcases syncEndpoints_newc st o servers _ h with h | ⟨_, _, _, h⟩ | ⟨_, _, _, _, _, h⟩
    · exact h
    · cases h
    · cases h
  · exact syncEndpoints_sub st o servers _

end

/-! ## the name-side invariant -/

structure InvN (next : Nat) (heap : Nat → Option Cluster) (names : Str → Option Nat) (cs : List Sid) : Prop where
  heap_lt : ∀ o c, heap o = some c → o < next
  cl_lt : ∀ o, Sid.cl o ∈ cs → o < next
  names_ok : ∀ k o, names k = some o → ∃ c, heap o = some c ∧ k ∈ c.serverNames ∧ names c.name = some o ∧ Sid.cl o ∉ cs
  no_leak : ∀ o c, heap o = some c → names c.name = some o ∨ Sid.cl o ∈ cs
  srv_lower : ∀ o c, heap o = some c → ∀ n, n ∈ c.serverNames → lower n = n

theorem InvN.unique {next : Nat} {heap : Nat → Option Cluster} {names : Str → Option Nat} {cs : List Sid}
    (h : InvN next heap names cs) {k1 k2 : Str} {o1 o2 : Nat} {c1 c2 : Cluster}
    (h1 : names k1 = some o1) (h2 : names k2 = some o2) (hc1 : heap o1 = some c1) (hc2 : heap o2 = some c2)
    (hn : c1.name = c2.name) : o1 = o2 := by
  obtain ⟨d1, hd1, _, ho1, _⟩ := h.names_ok k1 o1 h1
  obtain ⟨d2, hd2, _, ho2, _⟩ := h.names_ok k2 o2 h2
  rw [hc1] at hd1; cases hd1
  rw [hc2] at hd2; cases hd2
  rw [hn, ho2] at ho1
  cases ho1; rfl

theorem deleteFor_cases (st : State) (cname : Str) :
    deleteForServerNames st cname = st ∨
    ∃ o c, st.names (lower cname) = some o ∧ st.heap o = some c ∧
      deleteForServerNames st cname = c.serverNames.foldl (delStep cname) st := by
  unfold deleteForServerNames Model.Lifecycle.get
  cases h : st.names (lower cname) with
  | none => exact Or.inl rfl
  | some o =>
    cases hc : st.heap o with
    | none => left; simp [hc]
    | some c => right; exact ⟨o, c, rfl, hc, by simp [hc]⟩

theorem nameOf_some {st : State} {o : Nat} {c : Cluster} (h : st.heap o = some c) : nameOf st o = some c.name := by
  unfold nameOf; rw [h]; rfl

theorem nameOf_eq_some {st : State} {o : Nat} {n : Str} (h : nameOf st o = some n) : ∃ c, st.heap o = some c ∧ c.name = n := by
  unfold nameOf at h
  cases hc : st.heap o with
  | none => rw [hc] at h; cases h
  | some c => rw [hc] at h; exact ⟨c, rfl, by cases h; rfl⟩

/-- the keys `DeleteForServerNames` can delete all belong to the cluster registered under its own name `cname` -/
theorem victim_is_owner {st : State} (hI : InvN st.next st.heap st.names st.cancels) {cname : Str} {o : Nat} {c : Cluster}
    (ho : st.names cname = some o) (hc : st.heap o = some c) {k : Str} {o2 : Nat}
    (hk : st.names k = some o2) (hn : nameOf st o2 = some cname) :
    o2 = o ∧ c.name = cname ∧ k ∈ c.serverNames ∧ lower k = k := by
  obtain ⟨c2, hc2, hname2⟩ := nameOf_eq_some hn
  obtain ⟨d2, hd2, hkin, hown, _⟩ := hI.names_ok k o2 hk
  rw [hc2] at hd2; cases hd2
  rw [hname2] at hown
  rw [ho] at hown; cases hown
  rw [hc] at hc2; cases hc2
  exact ⟨rfl, hname2, hkin, hI.srv_lower _ _ hc _ hkin⟩

theorem deleteFor_invN (st : State) (cname : Str) (hl : lower cname = cname)
    (hI : InvN st.next st.heap st.names st.cancels) :
    InvN (deleteForServerNames st cname).next (deleteForServerNames st cname).heap
      (deleteForServerNames st cname).names (deleteForServerNames st cname).cancels := by
  rcases deleteFor_cases st cname with h | ⟨o, c, ho, hc, h⟩
  · rw [h]; exact hI
  · rw [h]
    rw [hl] at ho
    have R := delFold_rel cname c.serverNames st
    generalize c.serverNames.foldl (delStep cname) st = f at R
    have killed : ∀ k o2, st.names k = some o2 → nameOf st o2 = some cname → f.names k = none := by
      intro k o2 hk hn
      obtain ⟨_, _, hkin, hlk⟩ := victim_is_owner hI ho hc hk hn
      exact (R.kill k o2 hk hn ⟨k, hkin, hlk⟩).1
    have survive : ∀ k o2, f.names k = some o2 → ∀ c2, st.heap o2 = some c2 → st.names c2.name = some o2 →
        f.names c2.name = some o2 := by
      intro k o2 hf c2 hc2 hown
      rcases R.keep c2.name o2 hown with h1 | ⟨_, hn, _, _⟩
      · exact h1
      · have := killed k o2 (R.shrink k o2 hf) hn
        rw [hf] at this; cases this
    refine ⟨?_, ?_, ?_, ?_, ?_⟩
    · intro o2 c2 h2; rw [R.next_eq]; rw [R.heap_eq] at h2; exact hI.heap_lt o2 c2 h2
    · intro o2 h2
      rw [R.next_eq]
      rcases R.newc _ h2 with h3 | ⟨k, o', hk, _, _, heq⟩
      · exact hI.cl_lt o2 h3
      · cases heq
        obtain ⟨c2, hc2, _⟩ := hI.names_ok k o2 hk
        exact hI.heap_lt o2 c2 hc2
    · intro k o2 hf
      have hk := R.shrink k o2 hf
      obtain ⟨c2, hc2, hkin, hown, hncl⟩ := hI.names_ok k o2 hk
      refine ⟨c2, by rw [R.heap_eq]; exact hc2, hkin, survive k o2 hf c2 hc2 hown, ?_⟩
      intro hcl
      rcases R.newc _ hcl with h3 | ⟨k', o', hk', hn', _, heq⟩
      · exact hncl h3
      · cases heq
        have := killed k o2 hk hn'
        rw [hf] at this; cases this
    · intro o2 c2 h2
      rw [R.heap_eq] at h2
      rcases hI.no_leak o2 c2 h2 with h3 | h3
      · rcases R.keep c2.name o2 h3 with h4 | ⟨_, _, _, h4⟩
        · exact Or.inl h4
        · exact Or.inr h4
      · exact Or.inr (R.sub _ h3)
    · intro o2 c2 h2; rw [R.heap_eq] at h2; exact hI.srv_lower o2 c2 h2


/-! ## `AddOrUpdateForServerNames` -/

theorem aou_spec (s : State) (old : List Str) (o : Nat) (c' : Cluster) (h : s.heap o = some c') :
    (old = c'.serverNames ∧ addOrUpdateForServerNames s old o = s) ∨
    (old ≠ c'.serverNames ∧ ∃ g, DropRel c'.name c'.serverNames old s g ∧
        AddRel old o c'.serverNames g (addOrUpdateForServerNames s old o)) := by
  unfold addOrUpdateForServerNames
  simp only [h]
  by_cases he : old = c'.serverNames
  · left; exact ⟨he, by simp [he]⟩
  · right
    refine ⟨he, _, dropFold_rel c'.name c'.serverNames old s, ?_⟩
    simp only [he, if_false]
    exact addFold_rel old o c'.serverNames _

theorem aou_frame (s : State) (old : List Str) (o : Nat) :
    (addOrUpdateForServerNames s old o).heap = s.heap ∧ (addOrUpdateForServerNames s old o).eps = s.eps ∧
    (addOrUpdateForServerNames s old o).reqs = s.reqs ∧ (addOrUpdateForServerNames s old o).next = s.next ∧
    (addOrUpdateForServerNames s old o).cancels = s.cancels := by
  cases hc : s.heap o with
  | none => unfold addOrUpdateForServerNames; simp [hc]
  | some c' =>
    rcases aou_spec s old o c' hc with ⟨_, h⟩ | ⟨_, g, G, A⟩
    · rw [h]; exact ⟨rfl, rfl, rfl, rfl, rfl⟩
    · exact ⟨A.heap_eq.trans G.heap_eq, A.eps_eq.trans G.eps_eq, A.reqs_eq.trans G.reqs_eq, A.next_eq.trans G.next_eq,
        A.cancels_eq.trans G.cancels_eq⟩

theorem upd_same {α : Type} (f : Nat → Option α) (k : Nat) (v : α) : upd f k v k = some v := by simp [upd]
theorem upd_other {α : Type} (f : Nat → Option α) (k : Nat) (v : α) (x : Nat) (h : x ≠ k) : upd f k v x = f x := by simp [upd, h]

theorem aou_invN (s0 s2 : State) (o : Nat) (c' : Cluster) (old : List Str)
    (hI : InvN s0.next s0.heap s0.names s0.cancels)
    (hheap : s2.heap = upd s0.heap o c') (hnames : s2.names = s0.names)
    (hnext : s0.next ≤ s2.next) (hon : o < s2.next)
    (hcl : ∀ x, Sid.cl x ∈ s2.cancels ↔ Sid.cl x ∈ s0.cancels)
    (hlow : ∀ k, k ∈ c'.serverNames → lower k = k)
    (hold_low : ∀ k, k ∈ old → lower k = k)
    (hU1 : ∀ k, s0.names k = some o → k ∈ old)
    (hU3 : c'.name ∈ old → s0.names c'.name = some o)
    (hU6 : Sid.cl o ∉ s0.cancels)
    (hfree : old ≠ c'.serverNames → ∀ nn, nn ∈ c'.serverNames → nn ∉ old → s0.names nn = none)
    (hvict : ∀ k o2, s0.names k = some o2 → nameOf s2 o2 = some c'.name → o2 = o) :
    InvN (addOrUpdateForServerNames s2 old o).next (addOrUpdateForServerNames s2 old o).heap
      (addOrUpdateForServerNames s2 old o).names (addOrUpdateForServerNames s2 old o).cancels := by
  have hs2o : s2.heap o = some c' := by rw [hheap]; exact upd_same ..
  have hs2x : ∀ o2, o2 ≠ o → s2.heap o2 = s0.heap o2 := fun o2 h => by rw [hheap]; exact upd_other _ _ _ _ h
  have hcn_new : c'.name ∈ c'.serverNames := List.mem_cons_self ..
  have hcn_low : lower c'.name = c'.name := hlow _ hcn_new
  have hname_o : nameOf s2 o = some c'.name := nameOf_some hs2o
  obtain ⟨fh, _, _, fn, fc⟩ := aou_frame s2 old o
  have hclo : Sid.cl o ∉ s2.cancels := fun h => hU6 ((hcl o).1 h)
  -- the parts that do not depend on the names
  have p_heap_lt : ∀ o2 c2, s2.heap o2 = some c2 → o2 < s2.next := by
    intro o2 c2 h2
    by_cases ho : o2 = o
    · subst ho; exact hon
    · rw [hs2x o2 ho] at h2; exact Nat.lt_of_lt_of_le (hI.heap_lt o2 c2 h2) hnext
  have p_cl_lt : ∀ o2, Sid.cl o2 ∈ s2.cancels → o2 < s2.next :=
    fun o2 h2 => Nat.lt_of_lt_of_le (hI.cl_lt o2 ((hcl o2).1 h2)) hnext
  have p_low : ∀ o2 c2, s2.heap o2 = some c2 → ∀ n, n ∈ c2.serverNames → lower n = n := by
    intro o2 c2 h2
    by_cases ho : o2 = o
    · subst ho; rw [hs2o] at h2; cases h2; exact hlow
    · rw [hs2x o2 ho] at h2; exact hI.srv_lower o2 c2 h2
  rcases aou_spec s2 old o c' hs2o with ⟨heq, hr⟩ | ⟨hne, g, G, A⟩
  · rw [hr]
    have hown : s2.names c'.name = some o := by rw [hnames]; exact hU3 (by rw [heq]; exact hcn_new)
    refine ⟨p_heap_lt, p_cl_lt, ?_, ?_, p_low⟩
    · intro k o2 hk
      rw [hnames] at hk
      obtain ⟨c2, hc2, hkin, hown2, hncl⟩ := hI.names_ok k o2 hk
      by_cases ho : o2 = o
      · subst ho
        exact ⟨c', hs2o, by rw [← heq]; exact hU1 k hk, hown, hclo⟩
      · exact ⟨c2, by rw [hs2x o2 ho]; exact hc2, hkin, by rw [hnames]; exact hown2, fun h => hncl ((hcl o2).1 h)⟩
    · intro o2 c2 h2
      by_cases ho : o2 = o
      · subst ho; rw [hs2o] at h2; cases h2; exact Or.inl hown
      · rw [hs2x o2 ho] at h2
        rcases hI.no_leak o2 c2 h2 with h3 | h3
        · exact Or.inl (by rw [hnames]; exact h3)
        · exact Or.inr ((hcl o2).2 h3)
  · rw [fh, fn, fc]
    have notAdded_of_old : ∀ k, k ∈ old → ¬ ∃ nn, nn ∈ c'.serverNames ∧ nn ∉ old ∧ lower nn = k := by
      intro k hk ⟨nn, h1, h2, h3⟩
      rw [hlow nn h1] at h3; subst h3; exact h2 hk
    have F1 : (addOrUpdateForServerNames s2 old o).names c'.name = some o := by
      by_cases hin : c'.name ∈ old
      · rw [A.other _ (notAdded_of_old _ hin)]
        have hs : s2.names c'.name = some o := by rw [hnames]; exact hU3 hin
        rcases G.keep _ _ hs with h | ⟨_, _, on, h1, h2, h3⟩
        · exact h
        · rw [hold_low on h1] at h2; subst h2; exact absurd hcn_new h3
      · exact A.added _ ⟨c'.name, hcn_new, hin, hcn_low⟩
    have F2 : ∀ o2, o2 ≠ o → ∀ c2, s0.heap o2 = some c2 → s0.names c2.name = some o2 →
        (addOrUpdateForServerNames s2 old o).names c2.name = some o2 := by
      intro o2 ho c2 hc2 hown2
      have hna : ¬ ∃ nn, nn ∈ c'.serverNames ∧ nn ∉ old ∧ lower nn = c2.name := by
        intro ⟨nn, h1, h2, h3⟩
        rw [hlow nn h1] at h3; subst h3
        rw [hfree hne _ h1 h2] at hown2; cases hown2
      rw [A.other _ hna]
      rcases G.keep c2.name o2 (by rw [hnames]; exact hown2) with h | ⟨_, hn, _⟩
      · exact h
      · exact absurd (hvict _ _ hown2 hn) ho
    refine ⟨p_heap_lt, p_cl_lt, ?_, ?_, p_low⟩
    · intro k o2 hk
      by_cases hadd : ∃ nn, nn ∈ c'.serverNames ∧ nn ∉ old ∧ lower nn = k
      · rw [A.added k hadd] at hk; cases hk
        obtain ⟨nn, h1, _, h3⟩ := hadd
        rw [hlow nn h1] at h3; subst h3
        exact ⟨c', hs2o, h1, F1, hclo⟩
      · rw [A.other k hadd] at hk
        have hk2 := G.shrink k o2 hk
        have hk0 : s0.names k = some o2 := by rw [← hnames]; exact hk2
        obtain ⟨c2, hc2, hkin, hown2, hncl⟩ := hI.names_ok k o2 hk0
        by_cases ho : o2 = o
        · subst ho
          refine ⟨c', hs2o, ?_, F1, hclo⟩
          by_cases hknew : k ∈ c'.serverNames
          · exact hknew
          · have hkold := hU1 k hk0
            have := G.kill k o2 hk2 hname_o ⟨k, hkold, hold_low k hkold, hknew⟩
            rw [hk] at this; cases this
        · exact ⟨c2, by rw [hs2x o2 ho]; exact hc2, hkin, F2 o2 ho c2 hc2 hown2, fun h => hncl ((hcl o2).1 h)⟩
    · intro o2 c2 h2
      by_cases ho : o2 = o
      · subst ho; rw [hs2o] at h2; cases h2; exact Or.inl F1
      · rw [hs2x o2 ho] at h2
        rcases hI.no_leak o2 c2 h2 with h3 | h3
        · exact Or.inl (F2 o2 ho c2 h2 h3)
        · exact Or.inr ((hcl o2).2 h3)


/-! ## `syncUpstreamCluster` -/

theorem conflicts_false {st : State} {cname : Str} {old new : List Str} (h : conflicts st cname old new = false)
    (hne : old ≠ new) :
    (∀ n, n ∈ new → foreign st cname n = false) ∧ (∀ n, n ∈ old → n ∉ new → foreign st cname n = false) := by
  unfold conflicts at h
  simp only [hne, if_false] at h
  rw [Bool.or_eq_false_iff] at h
  constructor
  · intro n hn
    have h1 := h.1
    rw [List.any_eq_false] at h1
    simpa using h1 n hn
  · intro n hn hnn
    have h2 := h.2
    rw [List.any_eq_false] at h2
    have := h2 n hn
    simpa [(hasStr_false_iff _ _).2 hnn] using this

theorem foreign_false {st : State} {cname n : Str} (h : foreign st cname n = false) (hl : lower n = n) {o2 : Nat}
    (hk : st.names n = some o2) : nameOf st o2 = some cname := by
  unfold foreign Model.Lifecycle.get at h
  rw [hl, hk] at h
  simpa using h

/-- `NewEmptyClusterInfo`: the state in which the bootstrap `Sync` runs -/
def bootState (st : State) (sp : Spec) : State :=
  { st with next := st.next + 1, heap := upd st.heap st.next { name := lower sp.name, aliases := sp.aliases.map lower } }

/-- the state in which `syncEndpoints` of an existing cluster runs (secureServing already stored) -/
def syncState (st : State) (sp : Spec) (o : Nat) (c : Cluster) : State :=
  { st with heap := upd st.heap o { c with aliases := sp.aliases.map lower } }

/-- the three ways `syncUpstreamCluster` can go for an object the lister has -/
theorem applySpec_cases (st : State) (sp : Spec) :
    applySpec st sp = st ∨
    (st.names (lower sp.name) = none ∧ conflicts st (lower sp.name) [] (lower sp.name :: sp.aliases.map lower) = false ∧
      applySpec st sp = addOrUpdateForServerNames (syncEndpoints (bootState st sp) st.next sp.servers) [] st.next) ∨
    (∃ o c, st.names (lower sp.name) = some o ∧ st.heap o = some c ∧ c.name = lower sp.name ∧
      conflicts st (lower sp.name) c.serverNames (lower sp.name :: sp.aliases.map lower) = false ∧
      applySpec st sp = addOrUpdateForServerNames (syncEndpoints (syncState st sp o c) o sp.servers) c.serverNames o) := by
  unfold bootState syncState
  unfold applySpec Model.Lifecycle.get
  simp only [lower_idem]
  cases hk : st.names (lower sp.name) with
  | none =>
    simp only
    by_cases hc : conflicts st (lower sp.name) [] (lower sp.name :: sp.aliases.map lower) = true
    · left; simp [hc]
    · right; left
      have hc' : conflicts st (lower sp.name) [] (lower sp.name :: sp.aliases.map lower) = false := by simpa using hc
      refine ⟨?_, hc', ?_⟩
      · trivial
      · simp [hc']
  | some o =>
    simp only
    cases hh : st.heap o with
    | none =>
      left
      simp only
      split <;> rfl
    | some c =>
      simp only
      by_cases hc : conflicts st (lower sp.name) c.serverNames (lower sp.name :: sp.aliases.map lower) = true
      · left; simp [hc]
      · have hc' : conflicts st (lower sp.name) c.serverNames (lower sp.name :: sp.aliases.map lower) = false := by simpa using hc
        by_cases hn : c.name = lower sp.name
        · right; right
          exact ⟨o, c, rfl, hh, hn, hc', by simp [hc', hn]⟩
        · left; simp [hc', hn]

theorem lower_new_idem (name : Str) (aliases : List Str) :
    ∀ k, k ∈ (lower name :: aliases.map lower) → lower k = k := by
  intro k hk
  rcases List.mem_cons.1 hk with h | h
  · subst h; exact lower_idem _
  · obtain ⟨a, _, rfl⟩ := List.mem_map.1 h
    exact lower_idem _

theorem applySpec_invN (st : State) (sp : Spec) (hI : InvN st.next st.heap st.names st.cancels) :
    InvN (applySpec st sp).next (applySpec st sp).heap (applySpec st sp).names (applySpec st sp).cancels := by
  rcases applySpec_cases st sp with h | ⟨hk, hconf, h⟩ | ⟨o, c, hk, hc, hcn, hconf, h⟩
  · rw [h]; exact hI
  · -- bootstrap
    rw [h]
    have hnone : ∀ o2, nameOf st o2 = some (lower sp.name) → ∀ k, st.names k = some o2 → False := by
      intro o2 hn k hk2
      obtain ⟨c2, hc2, hname2⟩ := nameOf_eq_some hn
      obtain ⟨d2, hd2, _, hown, _⟩ := hI.names_ok k o2 hk2
      rw [hc2] at hd2; cases hd2
      rw [hname2, hk] at hown; cases hown
    have hle : st.next + 1 ≤ (syncEndpoints (bootState st sp) st.next sp.servers).next :=
      syncEndpoints_next_le (bootState st sp) st.next sp.servers
    apply aou_invN st _ st.next { name := lower sp.name, aliases := sp.aliases.map lower } []  hI
    · rw [syncEndpoints_heap]; rfl
    · rw [syncEndpoints_names]; rfl
    · exact Nat.le_trans (Nat.le_succ _) hle
    · exact Nat.lt_of_lt_of_le (Nat.lt_succ_self _) hle
    · intro x; exact syncEndpoints_cl ..
    · exact lower_new_idem sp.name sp.aliases
    · intro k hk2; cases hk2
    · intro k hk2
      obtain ⟨c2, hc2, _⟩ := hI.names_ok k _ hk2
      exact absurd (hI.heap_lt _ _ hc2) (Nat.lt_irrefl _)
    · intro h2; cases h2
    · intro h2; exact absurd (hI.cl_lt _ h2) (Nat.lt_irrefl _)
    · intro hne nn hnn _
      cases hkn : st.names nn with
      | none => rfl
      | some o2 =>
        exfalso
        have hf := (conflicts_false hconf hne).1 nn hnn
        exact hnone o2 (foreign_false hf (lower_new_idem sp.name sp.aliases nn hnn) hkn) nn hkn
    · intro k o2 hk2 hn
      by_cases ho : o2 = st.next
      · exact ho
      · exfalso
        have : nameOf st o2 = some (lower sp.name) := by
          unfold nameOf at hn ⊢
          rw [syncEndpoints_heap] at hn
          simpa [bootState, upd, ho] using hn
        exact hnone o2 this k hk2
  · -- sync of an existing cluster
    rw [h]
    have hcname : ({ c with aliases := sp.aliases.map lower } : Cluster).name = lower sp.name := hcn
    have hle : st.next ≤ (syncEndpoints (syncState st sp o c) o sp.servers).next :=
      syncEndpoints_next_le (syncState st sp o c) o sp.servers
    apply aou_invN st _ o { c with aliases := sp.aliases.map lower } c.serverNames hI
    · rw [syncEndpoints_heap]; rfl
    · rw [syncEndpoints_names]; rfl
    · exact hle
    · exact Nat.lt_of_lt_of_le (hI.heap_lt o c hc) hle
    · intro x; exact syncEndpoints_cl ..
    · have := lower_new_idem sp.name sp.aliases
      intro k hk2
      apply this
      unfold Cluster.serverNames at hk2
      rw [hcname] at hk2; exact hk2
    · exact hI.srv_lower o c hc
    · intro k hk2
      obtain ⟨c2, hc2, hkin, _⟩ := hI.names_ok k o hk2
      rw [hc] at hc2; cases hc2; exact hkin
    · intro _; rw [hcname]; exact hk
    · obtain ⟨_, _, _, _, hncl⟩ := hI.names_ok _ o hk
      exact hncl
    · intro hne nn hnn hnold
      cases hkn : st.names nn with
      | none => rfl
      | some o2 =>
        exfalso
        have hnn' : nn ∈ (lower sp.name :: sp.aliases.map lower) := by
          unfold Cluster.serverNames at hnn; rw [hcname] at hnn; exact hnn
        have hne' : c.serverNames ≠ (lower sp.name :: sp.aliases.map lower) := by
          intro he; apply hne; rw [he]; unfold Cluster.serverNames; rw [hcname]
        have hf := (conflicts_false hconf hne').1 nn hnn'
        have hn := foreign_false hf (lower_new_idem sp.name sp.aliases nn hnn') hkn
        obtain ⟨_, _, hkin, _⟩ := victim_is_owner hI hk hc hkn hn
        exact hnold hkin
    · intro k o2 hk2 hn
      by_cases ho : o2 = o
      · exact ho
      · have : nameOf st o2 = some (lower sp.name) := by
          unfold nameOf at hn ⊢
          rw [syncEndpoints_heap] at hn
          rw [hcname] at hn
          simpa [syncState, upd, ho] using hn
        exact (victim_is_owner hI hk hc hk2 this).1


/-! ## requests -/

structure InvR (reqs : Nat → Option Phase) (eps : List Ep) (cs : List Sid) : Prop where
  req_ep : ∀ r eid o, (reqs r = some (Phase.proxying eid o) ∨ reqs r = some (Phase.finished eid o)) →
      ∃ e, e ∈ eps ∧ e.id = eid ∧ e.owner = o
  req_fin : ∀ r eid o, reqs r = some (Phase.finished eid o) → Sid.rq r ∈ cs

theorem InvR.mono {reqs : Nat → Option Phase} {eps eps' : List Ep} {cs cs' : List Sid} (h : InvR reqs eps cs)
    (he : ∀ e, e ∈ eps → ∃ e', e' ∈ eps' ∧ e'.id = e.id ∧ e'.owner = e.owner)
    (hc : ∀ s, s ∈ cs → s ∈ cs') : InvR reqs eps' cs' where
  req_ep r eid o hr := by
    obtain ⟨e, he1, he2, he3⟩ := h.req_ep r eid o hr
    obtain ⟨e', h1, h2, h3⟩ := he e he1
    exact ⟨e', h1, h2.trans he2, h3.trans he3⟩
  req_fin r eid o hr := hc _ (h.req_fin r eid o hr)

theorem InvN.cancels_congr {next : Nat} {heap : Nat → Option Cluster} {names : Str → Option Nat} {cs cs' : List Sid}
    (h : InvN next heap names cs) (hc : ∀ x, Sid.cl x ∈ cs' ↔ Sid.cl x ∈ cs) : InvN next heap names cs' where
  heap_lt := h.heap_lt
  cl_lt o ho := h.cl_lt o ((hc o).1 ho)
  names_ok k o hk := by
    obtain ⟨c, h1, h2, h3, h4⟩ := h.names_ok k o hk
    exact ⟨c, h1, h2, h3, fun hx => h4 ((hc o).1 hx)⟩
  no_leak o c ho := by
    rcases h.no_leak o c ho with h1 | h1
    · exact Or.inl h1
    · exact Or.inr ((hc o).2 h1)
  srv_lower := h.srv_lower

theorem InvN.next_le {next next' : Nat} {heap : Nat → Option Cluster} {names : Str → Option Nat} {cs : List Sid}
    (h : InvN next heap names cs) (hn : next ≤ next') : InvN next' heap names cs where
  heap_lt o c ho := Nat.lt_of_lt_of_le (h.heap_lt o c ho) hn
  cl_lt o ho := Nat.lt_of_lt_of_le (h.cl_lt o ho) hn
  names_ok := h.names_ok
  no_leak := h.no_leak
  srv_lower := h.srv_lower

/-! ## the invariant of every reachable state -/

structure Inv (st : State) : Prop where
  e : InvE st.next st.eps st.cancels
  n : InvN st.next st.heap st.names st.cancels
  r : InvR st.reqs st.eps st.cancels
  o : ∀ e, e ∈ st.eps → ∃ c, st.heap e.owner = some c

theorem init_inv : Inv init := by
  refine ⟨⟨?_, ?_, List.Pairwise.nil, ?_, ?_, ?_, ?_, ?_, ?_⟩, ⟨?_, ?_, ?_, ?_, ?_⟩, ⟨?_, ?_⟩, ?_⟩
  · intro e h; cases h
  · intro e h; cases h
  · intro e h; cases h
  · intro e h; cases h
  · intro e h; cases h
  · intro e h; cases h
  · intro e h; cases h
  · intro e h; cases h
  · intro o c h; cases h
  · intro o h; cases h
  · intro k o h; cases h
  · intro o c h; cases h
  · intro o c h; cases h
  · intro r eid o h; rcases h with h | h <;> cases h
  · intro r eid o h; cases h
  · intro e h; cases h

theorem applySpec_eps_cancels (st : State) (sp : Spec) (hN : InvN st.next st.heap st.names st.cancels) :
    applySpec st sp = st ∨
    ∃ s1 o, s1.eps = st.eps ∧ s1.cancels = st.cancels ∧ s1.reqs = st.reqs ∧ s1.names = st.names ∧ st.next ≤ s1.next ∧
      o < s1.next ∧ (st.names (lower sp.name) = some o ∨ (st.names (lower sp.name) = none ∧ o = st.next)) ∧
      (applySpec st sp).eps = (syncEndpoints s1 o sp.servers).eps ∧
      (applySpec st sp).cancels = (syncEndpoints s1 o sp.servers).cancels ∧
      (applySpec st sp).next = (syncEndpoints s1 o sp.servers).next ∧
      (applySpec st sp).reqs = st.reqs ∧
      (∃ c', (applySpec st sp).heap = upd st.heap o c') := by
  rcases applySpec_cases st sp with h | ⟨hk, _, h⟩ | ⟨o, c, hk, hc, _, _, h⟩
  · exact Or.inl h
  · right
    obtain ⟨f1, f2, f3, f4, f5⟩ := aou_frame (syncEndpoints (bootState st sp) st.next sp.servers) [] st.next
    exact ⟨bootState st sp, st.next, rfl, rfl, rfl, rfl, Nat.le_succ _, Nat.lt_succ_self _, Or.inr ⟨hk, rfl⟩,
      by rw [h, f2], by rw [h, f5], by rw [h, f4], by rw [h, f3, syncEndpoints_reqs]; rfl,
      ⟨_, by rw [h, f1, syncEndpoints_heap]; rfl⟩⟩
  · right
    obtain ⟨f1, f2, f3, f4, f5⟩ := aou_frame (syncEndpoints (syncState st sp o c) o sp.servers) c.serverNames o
    exact ⟨syncState st sp o c, o, rfl, rfl, rfl, rfl, Nat.le_refl _, hN.heap_lt o c hc, Or.inl hk,
      by rw [h, f2], by rw [h, f5], by rw [h, f4], by rw [h, f3, syncEndpoints_reqs]; rfl,
      ⟨_, by rw [h, f1, syncEndpoints_heap]; rfl⟩⟩

theorem applySpec_inv (st : State) (sp : Spec) (hI : Inv st) : Inv (applySpec st sp) := by
  refine ⟨?_, applySpec_invN st sp hI.n, ?_, ?_⟩
  rotate_left 2
  · rcases applySpec_eps_cancels st sp hI.n with h | ⟨s1, o, h1, _, _, _, _, _, _, h6, _, _, _, c', h10⟩
    · rw [h]; exact hI.o
    · rw [h6, h10]
      intro e' he'
      rcases syncEndpoints_bwd s1 o sp.servers e' he' with ⟨e, he, _, hown, _⟩ | ⟨_, hown, _⟩
      · rw [h1] at he
        obtain ⟨c0, hc0⟩ := hI.o e he
        rw [hown]
        by_cases hoo : e.owner = o
        · rw [hoo]; exact ⟨c', upd_same ..⟩
        · exact ⟨c0, by rw [upd_other _ _ _ _ hoo]; exact hc0⟩
      · rw [hown]; exact ⟨c', upd_same ..⟩
  · rcases applySpec_eps_cancels st sp hI.n with h | ⟨s1, o, h1, h2, _, _, h5, ho, _, h6, h7, h8, _⟩
    · rw [h]; exact hI.e
    · rw [h6, h7, h8]
      apply syncEndpoints_invE _ _ _ _ ho
      rw [h1, h2]
      exact hI.e.weaken h5 (fun _ h => h)
  · rcases applySpec_eps_cancels st sp hI.n with h | ⟨s1, o, h1, h2, _, _, _, _, _, h6, h7, _, h9, _⟩
    · rw [h]; exact hI.r
    · rw [h6, h7, h9]
      apply hI.r.mono
      · intro e he
        obtain ⟨e', a, b, c, _⟩ := syncEndpoints_fwd s1 o sp.servers e (by rw [h1]; exact he)
        exact ⟨e', a, b, c⟩
      · intro s hs
        exact syncEndpoints_sub s1 o sp.servers s (by rw [h2]; exact hs)

theorem deleteSpec_frame (st : State) (name : Str) :
    (deleteSpec st name).heap = st.heap ∧ (deleteSpec st name).eps = st.eps ∧ (deleteSpec st name).reqs = st.reqs ∧
    (deleteSpec st name).next = st.next ∧ (∀ x, x ∈ st.cancels → x ∈ (deleteSpec st name).cancels) := by
  unfold deleteSpec
  rcases deleteFor_cases st (lower name) with h | ⟨o, c, _, _, h⟩
  · rw [h]; exact ⟨rfl, rfl, rfl, rfl, fun _ h => h⟩
  · rw [h]
    have R := delFold_rel (lower name) c.serverNames st
    exact ⟨R.heap_eq, R.eps_eq, R.reqs_eq, R.next_eq, R.sub⟩

theorem deleteSpec_inv (st : State) (name : Str) (hI : Inv st) : Inv (deleteSpec st name) := by
  obtain ⟨f1, f2, f3, f4, f5⟩ := deleteSpec_frame st name
  refine ⟨?_, deleteFor_invN st (lower name) (lower_idem name) hI.n, ?_, ?_⟩
  · rw [f2, f4]; exact hI.e.weaken (Nat.le_refl _) f5
  · rw [f2, f3]; exact hI.r.mono (fun e he => ⟨e, he, rfl, rfl⟩) f5
  · rw [f1, f2]; exact hI.o

theorem reqStart_inv (st : State) (r : Nat) (host : Str) (hI : Inv st) : Inv (reqStart st r host) := by
  unfold reqStart
  cases hr : st.reqs r with
  | some p => simp only; exact hI
  | none =>
    simp only
    cases hg : Model.Lifecycle.get st host with
    | none =>
      refine ⟨hI.e, hI.n, ⟨?_, ?_⟩, hI.o⟩
      · intro r' eid o h
        by_cases hrr : r' = r
        · subst hrr; simp [upd] at h
        · simp only [upd, hrr, if_false] at h; exact hI.r.req_ep r' eid o h
      · intro r' eid o h
        by_cases hrr : r' = r
        · subst hrr; simp [upd] at h
        · simp only [upd, hrr, if_false] at h; exact hI.r.req_fin r' eid o h
    | some o' =>
      refine ⟨hI.e, hI.n, ⟨?_, ?_⟩, hI.o⟩
      · intro r' eid o h
        by_cases hrr : r' = r
        · subst hrr; simp [upd] at h
        · simp only [upd, hrr, if_false] at h; exact hI.r.req_ep r' eid o h
      · intro r' eid o h
        by_cases hrr : r' = r
        · subst hrr; simp [upd] at h
        · simp only [upd, hrr, if_false] at h; exact hI.r.req_fin r' eid o h

theorem mem_pickable {st : State} {o : Nat} {e : Ep} (h : e ∈ pickable st o) :
    e ∈ st.eps ∧ e.owner = o ∧ e.inMap = true ∧ e.disabled = false ∧ e.healthy = true := by
  unfold pickable at h
  obtain ⟨h1, h2⟩ := List.mem_filter.1 h
  simp only [Bool.and_eq_true, beq_iff_eq, Bool.not_eq_true'] at h2
  exact ⟨h1, h2.1.1.1, h2.1.1.2, h2.1.2, h2.2⟩

theorem reqPick_inv (st : State) (r : Nat) (choice : Nat) (hI : Inv st) : Inv (reqPick st r choice) := by
  unfold reqPick
  split
  · rename_i o hr
    split
    · refine ⟨hI.e, hI.n, ⟨?_, ?_⟩, hI.o⟩
      · intro r' eid o' h
        by_cases hrr : r' = r
        · subst hrr; simp [upd] at h
        · simp only [upd, hrr, if_false] at h; exact hI.r.req_ep r' eid o' h
      · intro r' eid o' h
        by_cases hrr : r' = r
        · subst hrr; simp [upd] at h
        · simp only [upd, hrr, if_false] at h; exact hI.r.req_fin r' eid o' h
    · rename_i e hpick
      have hmem : e ∈ pickable st o := List.mem_of_getElem? hpick
      obtain ⟨he, ho, _⟩ := mem_pickable hmem
      refine ⟨hI.e, hI.n, ⟨?_, ?_⟩, hI.o⟩
      · intro r' eid o' h
        by_cases hrr : r' = r
        · subst hrr
          simp only [upd, if_true] at h
          rcases h with h | h
          · cases h; exact ⟨e, he, rfl, ho⟩
          · cases h
        · simp only [upd, hrr, if_false] at h; exact hI.r.req_ep r' eid o' h
      · intro r' eid o' h
        by_cases hrr : r' = r
        · subst hrr; simp [upd] at h
        · simp only [upd, hrr, if_false] at h; exact hI.r.req_fin r' eid o' h
  · exact hI

theorem reqFinish_inv (st : State) (r : Nat) (hI : Inv st) : Inv (reqFinish st r) := by
  unfold reqFinish
  split
  · rename_i e o hr
    refine ⟨hI.e.weaken (Nat.le_refl _) (fun _ h => List.mem_cons_of_mem _ h), ?_, ⟨?_, ?_⟩, hI.o⟩
    · exact hI.n.cancels_congr (fun x => by simp)
    · intro r' eid o' h
      by_cases hrr : r' = r
      · subst hrr
        simp only [upd, if_true] at h
        rcases h with h | h
        · cases h
        · cases h; exact hI.r.req_ep r' _ _ (Or.inl hr)
      · simp only [upd, hrr, if_false] at h; exact hI.r.req_ep r' eid o' h
    · intro r' eid o' h
      by_cases hrr : r' = r
      · subst hrr; exact List.mem_cons_self ..
      · simp only [upd, hrr, if_false] at h; exact List.mem_cons_of_mem _ (hI.r.req_fin r' eid o' h)
  · exact hI

/-- a probe only changes `healthy` -/
def probeEp (cs : List Sid) (u : Str) (ok : Bool) (e : Ep) : Ep :=
  if e.url == u && hcLive cs e then { e with healthy := ok } else e

theorem health_eq (st : State) (u : Str) (ok : Bool) : health st u ok = { st with eps := st.eps.map (probeEp st.cancels u ok) } := rfl

theorem probeEp_fields (cs : List Sid) (u : Str) (ok : Bool) (e : Ep) :
    (probeEp cs u ok e).id = e.id ∧ (probeEp cs u ok e).owner = e.owner ∧ (probeEp cs u ok e).url = e.url ∧
    (probeEp cs u ok e).inMap = e.inMap ∧ (probeEp cs u ok e).disabled = e.disabled ∧
    (probeEp cs u ok e).hcOn = e.hcOn ∧ (probeEp cs u ok e).hcGen = e.hcGen := by
  unfold probeEp; split <;> exact ⟨rfl, rfl, rfl, rfl, rfl, rfl, rfl⟩

theorem probeEp_parent (cs : List Sid) (u : Str) (ok : Bool) (e : Ep) :
    (probeEp cs u ok e).hcParent = e.hcParent ∧ (probeEp cs u ok e).chain = e.chain := by
  unfold probeEp; split <;> exact ⟨rfl, rfl⟩

theorem health_inv (st : State) (u : Str) (ok : Bool) (hI : Inv st) : Inv (health st u ok) := by
  rw [health_eq]
  refine ⟨⟨?_, ?_, ?_, ?_, ?_, ?_, ?_, ?_, ?_⟩, hI.n, ?_, ?_⟩
  rotate_left 7
  · intro e he g hg
    obtain ⟨e0, he0, rfl⟩ := List.mem_map.1 he
    obtain ⟨_, _, _, _, _, _, f7⟩ := probeEp_fields st.cancels u ok e0
    rw [f7] at hg
    rw [(probeEp_parent ..).1, (probeEp_parent ..).2]; exact hI.e.hc_parent e0 he0 g hg
  · intro e he hon
    obtain ⟨e0, he0, rfl⟩ := List.mem_map.1 he
    obtain ⟨_, _, _, _, _, f6, f7⟩ := probeEp_fields st.cancels u ok e0
    rw [f6] at hon
    rw [f7]; exact hI.e.hc_pos e0 he0 hon
  rotate_left 1
  · intro e he
    obtain ⟨e0, he0, rfl⟩ := List.mem_map.1 he
    rw [(probeEp_fields ..).2.1]; exact hI.o e0 he0
  · intro e he
    obtain ⟨e0, he0, rfl⟩ := List.mem_map.1 he
    rw [(probeEp_fields ..).1]; exact hI.e.ep_lt e0 he0
  · intro e he
    obtain ⟨e0, he0, rfl⟩ := List.mem_map.1 he
    rw [(probeEp_fields ..).2.1]; exact hI.e.owner_lt e0 he0
  · exact List.Pairwise.map _ (fun a b hab => by rw [(probeEp_fields ..).1, (probeEp_fields ..).1]; exact hab) hI.e.nodup
  · intro e he hi
    obtain ⟨e0, he0, rfl⟩ := List.mem_map.1 he
    obtain ⟨f1, _, _, f4, _⟩ := probeEp_fields st.cancels u ok e0
    rw [f4] at hi; rw [f1]; exact hI.e.gone e0 he0 hi
  · intro e he
    obtain ⟨e0, he0, rfl⟩ := List.mem_map.1 he
    obtain ⟨_, _, _, _, f5, f6, _⟩ := probeEp_fields st.cancels u ok e0
    rw [f5, f6]; exact hI.e.hc_sync e0 he0
  · intro e he g hg
    obtain ⟨e0, he0, rfl⟩ := List.mem_map.1 he
    obtain ⟨f1, _, _, _, _, _, f7⟩ := probeEp_fields st.cancels u ok e0
    rw [f7] at hg; rw [f1]; exact hI.e.hc_old e0 he0 g hg
  · intro e he hon g hg
    obtain ⟨e0, he0, rfl⟩ := List.mem_map.1 he
    obtain ⟨f1, _, _, _, _, f6, f7⟩ := probeEp_fields st.cancels u ok e0
    rw [f7] at hg; rw [f6] at hon; rw [f1]; exact hI.e.hc_off e0 he0 hon g hg
  · apply hI.r.mono
    · intro e he
      exact ⟨probeEp st.cancels u ok e, List.mem_map.2 ⟨e, he, rfl⟩, (probeEp_fields ..).1, (probeEp_fields ..).2.1⟩
    · exact fun _ h => h

theorem step_inv (st : State) (op : Op) (hI : Inv st) : Inv (step st op) := by
  cases op with
  | apply sp => exact applySpec_inv st sp hI
  | delete n => exact deleteSpec_inv st n hI
  | reqStart r h => exact reqStart_inv st r h hI
  | reqPick r c => exact reqPick_inv st r c hI
  | reqFinish r => exact reqFinish_inv st r hI
  | health u ok => exact health_inv st u ok hI

theorem run_inv (ops : List Op) (st : State) (hI : Inv st) : Inv (run ops st) :=
  foldl_inv Inv step (fun s op h => step_inv s op h) ops st hI


/-! ## along histories: cancelled stays cancelled, endpoint objects persist, removed stays removed -/

theorem step_cancels_mono (st : State) (op : Op) (hI : Inv st) : ∀ s, s ∈ st.cancels → s ∈ (step st op).cancels := by
  intro s hs
  cases op with
  | apply sp =>
    show s ∈ (applySpec st sp).cancels
    rcases applySpec_eps_cancels st sp hI.n with h | ⟨s1, o, _, h2, _, _, _, _, _, _, h7, _⟩
    · rw [h]; exact hs
    · rw [h7]; exact syncEndpoints_sub s1 o sp.servers s (by rw [h2]; exact hs)
  | delete n => exact (deleteSpec_frame st n).2.2.2.2 s hs
  | reqStart r h =>
    show s ∈ (reqStart st r h).cancels
    unfold reqStart; split
    · exact hs
    · split <;> exact hs
  | reqPick r c =>
    show s ∈ (reqPick st r c).cancels
    unfold reqPick; split
    · split <;> exact hs
    · exact hs
  | reqFinish r =>
    show s ∈ (reqFinish st r).cancels
    unfold reqFinish; split
    · exact List.mem_cons_of_mem _ hs
    · exact hs
  | health u ok => exact hs

theorem step_ep_fwd (st : State) (op : Op) (hI : Inv st) : ∀ e, e ∈ st.eps →
    ∃ e', e' ∈ (step st op).eps ∧ e'.id = e.id ∧ e'.owner = e.owner ∧ e'.url = e.url ∧ (e.inMap = false → e'.inMap = false) := by
  intro e he
  cases op with
  | apply sp =>
    show ∃ e', e' ∈ (applySpec st sp).eps ∧ _
    rcases applySpec_eps_cancels st sp hI.n with h | ⟨s1, o, h1, _, _, _, _, _, _, h6, _⟩
    · rw [h]; exact ⟨e, he, rfl, rfl, rfl, fun h => h⟩
    · rw [h6]
      obtain ⟨e', a, b, c, d, _, f⟩ := syncEndpoints_fwd s1 o sp.servers e (by rw [h1]; exact he)
      exact ⟨e', a, b, c, d, fun hi => by rw [f, hi]; rfl⟩
  | delete n =>
    show ∃ e', e' ∈ (deleteSpec st n).eps ∧ _
    rw [(deleteSpec_frame st n).2.1]; exact ⟨e, he, rfl, rfl, rfl, fun h => h⟩
  | reqStart r h =>
    show ∃ e', e' ∈ (reqStart st r h).eps ∧ _
    have : (reqStart st r h).eps = st.eps := by
      unfold reqStart; split
      · rfl
      · split <;> rfl
    rw [this]; exact ⟨e, he, rfl, rfl, rfl, fun h => h⟩
  | reqPick r c =>
    show ∃ e', e' ∈ (reqPick st r c).eps ∧ _
    have : (reqPick st r c).eps = st.eps := by
      unfold reqPick; split
      · split <;> rfl
      · rfl
    rw [this]; exact ⟨e, he, rfl, rfl, rfl, fun h => h⟩
  | reqFinish r =>
    show ∃ e', e' ∈ (reqFinish st r).eps ∧ _
    have : (reqFinish st r).eps = st.eps := by
      unfold reqFinish; split <;> rfl
    rw [this]; exact ⟨e, he, rfl, rfl, rfl, fun h => h⟩
  | health u ok =>
    show ∃ e', e' ∈ (health st u ok).eps ∧ _
    rw [health_eq]
    obtain ⟨f1, f2, f3, f4, _⟩ := probeEp_fields st.cancels u ok e
    exact ⟨probeEp st.cancels u ok e, List.mem_map.2 ⟨e, he, rfl⟩, f1, f2, f3, fun h => by rw [f4]; exact h⟩

theorem run_cons (op : Op) (ops : List Op) (st : State) : run (op :: ops) st = run ops (step st op) := rfl

theorem run_cancels_mono (ops : List Op) : ∀ (st : State), Inv st → ∀ s, s ∈ st.cancels → s ∈ (run ops st).cancels := by
  induction ops with
  | nil => intro st _ s hs; exact hs
  | cons op ops ih =>
    intro st hI s hs
    rw [run_cons]
    exact ih _ (step_inv st op hI) s (step_cancels_mono st op hI s hs)

theorem run_ep_fwd (ops : List Op) : ∀ (st : State), Inv st → ∀ e, e ∈ st.eps →
    ∃ e', e' ∈ (run ops st).eps ∧ e'.id = e.id ∧ e'.owner = e.owner ∧ e'.url = e.url ∧ (e.inMap = false → e'.inMap = false) := by
  induction ops with
  | nil => intro st _ e he; exact ⟨e, he, rfl, rfl, rfl, fun h => h⟩
  | cons op ops ih =>
    intro st hI e he
    rw [run_cons]
    obtain ⟨e1, a1, b1, c1, d1, f1⟩ := step_ep_fwd st op hI e he
    obtain ⟨e2, a2, b2, c2, d2, f2⟩ := ih _ (step_inv st op hI) e1 a1
    exact ⟨e2, a2, b2.trans b1, c2.trans c1, d2.trans d1, fun h => f2 (f1 h)⟩

/-! ## deleting an existing cluster -/

theorem deleteSpec_existing (st : State) (name : Str) (hN : InvN st.next st.heap st.names st.cancels)
    {o : Nat} {c : Cluster} (ho : st.names (lower name) = some o) (hc : st.heap o = some c) (hcn : c.name = lower name) :
    (∀ k, (deleteSpec st name).names k ≠ some o) ∧ Sid.cl o ∈ (deleteSpec st name).cancels ∧
    (∀ x, x ∈ (deleteSpec st name).cancels → x ∈ st.cancels ∨ x = Sid.cl o) ∧
    (∀ k o2, o2 ≠ o → ((deleteSpec st name).names k = some o2 ↔ st.names k = some o2)) ∧
    (∀ k o2, (deleteSpec st name).names k = some o2 → st.names k = some o2) := by
  unfold deleteSpec
  rcases deleteFor_cases st (lower name) with h | ⟨o', c', ho', hc', h⟩
  · exfalso
    unfold deleteForServerNames Model.Lifecycle.get at h
    rw [lower_idem, ho] at h
    simp only [hc] at h
    have R := delFold_rel (lower name) c.serverNames st
    rw [h] at R
    have := (R.kill (lower name) o ho (by rw [nameOf_some hc, hcn]) ⟨c.name, List.mem_cons_self .., by rw [hcn, lower_idem]⟩).1
    rw [ho] at this; cases this
  · rw [lower_idem, ho] at ho'; cases ho'
    rw [hc] at hc'; cases hc'
    rw [h]
    have R := delFold_rel (lower name) c.serverNames st
    generalize c.serverNames.foldl (delStep (lower name)) st = f at R
    have hname : nameOf st o = some (lower name) := by rw [nameOf_some hc, hcn]
    refine ⟨?_, ?_, ?_, ?_, R.shrink⟩
    · intro k hk
      have hk0 := R.shrink k o hk
      obtain ⟨_, _, hkin, hlk⟩ := victim_is_owner hN ho hc hk0 hname
      have := (R.kill k o hk0 hname ⟨k, hkin, hlk⟩).1
      rw [hk] at this; cases this
    · exact (R.kill (lower name) o ho hname ⟨c.name, List.mem_cons_self .., by rw [hcn, lower_idem]⟩).2
    · intro x hx
      rcases R.newc x hx with h1 | ⟨k, o2, hk, hn, _, heq⟩
      · exact Or.inl h1
      · right; rw [heq, (victim_is_owner hN ho hc hk hn).1]
    · intro k o2 hne
      constructor
      · exact R.shrink k o2
      · intro hk
        rcases R.keep k o2 hk with h1 | ⟨_, hn, _⟩
        · exact h1
        · exact absurd (victim_is_owner hN ho hc hk hn).1 hne

/-! ## an update that does not touch the server list touches no scope -/

theorem ensureHC_noop (e : Ep) (ctx : Chain) (h : e.hcOn = !e.disabled) : ensureHC e ctx = ([], e) := by
  obtain ⟨id, owner, url, inMap, d, healthy, on, gen, par⟩ := e
  simp only at h
  subst h
  cases d <;> rfl

theorem map_id_of_forall {α : Type} (f : α → α) (l : List α) (h : ∀ a, a ∈ l → f a = a) : l.map f = l := by
  induction l with
  | nil => rfl
  | cons x xs ih =>
    simp only [List.map_cons]
    rw [h x (List.mem_cons_self ..), ih (fun a ha => h a (List.mem_cons_of_mem _ ha))]

theorem flatMap_nil_of_forall {α β : Type} (f : α → List β) (l : List α) (h : ∀ a, a ∈ l → f a = []) : l.flatMap f = [] := by
  induction l with
  | nil => rfl
  | cons x xs ih =>
    simp only [List.flatMap_cons]
    rw [h x (List.mem_cons_self ..), ih (fun a ha => h a (List.mem_cons_of_mem _ ha))]
    rfl

/-- the server list names exactly the endpoints the cluster has, with the flags they have -/
def sameServers (st : State) (o : Nat) (servers : List (Str × Bool)) : Prop :=
  (∀ e, e ∈ st.eps → e.owner = o → e.inMap = true → e.url ∈ servers.map (·.1) ∧ disabledOf servers e.url = e.disabled) ∧
  (∀ u, u ∈ servers.map (·.1) → ∃ e, e ∈ st.eps ∧ e.owner = o ∧ e.inMap = true ∧ e.url = u)

theorem addOrUpdate_noop (st : State) (o : Nat) (u : Str) (dis : Bool)
    (hs : ∀ e, e ∈ st.eps → e.hcOn = !e.disabled)
    (hex : ∃ e, e ∈ st.eps ∧ e.owner = o ∧ e.inMap = true ∧ e.url = u)
    (hall : ∀ e, e ∈ st.eps → e.owner = o → e.inMap = true → e.url = u → e.disabled = dis) :
    addOrUpdate st o u dis = st := by
  unfold addOrUpdate
  have hany : st.eps.any (epMatches o u) = true := by
    obtain ⟨e, he, h1, h2, h3⟩ := hex
    exact List.any_eq_true.2 ⟨e, he, (epMatches_iff o u e).2 ⟨h1, h2, h3⟩⟩
  simp only [hany, if_true]
  have h1 : st.eps.map (updEp o u dis) = st.eps := by
    apply map_id_of_forall
    intro e he
    unfold updEp
    split
    · rename_i hm
      obtain ⟨a, b, c⟩ := (epMatches_iff o u e).1 hm
      have hd := hall e he a b c
      have : ({ e with disabled := dis } : Ep) = e := by rw [← hd]
      rw [this, ensureHC_noop e _ (hs e he)]
    · rfl
  have h2 : st.eps.flatMap (updCancels o u dis) = [] := by
    apply flatMap_nil_of_forall
    intro e he
    unfold updCancels
    split
    · rename_i hm
      obtain ⟨a, b, c⟩ := (epMatches_iff o u e).1 hm
      have hd := hall e he a b c
      have : ({ e with disabled := dis } : Ep) = e := by rw [← hd]
      rw [this, ensureHC_noop e _ (hs e he)]
    · rfl
  rw [h1, h2]
  rfl

theorem syncEndpoints_noop (st : State) (o : Nat) (servers : List (Str × Bool))
    (hs : ∀ e, e ∈ st.eps → e.hcOn = !e.disabled) (hsame : sameServers st o servers) :
    syncEndpoints st o servers = st := by
  rw [syncEndpoints_eq]
  have hd : dropPhase st o (servers.map (·.1)) = st := by
    unfold dropPhase
    have h1 : st.eps.map (dropEp o (servers.map (·.1))) = st.eps := by
      apply map_id_of_forall
      intro e he
      unfold dropEp
      split
      · rename_i hdp
        obtain ⟨a, b, c⟩ := (isDropped_iff _ _ e).1 hdp
        exact absurd (hsame.1 e he a b).1 c
      · rfl
    have h2 : st.eps.filter (isDropped o (servers.map (·.1))) = [] := by
      rw [List.filter_eq_nil_iff]
      intro e he hdp
      obtain ⟨a, b, c⟩ := (isDropped_iff _ _ e).1 hdp
      exact c (hsame.1 e he a b).1
    rw [h1, droppedCancels_eq, h2]
    rfl
  rw [hd]
  have : ∀ (l : List (Str × Bool)), (∀ sv, sv ∈ l → sv.1 ∈ servers.map (·.1)) →
      l.foldl (fun s sv => addOrUpdate s o sv.1 (disabledOf servers sv.1)) st = st := by
    intro l
    induction l with
    | nil => intro _; rfl
    | cons sv svs ih =>
      intro hl
      simp only [List.foldl_cons]
      rw [addOrUpdate_noop st o sv.1 _ hs (hsame.2 _ (hl sv (List.mem_cons_self ..)))]
      · exact ih (fun x hx => hl x (List.mem_cons_of_mem _ hx))
      · intro e he a b c
        rw [← c]; exact ((hsame.1 e he a b).2).symm
  exact this servers (fun sv hsv => List.mem_map.2 ⟨sv, hsv, rfl⟩)

end KG.Lemmas.Lifecycle
