import KG.Spec.Forward
/-! Helper lemmas for C04 (`KG.Model.Forward`, `KG.Spec.Forward`). -/
namespace KG.Lemmas.Forward
open KG KG.Model.Forward KG.Spec.Forward

/-! ## bytes: facts checked for all 256 values -/
theorem forall_byte {P : UInt8 → Prop} (h : ∀ n, n < 256 → P (UInt8.ofNat n)) : ∀ c, P c := fun c => by
  have := h c.toNat (UInt8.toNat_lt c)
  simpa using this

set_option maxRecDepth 100000 in
theorem hexRound : ∀ c : UInt8, ((unhex (upperhex (c >>> 4)) <<< 4) ||| unhex (upperhex (c &&& 15))) = c :=
  forall_byte (by decide)

set_option maxRecDepth 100000 in
theorem ishex_upperhex : ∀ c : UInt8, ishex (upperhex (c >>> 4)) = true ∧ ishex (upperhex (c &&& 15)) = true :=
  forall_byte (by decide)

set_option maxRecDepth 100000 in
theorem noEscape_path : ∀ c : UInt8, shouldEscape c .path = false → c ≠ 37 :=
  forall_byte (by decide)

set_option maxRecDepth 100000 in
theorem noEscape_query : ∀ c : UInt8, shouldEscape c .query = false → c ≠ 37 ∧ c ≠ 43 ∧ c ≠ 38 ∧ c ≠ 61 ∧ c ≠ 59 :=
  forall_byte (by decide)

set_option maxRecDepth 100000 in
theorem upperhex_safe : ∀ c : UInt8, (upperhex (c >>> 4) ≠ 38 ∧ upperhex (c >>> 4) ≠ 61 ∧ upperhex (c >>> 4) ≠ 59) ∧
    (upperhex (c &&& 15) ≠ 38 ∧ upperhex (c &&& 15) ≠ 61 ∧ upperhex (c &&& 15) ≠ 59) :=
  forall_byte (by decide)

set_option maxRecDepth 100000 in
theorem upperhex_valid : ∀ c : UInt8, validEncodedByte (upperhex (c >>> 4)) = true ∧ validEncodedByte (upperhex (c &&& 15)) = true :=
  forall_byte (by decide)

theorem slash_not_escaped : shouldEscape 47 .path = false := by decide

/-! ## unescape ∘ escape -/
theorem unescape_escape (m : Mode) (s : Str) : unescape m (escape m s) = some s := by
  induction s with
  | nil => simp [escape, unescape]
  | cons c s ih =>
    unfold escape
    by_cases he : shouldEscape c m = true
    · simp only [he, if_true]
      by_cases hs : c = 32 ∧ m = .query
      · obtain ⟨hc, hm⟩ := hs
        subst hc; subst hm
        simp only [and_self, if_true]
        unfold unescape
        simp [ih]
      · simp only [hs, if_false]
        unfold unescape
        have hh := ishex_upperhex c
        simp [hh.1, hh.2, ih, hexRound]
    · have he' : shouldEscape c m = false := by simpa using he
      simp only [he', Bool.false_eq_true, if_false]
      unfold unescape
      cases m with
      | path =>
        have := noEscape_path c he'
        simp [this, ih]
      | query =>
        have := noEscape_query c he'
        simp [this.1, this.2.1, ih]

theorem escape_prefixSlash (s : Str) (h : hasPrefixSlash s = true) : hasPrefixSlash (escape .path s) = true := by
  cases s with
  | nil => simp [hasPrefixSlash] at h
  | cons c s =>
    have hc : c = 47 := by simpa [hasPrefixSlash] using h
    subst hc
    unfold escape
    simp [slash_not_escaped, hasPrefixSlash]

theorem unescape_prefixSlash (p P : Str) (hp : hasPrefixSlash p = true) (h : unescape .path p = some P) :
    hasPrefixSlash P = true := by
  cases p with
  | nil => simp [hasPrefixSlash] at hp
  | cons c s =>
    have hc : c = 47 := by simpa [hasPrefixSlash] using hp
    subst hc
    unfold unescape at h
    simp only [show ¬ ((47 : UInt8) = 37) by decide, if_false] at h
    cases hr : unescape .path s with
    | none => simp [hr] at h
    | some r =>
      simp [hr] at h
      subst h
      simp [hasPrefixSlash]

theorem unescape_nil_iff (m : Mode) (p : Str) (h : unescape m p = some []) : p = [] := by
  cases p with
  | nil => rfl
  | cons c s =>
    unfold unescape at h
    by_cases hc : c = 37
    · simp only [hc, if_true] at h
      cases s with
      | nil => simp at h
      | cons a s' =>
        cases s' with
        | nil => simp at h
        | cons b s'' =>
          simp only at h
          by_cases hx : (ishex a && ishex b) = true
          · simp only [hx, if_true] at h
            cases hr : unescape m s'' <;> simp [hr] at h
          · simp only [hx] at h; simp at h
    · simp only [hc, if_false] at h
      cases hr : unescape m s <;> simp [hr] at h

/-! ## EscapedPath -/
theorem kStar_noSlash : hasPrefixSlash kStar = false := by decide

/-- `EscapedPath()` always decodes to `Path` -/
theorem unescape_escapedPath (u : URLPath) : unescape .path (escapedPath u) = some u.path := by
  unfold escapedPath
  split
  · rename_i h; exact h.2.2
  · split
    · rename_i h; rw [h]; decide
    · exact unescape_escape _ _

/-- a raw path is "good" when it is empty or starts with a slash -/
def GoodRaw (r : Str) : Prop := r = [] ∨ hasPrefixSlash r = true

theorem escapedPath_prefixSlash (u : URLPath) (hp : hasPrefixSlash u.path = true) (hr : GoodRaw u.rawPath) :
    hasPrefixSlash (escapedPath u) = true := by
  unfold escapedPath
  split
  · rename_i h
    cases hr with
    | inl h0 => exact absurd h0 h.1
    | inr h1 => exact h1
  · split
    · rename_i h; rw [h] at hp; rw [kStar_noSlash] at hp; cases hp
    · exact escape_prefixSlash _ hp

theorem setPath_path (p P : Str) (h : unescape .path p = some P) :
    setPath p = some ⟨P, if p = escape .path P then [] else p⟩ := by
  unfold setPath; rw [h]

/-- a valid, slash-led escaped path survives `setPath` followed by `EscapedPath` byte for byte -/
theorem escapedPath_setPath_valid (p P : Str) (hp : hasPrefixSlash p = true) (hv : validEncoded p = true)
    (h : unescape .path p = some P) :
    escapedPath ⟨P, if p = escape .path P then [] else p⟩ = p := by
  have hP := unescape_prefixSlash p P hp h
  have hne : p ≠ [] := by intro h0; rw [h0] at hp; simp [hasPrefixSlash] at hp
  by_cases he : p = escape .path P
  · simp only [if_pos he]
    unfold escapedPath
    simp only [ne_eq, not_true_eq_false, false_and, if_false]
    have : P ≠ kStar := by intro hs; rw [hs, kStar_noSlash] at hP; cases hP
    simp [this, he.symm]
  · simp only [if_neg he]
    unfold escapedPath
    simp [hne, hv, h]

/-! ## the path pipeline -/
theorem hasSuffixSlash_nil : hasSuffixSlash [] = false := by decide

theorem escapedPath_empty : escapedPath ⟨[], []⟩ = [] := by decide

theorem ne_nil_of_prefixSlash {p : Str} (hp : hasPrefixSlash p = true) : p ≠ [] := by
  intro h0; rw [h0] at hp; simp [hasPrefixSlash] at hp

/-- the director's `joinURLPath` with the empty target path keeps `Path` and yields the escaped path of its argument -/
theorem requestURIPath_join (u : URLPath) (hp : hasPrefixSlash u.path = true) (hr : GoodRaw u.rawPath) :
    requestURIPath (joinURLPath ⟨[], []⟩ u) = escapedPath u ∨
    requestURIPath (joinURLPath ⟨[], []⟩ u) = escapedPath ⟨u.path, escapedPath u⟩ := by
  have hb := escapedPath_prefixSlash u hp hr
  have hne := ne_nil_of_prefixSlash hb
  unfold joinURLPath
  by_cases h0 : u.rawPath = []
  · left
    simp only [h0, and_self, if_true]
    have : singleJoiningSlash [] u.path = u.path := by
      unfold singleJoiningSlash
      simp [hasSuffixSlash_nil, hp]
    rw [this]
    have hu : (⟨u.path, []⟩ : URLPath) = u := by cases u; simp_all
    rw [hu]
    unfold requestURIPath
    simp [hne]
  · right
    simp only [h0, and_false, if_false, escapedPath_empty, hasSuffixSlash_nil, Bool.false_eq_true, false_and,
      not_false_eq_true, true_and, hb, not_true_eq_false, List.nil_append]
    unfold requestURIPath
    have hb2 : hasPrefixSlash (escapedPath ⟨u.path, escapedPath u⟩) = true :=
      escapedPath_prefixSlash ⟨u.path, escapedPath u⟩ hp (Or.inr hb)
    simp [ne_nil_of_prefixSlash hb2]

/-! ## `escapeInvalidPathBytes` (85b204e) -/

set_option maxRecDepth 100000 in
/-- the table of `escapeInvalidPathBytes` (regenerated punctuation) is exactly net/url's `validEncoded` byte test -/
theorem pathByteValid_eq : ∀ c : UInt8, pathByteValid c = validEncodedByte c :=
  forall_byte (by decide)

set_option maxRecDepth 100000 in
theorem ishex_valid : ∀ c : UInt8, ishex c = true → validEncodedByte c = true :=
  forall_byte (by decide)

theorem percent_valid : validEncodedByte 37 = true := by decide

/-- the result holds only bytes net/url accepts -/
theorem escapeInvalid_valid (p : Str) : validEncoded (escapeInvalidPathBytes p) = true := by
  unfold validEncoded
  induction p with
  | nil => simp [escapeInvalidPathBytes]
  | cons c rest ih =>
    unfold escapeInvalidPathBytes
    by_cases hc : pathByteValid c = true
    · simp only [hc, if_true, List.all_cons, ih, Bool.and_true]
      rw [← pathByteValid_eq]; exact hc
    · simp only [hc, Bool.false_eq_true, if_false, List.all_cons, ih, Bool.and_true, percent_valid, Bool.true_and,
        (upperhex_valid c).1, (upperhex_valid c).2]

/-- a path that holds only such bytes is returned as it is -/
theorem escapeInvalid_id (p : Str) (hv : validEncoded p = true) : escapeInvalidPathBytes p = p := by
  unfold validEncoded at hv
  induction p with
  | nil => rfl
  | cons c rest ih =>
    simp only [List.all_cons, Bool.and_eq_true] at hv
    unfold escapeInvalidPathBytes
    have hc : pathByteValid c = true := by rw [pathByteValid_eq]; exact hv.1
    simp only [hc, if_true, ih hv.2]

theorem escapeInvalid_nil : escapeInvalidPathBytes [] = [] := rfl

theorem escapeInvalid_prefixSlash (p : Str) (hp : hasPrefixSlash p = true) : hasPrefixSlash (escapeInvalidPathBytes p) = true := by
  cases p with
  | nil => simp [hasPrefixSlash] at hp
  | cons c rest =>
    simp only [hasPrefixSlash, decide_eq_true_eq] at hp
    subst hp
    unfold escapeInvalidPathBytes
    have : pathByteValid 47 = true := by decide
    simp [this, hasPrefixSlash]

theorem unescape_escapeInvalid_step (c : UInt8) (rest P : Str) (hc : c ≠ 37)
    (ih : ∀ R, unescape .path rest = some R → unescape .path (escapeInvalidPathBytes rest) = some R)
    (h : unescape .path (c :: rest) = some P) : unescape .path (escapeInvalidPathBytes (c :: rest)) = some P := by
  unfold unescape at h
  simp only [hc, if_false] at h
  cases hr : unescape .path rest with
  | none => rw [hr] at h; simp at h
  | some R =>
    rw [hr] at h
    have ih' := ih R hr
    unfold escapeInvalidPathBytes
    by_cases hv : pathByteValid c = true
    · simp only [hv, if_true]
      unfold unescape
      simp only [hc, if_false, ih']
      exact h
    · simp only [hv, Bool.false_eq_true, if_false]
      unfold unescape
      simp only [if_true, (ishex_upperhex c).1, (ishex_upperhex c).2, Bool.and_self, ih', hexRound]
      simpa using h

theorem unescape_escapeInvalid_hex (a b : UInt8) (rest' P : Str)
    (ih : ∀ R, unescape .path rest' = some R → unescape .path (escapeInvalidPathBytes rest') = some R)
    (h : unescape .path (37 :: a :: b :: rest') = some P) :
    unescape .path (escapeInvalidPathBytes (37 :: a :: b :: rest')) = some P := by
  unfold unescape at h
  simp only [if_true] at h
  by_cases hh : (ishex a && ishex b) = true
  · simp only [hh, if_true] at h
    cases hr : unescape .path rest' with
    | none => rw [hr] at h; simp at h
    | some R =>
      rw [hr] at h
      have ih' := ih R hr
      simp only [Bool.and_eq_true] at hh
      have va : pathByteValid a = true := by rw [pathByteValid_eq]; exact ishex_valid a hh.1
      have vb : pathByteValid b = true := by rw [pathByteValid_eq]; exact ishex_valid b hh.2
      have v37 : pathByteValid 37 = true := by decide
      unfold escapeInvalidPathBytes
      simp only [v37, if_true]
      unfold escapeInvalidPathBytes
      simp only [va, if_true]
      unfold escapeInvalidPathBytes
      simp only [vb, if_true]
      unfold unescape
      simp only [if_true, hh.1, hh.2, Bool.and_self, ih']
      exact h
  · simp [hh] at h

/-- existing escapes are left alone and every byte that is escaped decodes to itself: the result decodes to the same path -/
theorem unescape_escapeInvalid : ∀ (p P : Str), unescape .path p = some P → unescape .path (escapeInvalidPathBytes p) = some P
  | [], P, h => by simpa [escapeInvalidPathBytes] using h
  | [c], P, h => by
    by_cases hc : c = 37
    · subst hc; simp [unescape] at h
    · exact unescape_escapeInvalid_step c [] P hc (fun R hR => unescape_escapeInvalid [] R hR) h
  | [c, a], P, h => by
    by_cases hc : c = 37
    · subst hc; simp [unescape] at h
    · exact unescape_escapeInvalid_step c [a] P hc (fun R hR => unescape_escapeInvalid [a] R hR) h
  | c :: a :: b :: rest', P, h => by
    by_cases hc : c = 37
    · subst hc
      exact unescape_escapeInvalid_hex a b rest' P (fun R hR => unescape_escapeInvalid rest' R hR) h
    · exact unescape_escapeInvalid_step c (a :: b :: rest') P hc (fun R hR => unescape_escapeInvalid (a :: b :: rest') R hR) h

/-- `escape` writes only bytes net/url accepts -/
theorem escape_valid (P : Str) : validEncoded (escape .path P) = true := by
  unfold validEncoded
  rw [List.all_eq_true]
  intro b hb
  induction P with
  | nil => simp [escape] at hb
  | cons c s ih =>
    unfold escape at hb
    by_cases hc : shouldEscape c .path = true
    · simp only [hc, if_true, show ¬ (c = 32 ∧ Mode.path = Mode.query) by simp, if_false, List.mem_cons] at hb
      rcases hb with hb | hb | hb | hb
      · subst hb; decide
      · subst hb; exact (upperhex_valid c).1
      · subst hb; exact (upperhex_valid c).2
      · exact ih hb
    · have hc' : shouldEscape c .path = false := by simpa using hc
      simp only [hc', Bool.false_eq_true, if_false, List.mem_cons] at hb
      rcases hb with hb | hb
      · subst hb; unfold validEncodedByte; simp [hc']
      · exact ih hb

/-- `escapedPath` of a location whose raw path is empty or a valid encoding of its path -/
theorem escapedPath_good (P q : Str) (hP : hasPrefixSlash P = true)
    (hq : q = [] ∨ (hasPrefixSlash q = true ∧ validEncoded q = true ∧ unescape .path q = some P)) :
    ∃ e, escapedPath ⟨P, q⟩ = e ∧ hasPrefixSlash e = true ∧ validEncoded e = true ∧ unescape .path e = some P ∧
      (q = [] → e = escape .path P) ∧ (q ≠ [] → e = q) := by
  have hPs : P ≠ kStar := by intro hs; rw [hs, kStar_noSlash] at hP; cases hP
  rcases hq with h0 | ⟨h1, h2, h3⟩
  · subst h0
    refine ⟨escape .path P, ?_, escape_prefixSlash P hP, ?_, unescape_escape _ _, fun _ => rfl, fun h => absurd rfl h⟩
    · unfold escapedPath; simp [hPs]
    · exact escape_valid P
  · have hne := ne_nil_of_prefixSlash h1
    refine ⟨q, ?_, h1, h2, h3, fun h => absurd h hne, fun _ => rfl⟩
    unfold escapedPath; simp [hne, h2, h3]

/-- from a well-formed location the transport writes its escaped path -/
theorem pathFromLocation_good (P q : Str) (hP : hasPrefixSlash P = true)
    (hq : q = [] ∨ (hasPrefixSlash q = true ∧ validEncoded q = true ∧ unescape .path q = some P)) :
    pathFromLocation ⟨P, q⟩ = some (escapedPath ⟨P, q⟩) := by
  obtain ⟨e, he, hes, hev, hed, _, _⟩ := escapedPath_good P q hP hq
  have hene := ne_nil_of_prefixSlash hes
  unfold pathFromLocation
  have hls : locationStringPath ⟨P, q⟩ = e := by
    unfold locationStringPath; simp only [he]; simp [hes]
  rw [hls, setPath_path e P hed]
  simp only
  have hcond : ¬ (¬ hasSuffixSlash P = true ∧ hasSuffixSlash P = true) := fun hc => hc.1 hc.2
  simp only [hcond, if_false]
  have hesc := escapedPath_setPath_valid e P hes hev hed
  have hr : GoodRaw (if e = escape .path P then [] else e) := by
    by_cases hh : e = escape .path P
    · left; simp [hh]
    · right; simp [hh, hes]
  rcases requestURIPath_join ⟨P, if e = escape .path P then [] else e⟩ hP hr with hj | hj
  · rw [hj, hesc, he]
  · rw [hj, hesc, he]
    have : escapedPath ⟨P, e⟩ = e := by unfold escapedPath; simp [hene, hev, hed]
    rw [this]

/-- **Byte-for-byte fidelity of EVERY path the server accepts**: the path the transport writes is the client's escaped path
    with exactly the bytes net/url rejects percent-encoded — every escape the client wrote (`%2F`, `%2f`, `%25`, `%41`, …) and
    every valid byte stays as it is. -/
theorem pathPipeline_exact (p P : Str) (hp : hasPrefixSlash p = true) (h : unescape .path p = some P) :
    pathPipeline p = some (escapeInvalidPathBytes p) := by
  have hP := unescape_prefixSlash p P hp h
  unfold pathPipeline
  rw [setPath_path p P h]
  simp only
  by_cases he : p = escape .path P
  · simp only [if_pos he, escapeInvalid_nil]
    rw [pathFromLocation_good P [] hP (Or.inl rfl)]
    obtain ⟨e, hee, _, hev, _, h0, _⟩ := escapedPath_good P [] hP (Or.inl rfl)
    rw [hee, h0 rfl, ← he]
    rw [h0 rfl, ← he] at hev
    rw [escapeInvalid_id p hev]
  · simp only [if_neg he]
    have hq : hasPrefixSlash (escapeInvalidPathBytes p) = true ∧ validEncoded (escapeInvalidPathBytes p) = true ∧
        unescape .path (escapeInvalidPathBytes p) = some P :=
      ⟨escapeInvalid_prefixSlash p hp, escapeInvalid_valid p, unescape_escapeInvalid p P h⟩
    rw [pathFromLocation_good P _ hP (Or.inr hq)]
    obtain ⟨e, hee, _, _, _, _, h1⟩ := escapedPath_good P _ hP (Or.inr hq)
    rw [hee, h1 (ne_nil_of_prefixSlash hq.1)]

/-- valid paths: byte for byte -/
theorem pathPipeline_valid (p P : Str) (hp : hasPrefixSlash p = true) (hv : validEncoded p = true)
    (h : unescape .path p = some P) : pathPipeline p = some p := by
  rw [pathPipeline_exact p P hp h, escapeInvalid_id p hv]

/-- Decoded fidelity of every path: whatever the escaping, the path the transport writes decodes to the same path. -/
theorem pathPipeline_decoded (p P : Str) (hp : hasPrefixSlash p = true) (h : unescape .path p = some P) :
    ∃ out, pathPipeline p = some out ∧ unescape .path out = some P ∧ hasPrefixSlash out = true :=
  ⟨_, pathPipeline_exact p P hp h, unescape_escapeInvalid p P h, escapeInvalid_prefixSlash p hp⟩

set_option maxRecDepth 100000 in
theorem invalid_not_unreserved : ∀ c : UInt8, validEncodedByte c = false → isUnreserved c = false ∧ c ≠ 37 :=
  forall_byte (by decide)

theorem rfcNorm_escapeInvalid_step (c : UInt8) (rest : Str) (hc : c ≠ 37)
    (ih : rfcNorm (escapeInvalidPathBytes rest) = rfcNorm rest) :
    rfcNorm (escapeInvalidPathBytes (c :: rest)) = rfcNorm (c :: rest) := by
  unfold escapeInvalidPathBytes
  by_cases hv : pathByteValid c = true
  · simp only [hv, if_true]
    unfold rfcNorm
    simp only [hc, if_false, ih]
  · have hv' : validEncodedByte c = false := by rw [← pathByteValid_eq]; simpa using hv
    obtain ⟨hu, _⟩ := invalid_not_unreserved c hv'
    simp only [hv, Bool.false_eq_true, if_false]
    conv => lhs; unfold rfcNorm
    conv => rhs; unfold rfcNorm
    simp only [if_true, (ishex_upperhex c).1, (ishex_upperhex c).2, Bool.and_self, hexRound, hu, Bool.false_eq_true,
      if_false, hc, hv', ih]

theorem rfcNorm_escapeInvalid_hex (a b : UInt8) (rest' : Str) (hh : (ishex a && ishex b) = true)
    (ih : rfcNorm (escapeInvalidPathBytes rest') = rfcNorm rest') :
    rfcNorm (escapeInvalidPathBytes (37 :: a :: b :: rest')) = rfcNorm (37 :: a :: b :: rest') := by
  simp only [Bool.and_eq_true] at hh
  have va : pathByteValid a = true := by rw [pathByteValid_eq]; exact ishex_valid a hh.1
  have vb : pathByteValid b = true := by rw [pathByteValid_eq]; exact ishex_valid b hh.2
  have v37 : pathByteValid 37 = true := by decide
  unfold escapeInvalidPathBytes
  simp only [v37, if_true]
  unfold escapeInvalidPathBytes
  simp only [va, if_true]
  unfold escapeInvalidPathBytes
  simp only [vb, if_true]
  unfold rfcNorm
  simp only [if_true, hh.1, hh.2, Bool.and_self, ih]

/-- RFC 3986 normal form is untouched: escaping a byte that may not appear raw is what the normal form does itself -/
theorem rfcNorm_escapeInvalid : ∀ (p P : Str), unescape .path p = some P → rfcNorm (escapeInvalidPathBytes p) = rfcNorm p
  | [], _, _ => rfl
  | [c], P, h => by
    by_cases hc : c = 37
    · subst hc; simp [unescape] at h
    · exact rfcNorm_escapeInvalid_step c [] hc rfl
  | [c, a], P, h => by
    by_cases hc : c = 37
    · subst hc; simp [unescape] at h
    · unfold unescape at h
      simp only [hc, if_false] at h
      cases hr : unescape .path [a] with
      | none => rw [hr] at h; simp at h
      | some R => exact rfcNorm_escapeInvalid_step c [a] hc (rfcNorm_escapeInvalid [a] R hr)
  | c :: a :: b :: rest', P, h => by
    by_cases hc : c = 37
    · subst hc
      unfold unescape at h
      simp only [if_true] at h
      by_cases hh : (ishex a && ishex b) = true
      · simp only [hh, if_true] at h
        cases hr : unescape .path rest' with
        | none => rw [hr] at h; simp at h
        | some R => exact rfcNorm_escapeInvalid_hex a b rest' hh (rfcNorm_escapeInvalid rest' R hr)
      · simp [hh] at h
    · unfold unescape at h
      simp only [hc, if_false] at h
      cases hr : unescape .path (a :: b :: rest') with
      | none => rw [hr] at h; simp at h
      | some R => exact rfcNorm_escapeInvalid_step c (a :: b :: rest') hc (rfcNorm_escapeInvalid (a :: b :: rest') R hr)

/-! ## query -/
theorem splitOn_cons_eq (sep : UInt8) (r : Str) : splitOn sep (sep :: r) = [] :: splitOn sep r := by
  rw [splitOn]; simp

theorem splitOn_cons_ne (sep c : UInt8) (r s : Str) (ss : List Str) (h : c ≠ sep) (hs : splitOn sep r = s :: ss) :
    splitOn sep (c :: r) = (c :: s) :: ss := by
  rw [splitOn]; simp [h, hs]

theorem cut_cons (sep c : UInt8) (r : Str) :
    cut sep (c :: r) = if c = sep then ([], r) else ((c :: (cut sep r).1), (cut sep r).2) := by
  rw [cut]

theorem splitOn_nosep (sep : UInt8) (a : Str) (h : sep ∉ a) : splitOn sep a = [a] := by
  induction a with
  | nil => simp [splitOn]
  | cons c a ih =>
    have hc : c ≠ sep := by intro hc; exact h (by simp [hc])
    have ha : sep ∉ a := by intro ha; exact h (by simp [ha])
    exact splitOn_cons_ne sep c a a [] hc (ih ha)

theorem splitOn_append_sep (sep : UInt8) (a rest : Str) (h : sep ∉ a) :
    splitOn sep (a ++ sep :: rest) = a :: splitOn sep rest := by
  induction a with
  | nil => simp [splitOn_cons_eq]
  | cons c a ih =>
    have hc : c ≠ sep := by intro hc; exact h (by simp [hc])
    have ha : sep ∉ a := by intro ha; exact h (by simp [ha])
    exact splitOn_cons_ne sep c (a ++ sep :: rest) a (splitOn sep rest) hc (ih ha)

theorem splitOn_joinWith (sep : UInt8) (segs : List Str) (hne : segs ≠ []) (h : ∀ s ∈ segs, sep ∉ s) :
    splitOn sep (joinWith [sep] segs) = segs := by
  induction segs with
  | nil => exact absurd rfl hne
  | cons x rest ih =>
    cases rest with
    | nil => simp [joinWith, splitOn_nosep sep x (h x (by simp))]
    | cons y rest' =>
      have hx : sep ∉ x := h x (by simp)
      have : joinWith [sep] (x :: y :: rest') = x ++ sep :: joinWith [sep] (y :: rest') := by
        simp [joinWith]
      rw [this, splitOn_append_sep sep x _ hx, ih (by simp) (fun s hs => h s (by simp [hs]))]

theorem cut_append (sep : UInt8) (a b : Str) (h : sep ∉ a) : cut sep (a ++ sep :: b) = (a, b) := by
  induction a with
  | nil => simp [cut_cons]
  | cons c a ih =>
    have hc : c ≠ sep := by intro hc; exact h (by simp [hc])
    have ha : sep ∉ a := by intro ha; exact h (by simp [ha])
    show cut sep (c :: (a ++ sep :: b)) = _
    rw [cut_cons]
    simp [hc, ih ha]

/-- bytes produced by `QueryEscape`: never `&`, `=`, `;` -/
theorem escape_query_safe (s : Str) : ∀ b ∈ escape .query s, b ≠ 38 ∧ b ≠ 61 ∧ b ≠ 59 := by
  induction s with
  | nil => simp [escape]
  | cons c s ih =>
    intro b hb
    unfold escape at hb
    by_cases he : shouldEscape c .query = true
    · simp only [he, if_true] at hb
      by_cases hs : c = 32
      · simp only [hs, and_self, if_true, List.mem_cons] at hb
        rcases hb with hb | hb
        · subst hb; decide
        · exact ih b hb
      · simp only [hs, false_and, if_false, List.mem_cons] at hb
        have hu := upperhex_safe c
        rcases hb with hb | hb | hb | hb
        · subst hb; decide
        · subst hb; exact hu.1
        · subst hb; exact hu.2
        · exact ih b hb
    · have he' : shouldEscape c .query = false := by simpa using he
      simp only [he', Bool.false_eq_true, if_false, List.mem_cons] at hb
      rcases hb with hb | hb
      · subst hb
        have := noEscape_query b he'
        exact ⟨this.2.2.1, this.2.2.2.1, this.2.2.2.2⟩
      · exact ih b hb

theorem memB_false_of_forall (c : UInt8) (l : Str) (h : ∀ b ∈ l, b ≠ c) : memB c l = false := by
  unfold memB
  simp only [List.any_eq_false, decide_eq_true_eq]
  intro x hx heq
  exact h x hx heq

theorem parsePair_encPair (k v : Str) : parsePair (encPair k v) = some (k, v) := by
  have hk := escape_query_safe k
  have hv := escape_query_safe v
  have h59 : memB 59 (encPair k v) = false := by
    apply memB_false_of_forall
    intro b hb
    unfold encPair at hb
    simp only [List.append_assoc, List.mem_append, List.mem_cons, List.not_mem_nil, or_false] at hb
    rcases hb with hb | hb | hb
    · exact (hk b hb).2.2
    · subst hb; decide
    · exact (hv b hb).2.2
  have hne : encPair k v ≠ [] := by unfold encPair; simp
  have h61 : (61 : UInt8) ∉ escape .query k := fun hm => (hk 61 hm).2.1 rfl
  have hcut : cut 61 (encPair k v) = (escape .query k, escape .query v) := by
    unfold encPair
    have : escape .query k ++ [61] ++ escape .query v = escape .query k ++ 61 :: escape .query v := by simp
    rw [this, cut_append 61 _ _ h61]
  unfold parsePair
  simp [h59, hne, hcut, unescape_escape]

theorem encPair_no_amp (k v : Str) : (38 : UInt8) ∉ encPair k v := by
  intro hb
  unfold encPair at hb
  simp only [List.append_assoc, List.mem_append, List.mem_cons, List.not_mem_nil, or_false] at hb
  rcases hb with hb | hb | hb
  · exact (escape_query_safe k 38 hb).1 rfl
  · exact absurd hb (by decide)
  · exact (escape_query_safe v 38 hb).1 rfl

/-- the pairs of a map in the order `Encode` writes them: by sorted key, each key's values in order -/
def regroup (ps : List (Str × Str)) : List (Str × Str) :=
  (sortedKeys ps).flatMap fun k => (valuesOf k ps).map fun v => (k, v)

theorem encodeQuery_eq (ps : List (Str × Str)) :
    encodeQuery ps = joinWith [38] ((regroup ps).map fun e => encPair e.1 e.2) := by
  unfold encodeQuery regroup
  congr 1
  simp [List.map_flatMap, Function.comp_def]

theorem filterMap_parsePair_map (l : List (Str × Str)) :
    (l.map fun e => encPair e.1 e.2).filterMap parsePair = l := by
  induction l with
  | nil => rfl
  | cons e l ih => simp [parsePair_encPair, ih]

/-- parsing what `Encode` wrote gives back the regrouped pairs -/
theorem parseQuery_encodeQuery (ps : List (Str × Str)) : parseQuery (encodeQuery ps) = regroup ps := by
  rw [encodeQuery_eq]
  unfold parseQuery
  by_cases hnil : regroup ps = []
  · rw [hnil]; simp [joinWith, splitOn, parsePair, memB]
  · rw [splitOn_joinWith 38 _ (by simpa using hnil)]
    · exact filterMap_parsePair_map _
    · intro s hs
      simp only [List.mem_map] at hs
      obtain ⟨e, _, rfl⟩ := hs
      exact encPair_no_amp _ _

theorem mem_insSorted (k x : Str) (l : List Str) : x ∈ insSorted k l ↔ x = k ∨ x ∈ l := by
  induction l with
  | nil => simp [insSorted]
  | cons y ys ih =>
    unfold insSorted
    by_cases h : ltStr k y = true
    · simp [h]
    · simp only [h, Bool.false_eq_true, if_false, List.mem_cons, ih]
      constructor
      · rintro (h1 | h1 | h1) <;> simp [h1]
      · rintro (h1 | h1 | h1) <;> simp [h1]

theorem nodup_insSorted (k : Str) (l : List Str) (hk : k ∉ l) (hl : l.Nodup) : (insSorted k l).Nodup := by
  induction l with
  | nil => simp [insSorted]
  | cons y ys ih =>
    unfold insSorted
    by_cases h : ltStr k y = true
    · simp only [h, if_true]
      exact List.nodup_cons.mpr ⟨hk, hl⟩
    · simp only [h, Bool.false_eq_true, if_false]
      have hy : y ∉ ys := (List.nodup_cons.mp hl).1
      have hys : ys.Nodup := (List.nodup_cons.mp hl).2
      have hky : k ≠ y := by intro he; exact hk (by simp [he])
      have hkys : k ∉ ys := by intro he; exact hk (by simp [he])
      refine List.nodup_cons.mpr ⟨?_, ih hkys hys⟩
      rw [mem_insSorted]
      rintro (h1 | h1)
      · exact hky h1.symm
      · exact hy h1

theorem mem_insertKey (k x : Str) (l : List Str) : x ∈ insertKey k l ↔ x = k ∨ x ∈ l := by
  unfold insertKey
  by_cases h : k ∈ l
  · simp only [h, if_true]
    constructor
    · intro hx; exact Or.inr hx
    · rintro (h1 | h1)
      · rw [h1]; exact h
      · exact h1
  · simp only [h, if_false, mem_insSorted]

theorem nodup_insertKey (k : Str) (l : List Str) (hl : l.Nodup) : (insertKey k l).Nodup := by
  unfold insertKey
  by_cases h : k ∈ l
  · simp [h, hl]
  · simp only [h, if_false]; exact nodup_insSorted k l h hl

theorem mem_sortedKeys (k : Str) (ps : List (Str × Str)) : k ∈ sortedKeys ps ↔ k ∈ ps.map (·.1) := by
  induction ps with
  | nil => simp [sortedKeys]
  | cons e ps ih =>
    show k ∈ insertKey e.1 (sortedKeys ps) ↔ _
    rw [mem_insertKey, ih]
    simp

theorem nodup_sortedKeys (ps : List (Str × Str)) : (sortedKeys ps).Nodup := by
  induction ps with
  | nil => simp [sortedKeys]
  | cons e ps ih => exact nodup_insertKey _ _ ih

theorem valuesOf_nil_of_not_key (k : Str) (ps : List (Str × Str)) (h : k ∉ ps.map (·.1)) : valuesOf k ps = [] := by
  unfold valuesOf
  have : ps.filter (fun e => decide (e.1 = k)) = [] := by
    rw [List.filter_eq_nil_iff]
    intro e he
    simp only [decide_eq_true_eq]
    intro hk
    exact h (by rw [← hk]; exact List.mem_map_of_mem he)
  rw [this]; rfl

theorem valuesOf_flatMap (k : Str) (vals : Str → List Str) (ks : List Str) (hks : ks.Nodup) :
    valuesOf k (ks.flatMap fun k' => (vals k').map fun v => (k', v)) = if k ∈ ks then vals k else [] := by
  induction ks with
  | nil => simp [valuesOf]
  | cons x xs ih =>
    have hx : x ∉ xs := (List.nodup_cons.mp hks).1
    have hxs : xs.Nodup := (List.nodup_cons.mp hks).2
    have hsplit : valuesOf k ((x :: xs).flatMap fun k' => (vals k').map fun v => (k', v))
        = valuesOf k ((vals x).map fun v => (x, v)) ++ valuesOf k (xs.flatMap fun k' => (vals k').map fun v => (k', v)) := by
      unfold valuesOf; simp [List.flatMap_cons, List.filter_append]
    rw [hsplit, ih hxs]
    by_cases hkx : x = k
    · subst hkx
      have : valuesOf x ((vals x).map fun v => (x, v)) = vals x := by
        unfold valuesOf
        simp [List.filter_map, Function.comp_def]
      simp [this, hx]
    · have : valuesOf k ((vals x).map fun v => (x, v)) = [] := by
        unfold valuesOf
        simp [List.filter_map, Function.comp_def, hkx]
      have hne : k ≠ x := fun h => hkx h.symm
      simp [this, hne]

/-- per key, the regrouped pairs carry the same values in the same order -/
theorem valuesOf_regroup (k : Str) (ps : List (Str × Str)) : valuesOf k (regroup ps) = valuesOf k ps := by
  unfold regroup
  rw [valuesOf_flatMap k (fun k' => valuesOf k' ps) _ (nodup_sortedKeys ps)]
  by_cases h : k ∈ sortedKeys ps
  · simp [h]
  · simp only [h, if_false]
    rw [mem_sortedKeys] at h
    exact (valuesOf_nil_of_not_key k ps h).symm

/-! ## header maps -/
theorem get?_cons (k' : Str) (vv : List Str) (rest : Hdr) (k : Str) :
    Hdr.get? ((k', vv) :: rest) k = if k' = k then some vv else Hdr.get? rest k := by
  rw [Hdr.get?]

theorem get?_nil (k : Str) : Hdr.get? [] k = none := by rw [Hdr.get?]

theorem get?_del (h : Hdr) (k k' : Str) : (h.del k').get? k = if k = k' then none else h.get? k := by
  induction h with
  | nil => simp [Hdr.del, get?_nil]
  | cons e rest ih =>
    obtain ⟨x, vv⟩ := e
    have hd : Hdr.del ((x, vv) :: rest) k' = if x ≠ k' then (x, vv) :: Hdr.del rest k' else Hdr.del rest k' := by
      unfold Hdr.del; simp [List.filter_cons]
    rw [hd]
    by_cases hx : x = k'
    · subst hx
      simp only [ne_eq, not_true_eq_false, if_false, ih, get?_cons]
      by_cases hk : k = x
      · simp [hk]
      · have : x ≠ k := fun h => hk h.symm
        simp [hk, this]
    · simp only [ne_eq, hx, not_false_eq_true, if_true, get?_cons, ih]
      by_cases hk : x = k
      · subst hk; simp [hx]
      · simp [hk]

theorem get?_append (h1 h2 : Hdr) (k : Str) :
    (h1 ++ h2).get? k = match h1.get? k with | some v => some v | none => h2.get? k := by
  induction h1 with
  | nil => simp [get?_nil]
  | cons e rest ih =>
    obtain ⟨x, vv⟩ := e
    show Hdr.get? ((x, vv) :: (rest ++ h2)) k = _
    rw [get?_cons, get?_cons]
    by_cases hk : x = k
    · simp [hk]
    · simp [hk, ih]

theorem get?_set (h : Hdr) (k k' v : Str) : (h.set k' v).get? k = if k = k' then some [v] else h.get? k := by
  unfold Hdr.set
  rw [get?_append, get?_del]
  by_cases hk : k = k'
  · subst hk; simp [get?_cons]
  · have : k' ≠ k := fun h => hk h.symm
    simp only [hk, if_false, get?_cons, this, get?_nil]
    cases h.get? k <;> rfl

theorem get?_delAll (ks : List Str) (h : Hdr) (k : Str) : (delAll ks h).get? k = if k ∈ ks then none else h.get? k := by
  induction ks generalizing h with
  | nil => simp [delAll]
  | cons x xs ih =>
    show (delAll xs (h.del x)).get? k = _
    rw [ih, get?_del]
    by_cases hx : k = x
    · simp [hx]
    · by_cases hxs : k ∈ xs <;> simp [hx, hxs]

theorem values_eq (h : Hdr) (k : Str) : h.values k = (h.get? k).getD [] := rfl

theorem get?_add (h : Hdr) (k k' v : Str) :
    (h.add k' v).get? k = if k = k' then some (h.values k ++ [v]) else h.get? k := by
  induction h with
  | nil =>
    rw [Hdr.add, get?_cons, get?_nil]
    by_cases hk : k = k'
    · subst hk; simp [values_eq, get?_nil]
    · have : k' ≠ k := fun h => hk h.symm
      simp [hk, this]
  | cons e rest ih =>
    obtain ⟨x, vv⟩ := e
    rw [Hdr.add]
    by_cases hx : x = k'
    · subst hx
      simp only [if_true, get?_cons]
      by_cases hk : x = k
      · subst hk; simp [values_eq, get?_cons]
      · have : k ≠ x := fun h => hk h.symm
        simp [hk, this]
    · simp only [hx, if_false, get?_cons, ih]
      by_cases hk : x = k
      · subst hk; simp [hx]
      · by_cases hk' : k = k'
        · subst hk'; simp [hk, values_eq, get?_cons]
        · simp [hk, hk']

theorem values_add (h : Hdr) (k k' v : Str) :
    (h.add k' v).values k = if k = k' then h.values k ++ [v] else h.values k := by
  rw [values_eq, get?_add]
  by_cases hk : k = k' <;> simp [hk, values_eq]

/-- keys of a header map: `Add` never duplicates a key -/
theorem keys_add (h : Hdr) (k v : Str) : (h.add k v).keys = if k ∈ h.keys then h.keys else h.keys ++ [k] := by
  induction h with
  | nil => simp [Hdr.add, Hdr.keys]
  | cons e rest ih =>
    obtain ⟨x, vv⟩ := e
    rw [Hdr.add]
    by_cases hx : x = k
    · subst hx; simp [Hdr.keys]
    · have hne : k ≠ x := fun h => hx h.symm
      simp only [hx, if_false]
      show x :: (Hdr.add rest k v).keys = _
      rw [ih]
      by_cases hk : k ∈ Hdr.keys rest
      · have : k ∈ Hdr.keys ((x, vv) :: rest) := List.mem_cons_of_mem _ hk
        rw [if_pos hk, if_pos this]; rfl
      · have : k ∉ Hdr.keys ((x, vv) :: rest) := by
          intro hm
          rcases List.mem_cons.mp hm with h1 | h1
          · exact hne h1
          · exact hk h1
        rw [if_neg hk, if_neg this]; rfl

theorem nodup_keys_add (h : Hdr) (k v : Str) (hn : h.keys.Nodup) : (h.add k v).keys.Nodup := by
  rw [keys_add]
  by_cases hk : k ∈ h.keys
  · simp [hk, hn]
  · simp only [hk, if_false]
    rw [List.nodup_append]
    refine ⟨hn, by simp, ?_⟩
    intro a ha b hb
    simp only [List.mem_cons, List.not_mem_nil, or_false] at hb
    subst hb
    intro hab; subst hab; exact hk ha

theorem nodup_keys_foldl_add (lines : List (Str × Str)) (h : Hdr) (hn : h.keys.Nodup) :
    (lines.foldl (fun h l => h.add (canonKey l.1) l.2) h).keys.Nodup := by
  induction lines generalizing h with
  | nil => exact hn
  | cons l ls ih => exact ih _ (nodup_keys_add h _ _ hn)

theorem nodup_keys_parseHeaders (lines : List (Str × Str)) : (parseHeaders lines).keys.Nodup :=
  nodup_keys_foldl_add lines [] (by simp [Hdr.keys])

theorem nodup_keys_del (h : Hdr) (k : Str) (hn : h.keys.Nodup) : (h.del k).keys.Nodup := by
  unfold Hdr.del Hdr.keys
  exact List.Nodup.sublist (List.Sublist.map _ List.filter_sublist) hn

theorem nodup_keys_delAll (ks : List Str) (h : Hdr) (hn : h.keys.Nodup) : (delAll ks h).keys.Nodup := by
  induction ks generalizing h with
  | nil => exact hn
  | cons x xs ih => exact ih _ (nodup_keys_del h x hn)

/-- every key of a well-formed header map has at least one value -/
def WF (h : Hdr) : Prop := ∀ k, h.get? k ≠ some []

theorem wf_add (h : Hdr) (k v : Str) (hw : WF h) : WF (h.add k v) := by
  intro x
  rw [get?_add]
  by_cases hx : x = k
  · simp [hx]
  · simp only [hx, if_false]; exact hw x

theorem wf_foldl_add (lines : List (Str × Str)) (h : Hdr) (hw : WF h) :
    WF (lines.foldl (fun h l => h.add (canonKey l.1) l.2) h) := by
  induction lines generalizing h with
  | nil => exact hw
  | cons l ls ih => exact ih _ (wf_add h _ _ hw)

theorem wf_parseHeaders (lines : List (Str × Str)) : WF (parseHeaders lines) :=
  wf_foldl_add lines [] (by intro k; simp [get?_nil])

theorem wf_del (h : Hdr) (k : Str) (hw : WF h) : WF (h.del k) := by
  intro x
  rw [get?_del]
  by_cases hx : x = k
  · simp [hx]
  · simp only [hx, if_false]; exact hw x

theorem get?_none_of_not_key (h : Hdr) (k : Str) (hk : k ∉ h.keys) : h.get? k = none := by
  induction h with
  | nil => exact get?_nil k
  | cons e rest ih =>
    obtain ⟨x, vv⟩ := e
    simp only [Hdr.keys, List.map_cons, List.mem_cons, not_or] at hk
    rw [get?_cons]
    have : x ≠ k := fun h => hk.1 h.symm
    simp only [this, if_false]
    exact ih (by simpa [Hdr.keys] using hk.2)

/-- `copyHeader(dst, src)`: per name, the destination's values followed by the source's -/
theorem values_copyHeader (dst src : Hdr) (k : Str) (hn : src.keys.Nodup) :
    (copyHeader dst src).values k = dst.values k ++ src.values k := by
  unfold copyHeader
  induction src generalizing dst with
  | nil => simp [values_eq, get?_nil]
  | cons e rest ih =>
    obtain ⟨x, vv⟩ := e
    have hn' : (x :: Hdr.keys rest).Nodup := hn
    have hx : x ∉ Hdr.keys rest := (List.nodup_cons.mp hn').1
    have hrest : (Hdr.keys rest).Nodup := (List.nodup_cons.mp hn').2
    clear hn hn'
    have hinner : ∀ (d : Hdr), (vv.foldl (fun d v => d.add x v) d).values k = if k = x then d.values k ++ vv else d.values k := by
      induction vv with
      | nil => intro d; simp
      | cons v vs ihv =>
        intro d
        show (vs.foldl (fun d v => d.add x v) (d.add x v)).values k = _
        rw [ihv, values_add]
        by_cases hk : k = x <;> simp [hk]
    show (rest.foldl (fun d e => e.2.foldl (fun d v => d.add e.1 v) d) (vv.foldl (fun d v => d.add x v) dst)).values k = _
    rw [ih _ hrest, hinner]
    by_cases hk : k = x
    · subst hk
      have : Hdr.values rest k = [] := by rw [values_eq, get?_none_of_not_key rest k hx]; rfl
      simp [this, values_eq, get?_cons]
    · have : x ≠ k := fun h => hk h.symm
      simp [hk, values_eq, get?_cons, this]

/-! ## upgrade requests -/
theorem isPrefixOfB_append (sub t : Str) : isPrefixOfB sub (sub ++ t) = true := by
  induction sub with
  | nil => simp [isPrefixOfB]
  | cons a as ih => simp [isPrefixOfB, ih]

theorem containsSub_of_prefix (sub l : Str) (h : isPrefixOfB sub l = true) : containsSub sub l = true := by
  cases l with
  | nil => unfold containsSub; exact h
  | cons c r => unfold containsSub; simp [h]

theorem containsSub_of_infix (sub l : Str) (h : sub <:+: l) : containsSub sub l = true := by
  obtain ⟨s, t, rfl⟩ := h
  induction s with
  | nil =>
    simp only [List.nil_append]
    exact containsSub_of_prefix _ _ (isPrefixOfB_append sub t)
  | cons c s ih =>
    show containsSub sub (c :: (s ++ sub ++ t)) = true
    unfold containsSub
    rw [ih]; simp

theorem splitOn_mem_infix (sep : UInt8) (v part : Str) (h : part ∈ splitOn sep v) : part <:+: v := by
  induction v generalizing part with
  | nil =>
    simp [splitOn] at h
    subst h; exact List.infix_refl _
  | cons c r ih =>
    by_cases hc : c = sep
    · subst hc
      rw [splitOn_cons_eq] at h
      rcases List.mem_cons.mp h with h | h
      · subst h; exact ⟨[], c :: r, by simp⟩
      · exact List.IsInfix.trans (ih part h) (List.suffix_cons c r).isInfix
    · cases hs : splitOn sep r with
      | nil =>
        -- splitOn never returns []
        have : splitOn sep r ≠ [] := by
          cases r with
          | nil => simp [splitOn]
          | cons d r' =>
            rw [splitOn]; split
            · simp
            · split <;> simp
        exact absurd hs this
      | cons s ss =>
        rw [splitOn_cons_ne sep c r s ss hc hs] at h
        rcases List.mem_cons.mp h with h | h
        · subst h
          have hs' : s <:+: r := ih s (by rw [hs]; simp)
          -- s is the FIRST piece: a prefix of r
          have hpre : s <+: r := by
            clear ih h hs'
            induction r generalizing s ss with
            | nil => simp [splitOn] at hs; obtain ⟨rfl, _⟩ := hs; exact List.prefix_refl _
            | cons d r' ihr =>
              by_cases hd : d = sep
              · subst hd; rw [splitOn_cons_eq] at hs; injection hs with h1 _; subst h1; exact List.nil_prefix
              · cases hs2 : splitOn sep r' with
                | nil =>
                  have : splitOn sep r' ≠ [] := by
                    cases r' with
                    | nil => simp [splitOn]
                    | cons e r'' =>
                      rw [splitOn]; split
                      · simp
                      · split <;> simp
                  exact absurd hs2 this
                | cons s2 ss2 =>
                  rw [splitOn_cons_ne sep d r' s2 ss2 hd hs2] at hs
                  injection hs with h1 _
                  subst h1
                  exact (List.cons_prefix_cons).mpr ⟨rfl, ihr s2 ss2 hs2⟩
          exact ((List.cons_prefix_cons).mpr ⟨rfl, hpre⟩).isInfix
        · exact List.IsInfix.trans (ih part (by rw [hs]; exact List.mem_cons_of_mem _ h)) (List.suffix_cons c r).isInfix

theorem trimOWS_infix (s : Str) : trimOWS s <:+: s := by
  unfold trimOWS
  have h1 : (s.dropWhile isOWS) <:+ s := List.dropWhile_suffix _
  have h2 : ((s.dropWhile isOWS).reverse.dropWhile isOWS) <:+ (s.dropWhile isOWS).reverse := List.dropWhile_suffix _
  have h3 : ((s.dropWhile isOWS).reverse.dropWhile isOWS).reverse <+: (s.dropWhile isOWS) := by
    have := List.reverse_prefix.mpr h2
    simpa using this
  exact List.IsInfix.trans h3.isInfix h1.isInfix

set_option maxRecDepth 100000 in
theorem lowerB_upgrade_bytes : ∀ a : UInt8,
    (lowerB a = lowerB 85 → lowerB a = 117) ∧ (lowerB a = lowerB 112 → lowerB a = 112) ∧ (lowerB a = lowerB 103 → lowerB a = 103)
    ∧ (lowerB a = lowerB 114 → lowerB a = 114) ∧ (lowerB a = lowerB 97 → lowerB a = 97) ∧ (lowerB a = lowerB 100 → lowerB a = 100)
    ∧ (lowerB a = lowerB 101 → lowerB a = 101) := forall_byte (by decide)

theorem tokenEqual_upgrade (t : Str) (h : tokenEqual t kUpgrade = true) : lowerStr t = kUpgradeLower := by
  unfold tokenEqual at h
  simp only [Bool.and_eq_true, decide_eq_true_eq] at h
  obtain ⟨hl, hz⟩ := h
  match t, hl with
  | [a1, a2, a3, a4, a5, a6, a7], _ =>
    simp only [kUpgrade, List.zip_cons_cons, List.zip_nil_right, List.all_cons, List.all_nil, Bool.and_true,
      Bool.and_eq_true, decide_eq_true_eq] at hz
    obtain ⟨⟨_, h1⟩, ⟨_, h2⟩, ⟨_, h3⟩, ⟨_, h4⟩, ⟨_, h5⟩, ⟨_, h6⟩, ⟨_, h7⟩⟩ := hz
    simp only [lowerStr, kUpgradeLower, List.map_cons, List.map_nil]
    rw [(lowerB_upgrade_bytes a1).1 h1, (lowerB_upgrade_bytes a2).2.1 h2, (lowerB_upgrade_bytes a3).2.2.1 h3,
      (lowerB_upgrade_bytes a4).2.2.2.1 h4, (lowerB_upgrade_bytes a5).2.2.2.2.1 h5, (lowerB_upgrade_bytes a6).2.2.2.2.2.1 h6,
      (lowerB_upgrade_bytes a7).2.2.2.2.2.2 h7]

/-- a request that is not an upgrade request in the sense of `httpstream.IsUpgradeRequest` has no upgrade type in the
    sense of the reverse proxy either: the non-upgrade path never re-adds `Connection: Upgrade` -/
theorem upgradeType_nil_of_not_upgrade (h : Hdr) (hu : isUpgradeRequest h = false) :
    headerValuesContainsToken (h.values kConnection) kUpgrade = false := by
  unfold isUpgradeRequest at hu
  unfold headerValuesContainsToken
  rw [List.any_eq_false] at hu ⊢
  intro v hv
  have hv' := hu v hv
  intro hc
  apply hv'
  rw [List.any_eq_true] at hc
  obtain ⟨part, hp, ht⟩ := hc
  have h1 : trimOWS part <:+: v := List.IsInfix.trans (trimOWS_infix part) (splitOn_mem_infix 44 v part hp)
  have h2 : lowerStr (trimOWS part) <:+: lowerStr v := by
    unfold lowerStr; exact List.IsInfix.map _ h1
  rw [tokenEqual_upgrade _ ht] at h2
  exact containsSub_of_infix _ _ h2

end KG.Lemmas.Forward
