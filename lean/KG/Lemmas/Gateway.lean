import KG.Model.Gateway
import KG.Spec.Gateway
import KG.Lemmas.LocalLimiter
import KG.Lemmas.Identity
import KG.Props.C04
import KG.Props.C01
import KG.Props.C02
import KG.Props.C03
/-!
# Lemmas about the composed model: what each outcome of `arrive` means, and the frame of every stage

Everything here is by unfolding `KG.Model.Gateway`; the per-area facts are used in `KG.Props.C04Gateway`.
-/
namespace KG.Lemmas.Gateway
open KG KG.Model.Gateway

/-! ## the stages in front of the dispatcher -/

theorem resolve_some {s : State} {r : Request} {p : Nat} {cl : Cluster} (h : resolveCluster s r = some (p, cl)) :
    (∃ ci, Model.Names.resolve lower s.mgr r.host = some (p, ci)) ∧ s.clusters[p]? = some cl := by
  unfold resolveCluster at h
  split at h
  · cases h
  · rename_i p' ci hres
    split at h
    · cases h
    · rename_i cl' hcl
      cases h
      exact ⟨⟨ci, hres⟩, hcl⟩

theorem bound_some {env : Env} {s : State} {r : Request} {b : Bound} (h : bound? env s r = some b) :
    r.info = some b.ri ∧ r.hostIsIP = false ∧ resolveCluster s r = some (b.p, b.cl) ∧ b.cl.cfg.denyAll = false ∧
    authenticate env (some b.p) r = some b.requestor ∧
    ∃ h1, impersonation env (some b.p) r b.requestor = .pass h1 b.ctxUser := by
  unfold bound? at h
  split at h
  · cases h
  · rename_i ri hri
    by_cases hip : r.hostIsIP = true
    · simp [hip] at h
    · simp only [hip, Bool.false_eq_true, if_false] at h
      split at h
      · cases h
      · rename_i p cl hres
        by_cases hd : cl.cfg.denyAll = true
        · simp [hd] at h
        · simp only [hd, Bool.false_eq_true, if_false] at h
          split at h
          · cases h
          · rename_i u hau
            split at h
            · rename_i h1 ctx himp
              cases h
              exact ⟨hri, by simpa using hip, hres, by simpa using hd, hau, h1, himp⟩
            · cases h

/-! ## the dispatcher -/

theorem dispatch_done {env : Env} {s : State} {r : Request} {x : Dispatched} (h : dispatch env s r = .done x) :
    bound? env s r = some x.b ∧ route x.b.cl r x.b.ri x.b.ctxUser = some x.pk ∧
    tryAcquire s.lim s.buckets x.b.cl.cfg.name (schemaNameOf x.b.cl x.pk) r.now = .ok x.acq ∧
    x.pop = (if x.acq.admitted then Model.Endpoints.pop x.b.cl.ep.eps x.b.cl.ep.lb x.pk.upstreams else (.noReady, x.b.cl.ep.lb)) := by
  unfold dispatch at h
  split at h
  · cases h
  · rename_i b hb
    split at h
    · cases h
    · rename_i pk hpk
      split at h
      · cases h
      · rename_i acq hacq
        cases h
        exact ⟨hb, hpk, hacq, rfl⟩

theorem dispatch_noPolicy {env : Env} {s : State} {r : Request} {b : Bound} (h : dispatch env s r = .noPolicy b) :
    bound? env s r = some b ∧ route b.cl r b.ri b.ctxUser = none := by
  unfold dispatch at h
  split at h
  · cases h
  · rename_i b' hb
    split at h
    · rename_i hpk
      cases h
      exact ⟨hb, hpk⟩
    · split at h <;> cases h

theorem dispatch_notReached {env : Env} {s : State} {r : Request} (h : dispatch env s r = .notReached) :
    bound? env s r = none := by
  unfold dispatch at h
  split at h
  · assumption
  · split at h
    · cases h
    · split at h <;> cases h

theorem dispatch_panic {env : Env} {s : State} {r : Request} {e : String} (h : dispatch env s r = .panic e) :
    ∃ b pk, bound? env s r = some b ∧ route b.cl r b.ri b.ctxUser = some pk ∧
      tryAcquire s.lim s.buckets b.cl.cfg.name (schemaNameOf b.cl pk) r.now = .error e := by
  unfold dispatch at h
  split at h
  · cases h
  · rename_i b hb
    split at h
    · cases h
    · rename_i pk hpk
      split at h
      · rename_i e' he
        cases h
        exact ⟨b, pk, hb, hpk, he⟩
      · cases h

/-- `TryAcquire` is one `LocalLimiter.acquire`, its token-bucket answer being the bucket's (C05 × C06) -/
theorem tryAcquire_ok {lim : Model.LocalLimiter.World} {bs : List (Nat × Model.TokenBucket.Bucket)} {c n : Str} {now : Rat}
    {a : Acquired} (h : tryAcquire lim bs c n now = .ok a) :
    Model.LocalLimiter.acquire lim c n (bucketAnswer lim bs c n now).1 = .ok (a.lim, a.admitted) ∧
    a.handle = lim.reqs.length ∧ a.buckets = (bucketAnswer lim bs c n now).2 := by
  unfold tryAcquire at h
  split at h
  · cases h
  · rename_i w b hacq
    cases h
    exact ⟨hacq, rfl, rfl⟩

/-! ## the flags of the scenario, read off the stages -/

theorem scenario_info (env : Env) (s : State) (r : Request) : (scenario env s r).requestInfoOK = r.info.isSome := rfl
theorem scenario_ip (env : Env) (s : State) (r : Request) : (scenario env s r).hostIsIP = r.hostIsIP := rfl
theorem scenario_known (env : Env) (s : State) (r : Request) :
    (scenario env s r).clusterKnown = (resolveCluster s r).isSome := rfl

theorem scenario_policy (env : Env) (s : State) (r : Request) :
    (scenario env s r).policyMatches = (match dispatch env s r with | .noPolicy _ => false | _ => true) := rfl
theorem scenario_acquire (env : Env) (s : State) (r : Request) :
    (scenario env s r).acquireOK = (match dispatch env s r with | .done x => x.acq.admitted | _ => true) := rfl
theorem scenario_pop (env : Env) (s : State) (r : Request) :
    (scenario env s r).popOK = (match dispatch env s r with
      | .done x => (match x.pop.1 with | .picked _ _ => true | _ => false)
      | _ => true) := rfl

/-- when the filters in front of the dispatcher let the request through, the first six flags say so -/
theorem scenario_of_bound {env : Env} {s : State} {r : Request} {b : Bound} (h : bound? env s r = some b) :
    (scenario env s r).requestInfoOK = true ∧ (scenario env s r).hostIsIP = false ∧ (scenario env s r).clusterKnown = true ∧
    (scenario env s r).denyAll = false ∧ (scenario env s r).authOK = true ∧
    ((scenario env s r).imp = .none ∨ (scenario env s r).imp = .allowed) := by
  obtain ⟨hri, hip, hres, hd, hau, h1, himp⟩ := bound_some h
  refine ⟨by simp [scenario_info, hri], by simp [scenario_ip, hip], by simp [scenario_known, hres], ?_, ?_, ?_⟩
  · simp [scenario, hres, hd]
  · simp [scenario, hres, hip, hau]
  · simp only [scenario, hres, hip, Bool.false_eq_true, if_false, Option.map_some, hau, himp, impKind]
    split <;> simp

/-- conversely: the first six flags say the dispatcher is reached -/
theorem bound_of_scenario {env : Env} {s : State} {r : Request}
    (h1 : (scenario env s r).requestInfoOK = true) (h2 : (scenario env s r).hostIsIP = false)
    (h3 : (scenario env s r).clusterKnown = true) (h4 : (scenario env s r).denyAll = false)
    (h5 : (scenario env s r).authOK = true)
    (h6 : (scenario env s r).imp = .none ∨ (scenario env s r).imp = .allowed) :
    ∃ b, bound? env s r = some b := by
  rw [scenario_info] at h1
  rw [scenario_ip] at h2
  rw [scenario_known] at h3
  obtain ⟨ri, hri⟩ := Option.isSome_iff_exists.mp h1
  obtain ⟨⟨p, cl⟩, hres⟩ := Option.isSome_iff_exists.mp h3
  have hd : cl.cfg.denyAll = false := by simpa [scenario, hres] using h4
  have hau : (authenticate env (some p) r).isSome = true := by simpa [scenario, hres, h2] using h5
  obtain ⟨u, hu⟩ := Option.isSome_iff_exists.mp hau
  unfold bound?
  simp only [hri, h2, Bool.false_eq_true, if_false, hres, hd, hu]
  cases himp : impersonation env (some p) r u with
  | pass hh ctx => exact ⟨_, rfl⟩
  | internalError =>
    exfalso
    simp [scenario, hres, h2, hu, himp, impKind] at h6
  | forbidden =>
    exfalso
    simp [scenario, hres, h2, hu, himp, impKind] at h6

/-! ## `arrive`, outcome by outcome -/

/-- a forwarded request: every stage passed, in this order -/
theorem arrive_forwarded {env : Env} {s : State} {r : Request} {f : Forwarded} (h : (arrive env s r).2 = .forwarded f) :
    ∃ up x n g recv ctx,
      Model.Identity.parse r.lines ≠ none ∧ Model.Forward.forwardRequest r.toForward = some up ∧
      dispatch env s r = .done x ∧ Model.Forward.serve (scenario env s r) = .forward ∧ x.pop.1 = .picked n g ∧
      Model.Identity.serve x.b.cl.cfg.token r.lines (some x.b.requestor) (env.authz (some x.b.p) x.b.requestor) false = .forwarded recv ctx ∧
      f = { cluster := x.b.p, policy := x.pk.policy, schema := schemaNameOf x.b.cl x.pk, endpoint := (n, g),
            handle := x.acq.handle, ctxUser := x.b.ctxUser, up := endToEnd up, identity := identityEntries recv,
            closeWhenIdle := x.b.cl.cfg.closeWhenIdle } ∧
      (arrive env s r).1 = stateAfterDispatch s x := by
  unfold arrive at h ⊢
  split at h
  · rename_i hdr up hparse hfwd
    simp only [hparse, hfwd]
    split at h
    · cases h
    · rename_i d hnp
      split at h
      · cases h
      · cases h
      · split at h <;> cases h
      · rename_i hserve
        split at h
        · rename_i x hx
          split at h
          · rename_i n g hpop
            split at h
            · rename_i recv ctx hid
              simp only at h
              refine ⟨up, x, n, g, recv, ctx, by simp, rfl, hx, hserve, hpop, hid, ?_, ?_⟩
              · cases h; rfl
              · simp
            · cases h
          · cases h
        · cases h
  · cases h


/-- a request the gateway answered itself: the answer is the one C04's chain model gives for the computed flags; the
    state moved only if the dispatcher had called `TryAcquire` (and then the deferred `Release` has run when it was granted) -/
theorem arrive_terminated {env : Env} {s : State} {r : Request} {a : Model.Forward.Answer}
    (h : (arrive env s r).2 = .terminated a) :
    Model.Forward.serve (scenario env s r) = .terminated a ∧
    (arrive env s r).1 = (match dispatch env s r with
      | .done x => if x.acq.admitted then finish (stateAfterDispatch s x) x.acq.handle else stateAfterDispatch s x
      | _ => s) := by
  unfold arrive at h ⊢
  split at h
  · rename_i hdr up hparse hfwd
    simp only [hparse, hfwd]
    split at h
    · cases h
    · rename_i d hnp
      split at h
      · cases h
      · cases h
      · rename_i a' hserve
        split at h
        · rename_i x hx
          simp only at h
          cases h
          refine ⟨hserve, ?_⟩
          simp [hx, hserve]
        · rename_i hnd
          simp only at h
          cases h
          refine ⟨hserve, ?_⟩
          cases hd : dispatch env s r with
          | done x => exact absurd hd (hnd x)
          | panic e => exact absurd hd (hnp e)
          | notReached => simp [hserve]
          | noPolicy b => simp [hserve]
      · split at h
        · split at h
          · split at h <;> cases h
          · cases h
        · cases h
  · cases h

/-- the state after `arrive`, whatever the outcome: untouched, or what the dispatcher's `TryAcquire` / `Pop` made of it,
    possibly with the deferred `Release` already run -/
theorem arrive_state (env : Env) (s : State) (r : Request) :
    (arrive env s r).1 = s ∨
    ∃ x, dispatch env s r = .done x ∧
      ((arrive env s r).1 = stateAfterDispatch s x ∨ (arrive env s r).1 = finish (stateAfterDispatch s x) x.acq.handle) := by
  unfold arrive
  split
  · split
    · exact Or.inl rfl
    · split
      · exact Or.inl rfl
      · exact Or.inl rfl
      · split
        · rename_i x hx
          refine Or.inr ⟨x, hx, ?_⟩
          by_cases ha : x.acq.admitted = true <;> simp [ha]
        · exact Or.inl rfl
      · split
        · rename_i x hx
          split
          · split
            · exact Or.inr ⟨x, hx, Or.inl rfl⟩
            · exact Or.inr ⟨x, hx, Or.inr rfl⟩
          · exact Or.inl rfl
        · exact Or.inl rfl
  · exact Or.inl rfl

/-- a request that never reached `TryAcquire` leaves the whole state alone -/
theorem arrive_state_of_not_done {env : Env} {s : State} {r : Request} (h : ∀ x, dispatch env s r ≠ .done x) :
    (arrive env s r).1 = s := by
  rcases arrive_state env s r with h1 | ⟨x, hx, _⟩
  · exact h1
  · exact absurd hx (h x)

/-! ## what the dispatcher's steps and the deferred `Release` leave alone -/

theorem setCursor_length (cs : List Cluster) (p : Nat) (lb : List (Model.Endpoints.Key × Nat)) :
    (setCursor cs p lb).length = cs.length := by
  unfold setCursor; split <;> simp

theorem setCursor_get (cs : List Cluster) (p : Nat) (lb : List (Model.Endpoints.Key × Nat)) (q : Nat) :
    (setCursor cs p lb)[q]? =
      (if q = p then (cs[p]?).map (fun cl => { cl with ep := { cl.ep with lb := lb } }) else cs[q]?) := by
  unfold setCursor
  cases hp : cs[p]? with
  | none =>
    by_cases hq : q = p
    · subst hq; simp [hp]
    · simp [hq]
  | some cl =>
    simp only [Option.map_some]
    by_cases hq : q = p
    · subst hq
      have hlt : q < cs.length := by
        rcases Nat.lt_or_ge q cs.length with h | h
        · exact h
        · rw [List.getElem?_eq_none h] at hp; cases hp
      simp [List.getElem?_set, hlt]
    · have : p ≠ q := fun h => hq h.symm
      simp [hq, List.getElem?_set, this]

/-- moving a cursor changes nothing that does not look at the cursors -/
theorem setCursor_map {α : Type} (g : Cluster → α)
    (hg : ∀ (cl : Cluster) (lb : List (Model.Endpoints.Key × Nat)), g { cl with ep := { cl.ep with lb := lb } } = g cl)
    (cs : List Cluster) (p : Nat) (lb : List (Model.Endpoints.Key × Nat)) :
    (setCursor cs p lb).map g = cs.map g := by
  apply List.ext_getElem?
  intro q
  rw [List.getElem?_map, List.getElem?_map, setCursor_get]
  by_cases hq : q = p
  · subst hq; cases cs[q]? <;> simp [hg]
  · simp [hq]

theorem setCursor_self (cs : List Cluster) (p : Nat) (cl : Cluster) (h : cs[p]? = some cl) : setCursor cs p cl.ep.lb = cs := by
  apply List.ext_getElem?
  intro q
  rw [setCursor_get]
  by_cases hq : q = p
  · subst hq; simp [h]
  · simp [hq]

theorem stateAfterDispatch_mgr (s : State) (x : Dispatched) : (stateAfterDispatch s x).mgr = s.mgr := rfl
theorem finish_mgr (s : State) (h : Nat) : (finish s h).mgr = s.mgr := rfl
theorem finish_clusters (s : State) (h : Nat) : (finish s h).clusters = s.clusters := rfl
theorem finish_buckets (s : State) (h : Nat) : (finish s h).buckets = s.buckets := rfl
theorem stateAfterDispatch_clusters (s : State) (x : Dispatched) :
    (stateAfterDispatch s x).clusters = setCursor s.clusters x.b.p x.pop.2 := rfl

/-- a request refused by flow control moves no cursor: `TryAcquire` comes before `Pop` -/
theorem stateAfterDispatch_refused {env : Env} {s : State} {r : Request} {x : Dispatched} (hx : dispatch env s r = .done x)
    (ha : x.acq.admitted = false) : (stateAfterDispatch s x).clusters = s.clusters := by
  obtain ⟨hb, _, _, hpop⟩ := dispatch_done hx
  obtain ⟨_, _, hres, _⟩ := bound_some hb
  obtain ⟨_, hcl⟩ := resolve_some hres
  rw [stateAfterDispatch_clusters, hpop]
  simp only [ha, Bool.false_eq_true, if_false]
  exact setCursor_self _ _ _ hcl

/-! ## the limiter invariant: the simulation relation of C05, carried through the composed steps -/

/-- the state's limiters are related to some bookkeeping of C05's judge -/
def Inv (s : State) : Prop := ∃ σ, KG.Lemmas.LocalLimiter.Rel s.lim σ

theorem inv_init : Inv State.init := ⟨_, KG.Lemmas.LocalLimiter.rel_init⟩

theorem inv_finish {s : State} (h : Inv s) (i : Nat) : Inv (finish s i) := by
  obtain ⟨σ, hr⟩ := h
  exact ⟨_, KG.Lemmas.LocalLimiter.release_step hr i⟩

/-- related limiters never hand out a nil or dangling limiter: `TryAcquire` never panics (C05) -/
theorem tryAcquire_never_panics {s : State} (h : Inv s) (c n : Str) (now : Rat) :
    ∃ a, tryAcquire s.lim s.buckets c n now = .ok a := by
  obtain ⟨σ, hr⟩ := h
  obtain ⟨w', b, ha, _, _⟩ := KG.Lemmas.LocalLimiter.acquire_step hr c n (bucketAnswer s.lim s.buckets c n now).1
  unfold tryAcquire
  rw [ha]
  exact ⟨_, rfl⟩

theorem dispatch_never_panics {env : Env} {s : State} (h : Inv s) (r : Request) (e : String) : dispatch env s r ≠ .panic e := by
  intro hp
  obtain ⟨b, pk, _, _, herr⟩ := dispatch_panic hp
  obtain ⟨a, ha⟩ := tryAcquire_never_panics h b.cl.cfg.name (schemaNameOf b.cl pk) r.now
  rw [ha] at herr; cases herr

theorem inv_stateAfterDispatch {env : Env} {s : State} {r : Request} {x : Dispatched} (h : Inv s)
    (hx : dispatch env s r = .done x) : Inv (stateAfterDispatch s x) := by
  obtain ⟨σ, hr⟩ := h
  obtain ⟨_, _, hacq, _⟩ := dispatch_done hx
  obtain ⟨ha, _, _⟩ := tryAcquire_ok hacq
  obtain ⟨w', b, ha', _, hrel⟩ :=
    KG.Lemmas.LocalLimiter.acquire_step hr x.b.cl.cfg.name (schemaNameOf x.b.cl x.pk) (bucketAnswer s.lim s.buckets x.b.cl.cfg.name (schemaNameOf x.b.cl x.pk) r.now).1
  rw [ha] at ha'
  injection ha' with ha'
  injection ha' with h1 h2
  exact ⟨_, by show KG.Lemmas.LocalLimiter.Rel x.acq.lim _; rw [h1]; exact hrel⟩

theorem inv_arrive {env : Env} {s : State} (h : Inv s) (r : Request) : Inv (arrive env s r).1 := by
  rcases arrive_state env s r with h1 | ⟨x, hx, h1 | h1⟩
  · rw [h1]; exact h
  · rw [h1]; exact inv_stateAfterDispatch h hx
  · rw [h1]; exact inv_finish (inv_stateAfterDispatch h hx) _

theorem inv_serveRequest {env : Env} {s : State} (h : Inv s) (r : Request) : Inv (serveRequest env s r).1 := by
  unfold serveRequest
  dsimp only
  split
  · exact inv_finish (inv_arrive h r) _
  · exact inv_arrive h r

theorem inv_setHealth {s : State} (h : Inv s) (p : Nat) (ep : Str) (healthy : Bool) : Inv (setHealth s p ep healthy) := by
  unfold setHealth
  split
  · exact h
  · exact h

theorem inv_addCluster {s : State} (h : Inv s) (cfg : ClusterCfg) : Inv (addCluster s cfg).1 := by
  unfold addCluster
  dsimp only
  cases hs : Model.LocalLimiter.sync s.lim (lower cfg.name) cfg.schemas with
  | error e => split <;> exact h
  | ok w =>
    split
    · obtain ⟨σ, hr⟩ := h
      exact ⟨_, KG.Lemmas.LocalLimiter.sync_step hr _ _ w hs⟩
    · exact h
    · exact h

theorem inv_install (cfgs : List ClusterCfg) : Inv (install cfgs) := by
  unfold install
  suffices h : ∀ s, Inv s → Inv (cfgs.foldl (fun s c => (addCluster s c).1) s) from h _ inv_init
  induction cfgs with
  | nil => intro s hs; exact hs
  | cons c rest ih => intro s hs; exact ih _ (inv_addCluster hs c)

theorem inv_step {env : Env} {x : Run} (h : Inv x.s) (op : Op) : Inv (step env x op).1.s := by
  cases op with
  | request r hold =>
    simp only [step]
    by_cases hh : hold = true
    · simp only [hh, if_true]
      split
      · exact inv_arrive h r
      · exact inv_arrive h r
    · simp only [hh, Bool.false_eq_true, if_false]
      exact inv_serveRequest h r
  | finish k =>
    simp only [step]
    split
    · exact h
    · exact inv_finish h _
  | setHealth p ep healthy => exact inv_setHealth h p ep healthy

theorem inv_run {env : Env} (x : Run) (h : Inv x.s) (ops : List Op) : Inv (run env x ops).1.s := by
  induction ops generalizing x with
  | nil => exact h
  | cons op ops ih => exact ih _ (inv_step h op)

/-! ## headers -/

/-- restricting to the identity-bearing entries does not change the values under an identity-bearing name -/
theorem values_identityEntries (recv : Model.Identity.Headers) (n : Str) (hn : Model.Identity.isIdentityName n = true) :
    Model.Identity.values (identityEntries recv) n = Model.Identity.values recv n := by
  induction recv with
  | nil => rfl
  | cons e rest ih =>
    obtain ⟨k, vs⟩ := e
    unfold identityEntries at ih ⊢
    by_cases he : Model.Identity.isIdentityName k = true
    · simp only [List.filter_cons, he, if_true, Model.Identity.values, ih]
    · have hne : k ≠ n := fun hh => he (by subst hh; exact hn)
      simp only [List.filter_cons, he, Bool.false_eq_true, if_false, Model.Identity.values, hne, ih]

/-- … and dropping them does not change the values under any other name -/
theorem values_endToEnd (u : Model.Forward.UpReq) (k : Str) (hk : Model.Identity.isIdentityName k = false) :
    (endToEnd u).headers.values k = u.headers.values k := by
  unfold endToEnd Model.Forward.Hdr.values
  simp only
  congr 1
  induction u.headers with
  | nil => rfl
  | cons e rest ih =>
    obtain ⟨k', vv⟩ := e
    by_cases he : Model.Identity.isIdentityName k' = true
    · have hne : k' ≠ k := fun hh => by subst hh; rw [hk] at he; cases he
      simp only [List.filter_cons, he, Bool.not_true, Bool.false_eq_true, if_false, Model.Forward.Hdr.get?, hne, ih]
    · simp only [List.filter_cons, he, Bool.not_false, if_true, Model.Forward.Hdr.get?, ih]

/-- the context user of C02's whole-path model is the one the impersonation filter computed -/
theorem identity_ctx {env : Env} {p : Option Nat} {r : Request} {u : Model.Identity.Identity} {token : Str}
    {recv h1 : Model.Identity.Headers} {ctx ctx' : Model.Identity.Identity}
    (hid : Model.Identity.serve token r.lines (some u) (env.authz p u) false = .forwarded recv ctx)
    (himp : impersonation env p r u = .pass h1 ctx') : ctx = ctx' := by
  obtain ⟨u', hh1, hv, hu, hex, _⟩ := KG.Lemmas.Identity.serve_forwarded _ _ _ _ _ _ _ hid
  cases hu
  have hparse : Model.Identity.parse r.lines = some (KG.Lemmas.Identity.parsed r.lines) := by
    rw [KG.Lemmas.Identity.parse_eq]; simp [hv]
  have := KG.Lemmas.Identity.impersonate_spec r.lines hv u (env.authz p u)
  unfold impersonation headersOf at himp
  rw [hparse] at himp
  simp only [Option.getD_some] at himp
  rw [this] at himp
  unfold KG.Spec.Identity.expected at hex
  by_cases c1 : (!KG.Spec.Identity.impersonationRequested r.lines) = true
  · simp only [c1, if_true] at hex himp
    injection hex with hex; injection himp with _ h2
    rw [← hex, ← h2]
  · simp only [c1, Bool.false_eq_true, if_false] at hex himp
    by_cases c2 : KG.Spec.Identity.malformed r.lines = true
    · simp [c2] at hex
    · simp only [c2, Bool.false_eq_true, if_false] at hex himp
      by_cases c3 : KG.Spec.Identity.allAllowed (env.authz p u) r.lines = true
      · simp only [c3, if_true] at hex himp
        injection hex with hex; injection himp with _ h2
        rw [← hex, ← h2]
      · simp [c3] at hex

/-! ## when the chain model says "forward", the dispatcher did its three steps -/

theorem forward_dispatch {env : Env} {s : State} {r : Request} (hinv : Inv s)
    (h : Model.Forward.serve (scenario env s r) = .forward) :
    ∃ x n g, dispatch env s r = .done x ∧ x.acq.admitted = true ∧ x.pop.1 = .picked n g := by
  obtain ⟨h1, h2, h3, h4, h5, h6, h7, h8, h9⟩ := (KG.Props.C04.c04_forward_iff _).1 h
  obtain ⟨b, hb⟩ := bound_of_scenario h1 h2 h3 h4 h5 h6
  cases hd : dispatch env s r with
  | notReached => rw [dispatch_notReached hd] at hb; cases hb
  | noPolicy b' => rw [scenario_policy, hd] at h7; cases h7
  | panic e => exact absurd hd (dispatch_never_panics hinv r e)
  | done x =>
    rw [scenario_acquire, hd] at h8
    rw [scenario_pop, hd] at h9
    simp only at h8 h9
    cases hp : x.pop.1 with
    | picked n g => exact ⟨x, n, g, rfl, h8, hp⟩
    | noReady => rw [hp] at h9; cases h9
    | panic => rw [hp] at h9; cases h9

/-- the outcomes that are answers of C04's chain model -/
theorem arrive_badRequest {env : Env} {s : State} {r : Request}
    (h : Model.Identity.parse r.lines = none ∨ Model.Forward.forwardRequest r.toForward = none) :
    arrive env s r = (s, .badRequest) := by
  unfold arrive
  split
  · rename_i h1 h2
    rcases h with h | h
    · rw [h] at h1; cases h1
    · rw [h] at h2; cases h2
  · rfl

/-! ## the specification's view of the stages agrees with the model's (what the judge theorem needs) -/

section Judge
open KG.Spec.Gateway

/-- the limiter's answer is the judge's demand; where the judge demands nothing (a token bucket) it is the bucket's -/
theorem acquire_demand {w : Model.LocalLimiter.World} {σ : KG.Spec.LocalLimiter.SState} (h : KG.Lemmas.LocalLimiter.Rel w σ)
    {c n : Str} {tb : Bool} {w' : Model.LocalLimiter.World} {b : Bool}
    (ha : Model.LocalLimiter.acquire w c n tb = .ok (w', b)) :
    b = (match KG.Spec.LocalLimiter.demand σ c n with | some d => d | none => tb) := by
  obtain ⟨w'', b'', ha', hchk, _⟩ := KG.Lemmas.LocalLimiter.acquire_step h c n tb
  rw [ha] at ha'
  injection ha' with ha'
  injection ha' with _ hb
  subst hb
  cases hd : KG.Spec.LocalLimiter.demand σ c n with
  | some d =>
    simp only [KG.Spec.LocalLimiter.check, hd] at hchk
    simpa using hchk
  | none =>
    simp only
    have hc := h.core
    unfold KG.Spec.LocalLimiter.demand at hd
    by_cases hn : n = []
    · simp [hn] at hd
    · simp only [hn, if_false] at hd
      cases he : σ.entries c n with
      | none => simp [he] at hd
      | some e =>
        rw [he] at hd
        simp only at hd
        have hdom := hc.dom c n
        rw [he] at hdom
        cases hcache : w.cache c n with
        | none => rw [hcache] at hdom; simp at hdom
        | some cache =>
          have hcfg := hc.cfg c n cache e hcache he
          cases hcur : cache.cur with
          | none =>
            have hz := hc.curNone c n cache hcache hcur
            have hname := hc.name c n cache hcache
            rw [hz] at hname
            exact absurd hname.symm hn
          | some id =>
            obtain ⟨_, k, hk, hty, hok⟩ := hc.curOk c n cache id hcache hcur
            unfold Model.LocalLimiter.acquire at ha
            rw [KG.Lemmas.LocalLimiter.getOrDefault_eq] at ha
            simp only [hn, if_false, hcache, Option.map_some, hcur, hk] at ha
            cases k with
            | bucket q bb =>
              simp only [Model.LocalLimiter.Kind.tryAcquire] at ha
              injection ha with ha
              injection ha with _ hb
              exact hb.symm
            | counter cnt =>
              exfalso
              obtain ⟨m, hmi, _⟩ := hok cnt rfl
              have hgt : Model.LocalLimiter.guessType e.config = .maxInflight := by rw [← hcfg, ← hty]; rfl
              rw [hcfg] at hmi
              simp [hgt, hmi] at hd
            | infinity =>
              exfalso
              have hgt : Model.LocalLimiter.guessType e.config = .exempt := by rw [← hcfg, ← hty]; rfl
              simp [hgt] at hd

/-- the three things C04's table tells apart about the impersonation filter -/
def impClass : Model.Forward.Imp → Nat
  | .malformed => 0
  | .refused => 1
  | _ => 2

theorem imp_match {α : Type} {a b : Model.Forward.Imp} (h : impClass a = impClass b) (X Y Z : α) :
    (match a with | .malformed => X | .refused => Y | _ => Z) = (match b with | .malformed => X | .refused => Y | _ => Z) := by
  cases a <;> cases b <;> simp [impClass] at h <;> rfl

/-- C04's table looks at a flag only when every earlier stage passed -/
theorem table_congr (a b : Model.Forward.Scenario)
    (h1 : a.requestInfoOK = b.requestInfoOK) (h2 : a.hostIsIP = b.hostIsIP) (h3 : a.clusterKnown = b.clusterKnown)
    (h4 : a.denyAll = b.denyAll) (h5 : a.authOK = b.authOK) (h6 : impClass a.imp = impClass b.imp)
    (h10 : a.resource = b.resource)
    (hlate : a.requestInfoOK = true → a.hostIsIP = false → a.clusterKnown = true → a.denyAll = false → a.authOK = true →
      impClass a.imp = 2 →
      a.policyMatches = b.policyMatches ∧ (a.policyMatches = true → a.acquireOK = b.acquireOK) ∧
      (a.policyMatches = true → a.acquireOK = true → a.popOK = b.popOK)) :
    KG.Spec.Forward.table a = KG.Spec.Forward.table b := by
  unfold KG.Spec.Forward.table
  rw [← h1, ← h2, ← h3, ← h4, ← h5]
  by_cases c1 : a.requestInfoOK = true
  swap
  · simp [c1]
  by_cases c2 : a.hostIsIP = true
  · simp only [c1, c2, Bool.not_true, Bool.false_eq_true, if_false, if_true]
    by_cases c5 : a.authOK = true
    · simp only [c5, Bool.not_true, Bool.false_eq_true, if_false]
      exact imp_match h6 _ _ _
    · simp [c5]
  by_cases c3 : a.clusterKnown = true
  swap
  · simp [c1, c2, c3]
  by_cases c4 : a.denyAll = true
  · simp [c1, c2, c3, c4]
  by_cases c5 : a.authOK = true
  swap
  · simp [c1, c2, c3, c4, c5]
  simp only [c1, c2, c3, c4, c5, Bool.not_true, Bool.false_eq_true, if_false]
  have c2' : a.hostIsIP = false := by simpa using c2
  have c4' : a.denyAll = false := by simpa using c4
  cases hia : a.imp <;> cases hib : b.imp <;> simp [impClass, hia, hib] at h6 <;> simp only [] <;>
    (obtain ⟨e7, e8, e9⟩ := hlate c1 c2' c3 c4' c5 (by simp [impClass, hia])
     unfold KG.Spec.Forward.tableDispatch
     rw [← e7, ← h10]
     by_cases d7 : a.policyMatches = true
     · rw [← e8 d7]
       by_cases d8 : a.acquireOK = true
       · rw [← e9 d7 d8]
       · simp [d7, d8]
     · simp [d7])

/-- net/http accepted the header lines -/
theorem rawValid_of_parse {r : Request} (hp : Model.Identity.parse r.lines ≠ none) : KG.Lemmas.Identity.rawValid r.lines = true := by
  rw [KG.Lemmas.Identity.parse_eq] at hp
  by_cases hv : KG.Lemmas.Identity.rawValid r.lines = true
  · exact hv
  · simp [hv] at hp

theorem headersOf_eq {r : Request} (hv : KG.Lemmas.Identity.rawValid r.lines = true) :
    headersOf r = KG.Lemmas.Identity.parsed r.lines := by
  unfold headersOf
  rw [KG.Lemmas.Identity.parse_eq]
  simp [hv]

/-- the impersonation filter and C02's specification, side by side -/
theorem imp_expected {env : Env} {p : Option Nat} {r : Request} (hv : KG.Lemmas.Identity.rawValid r.lines = true)
    (u : Model.Identity.Identity) :
    (∃ h1 id, impersonation env p r u = .pass h1 id ∧ KG.Spec.Identity.expected r.lines u (env.authz p u) = .forward id ∧
      impKind (Model.Identity.authnStrip (headersOf r)) (impersonation env p r u) ≠ .malformed ∧
      impKind (Model.Identity.authnStrip (headersOf r)) (impersonation env p r u) ≠ .refused) ∨
    (impersonation env p r u = .internalError ∧ KG.Spec.Identity.expected r.lines u (env.authz p u) = .answered 500) ∨
    (impersonation env p r u = .forbidden ∧ KG.Spec.Identity.expected r.lines u (env.authz p u) = .answered 403) := by
  have hspec := KG.Lemmas.Identity.impersonate_spec r.lines hv u (env.authz p u)
  unfold impersonation
  rw [headersOf_eq hv, hspec]
  unfold KG.Spec.Identity.expected
  by_cases c1 : (!KG.Spec.Identity.impersonationRequested r.lines) = true
  · left
    simp only [c1, if_true]
    refine ⟨_, _, rfl, rfl, ?_, ?_⟩ <;> (simp only [impKind]; split <;> simp)
  · simp only [c1, Bool.false_eq_true, if_false]
    by_cases c2 : KG.Spec.Identity.malformed r.lines = true
    · right; left; simp [c2]
    · simp only [c2, Bool.false_eq_true, if_false]
      by_cases c3 : KG.Spec.Identity.allAllowed (env.authz p u) r.lines = true
      · left
        simp only [c3, if_true]
        refine ⟨_, _, rfl, rfl, ?_, ?_⟩ <;> (simp only [impKind]; split <;> simp)
      · right; right; simp [c3]

/-- what the property expects for a request whose lines net/http accepted -/
theorem expectId_eq {env : Env} {p : Option Nat} {r : Request} (hv : KG.Lemmas.Identity.rawValid r.lines = true) :
    expectId env p r = (match authenticate env p r with
      | none => .answered 401
      | some u => KG.Spec.Identity.expected r.lines u (env.authz p u)) := by
  unfold expectId KG.Spec.Identity.expectedFor
  have hv' : r.lines.all (fun l => Model.Identity.validName l.1 && Model.Identity.validValue l.2) = true := hv
  simp only [hv', Bool.not_true, Bool.false_eq_true, if_false]
  cases authenticate env p r <;> rfl

end Judge

end KG.Lemmas.Gateway
