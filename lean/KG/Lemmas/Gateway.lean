import KG.Model.Gateway
import KG.Spec.Gateway
import KG.Lemmas.LocalLimiter
import KG.Lemmas.Identity
import KG.Props.C04
import KG.Props.C01
import KG.Props.C02
import KG.Props.C03
/-!
# Lemmas about the composed model: what each outcome of `arrive` means, and the frame of every stage

Everything here is by unfolding `KG.Model.Gateway`; the per-area facts are used in `KG.Props.C04Gateway`.
-/
namespace KG.Lemmas.Gateway
open KG KG.Model.Gateway

/-! ## the stages in front of the dispatcher -/

theorem resolve_some {s : State} {r : Request} {p : Nat} {cl : Cluster} (h : resolveCluster s r = some (p, cl)) :
    (∃ ci, Model.Names.resolve lower s.mgr r.host = some (p, ci)) ∧ s.clusters[p]? = some cl := by
  unfold resolveCluster at h
  split at h
  · cases h
  · rename_i p' ci hres
    split at h
    · cases h
    · rename_i cl' hcl
      cases h
      exact ⟨⟨ci, hres⟩, hcl⟩

theorem bound_some {env : Env} {s : State} {r : Request} {b : Bound} (h : bound? env s r = some b) :
    r.info = some b.ri ∧ r.hostIsIP = false ∧ resolveCluster s r = some (b.p, b.cl) ∧ b.cl.cfg.denyAll = false ∧
    authenticate env (some b.p) r = some b.requestor ∧
    ∃ h1, impersonation env (some b.p) r b.requestor = .pass h1 b.ctxUser := by
  unfold bound? at h
  split at h
  · cases h
  · rename_i ri hri
    by_cases hip : r.hostIsIP = true
    · simp [hip] at h
    · simp only [hip, Bool.false_eq_true, if_false] at h
      split at h
      · cases h
      · rename_i p cl hres
        by_cases hd : cl.cfg.denyAll = true
        · simp [hd] at h
        · simp only [hd, Bool.false_eq_true, if_false] at h
          split at h
          · cases h
          · rename_i u hau
            split at h
            · rename_i h1 ctx himp
              cases h
              exact ⟨hri, by simpa using hip, hres, by simpa using hd, hau, h1, himp⟩
            · cases h

/-! ## the dispatcher -/

theorem dispatch_done {env : Env} {s : State} {r : Request} {x : Dispatched} (h : dispatch env s r = .done x) :
    bound? env s r = some x.b ∧ route x.b.cl r x.b.ri x.b.ctxUser = some x.pk ∧
    tryAcquire s.lim s.buckets x.b.cl.cfg.name (schemaNameOf x.b.cl x.pk) r.now = .ok x.acq ∧
    x.pop = (if x.acq.admitted then Model.Endpoints.pop x.b.cl.ep.eps x.b.cl.ep.lb x.pk.upstreams else (.noReady, x.b.cl.ep.lb)) := by
  unfold dispatch at h
  split at h
  · cases h
  · rename_i b hb
    split at h
    · cases h
    · rename_i pk hpk
      split at h
      · cases h
      · rename_i acq hacq
        cases h
        exact ⟨hb, hpk, hacq, rfl⟩

theorem dispatch_noPolicy {env : Env} {s : State} {r : Request} {b : Bound} (h : dispatch env s r = .noPolicy b) :
    bound? env s r = some b ∧ route b.cl r b.ri b.ctxUser = none := by
  unfold dispatch at h
  split at h
  · cases h
  · rename_i b' hb
    split at h
    · rename_i hpk
      cases h
      exact ⟨hb, hpk⟩
    · split at h <;> cases h

theorem dispatch_notReached {env : Env} {s : State} {r : Request} (h : dispatch env s r = .notReached) :
    bound? env s r = none := by
  unfold dispatch at h
  split at h
  · assumption
  · split at h
    · cases h
    · split at h <;> cases h

theorem dispatch_panic {env : Env} {s : State} {r : Request} {e : String} (h : dispatch env s r = .panic e) :
    ∃ b pk, bound? env s r = some b ∧ route b.cl r b.ri b.ctxUser = some pk ∧
      tryAcquire s.lim s.buckets b.cl.cfg.name (schemaNameOf b.cl pk) r.now = .error e := by
  unfold dispatch at h
  split at h
  · cases h
  · rename_i b hb
    split at h
    · cases h
    · rename_i pk hpk
      split at h
      · rename_i e' he
        cases h
        exact ⟨b, pk, hb, hpk, he⟩
      · cases h

/-- `TryAcquire` is one `LocalLimiter.acquire`, its token-bucket answer being the bucket's (C05 × C06) -/
theorem tryAcquire_ok {lim : Model.LocalLimiter.World} {bs : List (Nat × Model.TokenBucket.Bucket)} {c n : Str} {now : Rat}
    {a : Acquired} (h : tryAcquire lim bs c n now = .ok a) :
    Model.LocalLimiter.acquire lim c n (bucketAnswer lim bs c n now).1 = .ok (a.lim, a.admitted) ∧
    a.handle = lim.reqs.length ∧ a.buckets = (bucketAnswer lim bs c n now).2 := by
  unfold tryAcquire at h
  split at h
  · cases h
  · rename_i w b hacq
    cases h
    exact ⟨hacq, rfl, rfl⟩

/-! ## the flags of the scenario, read off the stages -/

theorem scenario_info (env : Env) (s : State) (r : Request) : (scenario env s r).requestInfoOK = r.info.isSome := rfl
theorem scenario_ip (env : Env) (s : State) (r : Request) : (scenario env s r).hostIsIP = r.hostIsIP := rfl
theorem scenario_known (env : Env) (s : State) (r : Request) :
    (scenario env s r).clusterKnown = (resolveCluster s r).isSome := rfl

theorem scenario_policy (env : Env) (s : State) (r : Request) :
    (scenario env s r).policyMatches = (match dispatch env s r with | .noPolicy _ => false | _ => true) := rfl
theorem scenario_acquire (env : Env) (s : State) (r : Request) :
    (scenario env s r).acquireOK = (match dispatch env s r with | .done x => x.acq.admitted | _ => true) := rfl
theorem scenario_pop (env : Env) (s : State) (r : Request) :
    (scenario env s r).popOK = (match dispatch env s r with
      | .done x => (match x.pop.1 with | .picked _ _ => true | _ => false)
      | _ => true) := rfl

/-- when the filters in front of the dispatcher let the request through, the first six flags say so -/
theorem scenario_of_bound {env : Env} {s : State} {r : Request} {b : Bound} (h : bound? env s r = some b) :
    (scenario env s r).requestInfoOK = true ∧ (scenario env s r).hostIsIP = false ∧ (scenario env s r).clusterKnown = true ∧
    (scenario env s r).denyAll = false ∧ (scenario env s r).authOK = true ∧
    ((scenario env s r).imp = .none ∨ (scenario env s r).imp = .allowed) := by
  obtain ⟨hri, hip, hres, hd, hau, h1, himp⟩ := bound_some h
  refine ⟨by simp [scenario_info, hri], by simp [scenario_ip, hip], by simp [scenario_known, hres], ?_, ?_, ?_⟩
  · simp [scenario, hres, hd]
  · simp [scenario, hres, hip, hau]
  · simp only [scenario, hres, hip, Bool.false_eq_true, if_false, Option.map_some, hau, himp, impKind]
    split <;> simp

/-- conversely: the first six flags say the dispatcher is reached -/
theorem bound_of_scenario {env : Env} {s : State} {r : Request}
    (h1 : (scenario env s r).requestInfoOK = true) (h2 : (scenario env s r).hostIsIP = false)
    (h3 : (scenario env s r).clusterKnown = true) (h4 : (scenario env s r).denyAll = false)
    (h5 : (scenario env s r).authOK = true)
    (h6 : (scenario env s r).imp = .none ∨ (scenario env s r).imp = .allowed) :
    ∃ b, bound? env s r = some b := by
  rw [scenario_info] at h1
  rw [scenario_ip] at h2
  rw [scenario_known] at h3
  obtain ⟨ri, hri⟩ := Option.isSome_iff_exists.mp h1
  obtain ⟨⟨p, cl⟩, hres⟩ := Option.isSome_iff_exists.mp h3
  have hd : cl.cfg.denyAll = false := by simpa [scenario, hres] using h4
  have hau : (authenticate env (some p) r).isSome = true := by simpa [scenario, hres, h2] using h5
  obtain ⟨u, hu⟩ := Option.isSome_iff_exists.mp hau
  unfold bound?
  simp only [hri, h2, Bool.false_eq_true, if_false, hres, hd, hu]
  cases himp : impersonation env (some p) r u with
  | pass hh ctx => exact ⟨_, rfl⟩
  | internalError =>
    exfalso
    simp [scenario, hres, h2, hu, himp, impKind] at h6
  | forbidden =>
    exfalso
    simp [scenario, hres, h2, hu, himp, impKind] at h6

/-! ## `arrive`, outcome by outcome -/

/-- a forwarded request: every stage passed, in this order -/
theorem arrive_forwarded {env : Env} {s : State} {r : Request} {f : Forwarded} (h : (arrive env s r).2 = .forwarded f) :
    ∃ up x n g recv ctx,
      Model.Identity.parse r.lines ≠ none ∧ Model.Forward.forwardRequest r.toForward = some up ∧
      dispatch env s r = .done x ∧ Model.Forward.serve (scenario env s r) = .forward ∧ x.pop.1 = .picked n g ∧
      Model.Identity.serveWith x.b.cl.cfg.token r.lines (some x.b.requestor) (env.authz (some x.b.p) x.b.requestor) false = .forwarded recv ctx ∧
      f = { cluster := x.b.p, policy := x.pk.policy, schema := schemaNameOf x.b.cl x.pk, endpoint := (n, g),
            handle := x.acq.handle, ctxUser := x.b.ctxUser, up := endToEnd up, identity := identityEntries recv,
            closeWhenIdle := x.b.cl.cfg.closeWhenIdle } ∧
      (arrive env s r).1 = stateAfterDispatch s x := by
  unfold arrive at h ⊢
  split at h
  · rename_i hdr up hparse hfwd
    simp only [hparse, hfwd]
    split at h
    · cases h
    · rename_i d hnp
      split at h
      · cases h
      · split at h <;> cases h
      · rename_i hserve
        split at h
        · rename_i x hx
          split at h
          · rename_i n g hpop
            split at h
            · rename_i recv ctx hid
              simp only at h
              refine ⟨up, x, n, g, recv, ctx, by simp, rfl, hx, hserve, hpop, hid, ?_, ?_⟩
              · cases h; rfl
              · simp
            · cases h
          · cases h
        · cases h
  · cases h


/-- a request the gateway answered itself: the answer is the one C04's chain model gives for the computed flags; the
    state moved only if the dispatcher had called `TryAcquire` (and then the deferred `Release` has run when it was granted) -/
theorem arrive_terminated {env : Env} {s : State} {r : Request} {a : Model.Forward.Answer}
    (h : (arrive env s r).2 = .terminated a) :
    Model.Forward.serve (scenario env s r) = .terminated a ∧
    (arrive env s r).1 = (match dispatch env s r with
      | .done x => if x.acq.admitted then finish (stateAfterDispatch s x) x.acq.handle else stateAfterDispatch s x
      | _ => s) := by
  unfold arrive at h ⊢
  split at h
  · rename_i hdr up hparse hfwd
    simp only [hparse, hfwd]
    split at h
    · cases h
    · rename_i d hnp
      split at h
      · cases h
      · rename_i a' hserve
        split at h
        · rename_i x hx
          simp only at h
          cases h
          refine ⟨hserve, ?_⟩
          simp [hx, hserve]
        · rename_i hnd
          simp only at h
          cases h
          refine ⟨hserve, ?_⟩
          cases hd : dispatch env s r with
          | done x => exact absurd hd (hnd x)
          | panic e => exact absurd hd (hnp e)
          | notReached => simp [hserve]
          | noPolicy b => simp [hserve]
      · split at h
        · split at h
          · split at h <;> cases h
          · cases h
        · cases h
  · cases h

/-- the state after `arrive`, whatever the outcome: untouched, or what the dispatcher's `TryAcquire` / `Pop` made of it,
    possibly with the deferred `Release` already run -/
theorem arrive_state (env : Env) (s : State) (r : Request) :
    (arrive env s r).1 = s ∨
    ∃ x, dispatch env s r = .done x ∧
      ((arrive env s r).1 = stateAfterDispatch s x ∨ (arrive env s r).1 = finish (stateAfterDispatch s x) x.acq.handle) := by
  unfold arrive
  split
  · split
    · exact Or.inl rfl
    · split
      · exact Or.inl rfl
      · split
        · rename_i x hx
          refine Or.inr ⟨x, hx, ?_⟩
          by_cases ha : x.acq.admitted = true <;> simp [ha]
        · exact Or.inl rfl
      · split
        · rename_i x hx
          split
          · split
            · exact Or.inr ⟨x, hx, Or.inl rfl⟩
            · exact Or.inr ⟨x, hx, Or.inr rfl⟩
          · exact Or.inl rfl
        · exact Or.inl rfl
  · exact Or.inl rfl

/-- a request that never reached `TryAcquire` leaves the whole state alone -/
theorem arrive_state_of_not_done {env : Env} {s : State} {r : Request} (h : ∀ x, dispatch env s r ≠ .done x) :
    (arrive env s r).1 = s := by
  rcases arrive_state env s r with h1 | ⟨x, hx, _⟩
  · exact h1
  · exact absurd hx (h x)

/-! ## what the dispatcher's steps and the deferred `Release` leave alone -/

theorem setCursor_length (cs : List Cluster) (p : Nat) (lb : List (Model.Endpoints.Key × Nat)) :
    (setCursor cs p lb).length = cs.length := by
  unfold setCursor; split <;> simp

theorem setCursor_get (cs : List Cluster) (p : Nat) (lb : List (Model.Endpoints.Key × Nat)) (q : Nat) :
    (setCursor cs p lb)[q]? =
      (if q = p then (cs[p]?).map (fun cl => { cl with ep := { cl.ep with lb := lb } }) else cs[q]?) := by
  unfold setCursor
  cases hp : cs[p]? with
  | none =>
    by_cases hq : q = p
    · subst hq; simp [hp]
    · simp [hq]
  | some cl =>
    simp only [Option.map_some]
    by_cases hq : q = p
    · subst hq
      have hlt : q < cs.length := by
        rcases Nat.lt_or_ge q cs.length with h | h
        · exact h
        · rw [List.getElem?_eq_none h] at hp; cases hp
      simp [List.getElem?_set, hlt]
    · have : p ≠ q := fun h => hq h.symm
      simp [hq, List.getElem?_set, this]

/-- moving a cursor changes nothing that does not look at the cursors -/
theorem setCursor_map {α : Type} (g : Cluster → α)
    (hg : ∀ (cl : Cluster) (lb : List (Model.Endpoints.Key × Nat)), g { cl with ep := { cl.ep with lb := lb } } = g cl)
    (cs : List Cluster) (p : Nat) (lb : List (Model.Endpoints.Key × Nat)) :
    (setCursor cs p lb).map g = cs.map g := by
  apply List.ext_getElem?
  intro q
  rw [List.getElem?_map, List.getElem?_map, setCursor_get]
  by_cases hq : q = p
  · subst hq; cases cs[q]? <;> simp [hg]
  · simp [hq]

theorem setCursor_self (cs : List Cluster) (p : Nat) (cl : Cluster) (h : cs[p]? = some cl) : setCursor cs p cl.ep.lb = cs := by
  apply List.ext_getElem?
  intro q
  rw [setCursor_get]
  by_cases hq : q = p
  · subst hq; simp [h]
  · simp [hq]

theorem stateAfterDispatch_mgr (s : State) (x : Dispatched) : (stateAfterDispatch s x).mgr = s.mgr := rfl
theorem finish_mgr (s : State) (h : Nat) : (finish s h).mgr = s.mgr := rfl
theorem finish_clusters (s : State) (h : Nat) : (finish s h).clusters = s.clusters := rfl
theorem finish_buckets (s : State) (h : Nat) : (finish s h).buckets = s.buckets := rfl
theorem stateAfterDispatch_clusters (s : State) (x : Dispatched) :
    (stateAfterDispatch s x).clusters = setCursor s.clusters x.b.p x.pop.2 := rfl

/-- a request refused by flow control moves no cursor: `TryAcquire` comes before `Pop` -/
theorem stateAfterDispatch_refused {env : Env} {s : State} {r : Request} {x : Dispatched} (hx : dispatch env s r = .done x)
    (ha : x.acq.admitted = false) : (stateAfterDispatch s x).clusters = s.clusters := by
  obtain ⟨hb, _, _, hpop⟩ := dispatch_done hx
  obtain ⟨_, _, hres, _⟩ := bound_some hb
  obtain ⟨_, hcl⟩ := resolve_some hres
  rw [stateAfterDispatch_clusters, hpop]
  simp only [ha, Bool.false_eq_true, if_false]
  exact setCursor_self _ _ _ hcl

/-! ## the limiter invariant: the simulation relation of C05, carried through the composed steps -/

/-- the state's limiters are related to some bookkeeping of C05's judge -/
def Inv (s : State) : Prop := ∃ σ, KG.Lemmas.LocalLimiter.Rel s.lim σ

theorem inv_init : Inv State.init := ⟨_, KG.Lemmas.LocalLimiter.rel_init⟩

theorem inv_finish {s : State} (h : Inv s) (i : Nat) : Inv (finish s i) := by
  obtain ⟨σ, hr⟩ := h
  exact ⟨_, KG.Lemmas.LocalLimiter.release_step hr i⟩

/-- related limiters never hand out a nil or dangling limiter: `TryAcquire` never panics (C05) -/
theorem tryAcquire_never_panics {s : State} (h : Inv s) (c n : Str) (now : Rat) :
    ∃ a, tryAcquire s.lim s.buckets c n now = .ok a := by
  obtain ⟨σ, hr⟩ := h
  obtain ⟨w', b, ha, _, _⟩ := KG.Lemmas.LocalLimiter.acquire_step hr c n (bucketAnswer s.lim s.buckets c n now).1
  unfold tryAcquire
  rw [ha]
  exact ⟨_, rfl⟩

theorem dispatch_never_panics {env : Env} {s : State} (h : Inv s) (r : Request) (e : String) : dispatch env s r ≠ .panic e := by
  intro hp
  obtain ⟨b, pk, _, _, herr⟩ := dispatch_panic hp
  obtain ⟨a, ha⟩ := tryAcquire_never_panics h b.cl.cfg.name (schemaNameOf b.cl pk) r.now
  rw [ha] at herr; cases herr

theorem inv_stateAfterDispatch {env : Env} {s : State} {r : Request} {x : Dispatched} (h : Inv s)
    (hx : dispatch env s r = .done x) : Inv (stateAfterDispatch s x) := by
  obtain ⟨σ, hr⟩ := h
  obtain ⟨_, _, hacq, _⟩ := dispatch_done hx
  obtain ⟨ha, _, _⟩ := tryAcquire_ok hacq
  obtain ⟨w', b, ha', _, hrel⟩ :=
    KG.Lemmas.LocalLimiter.acquire_step hr x.b.cl.cfg.name (schemaNameOf x.b.cl x.pk) (bucketAnswer s.lim s.buckets x.b.cl.cfg.name (schemaNameOf x.b.cl x.pk) r.now).1
  rw [ha] at ha'
  injection ha' with ha'
  injection ha' with h1 h2
  exact ⟨_, by show KG.Lemmas.LocalLimiter.Rel x.acq.lim _; rw [h1]; exact hrel⟩

theorem inv_arrive {env : Env} {s : State} (h : Inv s) (r : Request) : Inv (arrive env s r).1 := by
  rcases arrive_state env s r with h1 | ⟨x, hx, h1 | h1⟩
  · rw [h1]; exact h
  · rw [h1]; exact inv_stateAfterDispatch h hx
  · rw [h1]; exact inv_finish (inv_stateAfterDispatch h hx) _

theorem inv_serveRequest {env : Env} {s : State} (h : Inv s) (r : Request) : Inv (serveRequest env s r).1 := by
  unfold serveRequest
  dsimp only
  split
  · exact inv_finish (inv_arrive h r) _
  · exact inv_arrive h r

theorem inv_setHealth {s : State} (h : Inv s) (p : Nat) (ep : Str) (healthy : Bool) : Inv (setHealth s p ep healthy) := by
  unfold setHealth
  split
  · exact h
  · exact h

theorem inv_addCluster {s : State} (h : Inv s) (cfg : ClusterCfg) : Inv (addCluster s cfg).1 := by
  unfold addCluster
  dsimp only
  cases hs : Model.LocalLimiter.sync s.lim (lower cfg.name) cfg.schemas with
  | error e => split <;> exact h
  | ok w =>
    split
    · obtain ⟨σ, hr⟩ := h
      exact ⟨_, KG.Lemmas.LocalLimiter.sync_step hr _ _ w hs⟩
    · exact h
    · exact h

theorem inv_install (cfgs : List ClusterCfg) : Inv (install cfgs) := by
  unfold install
  suffices h : ∀ s, Inv s → Inv (cfgs.foldl (fun s c => (addCluster s c).1) s) from h _ inv_init
  induction cfgs with
  | nil => intro s hs; exact hs
  | cons c rest ih => intro s hs; exact ih _ (inv_addCluster hs c)

theorem inv_step {env : Env} {x : Run} (h : Inv x.s) (op : Op) : Inv (step env x op).1.s := by
  cases op with
  | request r hold =>
    simp only [step]
    by_cases hh : hold = true
    · simp only [hh, if_true]
      split
      · exact inv_arrive h r
      · exact inv_arrive h r
    · simp only [hh, Bool.false_eq_true, if_false]
      exact inv_serveRequest h r
  | finish k =>
    simp only [step]
    split
    · exact h
    · exact inv_finish h _
  | setHealth p ep healthy => exact inv_setHealth h p ep healthy

theorem inv_run {env : Env} (x : Run) (h : Inv x.s) (ops : List Op) : Inv (run env x ops).1.s := by
  induction ops generalizing x with
  | nil => exact h
  | cons op ops ih => exact ih _ (inv_step h op)

/-! ## headers -/

/-- restricting to the identity-bearing entries does not change the values under an identity-bearing name -/
theorem values_identityEntries (recv : Model.Identity.Headers) (n : Str) (hn : Model.Identity.isIdentityName n = true) :
    Model.Identity.values (identityEntries recv) n = Model.Identity.values recv n := by
  induction recv with
  | nil => rfl
  | cons e rest ih =>
    obtain ⟨k, vs⟩ := e
    unfold identityEntries at ih ⊢
    by_cases he : Model.Identity.isIdentityName k = true
    · simp only [List.filter_cons, he, if_true, Model.Identity.values, ih]
    · have hne : k ≠ n := fun hh => he (by subst hh; exact hn)
      simp only [List.filter_cons, he, Bool.false_eq_true, if_false, Model.Identity.values, hne, ih]

/-- … and dropping them does not change the values under any other name -/
theorem values_endToEnd (u : Model.Forward.UpReq) (k : Str) (hk : Model.Identity.isIdentityName k = false) :
    (endToEnd u).headers.values k = u.headers.values k := by
  unfold endToEnd Model.Forward.Hdr.values
  simp only
  congr 1
  induction u.headers with
  | nil => rfl
  | cons e rest ih =>
    obtain ⟨k', vv⟩ := e
    by_cases he : Model.Identity.isIdentityName k' = true
    · have hne : k' ≠ k := fun hh => by subst hh; rw [hk] at he; cases he
      simp only [List.filter_cons, he, Bool.not_true, Bool.false_eq_true, if_false, Model.Forward.Hdr.get?, hne, ih]
    · simp only [List.filter_cons, he, Bool.not_false, if_true, Model.Forward.Hdr.get?, ih]

/-- the context user of C02's whole-path model is the one the impersonation filter computed -/
theorem identity_ctx {env : Env} {p : Option Nat} {r : Request} {u : Model.Identity.Identity} {token : Str}
    {recv h1 : Model.Identity.Headers} {ctx ctx' : Model.Identity.Identity}
    (hid : Model.Identity.serveWith token r.lines (some u) (env.authz p u) false = .forwarded recv ctx)
    (himp : impersonation env p r u = .pass h1 ctx') : ctx = ctx' := by
  obtain ⟨u', hh1, hv, hu, hex, _⟩ := KG.Lemmas.Identity.serve_forwarded _ _ _ _ _ _ _ hid
  cases hu
  have hparse : Model.Identity.parse r.lines = some (KG.Lemmas.Identity.parsed r.lines) := by
    rw [KG.Lemmas.Identity.parse_eq]; simp [hv]
  have := KG.Lemmas.Identity.impersonate_spec r.lines hv u (env.authz p u)
  unfold impersonation headersOf at himp
  rw [hparse] at himp
  simp only [Option.getD_some] at himp
  rw [this] at himp
  unfold KG.Spec.Identity.expected at hex
  by_cases c1 : (!KG.Spec.Identity.impersonationRequested r.lines) = true
  · simp only [c1, if_true] at hex himp
    injection hex with hex; injection himp with _ h2
    rw [← hex, ← h2]
  · simp only [c1, Bool.false_eq_true, if_false] at hex himp
    by_cases c2 : KG.Spec.Identity.malformed r.lines = true
    · simp [c2] at hex
    · simp only [c2, Bool.false_eq_true, if_false] at hex himp
      by_cases c3 : KG.Spec.Identity.allAllowed (env.authz p u) r.lines = true
      · simp only [c3, if_true] at hex himp
        injection hex with hex; injection himp with _ h2
        rw [← hex, ← h2]
      · simp [c3] at hex

/-! ## when the chain model says "forward", the dispatcher did its three steps -/

theorem forward_dispatch {env : Env} {s : State} {r : Request} (hinv : Inv s)
    (h : Model.Forward.serve (scenario env s r) = .forward) :
    ∃ x n g, dispatch env s r = .done x ∧ x.acq.admitted = true ∧ x.pop.1 = .picked n g := by
  obtain ⟨h1, h2, h3, h4, h5, h6, h7, h8, h9⟩ := (KG.Props.C04.c04_forward_iff _).1 h
  obtain ⟨b, hb⟩ := bound_of_scenario h1 h2 h3 h4 h5 h6
  cases hd : dispatch env s r with
  | notReached => rw [dispatch_notReached hd] at hb; cases hb
  | noPolicy b' => rw [scenario_policy, hd] at h7; cases h7
  | panic e => exact absurd hd (dispatch_never_panics hinv r e)
  | done x =>
    rw [scenario_acquire, hd] at h8
    rw [scenario_pop, hd] at h9
    simp only at h8 h9
    cases hp : x.pop.1 with
    | picked n g => exact ⟨x, n, g, rfl, h8, hp⟩
    | noReady => rw [hp] at h9; cases h9
    | panic => rw [hp] at h9; cases h9

/-- the outcomes that are answers of C04's chain model -/
theorem arrive_badRequest {env : Env} {s : State} {r : Request}
    (h : Model.Identity.parse r.lines = none ∨ Model.Forward.forwardRequest r.toForward = none) :
    arrive env s r = (s, .badRequest) := by
  unfold arrive
  split
  · rename_i h1 h2
    rcases h with h | h
    · rw [h] at h1; cases h1
    · rw [h] at h2; cases h2
  · rfl

/-! ## well-formed clusters -/

/-- the endpoint map of a `ClusterInfo` is in C03's simulation with a history whose last Sync wrote the cluster's
    configuration (server list and subsets) -/
def ClusterWF (cl : Cluster) : Prop :=
  ∃ a : KG.Spec.Endpoints.Abs, KG.Lemmas.Endpoints.Sim cl.ep a ∧ a.servers = cl.cfg.servers ∧
    a.policies = cl.cfg.policies.map (·.upstreamSubset)

/-! ## the specification's view of the stages agrees with the model's (what the judge theorem needs) -/

section Judge
open KG.Spec.Gateway

/-- the limiter's answer is the judge's demand; where the judge demands nothing (a token bucket) it is the bucket's -/
theorem acquire_demand {w : Model.LocalLimiter.World} {σ : KG.Spec.LocalLimiter.SState} (h : KG.Lemmas.LocalLimiter.Rel w σ)
    {c n : Str} {tb : Bool} {w' : Model.LocalLimiter.World} {b : Bool}
    (ha : Model.LocalLimiter.acquire w c n tb = .ok (w', b)) :
    b = (match KG.Spec.LocalLimiter.demandExact σ c n with | some d => d | none => tb) := by
  obtain ⟨w'', b'', ha', hchk, _⟩ := KG.Lemmas.LocalLimiter.acquire_step h c n tb
  rw [ha] at ha'
  injection ha' with ha'
  injection ha' with _ hb
  subst hb
  cases hd : KG.Spec.LocalLimiter.demandExact σ c n with
  | some d =>
    simp only [KG.Spec.LocalLimiter.checkExact, hd] at hchk
    simpa using hchk
  | none =>
    simp only
    have hc := h.core
    unfold KG.Spec.LocalLimiter.demandExact at hd
    by_cases hn : n = []
    · simp [hn] at hd
    · simp only [hn, if_false] at hd
      cases he : σ.entries c n with
      | none => simp [he] at hd
      | some e =>
        rw [he] at hd
        simp only at hd
        have hdom := hc.dom c n
        rw [he] at hdom
        cases hcache : w.cache c n with
        | none => rw [hcache] at hdom; simp at hdom
        | some cache =>
          have hcfg := hc.cfg c n cache e hcache he
          cases hcur : cache.cur with
          | none =>
            have hz := hc.curNone c n cache hcache hcur
            have hname := hc.name c n cache hcache
            rw [hz] at hname
            exact absurd hname.symm hn
          | some id =>
            obtain ⟨_, k, hk, hty, hok⟩ := hc.curOk c n cache id hcache hcur
            unfold Model.LocalLimiter.acquire at ha
            rw [KG.Lemmas.LocalLimiter.getOrDefault_eq] at ha
            simp only [hn, if_false, hcache, Option.map_some, hcur, hk] at ha
            cases k with
            | bucket q bb =>
              simp only [Model.LocalLimiter.Kind.tryAcquire] at ha
              injection ha with ha
              injection ha with _ hb
              exact hb.symm
            | counter cnt =>
              exfalso
              obtain ⟨m, hmi, _⟩ := hok cnt rfl
              have hgt : Model.LocalLimiter.guessType e.config = .maxInflight := by rw [← hcfg, ← hty]; rfl
              rw [hcfg] at hmi
              simp [hgt, hmi] at hd
            | infinity =>
              exfalso
              have hgt : Model.LocalLimiter.guessType e.config = .exempt := by rw [← hcfg, ← hty]; rfl
              simp [hgt] at hd

/-- the three things C04's table tells apart about the impersonation filter -/
def impClass : Model.Forward.Imp → Nat
  | .malformed => 0
  | .refused => 1
  | _ => 2

theorem imp_match {α : Type} (X Y Z : α) : ∀ a b : Model.Forward.Imp, impClass a = impClass b →
    (match a with | .malformed => X | .refused => Y | _ => Z) = (match b with | .malformed => X | .refused => Y | _ => Z) := by
  intro a b h
  cases a <;> cases b <;> simp [impClass] at h <;> rfl

/-- C04's table looks at a flag only when every earlier stage passed -/
theorem table_congr (a b : Model.Forward.Scenario)
    (h1 : a.requestInfoOK = b.requestInfoOK) (h2 : a.hostIsIP = b.hostIsIP) (h3 : a.clusterKnown = b.clusterKnown)
    (h4 : a.denyAll = b.denyAll) (h5 : a.authOK = b.authOK) (h6 : impClass a.imp = impClass b.imp)
    (h10 : a.resource = b.resource)
    (hlate : a.requestInfoOK = true → a.hostIsIP = false → a.clusterKnown = true → a.denyAll = false → a.authOK = true →
      impClass a.imp = 2 →
      a.policyMatches = b.policyMatches ∧ (a.policyMatches = true → a.acquireOK = b.acquireOK) ∧
      (a.policyMatches = true → a.acquireOK = true → a.popOK = b.popOK)) :
    KG.Spec.Forward.table a = KG.Spec.Forward.table b := by
  unfold KG.Spec.Forward.table
  rw [← h1, ← h2, ← h3, ← h4, ← h5]
  by_cases c1 : a.requestInfoOK = true
  · by_cases c2 : a.hostIsIP = true
    · simp only [c1, c2, Bool.not_true, Bool.false_eq_true, if_false, if_true]
      by_cases c5 : a.authOK = true
      · simp only [c5, Bool.not_true, Bool.false_eq_true, if_false]
        exact imp_match _ _ _ _ _ h6
      · simp [c5]
    · by_cases c3 : a.clusterKnown = true
      · by_cases c4 : a.denyAll = true
        · simp [c1, c2, c3, c4]
        · by_cases c5 : a.authOK = true
          · simp only [c1, c2, c3, c4, c5, Bool.not_true, Bool.false_eq_true, if_false]
            have c2' : a.hostIsIP = false := by simpa using c2
            have c4' : a.denyAll = false := by simpa using c4
            have hd : impClass a.imp = 2 → KG.Spec.Forward.tableDispatch a = KG.Spec.Forward.tableDispatch b := by
              intro hc
              obtain ⟨e7, e8, e9⟩ := hlate c1 c2' c3 c4' c5 hc
              unfold KG.Spec.Forward.tableDispatch
              rw [← e7, ← h10]
              by_cases d7 : a.policyMatches = true
              · rw [← e8 d7]
                by_cases d8 : a.acquireOK = true
                · rw [← e9 d7 d8]
                · simp [d7, d8]
              · simp [d7]
            cases hia : a.imp <;> cases hib : b.imp <;> simp [impClass, hia, hib] at h6 <;>
              first
                | rfl
                | exact hd (by simp [impClass, hia])
          · simp [c1, c2, c3, c4, c5]
      · simp [c1, c2, c3]
  · simp [c1]

/-- net/http accepted the header lines -/
theorem rawValid_of_parse {r : Request} (hp : Model.Identity.parse r.lines ≠ none) : KG.Lemmas.Identity.rawValid r.lines = true := by
  rw [KG.Lemmas.Identity.parse_eq] at hp
  by_cases hv : KG.Lemmas.Identity.rawValid r.lines = true
  · exact hv
  · simp [hv] at hp

theorem headersOf_eq {r : Request} (hv : KG.Lemmas.Identity.rawValid r.lines = true) :
    headersOf r = KG.Lemmas.Identity.parsed r.lines := by
  unfold headersOf
  rw [KG.Lemmas.Identity.parse_eq]
  simp [hv]

/-- the impersonation filter and C02's specification, side by side -/
theorem imp_expected {env : Env} {p : Option Nat} {r : Request} (hv : KG.Lemmas.Identity.rawValid r.lines = true)
    (u : Model.Identity.Identity) :
    (∃ h1 id, impersonation env p r u = .pass h1 id ∧ KG.Spec.Identity.expected r.lines u (env.authz p u) = .forward id ∧
      impKind (Model.Identity.authnStrip (headersOf r)) (impersonation env p r u) ≠ .malformed ∧
      impKind (Model.Identity.authnStrip (headersOf r)) (impersonation env p r u) ≠ .refused) ∨
    (impersonation env p r u = .internalError ∧ KG.Spec.Identity.expected r.lines u (env.authz p u) = .answered 500) ∨
    (impersonation env p r u = .forbidden ∧ KG.Spec.Identity.expected r.lines u (env.authz p u) = .answered 403) := by
  have hspec := KG.Lemmas.Identity.impersonate_spec r.lines hv u (env.authz p u)
  unfold impersonation
  rw [headersOf_eq hv, hspec]
  unfold KG.Spec.Identity.expected
  by_cases c1 : (!KG.Spec.Identity.impersonationRequested r.lines) = true
  · left
    simp only [c1, if_true]
    refine ⟨_, _, rfl, rfl, ?_, ?_⟩ <;> (simp only [impKind]; split <;> simp)
  · simp only [c1, Bool.false_eq_true, if_false]
    by_cases c2 : KG.Spec.Identity.malformed r.lines = true
    · right; left; simp [c2]
    · simp only [c2, Bool.false_eq_true, if_false]
      by_cases c3 : KG.Spec.Identity.allAllowed (env.authz p u) r.lines = true
      · left
        simp only [c3, if_true]
        refine ⟨_, _, rfl, rfl, ?_, ?_⟩ <;> (simp only [impKind]; split <;> simp)
      · right; right; simp [c3]

/-- what the property expects for a request whose lines net/http accepted -/
theorem expectId_eq {env : Env} {p : Option Nat} {r : Request} (hv : KG.Lemmas.Identity.rawValid r.lines = true) :
    expectId env p r = (match authenticate env p r with
      | none => .answered 401
      | some u => KG.Spec.Identity.expected r.lines u (env.authz p u)) := by
  unfold expectId KG.Spec.Identity.expectedFor
  have hv' : r.lines.all (fun l => Model.Identity.validName l.1 && Model.Identity.validValue l.2) = true := hv
  simp only [hv', Bool.not_true, Bool.false_eq_true, if_false]
  cases authenticate env p r <;> rfl

/-- C01: the policy the model routes under is the first one with a matching rule -/
theorem route_first {cl : Cluster} {r : Request} {ri : ReqInfo} {u : Model.Identity.Identity} {pk : Model.Match.Picker}
    (h : route cl r ri u = some pk) : firstPolicy cl ri u = some pk.policy := by
  unfold route Model.Match.matchAttributes at h
  unfold firstPolicy policies
  rw [← KG.Props.C01.c01_first_match]
  cases hm : Model.Match.matchPolicies (attrsOf ri u) (cl.cfg.policies.map (·.rules)) with
  | none => rw [hm] at h; cases h
  | some i =>
    rw [hm] at h
    simp only at h
    cases hp : cl.cfg.policies[i]? with
    | none => rw [hp] at h; cases h
    | some p =>
      rw [hp] at h
      simp only at h
      injection h with h
      rw [← h]

theorem route_none {cl : Cluster} {r : Request} {ri : ReqInfo} {u : Model.Identity.Identity}
    (h : route cl r ri u = none) : firstPolicy cl ri u = none := by
  have hno := (KG.Props.C01.c01_match_attributes_none _ _ _ _).1 h
  unfold firstPolicy policies
  rw [← KG.Props.C01.c01_first_match, KG.Props.C01.c01_none_iff]
  intro p hp
  obtain ⟨q, hq, rfl⟩ := List.mem_map.mp hp
  exact hno q hq

/-- C03: "present and ready in the endpoint map" is "current server, not disabled in the spec, last report healthy" -/
theorem ready_iff_eligible {cl : Cluster} (hwf : ClusterWF cl) (n : Str) :
    (∃ e, Model.Endpoints.load cl.ep.eps n = some e ∧ e.isReady = true) ↔ eligible cl n = true := by
  obtain ⟨a, hsim, hsrv, _⟩ := hwf
  have hdom := hsim.dom n
  unfold eligible
  constructor
  · rintro ⟨e, he, hr⟩
    rw [he] at hdom
    obtain ⟨hd, _, _, _⟩ := hsim.ep n e he
    simp only [Model.Endpoints.EP.isReady, Bool.and_eq_true, Bool.not_eq_true'] at hr
    have h1 : (Model.Endpoints.serverNames cl.cfg.servers).contains n = true := by
      rw [← hsrv]; simpa [KG.Spec.Endpoints.Abs.inServers] using hdom.symm
    have h2 : KG.Spec.Endpoints.specDisabled cl.cfg.servers n = false := by rw [← hsrv, ← hd]; exact hr.1
    have h1' : n ∈ Model.Endpoints.serverNames cl.cfg.servers := by simpa using h1
    simp [h1', h2, he, hr.2]
  · intro h
    simp only [Bool.and_eq_true, Bool.not_eq_true'] at h
    obtain ⟨⟨h1, h2⟩, h3⟩ := h
    have hin : a.inServers n = true := by rw [KG.Spec.Endpoints.Abs.inServers, hsrv]; exact h1
    rw [hin] at hdom
    cases he : Model.Endpoints.load cl.ep.eps n with
    | none => rw [he] at hdom; cases hdom
    | some e =>
      rw [he] at h3
      obtain ⟨hd, _, _, _⟩ := hsim.ep n e he
      refine ⟨e, rfl, ?_⟩
      rw [hsrv, h2] at hd
      simp [Model.Endpoints.EP.isReady, hd, h3]

theorem picked_iff (eps : List Model.Endpoints.EP) (lb : List (Model.Endpoints.Key × Nat)) (us : List Str) :
    (match (Model.Endpoints.pop eps lb us).1 with | .picked _ _ => true | _ => false) = true ↔
      ∃ n, n ∈ us ∧ ∃ e, Model.Endpoints.load eps n = some e ∧ e.isReady = true := by
  rcases KG.Lemmas.Endpoints.pop_cases eps lb us with ⟨h1, h2⟩ | ⟨e, he, h1⟩
  · rw [h1]
    simp only [Bool.false_eq_true, false_iff]
    rintro ⟨n, hn, e, hl, hr⟩
    have : e ∈ Model.Endpoints.readyList eps us := KG.Lemmas.Endpoints.mem_readyList.2 ⟨n, hn, hl, hr⟩
    rw [h2] at this; cases this
  · rw [h1]
    simp only [true_iff]
    obtain ⟨n, hn, hl, hr⟩ := KG.Lemmas.Endpoints.mem_readyList.1 he
    exact ⟨n, hn, e, hl, hr⟩

theorem mem_allEndpoints (cl : Cluster) (r : Request) (n : Str) :
    n ∈ allEndpoints cl r ↔ n ∈ cl.ep.eps.map (·.name) := by
  unfold allEndpoints
  simp only
  split
  · rename_i hp
    exact (List.isPerm_iff.mp hp).mem_iff
  · rfl

/-- C03 through the composition: `Pop` finds an endpoint iff the policy's upstream list (its subset, or the server list)
    holds an eligible one -/
theorem popOK_iff {cl : Cluster} (hwf : ClusterWF cl) (r : Request) (p : Model.Match.PolicyCfg) (i : Nat)
    (hp : cl.cfg.policies[i]? = some p) (lb : List (Model.Endpoints.Key × Nat)) :
    (match (Model.Endpoints.pop cl.ep.eps lb (if p.upstreamSubset = [] then allEndpoints cl r else p.upstreamSubset)).1 with
      | .picked _ _ => true | _ => false) = (upstreamsOf cl i).any (eligible cl) := by
  rw [Bool.eq_iff_iff, picked_iff, List.any_eq_true]
  unfold upstreamsOf
  rw [hp]
  simp only
  by_cases hs : p.upstreamSubset = []
  · simp only [hs, if_true]
    constructor
    · rintro ⟨n, _, e, hl, hr⟩
      have hel := (ready_iff_eligible hwf n).1 ⟨e, hl, hr⟩
      refine ⟨n, ?_, hel⟩
      rw [KG.Lemmas.Endpoints.mem_dedup]
      unfold eligible at hel
      simp only [Bool.and_eq_true] at hel
      simpa using hel.1.1
    · rintro ⟨n, _, hel⟩
      obtain ⟨e, hl, hr⟩ := (ready_iff_eligible hwf n).2 hel
      refine ⟨n, ?_, e, hl, hr⟩
      rw [mem_allEndpoints]
      exact KG.Lemmas.Endpoints.load_isSome_iff.1 (by rw [hl]; rfl)
  · simp only [hs, if_false]
    constructor
    · rintro ⟨n, hn, e, hl, hr⟩
      exact ⟨n, hn, (ready_iff_eligible hwf n).1 ⟨e, hl, hr⟩⟩
    · rintro ⟨n, hn, hel⟩
      obtain ⟨e, hl, hr⟩ := (ready_iff_eligible hwf n).2 hel
      exact ⟨n, hn, e, hl, hr⟩

theorem impClass_two {x : Model.Forward.Imp} (h1 : x ≠ .malformed) (h2 : x ≠ .refused) : impClass x = 2 := by
  cases x <;> simp [impClass] at h1 h2 ⊢

/-- **the decision table on the specification's flags is the decision table on the model's flags**: the declarative
    reading of every stage (C02's `expected`, C01's `firstMatchSpec`, C05's `demand` / C06's bucket, C03's eligibility) and
    the composed model agree on the row — in every state whose limiters are related to the judge's bookkeeping and whose
    clusters are well-formed -/
theorem table_spec_eq {env : Env} {s : State} {σ : KG.Spec.LocalLimiter.SState} {r : Request}
    (hrel : KG.Lemmas.LocalLimiter.Rel s.lim σ) (hwf : ∀ (p : Nat) (cl : Cluster), s.clusters[p]? = some cl → ClusterWF cl)
    (hp : Model.Identity.parse r.lines ≠ none) :
    KG.Spec.Forward.table (specScenario env s σ r) = KG.Spec.Forward.table (scenario env s r) := by
  have hv := rawValid_of_parse hp
  -- the authentication / impersonation flags
  have hauth : (specScenario env s σ r).authOK = (scenario env s r).authOK ∧
      impClass (specScenario env s σ r).imp = impClass (scenario env s r).imp := by
    simp only [specScenario, scenario]
    rw [expectId_eq hv]
    cases hau : authenticate env (if r.hostIsIP = true then none else Option.map (fun x => x.fst) (resolveCluster s r)) r with
    | none => simp [impClass]
    | some u =>
      simp only [Option.isSome_some]
      rcases imp_expected (env := env) (p := if r.hostIsIP = true then none else Option.map (fun x => x.fst) (resolveCluster s r)) hv u with
        ⟨h1, id, _, hex, hn1, hn2⟩ | ⟨himp, hex⟩ | ⟨himp, hex⟩
      · simp only [hex]
        refine ⟨by simp, ?_⟩
        rw [impClass_two hn1 hn2]
        split <;> rfl
      · simp only [hex, himp]; simp [impClass, impKind]
      · simp only [hex, himp]; simp [impClass, impKind]
  refine table_congr _ _ rfl rfl rfl rfl hauth.1 hauth.2 rfl ?_
  intro a1 a2 a3 a4 a5 a6
  -- the dispatcher is reached
  have b5 : (scenario env s r).authOK = true := by rw [← hauth.1]; exact a5
  have b6 : (scenario env s r).imp = .none ∨ (scenario env s r).imp = .allowed := by
    have : impClass (scenario env s r).imp = 2 := by rw [← hauth.2]; exact a6
    cases hi : (scenario env s r).imp <;> simp [impClass, hi] at this ⊢
  obtain ⟨bd, hb⟩ := bound_of_scenario (env := env) (s := s) (r := r) a1 a2 a3 a4 b5 b6
  obtain ⟨hri, hip, hres, hd, hau, h1', himp⟩ := bound_some hb
  obtain ⟨_, hcl⟩ := resolve_some hres
  have hcwf := hwf _ _ hcl
  -- what the specification expects: forward as the context user
  have hex : expectId env (some bd.p) r = .forward bd.ctxUser := by
    rw [expectId_eq hv, hau]
    simp only
    rcases imp_expected (env := env) (p := some bd.p) hv bd.requestor with ⟨h1, id, hi, hex, _, _⟩ | ⟨hi, _⟩ | ⟨hi, _⟩
    · rw [himp] at hi; injection hi with _ hi; rw [hex, hi]
    · rw [himp] at hi; cases hi
    · rw [himp] at hi; cases hi
  have hrouted : (specScenario env s σ r).policyMatches = (firstPolicy bd.cl bd.ri bd.ctxUser).isSome ∧
      (specScenario env s σ r).acquireOK = (match firstPolicy bd.cl bd.ri bd.ctxUser with
        | some i => admits s σ bd.cl.cfg.name (schemaOf bd.cl i) r.now | none => true) ∧
      (specScenario env s σ r).popOK = (match firstPolicy bd.cl bd.ri bd.ctxUser with
        | some i => (upstreamsOf bd.cl i).any (eligible bd.cl) | none => true) := by
    simp only [specScenario, hri, hres, hip, Bool.false_eq_true, if_false, Option.map_some, hex]
    cases firstPolicy bd.cl bd.ri bd.ctxUser <;> simp
  cases hroute : route bd.cl r bd.ri bd.ctxUser with
  | none =>
    have hd' : dispatch env s r = .noPolicy bd := by unfold dispatch; simp [hb, hroute]
    have hf := route_none hroute
    rw [hf] at hrouted
    simp only [Option.isSome_none] at hrouted
    refine ⟨?_, ?_, ?_⟩
    · rw [hrouted.1, scenario_policy, hd']
    · intro h; rw [hrouted.1] at h; cases h
    · intro h; rw [hrouted.1] at h; cases h
  | some pk =>
    obtain ⟨acq, hacq⟩ := tryAcquire_never_panics ⟨σ, hrel⟩ bd.cl.cfg.name (schemaNameOf bd.cl pk) r.now
    have hd' : dispatch env s r = .done ⟨bd, pk, acq,
        if acq.admitted then Model.Endpoints.pop bd.cl.ep.eps bd.cl.ep.lb pk.upstreams else (.noReady, bd.cl.ep.lb)⟩ := by
      unfold dispatch; simp [hb, hroute, hacq]
    have hf := route_first hroute
    rw [hf] at hrouted
    simp only [Option.isSome_some] at hrouted
    obtain ⟨ha, _, _⟩ := tryAcquire_ok hacq
    have hadm := acquire_demand hrel ha
    have hadmits : admits s σ bd.cl.cfg.name (schemaOf bd.cl pk.policy) r.now = acq.admitted := by
      rw [hadm]; rfl
    refine ⟨?_, ?_, ?_⟩
    · rw [hrouted.1, scenario_policy, hd']
    · intro _
      rw [hrouted.2.1, scenario_acquire, hd']
      exact hadmits
    · intro _ hq
      rw [hrouted.2.1, hadmits] at hq
      rw [hrouted.2.2, scenario_pop, hd']
      simp only [hq, if_true]
      obtain ⟨pol, hpol, _, _, _, hups, _⟩ := KG.Props.C01.c01_match_attributes_some _ _ _ _ _ hroute
      have hups' : pk.upstreams = (if pol.upstreamSubset = [] then allEndpoints bd.cl r else pol.upstreamSubset) := hups
      rw [hups']
      exact (popOK_iff hcwf r pol pk.policy hpol bd.cl.ep.lb).symm

end Judge

/-! ## no slot is leaked by any way out of a complete request -/

/-- the state after `arrive`, with what is known about the limiter's answer -/
theorem arrive_state_cases (env : Env) (s : State) (r : Request) :
    ((arrive env s r).1 = s ∧ ∀ f, (arrive env s r).2 ≠ .forwarded f) ∨
    ∃ x, dispatch env s r = .done x ∧
      (((arrive env s r).1 = stateAfterDispatch s x ∧ x.acq.admitted = false ∧ ∀ f, (arrive env s r).2 ≠ .forwarded f) ∨
       ((arrive env s r).1 = stateAfterDispatch s x ∧ x.acq.admitted = true ∧ ∃ f, (arrive env s r).2 = .forwarded f ∧ f.handle = x.acq.handle) ∨
       ((arrive env s r).1 = finish (stateAfterDispatch s x) x.acq.handle ∧ x.acq.admitted = true ∧ ∀ f, (arrive env s r).2 ≠ .forwarded f)) := by
  unfold arrive
  split
  · split
    · exact Or.inl ⟨rfl, fun f h => by cases h⟩
    · split
      · exact Or.inl ⟨rfl, fun f h => by cases h⟩
      · split
        · rename_i x hx
          refine Or.inr ⟨x, hx, ?_⟩
          by_cases ha : x.acq.admitted = true
          · exact Or.inr (Or.inr ⟨by simp [ha], ha, fun f h => by cases h⟩)
          · have ha' : x.acq.admitted = false := by simpa using ha
            exact Or.inl ⟨by simp [ha'], ha', fun f h => by cases h⟩
        · exact Or.inl ⟨rfl, fun f h => by cases h⟩
      · rename_i hs
        split
        · rename_i x hx
          have hadm : x.acq.admitted = true := by
            have := ((KG.Props.C04.c04_forward_iff _).1 hs).2.2.2.2.2.2.2.1
            rw [scenario_acquire, hx] at this
            exact this
          split
          · split
            · exact Or.inr ⟨x, hx, Or.inr (Or.inl ⟨rfl, hadm, _, rfl, rfl⟩)⟩
            · exact Or.inr ⟨x, hx, Or.inr (Or.inr ⟨rfl, hadm, fun f h => by cases h⟩)⟩
          · exact Or.inl ⟨rfl, fun f h => by cases h⟩
        · exact Or.inl ⟨rfl, fun f h => by cases h⟩
  · exact Or.inl ⟨rfl, fun f h => by cases h⟩

/-- one COMPLETE request: the state is untouched, or the limiter refused (nothing to give back), or the slot was taken and
    given back -/
theorem serveRequest_state (env : Env) (s : State) (r : Request) :
    (serveRequest env s r).1 = s ∨
    ∃ x, dispatch env s r = .done x ∧
      (((serveRequest env s r).1 = stateAfterDispatch s x ∧ x.acq.admitted = false) ∨
       ((serveRequest env s r).1 = finish (stateAfterDispatch s x) x.acq.handle ∧ x.acq.admitted = true)) := by
  unfold serveRequest
  dsimp only
  rcases arrive_state_cases env s r with ⟨h1, hnf⟩ | ⟨x, hx, ⟨h1, ha, hnf⟩ | ⟨h1, ha, f, hf, hh⟩ | ⟨h1, ha, hnf⟩⟩
  · split
    · rename_i f hf; exact absurd hf (hnf f)
    · exact Or.inl h1
  · split
    · rename_i f hf; exact absurd hf (hnf f)
    · exact Or.inr ⟨x, hx, Or.inl ⟨h1, ha⟩⟩
  · split
    · rename_i f' hf'
      rw [hf] at hf'
      injection hf' with hf'
      subst hf'
      exact Or.inr ⟨x, hx, Or.inr ⟨by simp only [h1, hh], ha⟩⟩
    · rename_i hno; exact absurd hf (hno f)
  · split
    · rename_i f hf; exact absurd hf (hnf f)
    · exact Or.inr ⟨x, hx, Or.inr ⟨h1, ha⟩⟩

theorem lookup_setBucket (bs : List (Nat × Model.TokenBucket.Bucket)) (id id' : Nat) (b : Model.TokenBucket.Bucket) :
    (setBucket bs id b).lookup id' = if id' = id then some b else bs.lookup id' := by
  induction bs with
  | nil =>
    simp only [setBucket, List.lookup]
    by_cases h : id' = id
    · simp [h]
    · have : (id' == id) = false := by simpa using h
      simp [h, this]
  | cons x rest ih =>
    obtain ⟨i, b'⟩ := x
    simp only [setBucket]
    by_cases hi : i = id
    · subst hi
      simp only [if_true, List.lookup]
      by_cases h : id' = i
      · simp [h]
      · have : (id' == i) = false := by simpa using h
        simp [h, this]
    · simp only [hi, if_false, List.lookup]
      by_cases h : id' = i
      · subst h
        have hne : ¬ id' = id := hi
        simp [hne]
      · have : (id' == i) = false := by simpa using h
        simp only [this, ih]

/-- `acquire` appends the arriving request to the limiter's request list -/
theorem acquire_reqs {w w' : Model.LocalLimiter.World} {c n : Str} {tb b : Bool}
    (h : Model.LocalLimiter.acquire w c n tb = .ok (w', b)) :
    ∃ obj, w'.reqs = w.reqs ++ [⟨c, n, obj, b, false⟩] := by
  unfold Model.LocalLimiter.acquire at h
  split at h
  · injection h with h; injection h with h1 h2; subst h1; subst h2; exact ⟨none, rfl⟩
  · cases h
  · rename_i id _
    split at h
    · cases h
    · injection h with h; injection h with h1 h2; subst h1; subst h2; exact ⟨some id, rfl⟩

open KG.Spec.LocalLimiter in
/-- the judge's bookkeeping after "admitted, then finished" is the bookkeeping before, entry by entry -/
theorem spec_roundtrip (σ : SState) (c n : Str) (hfresh : ∀ e, σ.entries c n = some e → σ.reqs.length ∉ e.inflight) :
    (specRelease (specAcquire σ c n true) σ.reqs.length).entries = σ.entries := by
  have hget : ∀ (l : List SReq) (x : SReq), (l ++ [x])[l.length]? = some x := by
    intro l x; simp
  unfold specAcquire
  simp only [not_true_eq_false, or_false]
  by_cases hn : n = []
  · subst hn
    simp only [if_true]
    unfold specRelease
    simp only [hget, Bool.false_eq_true, not_false_eq_true, and_self, if_true]
    cases he : σ.entries c [] with
    | none => simp
    | some e =>
      simp only
      have := hfresh e he
      rw [List.erase_of_not_mem this]
      funext c' n'
      simp only [SState.setEntry]
      split
      · rename_i hcn; rw [hcn.1, hcn.2, he]
      · rfl
  · simp only [hn, if_false]
    cases he : σ.entries c n with
    | none =>
      simp only
      unfold specRelease
      simp only [hget, Bool.false_eq_true, not_false_eq_true, and_self, if_true, he]
    | some e =>
      simp only
      unfold specRelease
      simp only [SState.setEntry, hget, Bool.false_eq_true, not_false_eq_true, and_self, if_true, and_self, List.erase_cons_head]
      funext c' n'
      split
      · rename_i hcn; rw [hcn.1, hcn.2, he]
      · rfl

end KG.Lemmas.Gateway
