import KG.Spec.AuthCache
/-!
# Lemmas for C12: the cache invariant and its preservation by every small step

`Inv env s`:
* every token-cache entry `(cid, tok, e)` holds the answer the oracle of `cid.inst` — the cluster instance the
  cache object was created for — gave for `tok` at `e.storedAt ≤ clock`, expires `ttl` later, and is an error only
  if errors are cached at all;
* every authorization-cache entry `(cid, spec, e)` holds the status `cid.inst`'s oracle gave for `spec` at `e.storedAt`;
* a request in flight only ever holds a cache object of its own `(host, inst)`; request ids are below `nextRid`.
-/
namespace KG.Lemmas.AuthCache
open KG KG.Model.AuthCache KG.Spec.AuthCache

/-! ## facts read from the source -/

theorem cacheErrs_false : cacheErrs = false := by decide

theorem decisionOnError_deny : decisionOnError = .deny := by decide

/-! ## invariant -/

def TokEntryOK (env : Env) (clock : Time) (x : CacheId × Str × TokEntry) : Prop :=
  x.2.2.ans = env.tokO x.1.inst x.2.1 x.2.2.storedAt ∧ x.2.2.storedAt ≤ clock ∧
    x.2.2.expiry = x.2.2.storedAt + tokTTL env.cfg x.2.2.ans ∧ (x.2.2.ans = .err → cacheErrs = true)

def SarEntryOK (env : Env) (clock : Time) (x : CacheId × Spec × SarEntry) : Prop :=
  env.sarO x.1.inst x.2.1 x.2.2.storedAt = .status x.2.2.st ∧ x.2.2.storedAt ≤ clock ∧
    x.2.2.expiry = x.2.2.storedAt + sarTTL env.cfg x.2.2.st

def tokCid? : TokStage → Option CacheId
  | .resolved => none
  | .haveCache c => some c
  | .missed c => c
  | .inFlight c _ _ => c

def sarCid? : SarStage → Option CacheId
  | .resolved => none
  | .haveCache c => some c
  | .inFlight c => some c

def TokPendOK (n : Rid) (p : TokPend) : Prop :=
  p.rid < n ∧ ∀ cid, tokCid? p.stage = some cid → cid.host = p.host ∧ cid.inst = p.inst

def SarPendOK (n : Rid) (p : SarPend) : Prop :=
  p.rid < n ∧ ∀ cid, sarCid? p.stage = some cid → cid.host = p.host ∧ cid.inst = p.inst

structure Inv (env : Env) (s : State) : Prop where
  tokE : ∀ x ∈ s.tokEntries, TokEntryOK env s.clock x
  sarE : ∀ x ∈ s.sarEntries, SarEntryOK env s.clock x
  tokP : ∀ p ∈ s.tokPend, TokPendOK s.nextRid p
  sarP : ∀ p ∈ s.sarPend, SarPendOK s.nextRid p

theorem TokEntryOK.mono {env : Env} {c c' : Time} {x} (h : c ≤ c') (hx : TokEntryOK env c x) : TokEntryOK env c' x :=
  ⟨hx.1, Nat.le_trans hx.2.1 h, hx.2.2⟩

theorem SarEntryOK.mono {env : Env} {c c' : Time} {x} (h : c ≤ c') (hx : SarEntryOK env c x) : SarEntryOK env c' x :=
  ⟨hx.1, Nat.le_trans hx.2.1 h, hx.2.2⟩

theorem TokPendOK.mono {n n' : Rid} {p} (h : n ≤ n') (hp : TokPendOK n p) : TokPendOK n' p :=
  ⟨Nat.lt_of_lt_of_le hp.1 h, hp.2⟩

theorem SarPendOK.mono {n n' : Rid} {p} (h : n ≤ n') (hp : SarPendOK n p) : SarPendOK n' p :=
  ⟨Nat.lt_of_lt_of_le hp.1 h, hp.2⟩

theorem inv_init (env : Env) : Inv env init where
  tokE _ h := by cases h
  sarE _ h := by cases h
  tokP _ h := by cases h
  sarP _ h := by cases h

/-! ## list helpers -/

theorem mem_of_mem_filter' {α} {p : α → Bool} {l : List α} {x : α} (h : x ∈ l.filter p) : x ∈ l :=
  (List.mem_filter.1 h).1

theorem mem_put {α} {p : α → Bool} {l : List α} {a x : α} (h : x ∈ a :: l.filter p) : x = a ∨ x ∈ l := by
  cases List.mem_cons.1 h with
  | inl h => exact Or.inl h
  | inr h => exact Or.inr (mem_of_mem_filter' h)

theorem findTok_some {s : State} {rid : Rid} {p : TokPend} (h : findTok s rid = some p) : p ∈ s.tokPend ∧ p.rid = rid := by
  unfold findTok at h
  exact ⟨List.mem_of_find?_eq_some h, by simpa using List.find?_some h⟩

theorem findSar_some {s : State} {rid : Rid} {p : SarPend} (h : findSar s rid = some p) : p ∈ s.sarPend ∧ p.rid = rid := by
  unfold findSar at h
  exact ⟨List.mem_of_find?_eq_some h, by simpa using List.find?_some h⟩

theorem mem_setTok {s : State} {p q : TokPend} (h : q ∈ (setTok s p).tokPend) : q = p ∨ q ∈ s.tokPend := mem_put h
theorem mem_delTok {s : State} {rid : Rid} {q : TokPend} (h : q ∈ (delTok s rid).tokPend) : q ∈ s.tokPend :=
  mem_of_mem_filter' h
theorem mem_setSar {s : State} {p q : SarPend} (h : q ∈ (setSar s p).sarPend) : q = p ∨ q ∈ s.sarPend := mem_put h
theorem mem_delSar {s : State} {rid : Rid} {q : SarPend} (h : q ∈ (delSar s rid).sarPend) : q ∈ s.sarPend :=
  mem_of_mem_filter' h

/-! ## generic preservation: a step that keeps clock / nextRid monotone, only removes entries, and whose pending
requests are old ones or satisfy the pending invariant -/

theorem inv_of_sub {env : Env} {s s' : State} (h : Inv env s)
    (hc : s.clock ≤ s'.clock) (hn : s.nextRid ≤ s'.nextRid)
    (hte : ∀ x ∈ s'.tokEntries, x ∈ s.tokEntries ∨ TokEntryOK env s'.clock x)
    (hse : ∀ x ∈ s'.sarEntries, x ∈ s.sarEntries ∨ SarEntryOK env s'.clock x)
    (htp : ∀ p ∈ s'.tokPend, p ∈ s.tokPend ∨ TokPendOK s'.nextRid p)
    (hsp : ∀ p ∈ s'.sarPend, p ∈ s.sarPend ∨ SarPendOK s'.nextRid p) : Inv env s' where
  tokE x hx := (hte x hx).elim (fun h' => (h.tokE x h').mono hc) id
  sarE x hx := (hse x hx).elim (fun h' => (h.sarE x h').mono hc) id
  tokP p hp := (htp p hp).elim (fun h' => (h.tokP p h').mono hn) id
  sarP p hp := (hsp p hp).elim (fun h' => (h.sarP p h').mono hn) id

/-- environment steps -/
theorem inv_evStep {env : Env} {s : State} (h : Inv env s) (e : Ev) : Inv env (evStep s e) := by
  cases e with
  | tick dt =>
    exact inv_of_sub h (Nat.le_add_right _ _) (Nat.le_refl _) (fun _ hx => Or.inl hx) (fun _ hx => Or.inl hx)
      (fun _ hx => Or.inl hx) (fun _ hx => Or.inl hx)
  | deleteWithStop key =>
    simp only [evStep]
    split
    · exact h
    · exact inv_of_sub h (Nat.le_refl _) (Nat.le_refl _) (fun _ hx => Or.inl hx) (fun _ hx => Or.inl hx)
        (fun _ hx => Or.inl hx) (fun _ hx => Or.inl hx)
  | dropTok host c =>
    simp only [evStep]
    split
    · exact inv_of_sub h (Nat.le_refl _) (Nat.le_refl _) (fun _ hx => Or.inl hx) (fun _ hx => Or.inl hx)
        (fun _ hx => Or.inl hx) (fun _ hx => Or.inl hx)
    · exact h
  | dropSar host c =>
    simp only [evStep]
    split
    · exact inv_of_sub h (Nat.le_refl _) (Nat.le_refl _) (fun _ hx => Or.inl hx) (fun _ hx => Or.inl hx)
        (fun _ hx => Or.inl hx) (fun _ hx => Or.inl hx)
    · exact h
  | evictTok cid tok =>
    exact inv_of_sub h (Nat.le_refl _) (Nat.le_refl _) (fun _ hx => Or.inl (mem_of_mem_filter' hx)) (fun _ hx => Or.inl hx)
      (fun _ hx => Or.inl hx) (fun _ hx => Or.inl hx)
  | evictSar cid spec =>
    exact inv_of_sub h (Nat.le_refl _) (Nat.le_refl _) (fun _ hx => Or.inl hx) (fun _ hx => Or.inl (mem_of_mem_filter' hx))
      (fun _ hx => Or.inl hx) (fun _ hx => Or.inl hx)
  | _ =>
    exact inv_of_sub h (Nat.le_refl _) (Nat.le_refl _) (fun _ hx => Or.inl hx) (fun _ hx => Or.inl hx)
      (fun _ hx => Or.inl hx) (fun _ hx => Or.inl hx)

/-! ## token steps -/

theorem keep {α} {l : List α} {P : α → Prop} : ∀ x ∈ l, x ∈ l ∨ P x := fun _ hx => Or.inl hx

theorem inv_tokBegin {env : Env} {s : State} (h : Inv env s) (rid : Rid) (host tok : Str) (ch : Nat) :
    Inv env (tokBegin s rid host tok ch).1 := by
  unfold tokBegin
  split
  · exact h
  · rename_i hlt
    have hn : s.nextRid ≤ rid + 1 := Nat.le_succ_of_le (Nat.le_of_not_lt hlt)
    simp only []
    split
    · exact inv_of_sub h (Nat.le_refl _) hn keep keep keep keep
    · refine inv_of_sub h (Nat.le_refl _) hn keep keep ?_ keep
      intro p hp
      cases mem_setTok hp with
      | inl e =>
        right
        subst e
        exact ⟨Nat.lt_succ_self _, fun cid hc => by cases hc⟩
      | inr e => exact Or.inl e

/-- replacing the stage of a pending token request by one that holds the same (or its own) cache object -/
theorem inv_setTok_stage {env : Env} {s s0 : State} (h : Inv env s0) {p : TokPend} (hp : p ∈ s0.tokPend) (st : TokStage)
    (hs : s.clock = s0.clock ∧ s.nextRid = s0.nextRid ∧ s.tokEntries = s0.tokEntries ∧ s.sarEntries = s0.sarEntries ∧
      s.tokPend = s0.tokPend ∧ s.sarPend = s0.sarPend)
    (hst : ∀ cid, tokCid? st = some cid → cid.host = p.host ∧ cid.inst = p.inst) :
    Inv env (setTok s { p with stage := st }) := by
  obtain ⟨h1, h2, h3, h4, h5, h6⟩ := hs
  refine inv_of_sub h (Nat.le_of_eq h1.symm) (Nat.le_of_eq h2.symm) ?_ ?_ ?_ ?_
  · intro x hx; exact Or.inl (h3 ▸ hx)
  · intro x hx; exact Or.inl (h4 ▸ hx)
  · intro q hq
    cases mem_setTok hq with
    | inl e =>
      right
      subst e
      exact ⟨by show p.rid < s.nextRid; rw [h2]; exact (h.tokP p hp).1, hst⟩
    | inr e => exact Or.inl (h5 ▸ e)
  · intro x hx; exact Or.inl (h6 ▸ hx)

theorem inv_delTok {env : Env} {s : State} (h : Inv env s) (rid : Rid) : Inv env (delTok s rid) :=
  inv_of_sub h (Nat.le_refl _) (Nat.le_refl _) keep keep (fun _ hq => Or.inl (mem_delTok hq)) keep

theorem inv_tokCache {env : Env} {s : State} (h : Inv env s) (rid : Rid) : Inv env (tokCache env s rid).1 := by
  unfold tokCache
  split
  · rename_i p hf
    have hp := (findTok_some hf).1
    split
    · split
      · exact inv_setTok_stage h hp _ ⟨rfl, rfl, rfl, rfl, rfl, rfl⟩ (fun cid hc => by cases hc)
      · split
        · exact inv_setTok_stage h hp _ ⟨rfl, rfl, rfl, rfl, rfl, rfl⟩ (fun cid hc => by cases hc; exact ⟨rfl, rfl⟩)
        · exact inv_setTok_stage h hp _ ⟨rfl, rfl, rfl, rfl, rfl, rfl⟩ (fun cid hc => by cases hc; exact ⟨rfl, rfl⟩)
    · exact h
  · exact h

theorem inv_tokLookup {env : Env} {s : State} (h : Inv env s) (rid : Rid) : Inv env (tokLookup s rid).1 := by
  unfold tokLookup
  split
  · rename_i p hf
    have hp := (findTok_some hf).1
    split
    · rename_i cid hst
      have hc : cid.host = p.host ∧ cid.inst = p.inst := (h.tokP p hp).2 cid (by rw [hst]; rfl)
      split
      · split
        · exact inv_delTok h rid
        · exact inv_setTok_stage h hp _ ⟨rfl, rfl, rfl, rfl, rfl, rfl⟩ (fun c hc' => by cases hc'; exact hc)
      · exact inv_setTok_stage h hp _ ⟨rfl, rfl, rfl, rfl, rfl, rfl⟩ (fun c hc' => by cases hc'; exact hc)
    · exact h
  · exact h

theorem inv_tokReview {env : Env} {s : State} (h : Inv env s) (rid : Rid) (ch : Nat) : Inv env (tokReview s rid ch).1 := by
  unfold tokReview
  split
  · rename_i p hf
    have hp := (findTok_some hf).1
    split
    · rename_i cid hst
      have hc : ∀ c, cid = some c → c.host = p.host ∧ c.inst = p.inst :=
        fun c e => (h.tokP p hp).2 c (by rw [hst, e]; rfl)
      split
      · exact inv_delTok h rid
      · split
        · exact inv_delTok h rid
        · exact inv_setTok_stage h hp _ ⟨rfl, rfl, rfl, rfl, rfl, rfl⟩ (fun c hc' => hc c hc')
    · exact h
  · exact h

theorem inv_tokPut {env : Env} {s : State} (h : Inv env s) (cid : CacheId) (tok : Str) (e : TokEntry)
    (he : TokEntryOK env s.clock (cid, tok, e)) : Inv env (tokPut s cid tok e) := by
  refine inv_of_sub h (Nat.le_refl _) (Nat.le_refl _) ?_ keep keep keep
  intro x hx
  cases mem_put hx with
  | inl e' => right; subst e'; exact he
  | inr e' => exact Or.inl e'

theorem inv_tokFinish {env : Env} {s : State} (h : Inv env s) (rid : Rid) : Inv env (tokFinish env s rid).1 := by
  unfold tokFinish
  split
  · rename_i p hf
    have hp := (findTok_some hf).1
    split
    · rename_i cid ep ready hst
      simp only []
      split
      · exact inv_delTok h rid
      · rename_i c
        have hc : c.host = p.host ∧ c.inst = p.inst := (h.tokP p hp).2 c (by rw [hst]; rfl)
        split
        · exact inv_delTok h rid
        · rename_i hne
          split
          · refine inv_tokPut (inv_delTok h rid) c p.tok _ ?_
            refine ⟨?_, Nat.le_refl _, rfl, ?_⟩
            · show env.tokO p.inst p.tok s.clock = env.tokO c.inst p.tok s.clock
              rw [hc.2]
            · intro herr
              cases hce : cacheErrs
              · exact absurd ⟨herr, hce⟩ hne
              · rfl
          · exact inv_delTok h rid
    · exact h
  · exact h

/-! ## authorization steps -/

theorem inv_sarBegin {env : Env} {s : State} (h : Inv env s) (rid : Rid) (host : Str) (attrs : Attrs) (ch : Nat) :
    Inv env (sarBegin s rid host attrs ch).1 := by
  unfold sarBegin
  split
  · exact h
  · rename_i hlt
    have hn : s.nextRid ≤ rid + 1 := Nat.le_succ_of_le (Nat.le_of_not_lt hlt)
    simp only []
    split
    · exact inv_of_sub h (Nat.le_refl _) hn keep keep keep keep
    · refine inv_of_sub h (Nat.le_refl _) hn keep keep keep ?_
      intro p hp
      cases mem_setSar hp with
      | inl e =>
        right
        subst e
        exact ⟨Nat.lt_succ_self _, fun cid hc => by cases hc⟩
      | inr e => exact Or.inl e

theorem inv_setSar_stage {env : Env} {s s0 : State} (h : Inv env s0) {p : SarPend} (hp : p ∈ s0.sarPend) (st : SarStage)
    (hs : s.clock = s0.clock ∧ s.nextRid = s0.nextRid ∧ s.tokEntries = s0.tokEntries ∧ s.sarEntries = s0.sarEntries ∧
      s.tokPend = s0.tokPend ∧ s.sarPend = s0.sarPend)
    (hst : ∀ cid, sarCid? st = some cid → cid.host = p.host ∧ cid.inst = p.inst) :
    Inv env (setSar s { p with stage := st }) := by
  obtain ⟨h1, h2, h3, h4, h5, h6⟩ := hs
  refine inv_of_sub h (Nat.le_of_eq h1.symm) (Nat.le_of_eq h2.symm) ?_ ?_ ?_ ?_
  · intro x hx; exact Or.inl (h3 ▸ hx)
  · intro x hx; exact Or.inl (h4 ▸ hx)
  · intro x hx; exact Or.inl (h5 ▸ hx)
  · intro q hq
    cases mem_setSar hq with
    | inl e =>
      right
      subst e
      exact ⟨by show p.rid < s.nextRid; rw [h2]; exact (h.sarP p hp).1, hst⟩
    | inr e => exact Or.inl (h6 ▸ e)

theorem inv_delSar {env : Env} {s : State} (h : Inv env s) (rid : Rid) : Inv env (delSar s rid) :=
  inv_of_sub h (Nat.le_refl _) (Nat.le_refl _) keep keep keep (fun _ hq => Or.inl (mem_delSar hq))

theorem inv_sarCache {env : Env} {s : State} (h : Inv env s) (rid : Rid) : Inv env (sarCache s rid).1 := by
  unfold sarCache
  split
  · rename_i p hf
    have hp := (findSar_some hf).1
    split
    · split
      · exact inv_setSar_stage h hp _ ⟨rfl, rfl, rfl, rfl, rfl, rfl⟩ (fun cid hc => by cases hc; exact ⟨rfl, rfl⟩)
      · exact inv_setSar_stage h hp _ ⟨rfl, rfl, rfl, rfl, rfl, rfl⟩ (fun cid hc => by cases hc; exact ⟨rfl, rfl⟩)
    · exact h
  · exact h

theorem inv_sarLookup {env : Env} {s : State} (h : Inv env s) (rid : Rid) : Inv env (sarLookup s rid).1 := by
  unfold sarLookup
  split
  · rename_i p hf
    have hp := (findSar_some hf).1
    split
    · rename_i cid hst
      have hc : cid.host = p.host ∧ cid.inst = p.inst := (h.sarP p hp).2 cid (by rw [hst]; rfl)
      split
      · split
        · exact inv_delSar h rid
        · exact inv_setSar_stage h hp _ ⟨rfl, rfl, rfl, rfl, rfl, rfl⟩ (fun c hc' => by cases hc'; exact hc)
      · exact inv_setSar_stage h hp _ ⟨rfl, rfl, rfl, rfl, rfl, rfl⟩ (fun c hc' => by cases hc'; exact hc)
    · exact h
  · exact h

theorem inv_sarPut {env : Env} {s : State} (h : Inv env s) (cid : CacheId) (spec : Spec) (e : SarEntry)
    (he : SarEntryOK env s.clock (cid, spec, e)) : Inv env (sarPut s cid spec e) := by
  refine inv_of_sub h (Nat.le_refl _) (Nat.le_refl _) keep ?_ keep keep
  intro x hx
  cases mem_put hx with
  | inl e' => right; subst e'; exact he
  | inr e' => exact Or.inl e'

theorem inv_sarFinish {env : Env} {s : State} (h : Inv env s) (rid : Rid) : Inv env (sarFinish env s rid).1 := by
  unfold sarFinish
  split
  · rename_i p hf
    have hp := (findSar_some hf).1
    split
    · rename_i cid hst
      have hc : cid.host = p.host ∧ cid.inst = p.inst := (h.sarP p hp).2 cid (by rw [hst]; rfl)
      simp only []
      split
      · exact inv_delSar h rid
      · rename_i st hans
        split
        · refine inv_sarPut (inv_delSar h rid) cid (specOf p.attrs) _ ?_
          refine ⟨?_, Nat.le_refl _, rfl⟩
          show env.sarO cid.inst (specOf p.attrs) s.clock = SarAns.status st
          rw [hc.2]; exact hans
        · exact inv_delSar h rid
    · exact h
  · exact h

/-! ## every step, every run -/

theorem inv_step {env : Env} {s : State} (h : Inv env s) (st : Step) : Inv env (step env s st).1 := by
  cases st with
  | ev e => exact inv_evStep h e
  | tokBegin rid host tok ch => exact inv_tokBegin h rid host tok ch
  | tokCache rid => exact inv_tokCache h rid
  | tokLookup rid => exact inv_tokLookup h rid
  | tokReview rid ch => exact inv_tokReview h rid ch
  | tokFinish rid => exact inv_tokFinish h rid
  | sarBegin rid host attrs ch => exact inv_sarBegin h rid host attrs ch
  | sarCache rid => exact inv_sarCache h rid
  | sarLookup rid => exact inv_sarLookup h rid
  | sarFinish rid => exact inv_sarFinish h rid

theorem inv_runSteps {env : Env} {s : State} (h : Inv env s) (steps : List Step) : Inv env (runSteps env s steps).1 := by
  induction steps generalizing s with
  | nil => exact h
  | cons st rest ih => exact ih (inv_step h st)

/-! ## what an answer is, given the invariant -/

def TokOutOK (env : Env) (o : TokOut) : Prop :=
  match o.src with
  | .none => o.ep = none ∧ o.res.isError = true ∧ o.res ≠ .error .upstream
  | .fresh => o.ep.isSome = true ∧ ∃ c, o.inst = some c ∧ o.res = (env.tokO c o.tok o.time).res
  | .cached st ex => o.ep = none ∧ ∃ c, o.inst = some c ∧ st ≤ o.time ∧ o.time < ex ∧
      ex = st + tokTTL env.cfg (env.tokO c o.tok st) ∧ o.res = (env.tokO c o.tok st).res ∧ env.tokO c o.tok st ≠ .err

def SarOutOK (env : Env) (o : SarOut) : Prop :=
  match o.src with
  | .none => False
  | .fresh => o.ep.isSome = true ∧ ∃ c, o.inst = some c ∧ o.res = (env.sarO c (specOf o.attrs) o.time).res
  | .cached st ex => o.ep = none ∧ ∃ c, o.inst = some c ∧ st ≤ o.time ∧ o.time ≤ ex ∧
      ∃ status, env.sarO c (specOf o.attrs) st = .status status ∧ ex = st + sarTTL env.cfg status ∧
        o.res = decideStatus status

/-- the answer belongs to a request that was pending -/
def TokFrom (s : State) (t : TokOut) : Prop :=
  ∃ p ∈ s.tokPend, p.rid = t.rid ∧ t.host = p.host ∧ t.tok = p.tok ∧ t.inst = some p.inst

def SarFrom (s : State) (t : SarOut) : Prop :=
  ∃ p ∈ s.sarPend, p.rid = t.rid ∧ t.host = p.host ∧ t.attrs = p.attrs ∧ t.inst = some p.inst

theorem tokGet_mem {s : State} {cid : CacheId} {tok : Str} {e : TokEntry} (h : tokGet s cid tok = some e) :
    (cid, tok, e) ∈ s.tokEntries := by
  unfold tokGet at h
  cases hf : s.tokEntries.find? (fun x => decide (x.1 = cid) && decide (x.2.1 = tok)) with
  | none => rw [hf] at h; cases h
  | some x =>
    rw [hf] at h
    have hm := List.mem_of_find?_eq_some hf
    have hp := List.find?_some hf
    simp only [Bool.and_eq_true, decide_eq_true_eq] at hp
    obtain ⟨a, b, c⟩ := x
    simp only [Option.map_some, Option.some.injEq] at h
    simp only at hp
    rw [← hp.1, ← hp.2, ← h]
    exact hm

theorem sarGet_mem {s : State} {cid : CacheId} {spec : Spec} {e : SarEntry} (h : sarGet s cid spec = some e) :
    (cid, spec, e) ∈ s.sarEntries := by
  unfold sarGet at h
  cases hf : s.sarEntries.find? (fun x => decide (x.1 = cid) && decide (x.2.1 = spec)) with
  | none => rw [hf] at h; cases h
  | some x =>
    rw [hf] at h
    have hm := List.mem_of_find?_eq_some hf
    have hp := List.find?_some hf
    simp only [Bool.and_eq_true, decide_eq_true_eq] at hp
    obtain ⟨a, b, c⟩ := x
    simp only [Option.map_some, Option.some.injEq] at h
    simp only at hp
    rw [← hp.1, ← hp.2, ← h]
    exact hm

theorem tokLookup_out {env : Env} {s : State} (h : Inv env s) (rid : Rid) :
    ∀ o ∈ (tokLookup s rid).2, ∃ t, o = .tok t ∧ TokOutOK env t ∧ TokFrom s t := by
  unfold tokLookup
  split
  · rename_i p hf
    have hp := findTok_some hf
    split
    · rename_i cid hst
      have hc : cid.host = p.host ∧ cid.inst = p.inst := (h.tokP p hp.1).2 cid (by rw [hst]; rfl)
      split
      · rename_i e hg
        have he := h.tokE _ (tokGet_mem hg)
        split
        · rename_i hlive
          intro o ho
          simp only [List.mem_singleton] at ho
          subst ho
          refine ⟨_, rfl, ?_, ⟨p, hp.1, hp.2, rfl, rfl, rfl⟩⟩
          obtain ⟨h1, h2, h3, h4⟩ := he
          simp only at h1 h2 h3 h4
          rw [hc.2] at h1
          refine ⟨rfl, p.inst, rfl, h2, hlive, ?_, ?_, ?_⟩
          · show e.expiry = e.storedAt + tokTTL env.cfg (env.tokO p.inst p.tok e.storedAt)
            rw [← h1]; exact h3
          · show e.ans.res = (env.tokO p.inst p.tok e.storedAt).res
            rw [← h1]
          · show env.tokO p.inst p.tok e.storedAt ≠ TokAns.err
            rw [← h1]
            intro herr
            have := h4 herr
            rw [cacheErrs_false] at this
            cases this
        · intro o ho; cases ho
      · intro o ho; cases ho
    · intro o ho; cases ho
  · intro o ho; cases ho

theorem tokReview_out {env : Env} {s : State} (rid : Rid) (ch : Nat) :
    ∀ o ∈ (tokReview s rid ch).2, ∃ t, o = .tok t ∧ TokOutOK env t ∧ TokFrom s t := by
  unfold tokReview
  split
  · rename_i p hf
    have hp := findTok_some hf
    split
    · split
      · rename_i k hk
        intro o ho
        simp only [List.mem_singleton] at ho
        subst ho
        refine ⟨_, rfl, ⟨rfl, rfl, ?_⟩, ⟨p, hp.1, hp.2, rfl, rfl, rfl⟩⟩
        -- ClientFor never fails with an upstream error
        show TokRes.error k ≠ TokRes.error ErrKind.upstream
        intro e
        injection e with e
        subst e
        unfold clientFor at hk
        split at hk
        · cases hk
        · split at hk <;> cases hk
      · split
        · intro o ho
          simp only [List.mem_singleton] at ho
          subst ho
          exact ⟨_, rfl, ⟨rfl, rfl, by intro e; cases e⟩, ⟨p, hp.1, hp.2, rfl, rfl, rfl⟩⟩
        · intro o ho; cases ho
    · intro o ho; cases ho
  · intro o ho; cases ho

theorem tokFinish_out {env : Env} {s : State} (rid : Rid) :
    ∀ o ∈ (tokFinish env s rid).2, ∃ t, o = .tok t ∧ TokOutOK env t ∧ TokFrom s t := by
  unfold tokFinish
  split
  · rename_i p hf
    have hp := findTok_some hf
    split
    · have key : ∀ ep ready, ∃ t, Out.tok ⟨rid, p.host, p.tok, some p.inst, (env.tokO p.inst p.tok s.clock).res, s.clock, .fresh, some ep, ready⟩ = .tok t ∧ TokOutOK env t ∧ TokFrom s t :=
        fun ep ready => ⟨_, rfl, ⟨rfl, p.inst, rfl, rfl⟩, ⟨p, hp.1, hp.2, rfl, rfl, rfl⟩⟩
      simp only []
      split
      · intro o ho
        simp only [List.mem_singleton] at ho
        subst ho
        exact key _ _
      · split
        · intro o ho
          simp only [List.mem_singleton] at ho
          subst ho
          exact key _ _
        · split
          · intro o ho
            simp only [List.mem_singleton] at ho
            subst ho
            exact key _ _
          · intro o ho
            simp only [List.mem_singleton] at ho
            subst ho
            exact key _ _
    · intro o ho; cases ho
  · intro o ho; cases ho

theorem tokCache_out {env : Env} {s : State} (rid : Rid) : (tokCache env s rid).2 = [] := by
  unfold tokCache
  split
  · split
    · split
      · rfl
      · split <;> rfl
    · rfl
  · rfl

end KG.Lemmas.AuthCache
