import KG.Spec.AuthCache
/-!
# Lemmas for C12: the cache invariant and its preservation by every small step

`Inv env s`:
* every token-cache entry `(cid, tok, e)` holds the answer the oracle of `cid.inst` — the cluster instance the
  cache object was created for — gave for `tok` at `e.storedAt ≤ clock`, expires `ttl` later, and is an error only
  if errors are cached at all;
* every authorization-cache entry `(cid, spec, e)` holds the status `cid.inst`'s oracle gave for `spec` at `e.storedAt`;
* a request in flight only ever holds a cache object of its own `(host, inst)`; request ids are below `nextRid`.
-/
namespace KG.Lemmas.AuthCache
open KG KG.Model.AuthCache KG.Spec.AuthCache

/-! ## facts read from the source -/

theorem cacheErrs_false : cacheErrs = false := by decide

theorem decisionOnError_deny : decisionOnError = .deny := by decide

/-! ## invariant -/

def TokEntryOK (env : Env) (clock : Time) (x : CacheId × Str × TokEntry) : Prop :=
  x.2.2.ans = env.tokO x.1.inst x.2.1 x.2.2.storedAt ∧ x.2.2.storedAt ≤ clock ∧
    x.2.2.expiry = x.2.2.storedAt + tokTTL env.cfg x.2.2.ans ∧ (x.2.2.ans = .err → cacheErrs = true)

def SarEntryOK (env : Env) (clock : Time) (x : CacheId × Spec × SarEntry) : Prop :=
  env.sarO x.1.inst x.2.1 x.2.2.storedAt = .status x.2.2.st ∧ x.2.2.storedAt ≤ clock ∧
    x.2.2.expiry = x.2.2.storedAt + sarTTL env.cfg x.2.2.st

def tokCid? : TokStage → Option CacheId
  | .resolved => none
  | .haveCache c => some c
  | .missed c => c
  | .inFlight c _ _ => c

def sarCid? : SarStage → Option CacheId
  | .resolved => none
  | .haveCache c => some c
  | .inFlight c => some c

def TokPendOK (n : Rid) (p : TokPend) : Prop :=
  p.rid < n ∧ ∀ cid, tokCid? p.stage = some cid → cid.host = p.host ∧ cid.inst = p.inst

def SarPendOK (n : Rid) (p : SarPend) : Prop :=
  p.rid < n ∧ ∀ cid, sarCid? p.stage = some cid → cid.host = p.host ∧ cid.inst = p.inst

structure Inv (env : Env) (s : State) : Prop where
  tokE : ∀ x ∈ s.tokEntries, TokEntryOK env s.clock x
  sarE : ∀ x ∈ s.sarEntries, SarEntryOK env s.clock x
  tokP : ∀ p ∈ s.tokPend, TokPendOK s.nextRid p
  sarP : ∀ p ∈ s.sarPend, SarPendOK s.nextRid p

theorem TokEntryOK.mono {env : Env} {c c' : Time} {x} (h : c ≤ c') (hx : TokEntryOK env c x) : TokEntryOK env c' x :=
  ⟨hx.1, Nat.le_trans hx.2.1 h, hx.2.2⟩

theorem SarEntryOK.mono {env : Env} {c c' : Time} {x} (h : c ≤ c') (hx : SarEntryOK env c x) : SarEntryOK env c' x :=
  ⟨hx.1, Nat.le_trans hx.2.1 h, hx.2.2⟩

theorem TokPendOK.mono {n n' : Rid} {p} (h : n ≤ n') (hp : TokPendOK n p) : TokPendOK n' p :=
  ⟨Nat.lt_of_lt_of_le hp.1 h, hp.2⟩

theorem SarPendOK.mono {n n' : Rid} {p} (h : n ≤ n') (hp : SarPendOK n p) : SarPendOK n' p :=
  ⟨Nat.lt_of_lt_of_le hp.1 h, hp.2⟩

theorem inv_init (env : Env) : Inv env init where
  tokE _ h := by cases h
  sarE _ h := by cases h
  tokP _ h := by cases h
  sarP _ h := by cases h

/-! ## list helpers -/

theorem mem_of_mem_filter' {α} {p : α → Bool} {l : List α} {x : α} (h : x ∈ l.filter p) : x ∈ l :=
  (List.mem_filter.1 h).1

theorem mem_put {α} {p : α → Bool} {l : List α} {a x : α} (h : x ∈ a :: l.filter p) : x = a ∨ x ∈ l := by
  cases List.mem_cons.1 h with
  | inl h => exact Or.inl h
  | inr h => exact Or.inr (mem_of_mem_filter' h)

theorem findTok_some {s : State} {rid : Rid} {p : TokPend} (h : findTok s rid = some p) : p ∈ s.tokPend ∧ p.rid = rid := by
  unfold findTok at h
  exact ⟨List.mem_of_find?_eq_some h, by simpa using List.find?_some h⟩

theorem findSar_some {s : State} {rid : Rid} {p : SarPend} (h : findSar s rid = some p) : p ∈ s.sarPend ∧ p.rid = rid := by
  unfold findSar at h
  exact ⟨List.mem_of_find?_eq_some h, by simpa using List.find?_some h⟩

theorem mem_setTok {s : State} {p q : TokPend} (h : q ∈ (setTok s p).tokPend) : q = p ∨ q ∈ s.tokPend := mem_put h
theorem mem_delTok {s : State} {rid : Rid} {q : TokPend} (h : q ∈ (delTok s rid).tokPend) : q ∈ s.tokPend :=
  mem_of_mem_filter' h
theorem mem_setSar {s : State} {p q : SarPend} (h : q ∈ (setSar s p).sarPend) : q = p ∨ q ∈ s.sarPend := mem_put h
theorem mem_delSar {s : State} {rid : Rid} {q : SarPend} (h : q ∈ (delSar s rid).sarPend) : q ∈ s.sarPend :=
  mem_of_mem_filter' h

/-! ## generic preservation: a step that keeps clock / nextRid monotone, only removes entries, and whose pending
requests are old ones or satisfy the pending invariant -/

theorem inv_of_sub {env : Env} {s s' : State} (h : Inv env s)
    (hc : s.clock ≤ s'.clock) (hn : s.nextRid ≤ s'.nextRid)
    (hte : ∀ x ∈ s'.tokEntries, x ∈ s.tokEntries ∨ TokEntryOK env s'.clock x)
    (hse : ∀ x ∈ s'.sarEntries, x ∈ s.sarEntries ∨ SarEntryOK env s'.clock x)
    (htp : ∀ p ∈ s'.tokPend, p ∈ s.tokPend ∨ TokPendOK s'.nextRid p)
    (hsp : ∀ p ∈ s'.sarPend, p ∈ s.sarPend ∨ SarPendOK s'.nextRid p) : Inv env s' where
  tokE x hx := (hte x hx).elim (fun h' => (h.tokE x h').mono hc) id
  sarE x hx := (hse x hx).elim (fun h' => (h.sarE x h').mono hc) id
  tokP p hp := (htp p hp).elim (fun h' => (h.tokP p h').mono hn) id
  sarP p hp := (hsp p hp).elim (fun h' => (h.sarP p h').mono hn) id

/-- environment steps -/
theorem inv_evStep {env : Env} {s : State} (h : Inv env s) (e : Ev) : Inv env (evStep s e) := by
  cases e with
  | tick dt =>
    exact inv_of_sub h (Nat.le_add_right _ _) (Nat.le_refl _) (fun _ hx => Or.inl hx) (fun _ hx => Or.inl hx)
      (fun _ hx => Or.inl hx) (fun _ hx => Or.inl hx)
  | deleteWithStop key =>
    simp only [evStep]
    split
    · exact h
    · exact inv_of_sub h (Nat.le_refl _) (Nat.le_refl _) (fun _ hx => Or.inl hx) (fun _ hx => Or.inl hx)
        (fun _ hx => Or.inl hx) (fun _ hx => Or.inl hx)
  | dropTok host c =>
    simp only [evStep]
    split
    · exact inv_of_sub h (Nat.le_refl _) (Nat.le_refl _) (fun _ hx => Or.inl hx) (fun _ hx => Or.inl hx)
        (fun _ hx => Or.inl hx) (fun _ hx => Or.inl hx)
    · exact h
  | dropSar host c =>
    simp only [evStep]
    split
    · exact inv_of_sub h (Nat.le_refl _) (Nat.le_refl _) (fun _ hx => Or.inl hx) (fun _ hx => Or.inl hx)
        (fun _ hx => Or.inl hx) (fun _ hx => Or.inl hx)
    · exact h
  | evictTok cid tok =>
    exact inv_of_sub h (Nat.le_refl _) (Nat.le_refl _) (fun _ hx => Or.inl (mem_of_mem_filter' hx)) (fun _ hx => Or.inl hx)
      (fun _ hx => Or.inl hx) (fun _ hx => Or.inl hx)
  | evictSar cid spec =>
    exact inv_of_sub h (Nat.le_refl _) (Nat.le_refl _) (fun _ hx => Or.inl hx) (fun _ hx => Or.inl (mem_of_mem_filter' hx))
      (fun _ hx => Or.inl hx) (fun _ hx => Or.inl hx)
  | _ =>
    exact inv_of_sub h (Nat.le_refl _) (Nat.le_refl _) (fun _ hx => Or.inl hx) (fun _ hx => Or.inl hx)
      (fun _ hx => Or.inl hx) (fun _ hx => Or.inl hx)

/-! ## token steps -/

theorem keep {α} {l : List α} {P : α → Prop} : ∀ x ∈ l, x ∈ l ∨ P x := fun _ hx => Or.inl hx

theorem inv_tokBegin {env : Env} {s : State} (h : Inv env s) (rid : Rid) (host tok : Str) (ch : Nat) (up : Option Inst) :
    Inv env (tokBegin env s rid host tok ch up).1 := by
  unfold tokBegin
  split
  · exact h
  · rename_i hlt
    have hn : s.nextRid ≤ rid + 1 := Nat.le_succ_of_le (Nat.le_of_not_lt hlt)
    simp only []
    split
    · exact inv_of_sub h (Nat.le_refl _) hn keep keep keep keep
    · split
      · exact inv_of_sub h (Nat.le_refl _) hn keep keep keep keep
      refine inv_of_sub h (Nat.le_refl _) hn keep keep ?_ keep
      intro p hp
      cases mem_setTok hp with
      | inl e =>
        right
        subst e
        exact ⟨Nat.lt_succ_self _, fun cid hc => by cases hc⟩
      | inr e => exact Or.inl e

/-- replacing the stage of a pending token request by one that holds the same (or its own) cache object -/
theorem inv_setTok_stage {env : Env} {s s0 : State} (h : Inv env s0) {p : TokPend} (hp : p ∈ s0.tokPend) (st : TokStage)
    (hs : s.clock = s0.clock ∧ s.nextRid = s0.nextRid ∧ s.tokEntries = s0.tokEntries ∧ s.sarEntries = s0.sarEntries ∧
      s.tokPend = s0.tokPend ∧ s.sarPend = s0.sarPend)
    (hst : ∀ cid, tokCid? st = some cid → cid.host = p.host ∧ cid.inst = p.inst) :
    Inv env (setTok s { p with stage := st }) := by
  obtain ⟨h1, h2, h3, h4, h5, h6⟩ := hs
  refine inv_of_sub h (Nat.le_of_eq h1.symm) (Nat.le_of_eq h2.symm) ?_ ?_ ?_ ?_
  · intro x hx; exact Or.inl (h3 ▸ hx)
  · intro x hx; exact Or.inl (h4 ▸ hx)
  · intro q hq
    cases mem_setTok hq with
    | inl e =>
      right
      subst e
      exact ⟨by show p.rid < s.nextRid; rw [h2]; exact (h.tokP p hp).1, hst⟩
    | inr e => exact Or.inl (h5 ▸ e)
  · intro x hx; exact Or.inl (h6 ▸ hx)

theorem inv_delTok {env : Env} {s : State} (h : Inv env s) (rid : Rid) : Inv env (delTok s rid) :=
  inv_of_sub h (Nat.le_refl _) (Nat.le_refl _) keep keep (fun _ hq => Or.inl (mem_delTok hq)) keep

theorem inv_tokCache {env : Env} {s : State} (h : Inv env s) (rid : Rid) : Inv env (tokCache env s rid).1 := by
  unfold tokCache
  split
  · rename_i p hf
    have hp := (findTok_some hf).1
    split
    · split
      · exact inv_setTok_stage h hp _ ⟨rfl, rfl, rfl, rfl, rfl, rfl⟩ (fun cid hc => by cases hc)
      · split
        · exact inv_setTok_stage h hp _ ⟨rfl, rfl, rfl, rfl, rfl, rfl⟩ (fun cid hc => by cases hc; exact ⟨rfl, rfl⟩)
        · exact inv_setTok_stage h hp _ ⟨rfl, rfl, rfl, rfl, rfl, rfl⟩ (fun cid hc => by cases hc; exact ⟨rfl, rfl⟩)
    · exact h
  · exact h

theorem inv_tokLookup {env : Env} {s : State} (h : Inv env s) (rid : Rid) : Inv env (tokLookup s rid).1 := by
  unfold tokLookup
  split
  · rename_i p hf
    have hp := (findTok_some hf).1
    split
    · rename_i cid hst
      have hc : cid.host = p.host ∧ cid.inst = p.inst := (h.tokP p hp).2 cid (by rw [hst]; rfl)
      split
      · split
        · exact inv_delTok h rid
        · exact inv_setTok_stage h hp _ ⟨rfl, rfl, rfl, rfl, rfl, rfl⟩ (fun c hc' => by cases hc'; exact hc)
      · exact inv_setTok_stage h hp _ ⟨rfl, rfl, rfl, rfl, rfl, rfl⟩ (fun c hc' => by cases hc'; exact hc)
    · exact h
  · exact h

theorem inv_tokReview {env : Env} {s : State} (h : Inv env s) (rid : Rid) (ch : Nat) : Inv env (tokReview s rid ch).1 := by
  unfold tokReview
  split
  · rename_i p hf
    have hp := (findTok_some hf).1
    split
    · rename_i cid hst
      have hc : ∀ c, cid = some c → c.host = p.host ∧ c.inst = p.inst :=
        fun c e => (h.tokP p hp).2 c (by rw [hst, e]; rfl)
      split
      · exact inv_delTok h rid
      · split
        · exact inv_delTok h rid
        · exact inv_setTok_stage h hp _ ⟨rfl, rfl, rfl, rfl, rfl, rfl⟩ (fun c hc' => hc c hc')
    · exact h
  · exact h

theorem inv_tokPut {env : Env} {s : State} (h : Inv env s) (cid : CacheId) (tok : Str) (e : TokEntry)
    (he : TokEntryOK env s.clock (cid, tok, e)) : Inv env (tokPut s cid tok e) := by
  refine inv_of_sub h (Nat.le_refl _) (Nat.le_refl _) ?_ keep keep keep
  intro x hx
  cases mem_put hx with
  | inl e' => right; subst e'; exact he
  | inr e' => exact Or.inl e'

theorem inv_tokFinish {env : Env} {s : State} (h : Inv env s) (rid : Rid) : Inv env (tokFinish env s rid).1 := by
  unfold tokFinish
  split
  · rename_i p hf
    have hp := (findTok_some hf).1
    split
    · rename_i cid ep ready hst
      simp only []
      split
      · exact inv_delTok h rid
      · rename_i c
        have hc : c.host = p.host ∧ c.inst = p.inst := (h.tokP p hp).2 c (by rw [hst]; rfl)
        split
        · exact inv_delTok h rid
        · rename_i hne
          split
          · refine inv_tokPut (inv_delTok h rid) c p.tok _ ?_
            refine ⟨?_, Nat.le_refl _, rfl, ?_⟩
            · show env.tokO p.inst p.tok s.clock = env.tokO c.inst p.tok s.clock
              rw [hc.2]
            · intro herr
              cases hce : cacheErrs
              · exact absurd ⟨herr, hce⟩ hne
              · rfl
          · exact inv_delTok h rid
    · exact h
  · exact h

/-! ## authorization steps -/

theorem inv_sarBegin {env : Env} {s : State} (h : Inv env s) (rid : Rid) (host : Str) (attrs : Attrs) (ch : Nat) (up : Option Inst) :
    Inv env (sarBegin env s rid host attrs ch up).1 := by
  unfold sarBegin
  split
  · exact h
  · rename_i hlt
    have hn : s.nextRid ≤ rid + 1 := Nat.le_succ_of_le (Nat.le_of_not_lt hlt)
    simp only []
    split
    · exact inv_of_sub h (Nat.le_refl _) hn keep keep keep keep
    · split
      · exact inv_of_sub h (Nat.le_refl _) hn keep keep keep keep
      refine inv_of_sub h (Nat.le_refl _) hn keep keep keep ?_
      intro p hp
      cases mem_setSar hp with
      | inl e =>
        right
        subst e
        exact ⟨Nat.lt_succ_self _, fun cid hc => by cases hc⟩
      | inr e => exact Or.inl e

theorem inv_setSar_stage {env : Env} {s s0 : State} (h : Inv env s0) {p : SarPend} (hp : p ∈ s0.sarPend) (st : SarStage)
    (hs : s.clock = s0.clock ∧ s.nextRid = s0.nextRid ∧ s.tokEntries = s0.tokEntries ∧ s.sarEntries = s0.sarEntries ∧
      s.tokPend = s0.tokPend ∧ s.sarPend = s0.sarPend)
    (hst : ∀ cid, sarCid? st = some cid → cid.host = p.host ∧ cid.inst = p.inst) :
    Inv env (setSar s { p with stage := st }) := by
  obtain ⟨h1, h2, h3, h4, h5, h6⟩ := hs
  refine inv_of_sub h (Nat.le_of_eq h1.symm) (Nat.le_of_eq h2.symm) ?_ ?_ ?_ ?_
  · intro x hx; exact Or.inl (h3 ▸ hx)
  · intro x hx; exact Or.inl (h4 ▸ hx)
  · intro x hx; exact Or.inl (h5 ▸ hx)
  · intro q hq
    cases mem_setSar hq with
    | inl e =>
      right
      subst e
      exact ⟨by show p.rid < s.nextRid; rw [h2]; exact (h.sarP p hp).1, hst⟩
    | inr e => exact Or.inl (h6 ▸ e)

theorem inv_delSar {env : Env} {s : State} (h : Inv env s) (rid : Rid) : Inv env (delSar s rid) :=
  inv_of_sub h (Nat.le_refl _) (Nat.le_refl _) keep keep keep (fun _ hq => Or.inl (mem_delSar hq))

theorem inv_sarCache {env : Env} {s : State} (h : Inv env s) (rid : Rid) : Inv env (sarCache s rid).1 := by
  unfold sarCache
  split
  · rename_i p hf
    have hp := (findSar_some hf).1
    split
    · split
      · exact inv_setSar_stage h hp _ ⟨rfl, rfl, rfl, rfl, rfl, rfl⟩ (fun cid hc => by cases hc; exact ⟨rfl, rfl⟩)
      · exact inv_setSar_stage h hp _ ⟨rfl, rfl, rfl, rfl, rfl, rfl⟩ (fun cid hc => by cases hc; exact ⟨rfl, rfl⟩)
    · exact h
  · exact h

theorem inv_sarLookup {env : Env} {s : State} (h : Inv env s) (rid : Rid) : Inv env (sarLookup s rid).1 := by
  unfold sarLookup
  split
  · rename_i p hf
    have hp := (findSar_some hf).1
    split
    · rename_i cid hst
      have hc : cid.host = p.host ∧ cid.inst = p.inst := (h.sarP p hp).2 cid (by rw [hst]; rfl)
      split
      · split
        · exact inv_delSar h rid
        · exact inv_setSar_stage h hp _ ⟨rfl, rfl, rfl, rfl, rfl, rfl⟩ (fun c hc' => by cases hc'; exact hc)
      · exact inv_setSar_stage h hp _ ⟨rfl, rfl, rfl, rfl, rfl, rfl⟩ (fun c hc' => by cases hc'; exact hc)
    · exact h
  · exact h

theorem inv_sarPut {env : Env} {s : State} (h : Inv env s) (cid : CacheId) (spec : Spec) (e : SarEntry)
    (he : SarEntryOK env s.clock (cid, spec, e)) : Inv env (sarPut s cid spec e) := by
  refine inv_of_sub h (Nat.le_refl _) (Nat.le_refl _) keep ?_ keep keep
  intro x hx
  cases mem_put hx with
  | inl e' => right; subst e'; exact he
  | inr e' => exact Or.inl e'

theorem inv_sarFinish {env : Env} {s : State} (h : Inv env s) (rid : Rid) : Inv env (sarFinish env s rid).1 := by
  unfold sarFinish
  split
  · rename_i p hf
    have hp := (findSar_some hf).1
    split
    · rename_i cid hst
      have hc : cid.host = p.host ∧ cid.inst = p.inst := (h.sarP p hp).2 cid (by rw [hst]; rfl)
      simp only []
      split
      · exact inv_delSar h rid
      · rename_i st hans
        split
        · refine inv_sarPut (inv_delSar h rid) cid (specOf p.attrs) _ ?_
          refine ⟨?_, Nat.le_refl _, rfl⟩
          show env.sarO cid.inst (specOf p.attrs) s.clock = SarAns.status st
          rw [hc.2]; exact hans
        · exact inv_delSar h rid
    · exact h
  · exact h

/-! ## every step, every run -/

theorem inv_step {env : Env} {s : State} (h : Inv env s) (st : Step) : Inv env (step env s st).1 := by
  cases st with
  | ev e => exact inv_evStep h e
  | tokBegin rid host tok ch up => exact inv_tokBegin h rid host tok ch up
  | tokCache rid => exact inv_tokCache h rid
  | tokLookup rid => exact inv_tokLookup h rid
  | tokReview rid ch => exact inv_tokReview h rid ch
  | tokFinish rid => exact inv_tokFinish h rid
  | sarBegin rid host attrs ch up => exact inv_sarBegin h rid host attrs ch up
  | sarCache rid => exact inv_sarCache h rid
  | sarLookup rid => exact inv_sarLookup h rid
  | sarFinish rid => exact inv_sarFinish h rid
  | dispatch host up ch => exact h

theorem inv_runSteps {env : Env} {s : State} (h : Inv env s) (steps : List Step) : Inv env (runSteps env s steps).1 := by
  induction steps generalizing s with
  | nil => exact h
  | cons st rest ih => exact ih (inv_step h st)

/-! ## what an answer is, given the invariant -/

def TokOutOK (env : Env) (o : TokOut) : Prop :=
  match o.src with
  | .none => o.ep = none ∧ o.res.isError = true ∧ o.res ≠ .error .upstream
  | .fresh => o.ep.isSome = true ∧ ∃ c, o.inst = some c ∧ o.res = (env.tokO c o.tok o.time).res
  | .cached st ex => o.ep = none ∧ ∃ c, o.inst = some c ∧ st ≤ o.time ∧ o.time < ex ∧
      ex = st + tokTTL env.cfg (env.tokO c o.tok st) ∧ o.res = (env.tokO c o.tok st).res ∧ env.tokO c o.tok st ≠ .err

def SarOutOK (env : Env) (o : SarOut) : Prop :=
  match o.src with
  | .none => False
  | .fresh => o.ep.isSome = true ∧ ∃ c, o.inst = some c ∧ o.res = (env.sarO c (specOf o.attrs) o.time).res
  | .cached st ex => o.ep = none ∧ ∃ c, o.inst = some c ∧ st ≤ o.time ∧ o.time ≤ ex ∧
      ∃ status, env.sarO c (specOf o.attrs) st = .status status ∧ ex = st + sarTTL env.cfg status ∧
        o.res = decideStatus status

/-- the answer belongs to a request that was pending -/
def TokFrom (s : State) (t : TokOut) : Prop :=
  ∃ p ∈ s.tokPend, p.rid = t.rid ∧ t.host = p.host ∧ t.tok = p.tok ∧ t.inst = some p.inst ∧ t.upstream = p.upstream

def SarFrom (s : State) (t : SarOut) : Prop :=
  ∃ p ∈ s.sarPend, p.rid = t.rid ∧ t.host = p.host ∧ t.attrs = p.attrs ∧ t.inst = some p.inst ∧ t.upstream = p.upstream

theorem tokGet_mem {s : State} {cid : CacheId} {tok : Str} {e : TokEntry} (h : tokGet s cid tok = some e) :
    (cid, tok, e) ∈ s.tokEntries := by
  unfold tokGet at h
  cases hf : s.tokEntries.find? (fun x => decide (x.1 = cid) && decide (x.2.1 = tok)) with
  | none => rw [hf] at h; cases h
  | some x =>
    rw [hf] at h
    have hm := List.mem_of_find?_eq_some hf
    have hp := List.find?_some hf
    simp only [Bool.and_eq_true, decide_eq_true_eq] at hp
    obtain ⟨a, b, c⟩ := x
    simp only [Option.map_some, Option.some.injEq] at h
    simp only at hp
    rw [← hp.1, ← hp.2, ← h]
    exact hm

theorem sarGet_mem {s : State} {cid : CacheId} {spec : Spec} {e : SarEntry} (h : sarGet s cid spec = some e) :
    (cid, spec, e) ∈ s.sarEntries := by
  unfold sarGet at h
  cases hf : s.sarEntries.find? (fun x => decide (x.1 = cid) && decide (x.2.1 = spec)) with
  | none => rw [hf] at h; cases h
  | some x =>
    rw [hf] at h
    have hm := List.mem_of_find?_eq_some hf
    have hp := List.find?_some hf
    simp only [Bool.and_eq_true, decide_eq_true_eq] at hp
    obtain ⟨a, b, c⟩ := x
    simp only [Option.map_some, Option.some.injEq] at h
    simp only at hp
    rw [← hp.1, ← hp.2, ← h]
    exact hm

theorem tokLookup_out {env : Env} {s : State} (h : Inv env s) (rid : Rid) :
    ∀ o ∈ (tokLookup s rid).2, ∃ t, o = .tok t ∧ TokOutOK env t ∧ TokFrom s t := by
  unfold tokLookup
  split
  · rename_i p hf
    have hp := findTok_some hf
    split
    · rename_i cid hst
      have hc : cid.host = p.host ∧ cid.inst = p.inst := (h.tokP p hp.1).2 cid (by rw [hst]; rfl)
      split
      · rename_i e hg
        have he := h.tokE _ (tokGet_mem hg)
        split
        · rename_i hlive
          intro o ho
          simp only [List.mem_singleton] at ho
          subst ho
          refine ⟨_, rfl, ?_, ⟨p, hp.1, hp.2, rfl, rfl, rfl, rfl⟩⟩
          obtain ⟨h1, h2, h3, h4⟩ := he
          simp only at h1 h2 h3 h4
          rw [hc.2] at h1
          refine ⟨rfl, p.inst, rfl, h2, hlive, ?_, ?_, ?_⟩
          · show e.expiry = e.storedAt + tokTTL env.cfg (env.tokO p.inst p.tok e.storedAt)
            rw [← h1]; exact h3
          · show e.ans.res = (env.tokO p.inst p.tok e.storedAt).res
            rw [← h1]
          · show env.tokO p.inst p.tok e.storedAt ≠ TokAns.err
            rw [← h1]
            intro herr
            have := h4 herr
            rw [cacheErrs_false] at this
            cases this
        · intro o ho; cases ho
      · intro o ho; cases ho
    · intro o ho; cases ho
  · intro o ho; cases ho

theorem tokReview_out {env : Env} {s : State} (rid : Rid) (ch : Nat) :
    ∀ o ∈ (tokReview s rid ch).2, ∃ t, o = .tok t ∧ TokOutOK env t ∧ TokFrom s t := by
  unfold tokReview
  split
  · rename_i p hf
    have hp := findTok_some hf
    split
    · split
      · rename_i k hk
        intro o ho
        simp only [List.mem_singleton] at ho
        subst ho
        refine ⟨_, rfl, ⟨rfl, rfl, ?_⟩, ⟨p, hp.1, hp.2, rfl, rfl, rfl, rfl⟩⟩
        -- ClientFor never fails with an upstream error
        show TokRes.error k ≠ TokRes.error ErrKind.upstream
        intro e
        injection e with e
        subst e
        unfold clientFor at hk
        split at hk
        · cases hk
        · split at hk <;> cases hk
      · split
        · intro o ho
          simp only [List.mem_singleton] at ho
          subst ho
          exact ⟨_, rfl, ⟨rfl, rfl, by intro e; cases e⟩, ⟨p, hp.1, hp.2, rfl, rfl, rfl, rfl⟩⟩
        · intro o ho; cases ho
    · intro o ho; cases ho
  · intro o ho; cases ho

theorem tokFinish_out {env : Env} {s : State} (rid : Rid) :
    ∀ o ∈ (tokFinish env s rid).2, ∃ t, o = .tok t ∧ TokOutOK env t ∧ TokFrom s t := by
  unfold tokFinish
  split
  · rename_i p hf
    have hp := findTok_some hf
    split
    · have key : ∀ ep ready, ∃ t, Out.tok ⟨rid, p.host, p.tok, some p.inst, p.upstream, (env.tokO p.inst p.tok s.clock).res, s.clock, .fresh, some ep, ready⟩ = .tok t ∧ TokOutOK env t ∧ TokFrom s t :=
        fun ep ready => ⟨_, rfl, ⟨rfl, p.inst, rfl, rfl⟩, ⟨p, hp.1, hp.2, rfl, rfl, rfl, rfl⟩⟩
      simp only []
      split
      · intro o ho
        simp only [List.mem_singleton] at ho
        subst ho
        exact key _ _
      · split
        · intro o ho
          simp only [List.mem_singleton] at ho
          subst ho
          exact key _ _
        · split
          · intro o ho
            simp only [List.mem_singleton] at ho
            subst ho
            exact key _ _
          · intro o ho
            simp only [List.mem_singleton] at ho
            subst ho
            exact key _ _
    · intro o ho; cases ho
  · intro o ho; cases ho

theorem tokCache_out {env : Env} {s : State} (rid : Rid) : (tokCache env s rid).2 = [] := by
  unfold tokCache
  split
  · split
    · split
      · rfl
      · split <;> rfl
    · rfl
  · rfl

theorem sarLookup_out {env : Env} {s : State} (h : Inv env s) (rid : Rid) :
    ∀ o ∈ (sarLookup s rid).2, ∃ t, o = .sar t ∧ SarOutOK env t ∧ SarFrom s t := by
  unfold sarLookup
  split
  · rename_i p hf
    have hp := findSar_some hf
    split
    · rename_i cid hst
      have hc : cid.host = p.host ∧ cid.inst = p.inst := (h.sarP p hp.1).2 cid (by rw [hst]; rfl)
      split
      · rename_i e hg
        have he := h.sarE _ (sarGet_mem hg)
        split
        · rename_i hlive
          intro o ho
          simp only [List.mem_singleton] at ho
          subst ho
          refine ⟨_, rfl, ?_, ⟨p, hp.1, hp.2, rfl, rfl, rfl, rfl⟩⟩
          obtain ⟨h1, h2, h3⟩ := he
          simp only at h1 h2 h3
          rw [hc.2] at h1
          exact ⟨rfl, p.inst, rfl, h2, hlive, e.st, h1, h3, rfl⟩
        · intro o ho; cases ho
      · intro o ho; cases ho
    · intro o ho; cases ho
  · intro o ho; cases ho

theorem sarFinish_out {env : Env} {s : State} (rid : Rid) :
    ∀ o ∈ (sarFinish env s rid).2, ∃ t, o = .sar t ∧ SarOutOK env t ∧ SarFrom s t := by
  unfold sarFinish
  split
  · rename_i p hf
    have hp := findSar_some hf
    split
    · have key : ∃ t, Out.sar ⟨rid, p.host, p.attrs, some p.inst, p.upstream, (env.sarO p.inst (specOf p.attrs) s.clock).res, s.clock, .fresh, some p.ep, p.ready⟩ = .sar t ∧ SarOutOK env t ∧ SarFrom s t :=
        ⟨_, rfl, ⟨rfl, p.inst, rfl, rfl⟩, ⟨p, hp.1, hp.2, rfl, rfl, rfl, rfl⟩⟩
      simp only []
      split
      · intro o ho
        simp only [List.mem_singleton] at ho
        subst ho
        exact key
      · split
        · intro o ho
          simp only [List.mem_singleton] at ho
          subst ho
          exact key
        · intro o ho
          simp only [List.mem_singleton] at ho
          subst ho
          exact key
    · intro o ho; cases ho
  · intro o ho; cases ho

theorem sarCache_out {s : State} (rid : Rid) : (sarCache s rid).2 = [] := by
  unfold sarCache
  split
  · split
    · split <;> rfl
    · rfl
  · rfl

/-! ## ClientFor -/

theorem pickOne_mem {s : State} {c : Inst} {ch : Nat} {e : Endpoint} (h : pickOne s c ch = some e) : e ∈ readyOf s c := by
  unfold pickOne at h
  simp only at h
  split at h
  · cases h
  · exact List.mem_of_getElem? h

theorem pickOne_none {s : State} {c : Inst} {ch : Nat} (h : pickOne s c ch = none) : readyOf s c = [] := by
  unfold pickOne at h
  simp only at h
  split at h
  · rename_i he
    simpa using he
  · rename_i he
    have hne : readyOf s c ≠ [] := by simpa using he
    have hpos : 0 < (readyOf s c).length := List.length_pos_iff.2 hne
    have hlt : ch % (readyOf s c).length < (readyOf s c).length := Nat.mod_lt _ hpos
    rw [List.getElem?_eq_getElem hlt] at h
    cases h

/-- `ClientFor(host)` succeeds exactly with the cluster the manager maps the host to and one of ITS ready
    endpoints; it fails with `notFound` iff the host is unknown and with `noReady` iff the cluster has no ready endpoint -/
theorem clientFor_ok {s : State} {host : Str} {ch : Nat} {c : Inst} {e : Endpoint} (h : clientFor s host ch = .ok (c, e)) :
    mgrGet s.mgr host = some c ∧ e ∈ readyOf s c := by
  unfold clientFor at h
  split at h
  · cases h
  · rename_i c' hg
    split at h
    · cases h
    · rename_i e' hp
      cases h
      exact ⟨hg, pickOne_mem hp⟩

theorem clientFor_err {s : State} {host : Str} {ch : Nat} {k : ErrKind} (h : clientFor s host ch = .error k) :
    (k = .notFound ∧ mgrGet s.mgr host = none) ∨ (k = .noReady ∧ ∃ c, mgrGet s.mgr host = some c ∧ readyOf s c = []) := by
  unfold clientFor at h
  split at h
  · rename_i hg
    cases h
    exact Or.inl ⟨rfl, hg⟩
  · rename_i c hg
    split at h
    · rename_i hp
      cases h
      exact Or.inr ⟨rfl, c, hg, pickOne_none hp⟩
    · cases h

theorem mem_readyOf {s : State} {c : Inst} {e : Endpoint} (h : e ∈ readyOf s c) :
    (c, e) ∈ s.eps ∧ e.isReady = true := by
  unfold readyOf at h
  obtain ⟨h1, h2⟩ := List.mem_filter.1 h
  unfold epsOf at h1
  obtain ⟨x, hx, hxe⟩ := List.mem_map.1 h1
  obtain ⟨hx1, hx2⟩ := List.mem_filter.1 hx
  simp only [decide_eq_true_eq] at hx2
  obtain ⟨a, b⟩ := x
  simp only at hx2 hxe
  subst hx2; subst hxe
  exact ⟨hx1, h2⟩

/-! ## requests keep their identity: host, credentials and resolved cluster of a pending request never change,
and request ids are never reused -/

def TokSame (p p' : TokPend) : Prop :=
  p.rid = p'.rid ∧ p.host = p'.host ∧ p.tok = p'.tok ∧ p.inst = p'.inst ∧ p.upstream = p'.upstream
def SarSame (p p' : SarPend) : Prop :=
  p.rid = p'.rid ∧ p.host = p'.host ∧ p.attrs = p'.attrs ∧ p.inst = p'.inst ∧ p.upstream = p'.upstream

/-- after a step the pending token requests are old ones (possibly at another stage) or new ones with a fresh id -/
def TokPendStep (s s' : State) : Prop :=
  s.nextRid ≤ s'.nextRid ∧ ∀ p' ∈ s'.tokPend, (∃ p ∈ s.tokPend, TokSame p p') ∨ s.nextRid ≤ p'.rid

def SarPendStep (s s' : State) : Prop :=
  s.nextRid ≤ s'.nextRid ∧ ∀ p' ∈ s'.sarPend, (∃ p ∈ s.sarPend, SarSame p p') ∨ s.nextRid ≤ p'.rid

theorem tps_same {s s' : State} (h1 : s.nextRid ≤ s'.nextRid) (h2 : s'.tokPend = s.tokPend) : TokPendStep s s' :=
  ⟨h1, fun p' hp' => Or.inl ⟨p', h2 ▸ hp', rfl, rfl, rfl, rfl, rfl⟩⟩

theorem sps_same {s s' : State} (h1 : s.nextRid ≤ s'.nextRid) (h2 : s'.sarPend = s.sarPend) : SarPendStep s s' :=
  ⟨h1, fun p' hp' => Or.inl ⟨p', h2 ▸ hp', rfl, rfl, rfl, rfl, rfl⟩⟩

theorem tps_set {s s0 : State} {p : TokPend} {st : TokStage} (hp : p ∈ s.tokPend) (h1 : s.nextRid ≤ s0.nextRid)
    (h2 : s0.tokPend = s.tokPend) : TokPendStep s (setTok s0 { p with stage := st }) := by
  refine ⟨h1, fun p' hp' => ?_⟩
  cases mem_setTok hp' with
  | inl e => subst e; exact Or.inl ⟨p, hp, rfl, rfl, rfl, rfl, rfl⟩
  | inr e => exact Or.inl ⟨p', h2 ▸ e, rfl, rfl, rfl, rfl, rfl⟩

theorem sps_set {s s0 : State} {p : SarPend} {st : SarStage} (hp : p ∈ s.sarPend) (h1 : s.nextRid ≤ s0.nextRid)
    (h2 : s0.sarPend = s.sarPend) : SarPendStep s (setSar s0 { p with stage := st }) := by
  refine ⟨h1, fun p' hp' => ?_⟩
  cases mem_setSar hp' with
  | inl e => subst e; exact Or.inl ⟨p, hp, rfl, rfl, rfl, rfl, rfl⟩
  | inr e => exact Or.inl ⟨p', h2 ▸ e, rfl, rfl, rfl, rfl, rfl⟩

theorem tps_del {s : State} (rid : Rid) : TokPendStep s (delTok s rid) :=
  ⟨Nat.le_refl _, fun p' hp' => Or.inl ⟨p', mem_delTok hp', rfl, rfl, rfl, rfl, rfl⟩⟩

theorem sps_del {s : State} (rid : Rid) : SarPendStep s (delSar s rid) :=
  ⟨Nat.le_refl _, fun p' hp' => Or.inl ⟨p', mem_delSar hp', rfl, rfl, rfl, rfl, rfl⟩⟩

theorem evStep_pend (s : State) (e : Ev) :
    (evStep s e).nextRid = s.nextRid ∧ (evStep s e).tokPend = s.tokPend ∧ (evStep s e).sarPend = s.sarPend := by
  cases e <;> simp only [evStep] <;> (try split) <;> (first | exact ⟨rfl, rfl, rfl⟩ | simp)

theorem tokBegin_pend (env : Env) (s : State) (rid : Rid) (host tok : Str) (ch : Nat) (up : Option Inst) :
    TokPendStep s (tokBegin env s rid host tok ch up).1 ∧ SarPendStep s (tokBegin env s rid host tok ch up).1 := by
  unfold tokBegin
  split
  · exact ⟨tps_same (Nat.le_refl _) rfl, sps_same (Nat.le_refl _) rfl⟩
  · rename_i hlt
    have hn : s.nextRid ≤ rid + 1 := Nat.le_succ_of_le (Nat.le_of_not_lt hlt)
    simp only []
    split
    · exact ⟨tps_same hn rfl, sps_same hn rfl⟩
    · split
      · exact ⟨tps_same hn rfl, sps_same hn rfl⟩
      refine ⟨⟨hn, fun p' hp' => ?_⟩, sps_same hn rfl⟩
      cases mem_setTok hp' with
      | inl e => subst e; exact Or.inr (Nat.le_of_not_lt hlt)
      | inr e => exact Or.inl ⟨p', e, rfl, rfl, rfl, rfl, rfl⟩

theorem sarBegin_pend (env : Env) (s : State) (rid : Rid) (host : Str) (attrs : Attrs) (ch : Nat) (up : Option Inst) :
    TokPendStep s (sarBegin env s rid host attrs ch up).1 ∧ SarPendStep s (sarBegin env s rid host attrs ch up).1 := by
  unfold sarBegin
  split
  · exact ⟨tps_same (Nat.le_refl _) rfl, sps_same (Nat.le_refl _) rfl⟩
  · rename_i hlt
    have hn : s.nextRid ≤ rid + 1 := Nat.le_succ_of_le (Nat.le_of_not_lt hlt)
    simp only []
    split
    · exact ⟨tps_same hn rfl, sps_same hn rfl⟩
    · split
      · exact ⟨tps_same hn rfl, sps_same hn rfl⟩
      refine ⟨tps_same hn rfl, ⟨hn, fun p' hp' => ?_⟩⟩
      cases mem_setSar hp' with
      | inl e => subst e; exact Or.inr (Nat.le_of_not_lt hlt)
      | inr e => exact Or.inl ⟨p', e, rfl, rfl, rfl, rfl, rfl⟩

theorem tokCache_pend (env : Env) (s : State) (rid : Rid) :
    TokPendStep s (tokCache env s rid).1 ∧ SarPendStep s (tokCache env s rid).1 := by
  unfold tokCache
  split
  · rename_i p hf
    have hp := (findTok_some hf).1
    split
    · split
      · exact ⟨tps_set hp (Nat.le_refl _) rfl, sps_same (Nat.le_refl _) rfl⟩
      · split
        · exact ⟨tps_set hp (Nat.le_refl _) rfl, sps_same (Nat.le_refl _) rfl⟩
        · exact ⟨tps_set hp (Nat.le_refl _) rfl, sps_same (Nat.le_refl _) rfl⟩
    · exact ⟨tps_same (Nat.le_refl _) rfl, sps_same (Nat.le_refl _) rfl⟩
  · exact ⟨tps_same (Nat.le_refl _) rfl, sps_same (Nat.le_refl _) rfl⟩

theorem tokLookup_pend (s : State) (rid : Rid) :
    TokPendStep s (tokLookup s rid).1 ∧ SarPendStep s (tokLookup s rid).1 := by
  unfold tokLookup
  split
  · rename_i p hf
    have hp := (findTok_some hf).1
    split
    · split
      · split
        · exact ⟨tps_del rid, sps_same (Nat.le_refl _) rfl⟩
        · exact ⟨tps_set hp (Nat.le_refl _) rfl, sps_same (Nat.le_refl _) rfl⟩
      · exact ⟨tps_set hp (Nat.le_refl _) rfl, sps_same (Nat.le_refl _) rfl⟩
    · exact ⟨tps_same (Nat.le_refl _) rfl, sps_same (Nat.le_refl _) rfl⟩
  · exact ⟨tps_same (Nat.le_refl _) rfl, sps_same (Nat.le_refl _) rfl⟩

theorem tokReview_pend (s : State) (rid : Rid) (ch : Nat) :
    TokPendStep s (tokReview s rid ch).1 ∧ SarPendStep s (tokReview s rid ch).1 := by
  unfold tokReview
  split
  · rename_i p hf
    have hp := (findTok_some hf).1
    split
    · split
      · exact ⟨tps_del rid, sps_same (Nat.le_refl _) rfl⟩
      · split
        · exact ⟨tps_del rid, sps_same (Nat.le_refl _) rfl⟩
        · exact ⟨tps_set hp (Nat.le_refl _) rfl, sps_same (Nat.le_refl _) rfl⟩
    · exact ⟨tps_same (Nat.le_refl _) rfl, sps_same (Nat.le_refl _) rfl⟩
  · exact ⟨tps_same (Nat.le_refl _) rfl, sps_same (Nat.le_refl _) rfl⟩

theorem tokFinish_pend (env : Env) (s : State) (rid : Rid) :
    TokPendStep s (tokFinish env s rid).1 ∧ SarPendStep s (tokFinish env s rid).1 := by
  unfold tokFinish
  split
  · split
    · simp only []
      split
      · exact ⟨tps_del rid, sps_same (Nat.le_refl _) rfl⟩
      · split
        · exact ⟨tps_del rid, sps_same (Nat.le_refl _) rfl⟩
        · split
          · exact ⟨tps_del rid, sps_same (Nat.le_refl _) rfl⟩
          · exact ⟨tps_del rid, sps_same (Nat.le_refl _) rfl⟩
    · exact ⟨tps_same (Nat.le_refl _) rfl, sps_same (Nat.le_refl _) rfl⟩
  · exact ⟨tps_same (Nat.le_refl _) rfl, sps_same (Nat.le_refl _) rfl⟩

theorem sarCache_pend (s : State) (rid : Rid) :
    TokPendStep s (sarCache s rid).1 ∧ SarPendStep s (sarCache s rid).1 := by
  unfold sarCache
  split
  · rename_i p hf
    have hp := (findSar_some hf).1
    split
    · split
      · exact ⟨tps_same (Nat.le_refl _) rfl, sps_set hp (Nat.le_refl _) rfl⟩
      · exact ⟨tps_same (Nat.le_refl _) rfl, sps_set hp (Nat.le_refl _) rfl⟩
    · exact ⟨tps_same (Nat.le_refl _) rfl, sps_same (Nat.le_refl _) rfl⟩
  · exact ⟨tps_same (Nat.le_refl _) rfl, sps_same (Nat.le_refl _) rfl⟩

theorem sarLookup_pend (s : State) (rid : Rid) :
    TokPendStep s (sarLookup s rid).1 ∧ SarPendStep s (sarLookup s rid).1 := by
  unfold sarLookup
  split
  · rename_i p hf
    have hp := (findSar_some hf).1
    split
    · split
      · split
        · exact ⟨tps_same (Nat.le_refl _) rfl, sps_del rid⟩
        · exact ⟨tps_same (Nat.le_refl _) rfl, sps_set hp (Nat.le_refl _) rfl⟩
      · exact ⟨tps_same (Nat.le_refl _) rfl, sps_set hp (Nat.le_refl _) rfl⟩
    · exact ⟨tps_same (Nat.le_refl _) rfl, sps_same (Nat.le_refl _) rfl⟩
  · exact ⟨tps_same (Nat.le_refl _) rfl, sps_same (Nat.le_refl _) rfl⟩

theorem sarFinish_pend (env : Env) (s : State) (rid : Rid) :
    TokPendStep s (sarFinish env s rid).1 ∧ SarPendStep s (sarFinish env s rid).1 := by
  unfold sarFinish
  split
  · split
    · simp only []
      split
      · exact ⟨tps_same (Nat.le_refl _) rfl, sps_del rid⟩
      · split
        · exact ⟨tps_same (Nat.le_refl _) rfl, sps_del rid⟩
        · exact ⟨tps_same (Nat.le_refl _) rfl, sps_del rid⟩
    · exact ⟨tps_same (Nat.le_refl _) rfl, sps_same (Nat.le_refl _) rfl⟩
  · exact ⟨tps_same (Nat.le_refl _) rfl, sps_same (Nat.le_refl _) rfl⟩

theorem step_pend (env : Env) (s : State) (st : Step) :
    TokPendStep s (step env s st).1 ∧ SarPendStep s (step env s st).1 := by
  cases st with
  | ev e =>
    obtain ⟨h1, h2, h3⟩ := evStep_pend s e
    exact ⟨tps_same (Nat.le_of_eq h1.symm) h2, sps_same (Nat.le_of_eq h1.symm) h3⟩
  | tokBegin rid host tok ch up => exact tokBegin_pend env s rid host tok ch up
  | tokCache rid => exact tokCache_pend env s rid
  | tokLookup rid => exact tokLookup_pend s rid
  | tokReview rid ch => exact tokReview_pend s rid ch
  | tokFinish rid => exact tokFinish_pend env s rid
  | sarBegin rid host attrs ch up => exact sarBegin_pend env s rid host attrs ch up
  | sarCache rid => exact sarCache_pend s rid
  | sarLookup rid => exact sarLookup_pend s rid
  | sarFinish rid => exact sarFinish_pend env s rid
  | dispatch host up ch => exact ⟨tps_same (Nat.le_refl _) rfl, sps_same (Nat.le_refl _) rfl⟩

/-! ## following one request id through a run -/

theorem clientFor_nextRid (s : State) (n : Rid) (host : Str) (ch : Nat) :
    clientFor { s with nextRid := n } host ch = clientFor s host ch := rfl

theorem tokBegin_out (env : Env) (s : State) (rid : Rid) (host tok : Str) (ch : Nat) (up : Option Inst) :
    ∀ o ∈ (tokBegin env s rid host tok ch up).2, s.nextRid ≤ rid ∧ ∃ t, o = .tok t ∧ t.rid = rid := by
  unfold tokBegin
  split
  · intro o ho; cases ho
  · rename_i hlt
    simp only []
    split
    · intro o ho
      simp only [List.mem_singleton] at ho
      subst ho
      exact ⟨Nat.le_of_not_lt hlt, _, rfl, rfl⟩
    · split
      · intro o ho
        simp only [List.mem_singleton] at ho
        subst ho
        exact ⟨Nat.le_of_not_lt hlt, _, rfl, rfl⟩
      · intro o ho; cases ho

theorem sarBegin_out (env : Env) (s : State) (rid : Rid) (host : Str) (attrs : Attrs) (ch : Nat) (up : Option Inst) :
    ∀ o ∈ (sarBegin env s rid host attrs ch up).2, s.nextRid ≤ rid ∧ ∃ t, o = .sar t ∧ t.rid = rid := by
  unfold sarBegin
  split
  · intro o ho; cases ho
  · rename_i hlt
    simp only []
    split
    · intro o ho
      simp only [List.mem_singleton] at ho
      subst ho
      exact ⟨Nat.le_of_not_lt hlt, _, rfl, rfl⟩
    · split
      · intro o ho
        simp only [List.mem_singleton] at ho
        subst ho
        exact ⟨Nat.le_of_not_lt hlt, _, rfl, rfl⟩
      · intro o ho; cases ho

/-- every token answer a step gives is either the refusal of a `tokBegin` with a fresh id, or the answer to a
    pending request, and then it is what the invariant promises -/
theorem step_tok_out {env : Env} {s : State} (h : Inv env s) (st : Step) (t : TokOut)
    (ht : Out.tok t ∈ (step env s st).2) : (TokOutOK env t ∧ TokFrom s t) ∨ s.nextRid ≤ t.rid := by
  cases st with
  | ev e => cases ht
  | tokBegin rid host tok ch up =>
    obtain ⟨hn, t', e, hr⟩ := tokBegin_out env s rid host tok ch up _ ht
    cases e
    exact Or.inr (hr ▸ hn)
  | tokCache rid =>
    have : (step env s (.tokCache rid)).2 = [] := tokCache_out rid
    rw [this] at ht; cases ht
  | tokLookup rid =>
    obtain ⟨t', e, h1, h2⟩ := tokLookup_out h rid _ ht
    cases e; exact Or.inl ⟨h1, h2⟩
  | tokReview rid ch =>
    obtain ⟨t', e, h1, h2⟩ := tokReview_out (env := env) rid ch _ ht
    cases e; exact Or.inl ⟨h1, h2⟩
  | tokFinish rid =>
    obtain ⟨t', e, h1, h2⟩ := tokFinish_out rid _ ht
    cases e; exact Or.inl ⟨h1, h2⟩
  | sarBegin rid host attrs ch up =>
    obtain ⟨_, t', e, _⟩ := sarBegin_out env s rid host attrs ch up _ ht
    cases e
  | sarCache rid =>
    have : (step env s (.sarCache rid)).2 = [] := sarCache_out rid
    rw [this] at ht; cases ht
  | sarLookup rid =>
    obtain ⟨t', e, _⟩ := sarLookup_out h rid _ ht
    cases e
  | sarFinish rid =>
    obtain ⟨t', e, _⟩ := sarFinish_out (env := env) rid _ ht
    cases e
  | dispatch host up ch =>
    simp only [step, dispatch, List.mem_singleton] at ht
    cases ht

theorem step_sar_out {env : Env} {s : State} (h : Inv env s) (st : Step) (t : SarOut)
    (ht : Out.sar t ∈ (step env s st).2) : (SarOutOK env t ∧ SarFrom s t) ∨ s.nextRid ≤ t.rid := by
  cases st with
  | ev e => cases ht
  | tokBegin rid host tok ch up =>
    obtain ⟨_, t', e, _⟩ := tokBegin_out env s rid host tok ch up _ ht
    cases e
  | tokCache rid =>
    have : (step env s (.tokCache rid)).2 = [] := tokCache_out rid
    rw [this] at ht; cases ht
  | tokLookup rid =>
    obtain ⟨t', e, _⟩ := tokLookup_out h rid _ ht
    cases e
  | tokReview rid ch =>
    obtain ⟨t', e, _⟩ := tokReview_out (env := env) rid ch _ ht
    cases e
  | tokFinish rid =>
    obtain ⟨t', e, _⟩ := tokFinish_out rid _ ht
    cases e
  | sarBegin rid host attrs ch up =>
    obtain ⟨hn, t', e, hr⟩ := sarBegin_out env s rid host attrs ch up _ ht
    cases e
    exact Or.inr (hr ▸ hn)
  | sarCache rid =>
    have : (step env s (.sarCache rid)).2 = [] := sarCache_out rid
    rw [this] at ht; cases ht
  | sarLookup rid =>
    obtain ⟨t', e, h1, h2⟩ := sarLookup_out h rid _ ht
    cases e; exact Or.inl ⟨h1, h2⟩
  | sarFinish rid =>
    obtain ⟨t', e, h1, h2⟩ := sarFinish_out (env := env) rid _ ht
    cases e; exact Or.inl ⟨h1, h2⟩
  | dispatch host up ch =>
    simp only [step, dispatch, List.mem_singleton] at ht
    cases ht

/-- request id `rid` has been handed out and, while it is pending as a token request, it is for a host / token /
    resolved cluster satisfying `Q` -/
def RidTok (rid : Rid) (Q : Str → Str → Inst → Option Inst → Prop) (s : State) : Prop :=
  rid < s.nextRid ∧ ∀ p ∈ s.tokPend, p.rid = rid → Q p.host p.tok p.inst p.upstream

def RidSar (rid : Rid) (Q : Str → Attrs → Inst → Option Inst → Prop) (s : State) : Prop :=
  rid < s.nextRid ∧ ∀ p ∈ s.sarPend, p.rid = rid → Q p.host p.attrs p.inst p.upstream

theorem ridTok_step {env : Env} {rid : Rid} {Q} {s : State} (h : RidTok rid Q s) (st : Step) :
    RidTok rid Q (step env s st).1 := by
  obtain ⟨hn, hp⟩ := (step_pend env s st).1
  refine ⟨Nat.lt_of_lt_of_le h.1 hn, fun p' hp' hr => ?_⟩
  cases hp p' hp' with
  | inl hx =>
    obtain ⟨p, hpm, h1, h2, h3, h4, h5⟩ := hx
    rw [← h2, ← h3, ← h4, ← h5]
    exact h.2 p hpm (h1.trans hr)
  | inr hx =>
    rw [hr] at hx
    exact absurd h.1 (Nat.not_lt_of_le hx)

theorem ridSar_step {env : Env} {rid : Rid} {Q} {s : State} (h : RidSar rid Q s) (st : Step) :
    RidSar rid Q (step env s st).1 := by
  obtain ⟨hn, hp⟩ := (step_pend env s st).2
  refine ⟨Nat.lt_of_lt_of_le h.1 hn, fun p' hp' hr => ?_⟩
  cases hp p' hp' with
  | inl hx =>
    obtain ⟨p, hpm, h1, h2, h3, h4, h5⟩ := hx
    rw [← h2, ← h3, ← h4, ← h5]
    exact h.2 p hpm (h1.trans hr)
  | inr hx =>
    rw [hr] at hx
    exact absurd h.1 (Nat.not_lt_of_le hx)

theorem run_tok {env : Env} (rid : Rid) (Q : Str → Str → Inst → Option Inst → Prop) :
    ∀ (steps : List Step) (s : State), Inv env s → RidTok rid Q s →
      ∀ t, Out.tok t ∈ (runSteps env s steps).2 → t.rid = rid →
        TokOutOK env t ∧ ∃ c, t.inst = some c ∧ Q t.host t.tok c t.upstream := by
  intro steps
  induction steps with
  | nil => intro s _ _ t ht; cases ht
  | cons st rest ih =>
    intro s hinv hrid t ht hr
    simp only [runSteps] at ht
    cases List.mem_append.1 ht with
    | inl h1 =>
      cases step_tok_out hinv st t h1 with
      | inl h2 =>
        obtain ⟨hok, p, hpm, e1, e2, e3, e4, e5⟩ := h2
        refine ⟨hok, p.inst, e4, ?_⟩
        rw [e2, e3, e5]
        exact hrid.2 p hpm (e1.trans hr)
      | inr h2 =>
        rw [hr] at h2
        exact absurd hrid.1 (Nat.not_lt_of_le h2)
    | inr h1 => exact ih _ (inv_step hinv st) (ridTok_step hrid st) t h1 hr

theorem run_sar {env : Env} (rid : Rid) (Q : Str → Attrs → Inst → Option Inst → Prop) :
    ∀ (steps : List Step) (s : State), Inv env s → RidSar rid Q s →
      ∀ t, Out.sar t ∈ (runSteps env s steps).2 → t.rid = rid →
        SarOutOK env t ∧ ∃ c, t.inst = some c ∧ Q t.host t.attrs c t.upstream := by
  intro steps
  induction steps with
  | nil => intro s _ _ t ht; cases ht
  | cons st rest ih =>
    intro s hinv hrid t ht hr
    simp only [runSteps] at ht
    cases List.mem_append.1 ht with
    | inl h1 =>
      cases step_sar_out hinv st t h1 with
      | inl h2 =>
        obtain ⟨hok, p, hpm, e1, e2, e3, e4, e5⟩ := h2
        refine ⟨hok, p.inst, e4, ?_⟩
        rw [e2, e3, e5]
        exact hrid.2 p hpm (e1.trans hr)
      | inr h2 =>
        rw [hr] at h2
        exact absurd hrid.1 (Nat.not_lt_of_le h2)
    | inr h1 => exact ih _ (inv_step hinv st) (ridSar_step hrid st) t h1 hr

/-! ## from the shape of an answer to the judge -/

theorem tokJudge_of_ok {env : Env} {t : TokOut} {c : Inst} (hok : TokOutOK env t) (hi : t.inst = some c) :
    TokJudge env ⟨some c, true, t.tok, t.res, t.time, t.ep.isSome⟩ := by
  unfold TokJudge
  simp only [Bool.true_eq_false, if_false]
  unfold TokOutOK at hok
  split at hok
  · obtain ⟨h1, h2, h3⟩ := hok
    simp only [h1, Option.isSome_none, Bool.false_eq_true, if_false]
    exact Or.inl ⟨h2, h3⟩
  · obtain ⟨h1, c', h2, h3⟩ := hok
    rw [hi] at h2; cases h2
    simp only [h1, if_true]
    exact h3
  · rename_i st ex _
    obtain ⟨h1, c', h2, h3, h4, h5, h6, h7⟩ := hok
    rw [hi] at h2; cases h2
    simp only [h1, Option.isSome_none, Bool.false_eq_true, if_false]
    refine Or.inr ⟨st, h3, h7, h6, ?_⟩
    show t.time < st + tokTTL env.cfg (env.tokO c t.tok st)
    rw [← h5]; exact h4

theorem decideStatus_err_deny (st : SarStatus) (h : (decideStatus st).err ≠ none) : (decideStatus st).decision = .deny := by
  unfold decideStatus at h ⊢
  split
  · rfl
  · split
    · rfl
    · split <;> simp_all

theorem sarAns_err_deny (a : SarAns) (h : a.res.err ≠ none) : a.res.decision = .deny := by
  cases a with
  | status st => exact decideStatus_err_deny st h
  | err => exact decisionOnError_deny

theorem sarJudge_of_ok {env : Env} {t : SarOut} {c : Inst} (hok : SarOutOK env t) (hi : t.inst = some c) :
    SarJudge env ⟨some c, true, t.attrs, t.res, t.time, t.ep.isSome⟩ := by
  unfold SarOutOK at hok
  split at hok
  · cases hok
  · obtain ⟨h1, c', h2, h3⟩ := hok
    rw [hi] at h2; cases h2
    refine ⟨?_, ?_⟩
    · intro hne
      show t.res.decision = .deny
      rw [h3] at hne ⊢
      exact sarAns_err_deny _ hne
    · simp only [Bool.true_eq_false, if_false, h1, if_true]
      exact h3
  · rename_i st ex _
    obtain ⟨h1, c', h2, h3, h4, status, h5, h6, h7⟩ := hok
    rw [hi] at h2; cases h2
    refine ⟨?_, ?_⟩
    · intro hne
      show t.res.decision = .deny
      rw [h7] at hne ⊢
      exact decideStatus_err_deny _ hne
    · simp only [Bool.true_eq_false, if_false, h1, Option.isSome_none, Bool.false_eq_true]
      refine Or.inr ⟨st, h3, status, h5, h7, ?_⟩
      show t.time ≤ st + sarTTL env.cfg status
      rw [← h6]; exact h4

/-! ## the scheduled requests driven by the harness are small-step runs -/

theorem runSteps_append (env : Env) (s : State) (a b : List Step) :
    runSteps env s (a ++ b) =
      ((runSteps env (runSteps env s a).1 b).1, (runSteps env s a).2 ++ (runSteps env (runSteps env s a).1 b).2) := by
  induction a generalizing s with
  | nil => simp [runSteps]
  | cons x xs ih =>
    simp only [List.cons_append, runSteps]
    rw [ih]
    simp [List.append_assoc]

/-- the run record is faithful: its state and answers are those of running its step list from `init` -/
def RunOK (env : Env) (r : Run) : Prop := runSteps env init r.steps = (r.s, r.outs)

theorem runOK_init (env : Env) : RunOK env ⟨init, [], []⟩ := rfl

theorem runOK_app {env : Env} {r : Run} (h : RunOK env r) (st : Step) : RunOK env (r.app env st) := by
  unfold RunOK Run.app at *
  simp only []
  rw [runSteps_append, h]
  simp [runSteps]

mutual
  theorem runOK_macro (env : Env) : ∀ (m : Macro) (r : Run), RunOK env r → RunOK env (runMacro env r m)
    | .ev e, r, h => by
      unfold runMacro
      exact runOK_app h _
    | .tok hostport tok ch1 ch2 bound mid0 mid1 mid2, r, h => by
      unfold runMacro
      simp only []
      repeat' split
      all_goals
        repeat (first
          | exact h
          | apply runOK_app
          | apply runOK_macros env mid0
          | apply runOK_macros env mid1
          | apply runOK_macros env mid2)
    | .sar hostport attrs ch bound mid0 mid, r, h => by
      unfold runMacro
      simp only []
      repeat' split
      all_goals
        repeat (first
          | exact h
          | apply runOK_app
          | apply runOK_macros env mid0
          | apply runOK_macros env mid)
    | .pipe hostport tok target mid0 mid1 mid2 midA mid midD, r, h => by
      unfold runMacro
      simp only []
      repeat' split
      all_goals
        repeat (first
          | exact h
          | apply runOK_app
          | apply runOK_macros env mid0
          | apply runOK_macros env mid1
          | apply runOK_macros env mid2
          | apply runOK_macros env midA
          | apply runOK_macros env mid
          | apply runOK_macros env midD)
  theorem runOK_macros (env : Env) : ∀ (ms : List Macro) (r : Run), RunOK env r → RunOK env (runMacros env r ms)
    | [], r, h => by
      unfold runMacros
      exact h
    | m :: ms, r, h => by
      unfold runMacros
      exact runOK_macros env ms _ (runOK_macro env m r h)
end

/-! ## an uninterrupted request is answered exactly once -/

theorem findTok_setTok (s : State) (p : TokPend) : findTok (setTok s p) p.rid = some p := by
  unfold findTok setTok
  simp

theorem findSar_setSar (s : State) (p : SarPend) : findSar (setSar s p) p.rid = some p := by
  unfold findSar setSar
  simp

theorem findTok_delTok (s : State) (rid : Rid) : findTok (delTok s rid) rid = none := by
  unfold findTok delTok
  simp [List.find?_eq_none]

theorem findSar_delSar (s : State) (rid : Rid) : findSar (delSar s rid) rid = none := by
  unfold findSar delSar
  simp [List.find?_eq_none]

theorem findTok_none_of {s : State} {rid : Rid} (h : ∀ p ∈ s.tokPend, p.rid ≠ rid) : findTok s rid = none := by
  unfold findTok
  simp only [List.find?_eq_none, decide_eq_true_eq]
  exact h

theorem findSar_none_of {s : State} {rid : Rid} (h : ∀ p ∈ s.sarPend, p.rid ≠ rid) : findSar s rid = none := by
  unfold findSar
  simp only [List.find?_eq_none, decide_eq_true_eq]
  exact h

theorem tok_noop {env : Env} {s : State} {rid : Rid} (h : findTok s rid = none) (ch : Nat) :
    tokCache env s rid = (s, []) ∧ tokLookup s rid = (s, []) ∧ tokReview s rid ch = (s, []) ∧ tokFinish env s rid = (s, []) := by
  unfold tokCache tokLookup tokReview tokFinish
  simp [h]

theorem sar_noop {env : Env} {s : State} {rid : Rid} (h : findSar s rid = none) :
    sarCache s rid = (s, []) ∧ sarLookup s rid = (s, []) ∧ sarFinish env s rid = (s, []) := by
  unfold sarCache sarLookup sarFinish
  simp [h]

/-- `tokFinish` on a request in flight answers it -/
theorem tokFinish_answers {env : Env} {s : State} {rid : Rid} {p : TokPend} {cid : Option CacheId} {ep : Str} {ready : List Str}
    (hf : findTok s rid = some p) (hst : p.stage = .inFlight cid ep ready) :
    ∃ t, (tokFinish env s rid).2 = [.tok t] ∧ t.rid = rid := by
  unfold tokFinish
  simp only [hf, hst]
  cases cid with
  | none => exact ⟨_, rfl, rfl⟩
  | some c =>
    simp only []
    split
    · exact ⟨_, rfl, rfl⟩
    · split
      · exact ⟨_, rfl, rfl⟩
      · exact ⟨_, rfl, rfl⟩

theorem tokReview_finish_answers {env : Env} {s : State} {p : TokPend} {cid : Option CacheId} (ch : Nat)
    (hf : findTok s p.rid = some p) (hst : p.stage = .missed cid) :
    ∃ t, (runSteps env s [.tokReview p.rid ch, .tokFinish p.rid]).2 = [.tok t] ∧ t.rid = p.rid := by
  simp only [runSteps, step, List.append_nil]
  have hrev : tokReview s p.rid ch =
      (match clientFor s p.host ch with
       | .error k => (delTok s p.rid, [tokOutErr s p.rid p.host p.tok (some p.inst) p.upstream k])
       | .ok (cur, e) =>
         if cur ≠ p.inst then (delTok s p.rid, [tokOutErr s p.rid p.host p.tok (some p.inst) p.upstream .moved])
         else (setTok s { p with stage := .inFlight cid e.name (readyNames s p.inst) }, [])) := by
    unfold tokReview
    simp only [hf, hst]
    rfl
  rw [hrev]
  cases hcf : clientFor s p.host ch with
  | error k =>
    simp only []
    rw [(tok_noop (env := env) (findTok_delTok s p.rid) 0).2.2.2]
    exact ⟨_, rfl, rfl⟩
  | ok ce =>
    obtain ⟨cur, e⟩ := ce
    simp only []
    by_cases hcur : cur = p.inst
    · simp only [hcur, ne_eq, not_true_eq_false, if_false]
      have hf' : findTok (setTok s { p with stage := TokStage.inFlight cid e.name (readyNames s p.inst) }) p.rid =
          some { p with stage := TokStage.inFlight cid e.name (readyNames s p.inst) } :=
        findTok_setTok s { p with stage := TokStage.inFlight cid e.name (readyNames s p.inst) }
      obtain ⟨t, h1, h2⟩ := tokFinish_answers (env := env) hf' rfl
      rw [h1]
      exact ⟨t, rfl, h2⟩
    · simp only [ne_eq, hcur, not_false_eq_true, if_true]
      rw [(tok_noop (env := env) (findTok_delTok s p.rid) 0).2.2.2]
      exact ⟨_, rfl, rfl⟩

theorem tokLookup_rest_answers {env : Env} {s : State} {p : TokPend} (ch : Nat)
    (hf : findTok s p.rid = some p)
    (hst : (∃ cid, p.stage = .haveCache cid) ∨ p.stage = .missed none) :
    ∃ t, (runSteps env s [.tokLookup p.rid, .tokReview p.rid ch, .tokFinish p.rid]).2 = [.tok t] ∧ t.rid = p.rid := by
  have hsplit : ∀ s1 o1, tokLookup s p.rid = (s1, o1) →
      (runSteps env s [.tokLookup p.rid, .tokReview p.rid ch, .tokFinish p.rid]).2 =
        o1 ++ (runSteps env s1 [.tokReview p.rid ch, .tokFinish p.rid]).2 := by
    intro s1 o1 h
    simp only [runSteps, step, h]
  have hset : ∀ st, findTok (setTok s { p with stage := st }) p.rid = some { p with stage := st } :=
    fun st => findTok_setTok s { p with stage := st }
  cases hst with
  | inr hm =>
    have hl : tokLookup s p.rid = (s, []) := by
      unfold tokLookup
      simp only [hf, hm]
    rw [hsplit _ _ hl, List.nil_append]
    exact tokReview_finish_answers ch hf hm
  | inl hc =>
    obtain ⟨cid, hc⟩ := hc
    have hmiss : ∃ t, (runSteps env (setTok s { p with stage := .missed (some cid) }) [.tokReview p.rid ch, .tokFinish p.rid]).2 = [.tok t] ∧ t.rid = p.rid :=
      tokReview_finish_answers (p := { p with stage := .missed (some cid) }) ch (hset _) rfl
    cases hg : tokGet s cid p.tok with
    | none =>
      have hl : tokLookup s p.rid = (setTok s { p with stage := .missed (some cid) }, []) := by
        unfold tokLookup
        simp only [hf, hc, hg]
      rw [hsplit _ _ hl, List.nil_append]
      exact hmiss
    | some e =>
      by_cases hlive : s.clock < e.expiry
      · have hl : tokLookup s p.rid = (delTok s p.rid, [.tok ⟨p.rid, p.host, p.tok, some p.inst, p.upstream, e.ans.res, s.clock, .cached e.storedAt e.expiry, none, []⟩]) := by
          unfold tokLookup
          simp only [hf, hc, hg, hlive, if_true]
        rw [hsplit _ _ hl]
        have hn := tok_noop (env := env) (findTok_delTok s p.rid) ch
        simp only [runSteps, step, hn.2.2.1, hn.2.2.2, List.append_nil]
        exact ⟨_, rfl, rfl⟩
      · have hl : tokLookup s p.rid = (setTok s { p with stage := .missed (some cid) }, []) := by
          unfold tokLookup
          simp only [hf, hc, hg, hlive, if_false]
        rw [hsplit _ _ hl, List.nil_append]
        exact hmiss

theorem tokCache_rest_answers {env : Env} {s : State} {p : TokPend} (ch : Nat)
    (hf : findTok s p.rid = some p) (hst : p.stage = .resolved) :
    ∃ t, (runSteps env s [.tokCache p.rid, .tokLookup p.rid, .tokReview p.rid ch, .tokFinish p.rid]).2 = [.tok t] ∧ t.rid = p.rid := by
  have hsplit : ∀ s1, tokCache env s p.rid = (s1, []) →
      (runSteps env s [.tokCache p.rid, .tokLookup p.rid, .tokReview p.rid ch, .tokFinish p.rid]).2 =
        (runSteps env s1 [.tokLookup p.rid, .tokReview p.rid ch, .tokFinish p.rid]).2 := by
    intro s1 h
    simp only [runSteps, step, h, List.nil_append]
  have hset : ∀ (s0 : State) st, findTok (setTok s0 { p with stage := st }) p.rid = some { p with stage := st } :=
    fun s0 st => findTok_setTok s0 { p with stage := st }
  by_cases hz : env.cfg.failureTTL = 0 ∧ env.cfg.successTTL = 0
  · have hc : tokCache env s p.rid = (setTok s { p with stage := .missed none }, []) := by
      unfold tokCache
      simp only [hf, hst, hz, and_self, if_true]
    rw [hsplit _ hc]
    exact tokLookup_rest_answers (p := { p with stage := .missed none }) ch (hset _ _) (Or.inr rfl)
  · cases hm : s.tokMap.find? (fun kv => decide (kv.1 = ⟨p.host, p.inst⟩)) with
    | some kv =>
      have hc : tokCache env s p.rid = (setTok s { p with stage := .haveCache ⟨p.host, p.inst, kv.2⟩ }, []) := by
        unfold tokCache
        simp only [hf, hst, hz, if_false, hm]
      rw [hsplit _ hc]
      exact tokLookup_rest_answers (p := { p with stage := .haveCache _ }) ch (hset _ _) (Or.inl ⟨_, rfl⟩)
    | none =>
      have hc : tokCache env s p.rid = (setTok { s with nextGen := s.nextGen + 1, tokMap := (⟨p.host, p.inst⟩, s.nextGen) :: s.tokMap }
          { p with stage := .haveCache ⟨p.host, p.inst, s.nextGen⟩ }, []) := by
        unfold tokCache
        simp only [hf, hst, hz, if_false, hm]
      rw [hsplit _ hc]
      exact tokLookup_rest_answers (p := { p with stage := .haveCache _ }) ch (hset _ _) (Or.inl ⟨_, rfl⟩)

theorem sarFinish_answers {env : Env} {s : State} {p : SarPend} {cid : CacheId}
    (hf : findSar s p.rid = some p) (hst : p.stage = .inFlight cid) :
    ∃ t, (sarFinish env s p.rid).2 = [.sar t] ∧ t.rid = p.rid := by
  unfold sarFinish
  simp only [hf, hst]
  split
  · exact ⟨_, rfl, rfl⟩
  · split
    · exact ⟨_, rfl, rfl⟩
    · exact ⟨_, rfl, rfl⟩

theorem sarLookup_rest_answers {env : Env} {s : State} {p : SarPend} {cid : CacheId}
    (hf : findSar s p.rid = some p) (hst : p.stage = .haveCache cid) :
    ∃ t, (runSteps env s [.sarLookup p.rid, .sarFinish p.rid]).2 = [.sar t] ∧ t.rid = p.rid := by
  have hsplit : ∀ s1 o1, sarLookup s p.rid = (s1, o1) →
      (runSteps env s [.sarLookup p.rid, .sarFinish p.rid]).2 = o1 ++ (sarFinish env s1 p.rid).2 := by
    intro s1 o1 h
    simp only [runSteps, step, h, List.append_nil]
  have hmiss : ∃ t, (sarFinish env (setSar s { p with stage := .inFlight cid }) p.rid).2 = [.sar t] ∧ t.rid = p.rid :=
    sarFinish_answers (p := { p with stage := .inFlight cid }) (findSar_setSar s { p with stage := .inFlight cid }) rfl
  cases hg : sarGet s cid (specOf p.attrs) with
  | none =>
    have hl : sarLookup s p.rid = (setSar s { p with stage := .inFlight cid }, []) := by
      unfold sarLookup
      simp only [hf, hst, hg]
    rw [hsplit _ _ hl, List.nil_append]
    exact hmiss
  | some e =>
    by_cases hlive : s.clock ≤ e.expiry
    · have hl : sarLookup s p.rid = (delSar s p.rid, [.sar ⟨p.rid, p.host, p.attrs, some p.inst, p.upstream, decideStatus e.st, s.clock, .cached e.storedAt e.expiry, none, []⟩]) := by
        unfold sarLookup
        simp only [hf, hst, hg, hlive, if_true]
      rw [hsplit _ _ hl, (sar_noop (env := env) (findSar_delSar s p.rid)).2.2]
      exact ⟨_, rfl, rfl⟩
    · have hl : sarLookup s p.rid = (setSar s { p with stage := .inFlight cid }, []) := by
        unfold sarLookup
        simp only [hf, hst, hg, hlive, if_false]
      rw [hsplit _ _ hl, List.nil_append]
      exact hmiss

theorem sarCache_rest_answers {env : Env} {s : State} {p : SarPend}
    (hf : findSar s p.rid = some p) (hst : p.stage = .resolved) :
    ∃ t, (runSteps env s [.sarCache p.rid, .sarLookup p.rid, .sarFinish p.rid]).2 = [.sar t] ∧ t.rid = p.rid := by
  have hsplit : ∀ s1, sarCache s p.rid = (s1, []) →
      (runSteps env s [.sarCache p.rid, .sarLookup p.rid, .sarFinish p.rid]).2 =
        (runSteps env s1 [.sarLookup p.rid, .sarFinish p.rid]).2 := by
    intro s1 h
    simp only [runSteps, step, h, List.nil_append]
  cases hm : s.sarMap.find? (fun kv => decide (kv.1 = ⟨p.host, p.inst⟩)) with
  | some kv =>
    have hc : sarCache s p.rid = (setSar s { p with stage := .haveCache ⟨p.host, p.inst, kv.2⟩ }, []) := by
      unfold sarCache
      simp only [hf, hst, hm]
    rw [hsplit _ hc]
    exact sarLookup_rest_answers (p := { p with stage := .haveCache _ }) (findSar_setSar _ _) rfl
  | none =>
    have hc : sarCache s p.rid = (setSar { s with nextGen := s.nextGen + 1, sarMap := (⟨p.host, p.inst⟩, s.nextGen) :: s.sarMap }
        { p with stage := .haveCache ⟨p.host, p.inst, s.nextGen⟩ }, []) := by
      unfold sarCache
      simp only [hf, hst, hm]
    rw [hsplit _ hc]
    exact sarLookup_rest_answers (p := { p with stage := .haveCache _ }) (findSar_setSar _ _) rfl

/-! ## the first step of a request, computed -/

theorem tokBegin_of_err {env : Env} {s : State} {rid : Rid} {host tok : Str} {ch : Nat} {up : Option Inst} {k : ErrKind}
    (hn : s.nextRid ≤ rid) (hk : clientFor s host ch = .error k) :
    tokBegin env s rid host tok ch up =
      ({ s with nextRid := rid + 1 }, [.tok ⟨rid, host, tok, mgrGet s.mgr host, up, .error k, s.clock, .none, none, []⟩]) := by
  unfold tokBegin
  rw [if_neg (Nat.not_lt_of_le hn)]
  simp only [clientFor_nextRid, hk]
  rfl

theorem tokBegin_of_bound {env : Env} {s : State} {rid : Rid} {host tok : Str} {ch : Nat} {up : Option Inst} {c : Inst} {e : Endpoint}
    (hn : s.nextRid ≤ rid) (hk : clientFor s host ch = .ok (c, e)) (hb : boundElsewhere env.cfg.bindTok up c = true) :
    tokBegin env s rid host tok ch up =
      ({ s with nextRid := rid + 1 }, [.tok ⟨rid, host, tok, some c, up, .error .moved, s.clock, .none, none, []⟩]) := by
  unfold tokBegin
  rw [if_neg (Nat.not_lt_of_le hn)]
  simp only [clientFor_nextRid, hk, hb, if_true]
  rfl

theorem tokBegin_of_ok {env : Env} {s : State} {rid : Rid} {host tok : Str} {ch : Nat} {up : Option Inst} {c : Inst} {e : Endpoint}
    (hn : s.nextRid ≤ rid) (hk : clientFor s host ch = .ok (c, e)) (hb : boundElsewhere env.cfg.bindTok up c = false) :
    tokBegin env s rid host tok ch up = (setTok { s with nextRid := rid + 1 } ⟨rid, host, tok, c, up, .resolved⟩, []) := by
  unfold tokBegin
  rw [if_neg (Nat.not_lt_of_le hn)]
  simp only [clientFor_nextRid, hk, hb, Bool.false_eq_true, if_false]

theorem sarBegin_of_err {env : Env} {s : State} {rid : Rid} {host : Str} {attrs : Attrs} {ch : Nat} {up : Option Inst} {k : ErrKind}
    (hn : s.nextRid ≤ rid) (hk : clientFor s host ch = .error k) :
    sarBegin env s rid host attrs ch up =
      ({ s with nextRid := rid + 1 }, [.sar ⟨rid, host, attrs, mgrGet s.mgr host, up, sarErr k, s.clock, .none, none, []⟩]) := by
  unfold sarBegin
  rw [if_neg (Nat.not_lt_of_le hn)]
  simp only [clientFor_nextRid, hk]
  rfl

theorem sarBegin_of_bound {env : Env} {s : State} {rid : Rid} {host : Str} {attrs : Attrs} {ch : Nat} {up : Option Inst} {c : Inst} {e : Endpoint}
    (hn : s.nextRid ≤ rid) (hk : clientFor s host ch = .ok (c, e)) (hb : boundElsewhere env.cfg.bindSar up c = true) :
    sarBegin env s rid host attrs ch up =
      ({ s with nextRid := rid + 1 }, [.sar ⟨rid, host, attrs, some c, up, sarErr .moved, s.clock, .none, none, []⟩]) := by
  unfold sarBegin
  rw [if_neg (Nat.not_lt_of_le hn)]
  simp only [clientFor_nextRid, hk, hb, if_true]
  rfl

theorem sarBegin_of_ok {env : Env} {s : State} {rid : Rid} {host : Str} {attrs : Attrs} {ch : Nat} {up : Option Inst} {c : Inst} {e : Endpoint}
    (hn : s.nextRid ≤ rid) (hk : clientFor s host ch = .ok (c, e)) (hb : boundElsewhere env.cfg.bindSar up c = false) :
    sarBegin env s rid host attrs ch up =
      (setSar { s with nextRid := rid + 1 } ⟨rid, host, attrs, c, up, e.name, readyNames { s with nextRid := rid + 1 } c, .resolved⟩, []) := by
  unfold sarBegin
  rw [if_neg (Nat.not_lt_of_le hn)]
  simp only [clientFor_nextRid, hk, hb, Bool.false_eq_true, if_false]

theorem ownReady_of_ok {s : State} {host : Str} {ch : Nat} {c : Inst} {e : Endpoint}
    (hk : clientFor s host ch = .ok (c, e)) : mgrGet s.mgr host = some c ∧ ownReady s host = true := by
  obtain ⟨h1, h2⟩ := clientFor_ok hk
  refine ⟨h1, ?_⟩
  unfold ownReady
  rw [h1]
  cases hr : readyOf s c with
  | nil => rw [hr] at h2; cases h2
  | cons _ _ => simp [hr]


theorem boundElsewhere_false {u c : Inst} (h : boundElsewhere true (some u) c = false) : c = u := by
  unfold boundElsewhere at h
  simp only [Bool.true_and, Option.isSome_some, ne_eq, Option.some.injEq, decide_not, Bool.not_eq_false',
    decide_eq_true_eq] at h
  exact h.symm


end KG.Lemmas.AuthCache
