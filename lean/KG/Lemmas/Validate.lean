import KG.Spec.Validate
/-! Helper lemmas for C16. -/
namespace KG.Lemmas.Validate
open KG KG.Model.Validate KG.Spec.Validate

/-! ### generic -/

@[simp] theorem errIf_eq_nil (c : Bool) (e : FieldErr) : errIf c e = [] ↔ c = false := by
  cases c <;> simp [errIf]

theorem mapM'_ok {α β : Type} (f : α → M β) (l : List α) (h : ∀ a ∈ l, ∃ b, f a = .ok b) :
    ∃ bs, mapM' f l = .ok bs ∧ bs.length = l.length := by
  induction l with
  | nil => exact ⟨[], rfl, rfl⟩
  | cons a l ih =>
    obtain ⟨b, hb⟩ := h a (by simp)
    obtain ⟨bs, hbs, hl⟩ := ih (fun x hx => h x (by simp [hx]))
    refine ⟨b :: bs, ?_, by simp [hl]⟩
    simp [mapM', hb, hbs, bind, Except.bind, pure, Except.pure]

theorem foldM'_ok {σ α : Type} (f : σ → α → M σ) (P : σ → Prop) (l : List α)
    (h : ∀ s, P s → ∀ a ∈ l, ∃ s', f s a = .ok s' ∧ P s') (s : σ) (hs : P s) :
    ∃ s', foldM' f s l = .ok s' ∧ P s' := by
  induction l generalizing s with
  | nil => exact ⟨s, rfl, hs⟩
  | cons a l ih =>
    obtain ⟨s1, h1, hp1⟩ := h s hs a (by simp)
    obtain ⟨s2, h2, hp2⟩ := ih (fun t ht x hx => h t ht x (by simp [hx])) s1 hp1
    exact ⟨s2, by simp [foldM', h1, h2, bind, Except.bind], hp2⟩

/-! ### flow-control schemas -/

theorem vfc_total (s : Schema) (p : String) : ∃ e, validateFlowControlConfiguration s p = .ok e := by
  obtain ⟨name, strategy, exempt, m, tb, gm, gtb⟩ := s
  cases exempt <;> cases m <;> cases tb <;> cases gm <;> cases gtb <;>
    simp [validateFlowControlConfiguration, vfcMaxRequestsInflight, vfcGlobalMaxRequestsInflight, vfcTokenBucket,
      vfcGlobalTokenBucket, deref, bind, Except.bind, pure, Except.pure]

theorem vfc_nil_iff (s : Schema) (p : String) :
    validateFlowControlConfiguration s p = .ok [] ↔ schemaOK s = true := by
  obtain ⟨name, strategy, exempt, m, tb, gm, gtb⟩ := s
  cases exempt <;> cases m <;> cases tb <;> cases gm <;> cases gtb <;>
    simp [validateFlowControlConfiguration, vfcMaxRequestsInflight, vfcGlobalMaxRequestsInflight, vfcTokenBucket,
      vfcGlobalTokenBucket, deref, bind, Except.bind, pure, Except.pure, schemaOK, shapeOf, Shape.inRange,
      validateTokenBucketFlowControlSchema, errIf]
  · split
    · simp; omega
    · split
      · simp; omega
      · simp; omega
  · omega

theorem setInsert_fresh (names : List Str) (x : Str) (h : x ∉ names) : setInsert names x = names ++ [x] := by
  simp [setInsert, h]

theorem vfcLoop_spec (p : String) (l : List Schema) : ∀ (i : Nat) (names : List Str),
    ∃ ns e, validateFlowControlLoop p i l names = .ok (ns, e) ∧
      (e = [] ↔ (namesOK l = true ∧ (∀ s ∈ l, s.name ∉ names) ∧
        ∀ s ∈ l, strategyOK s.strategy = true ∧ schemaOK s = true)) ∧
      (e = [] → ns = names ++ l.map (·.name)) := by
  induction l with
  | nil => intro i names; exact ⟨names, [], rfl, by simp [namesOK], by simp⟩
  | cons fs rest ih =>
    intro i names
    obtain ⟨e3, h3⟩ := vfc_total fs (index p i)
    have h3' : e3 = [] ↔ schemaOK fs = true := by
      rw [← vfc_nil_iff fs (index p i), h3]; simp
    obtain ⟨ns, es, hl, hiff, hns⟩ := ih (i+1) (if fs.name = [] then names else setInsert names fs.name)
    refine ⟨ns, (if fs.name = [] then [required (child (index p i) "name")]
      else if names.contains fs.name then [duplicate (child (index p i) "name")] else []) ++
      errIf (!strategyOK fs.strategy) (invalid (child (index p i) "strategy")) ++ e3 ++ es, ?_, ?_, ?_⟩
    · simp [validateFlowControlLoop, h3, hl, bind, Except.bind, pure, Except.pure]
    · by_cases hn : fs.name = []
      · simp [hn, namesOK]
      · by_cases hc : fs.name ∈ names
        · simp [hn, hc, namesOK]
        · simp only [hn, if_false, setInsert_fresh names fs.name hc] at hiff hns
          simp [hiff, h3', namesOK, hn, hc]
          constructor
          · rintro ⟨a, b, c, d, e⟩
            exact ⟨⟨fun x hx => (d x hx).2, c⟩, fun x hx => (d x hx).1, ⟨a, b⟩, e⟩
          · rintro ⟨⟨a, b⟩, c, ⟨d, e⟩, f⟩
            exact ⟨d, e, b, fun s hs => ⟨c s hs, a s hs⟩, f⟩
    · intro he
      by_cases hn : fs.name = []
      · simp [hn] at he
      · by_cases hc : fs.name ∈ names
        · simp [hn, hc] at he
        · simp only [hn, if_false, setInsert_fresh names fs.name hc] at hns
          simp [hn, hc] at he
          rw [hns he.2.2]
          simp

/-! ### servers -/

theorem validateServer_ok (env : Env) (p : String) (i : Nat) (s : Server) (h : endpointOK env s.endpoint = true) :
    validateServer env p i s = ([], some (getURLScheme s.endpoint)) := by
  unfold endpointOK at h
  unfold validateServer
  cases hu : env.urlParse s.endpoint with
  | none => simp [hu] at h
  | some u => simp [hu] at h; simp [h]

theorem validateServer_bad (env : Env) (p : String) (i : Nat) (s : Server) (h : endpointOK env s.endpoint = false) :
    (validateServer env p i s).1 ≠ [] ∧ (validateServer env p i s).2 = none := by
  unfold endpointOK at h
  unfold validateServer
  cases hu : env.urlParse s.endpoint with
  | none => by_cases hs : getURLScheme s.endpoint = [] <;> simp [hs]
  | some u =>
    by_cases hs : getURLScheme s.endpoint = []
    · simp [hs]
    · simp [hu, hs] at h; simp [hs, h]

theorem serversLoop_errs (env : Env) (p : String) (l : List Server) : ∀ (i : Nat) (schemes : List Str),
    ((validateServersLoop env p i l schemes).1 = [] ↔ ∀ s ∈ l, endpointOK env s.endpoint = true) := by
  induction l with
  | nil => intro i schemes; simp [validateServersLoop]
  | cons s rest ih =>
    intro i schemes
    cases h : endpointOK env s.endpoint with
    | true =>
      simp [validateServersLoop, validateServer_ok env p i s h, ih, h]
    | false =>
      have hb := validateServer_bad env p i s h
      simp [validateServersLoop, hb.1, h]

theorem serversLoop_mono (env : Env) (p : String) (l : List Server) : ∀ (i : Nat) (schemes : List Str),
    schemes.length ≤ (validateServersLoop env p i l schemes).2.length := by
  induction l with
  | nil => intro i schemes; simp [validateServersLoop]
  | cons s rest ih =>
    intro i schemes
    simp only [validateServersLoop]
    cases h : (validateServer env p i s).2 with
    | none => simpa using ih (i+1) schemes
    | some sc =>
      refine Nat.le_trans ?_ (ih (i+1) (setInsert schemes sc))
      unfold setInsert; split <;> simp

theorem serversLoop_same (env : Env) (p : String) (x : Str) (l : List Server) : ∀ (i : Nat),
    (∀ s ∈ l, endpointOK env s.endpoint = true) → (∀ s ∈ l, getURLScheme s.endpoint = x) →
    (validateServersLoop env p i l [x]).2 = [x] := by
  induction l with
  | nil => intro i _ _; simp [validateServersLoop]
  | cons s rest ih =>
    intro i hok hx
    have h1 := validateServer_ok env p i s (hok s (by simp))
    have h2 : getURLScheme s.endpoint = x := hx s (by simp)
    simp [validateServersLoop, h1, h2, setInsert]
    exact ih (i+1) (fun t ht => hok t (by simp [ht])) (fun t ht => hx t (by simp [ht]))

theorem serversLoop_diff (env : Env) (p : String) (x : Str) (l : List Server) : ∀ (i : Nat),
    (∀ s ∈ l, endpointOK env s.endpoint = true) → (∃ s ∈ l, getURLScheme s.endpoint ≠ x) →
    1 < (validateServersLoop env p i l [x]).2.length := by
  induction l with
  | nil => intro i _ h; simp at h
  | cons s rest ih =>
    intro i hok hx
    have h1 := validateServer_ok env p i s (hok s (by simp))
    by_cases h2 : getURLScheme s.endpoint = x
    · simp [validateServersLoop, h1, h2, setInsert]
      apply ih (i+1) (fun t ht => hok t (by simp [ht]))
      obtain ⟨t, ht, hne⟩ := hx
      simp at ht
      rcases ht with rfl | ht
      · exact absurd h2 hne
      · exact ⟨t, ht, hne⟩
    · have hm := serversLoop_mono env p rest (i+1) [x, getURLScheme s.endpoint]
      have hne : ¬ (x = getURLScheme s.endpoint) := fun h => h2 h.symm
      simp [validateServersLoop, h1, setInsert, h2]
      simp at hm
      omega

theorem sameScheme_cons (s : Server) (rest : List Server) :
    sameScheme (s :: rest) = true ↔ ∀ t ∈ rest, getURLScheme t.endpoint = getURLScheme s.endpoint := by
  unfold sameScheme
  simp only [List.all_eq_true, decide_eq_true_eq]
  constructor
  · intro h t ht
    exact h t (by simp [ht]) s (by simp)
  · intro h a ha b hb
    have ea : getURLScheme a.endpoint = getURLScheme s.endpoint := by
      simp at ha; rcases ha with rfl | ha
      · rfl
      · exact h a ha
    have eb : getURLScheme b.endpoint = getURLScheme s.endpoint := by
      simp at hb; rcases hb with rfl | hb
      · rfl
      · exact h b hb
    rw [ea, eb]

/-- `ValidateServers`: no error iff there is a server, every endpoint is usable and all use one scheme; the scheme
    handed to `ValidateClientConfig` is then the first server's. -/
theorem validateServers_spec (env : Env) (servers : List Server) (p : String) :
    ((validateServers env servers p).errs = [] ↔
      (servers ≠ [] ∧ (∀ s ∈ servers, endpointOK env s.endpoint = true) ∧ sameScheme servers = true)) ∧
    ((validateServers env servers p).errs = [] → (validateServers env servers p).scheme = schemeOf servers) ∧
    (validateServers env servers p).upstreams = servers.map (·.endpoint) := by
  cases servers with
  | nil => simp [validateServers, errIf]
  | cons s rest =>
    have key : (∀ t ∈ s :: rest, endpointOK env t.endpoint = true) →
        ((validateServersLoop env p 0 (s :: rest) []).2.length ≤ 1 ↔ sameScheme (s :: rest) = true) ∧
        (sameScheme (s :: rest) = true → (validateServersLoop env p 0 (s :: rest) []).2 = [getURLScheme s.endpoint]) := by
      intro hok
      have h1 := validateServer_ok env p 0 s (hok s (by simp))
      have hrest : ∀ t ∈ rest, endpointOK env t.endpoint = true := fun t ht => hok t (by simp [ht])
      rw [sameScheme_cons]
      simp only [validateServersLoop, h1, setInsert]
      simp only [List.contains_nil, Bool.false_eq_true, if_false, List.nil_append]
      by_cases hall : ∀ t ∈ rest, getURLScheme t.endpoint = getURLScheme s.endpoint
      · have := serversLoop_same env p (getURLScheme s.endpoint) rest (0+1) hrest hall
        simp only [this]
        simp
        exact hall
      · have hex : ∃ t ∈ rest, getURLScheme t.endpoint ≠ getURLScheme s.endpoint := by
          simpa using hall
        have := serversLoop_diff env p (getURLScheme s.endpoint) rest (0+1) hrest hex
        constructor
        · constructor
          · intro h; omega
          · intro h; exact absurd h hall
        · intro h; exact absurd h hall
    refine ⟨?_, ?_, rfl⟩
    · simp only [validateServers, List.append_eq_nil_iff, errIf_eq_nil]
      have he := serversLoop_errs env p (s :: rest) 0 []
      constructor
      · rintro ⟨⟨_, h2⟩, h3⟩
        have hok := he.mp h2
        have hk := key hok
        refine ⟨by simp, hok, hk.1.mp ?_⟩
        simpa using h3
      · rintro ⟨_, hok, hs⟩
        have hk := key hok
        refine ⟨⟨by simp, he.mpr hok⟩, ?_⟩
        have := hk.1.mpr hs
        simp; omega
    · intro h
      simp only [validateServers, List.append_eq_nil_iff, errIf_eq_nil] at h
      have hok := (serversLoop_errs env p (s :: rest) 0 []).mp h.1.2
      have hk := key hok
      have hs : sameScheme (s :: rest) = true := hk.1.mp (by simpa using h.2)
      simp [validateServers, hk.2 hs, popAny, schemeOf]

/-! ### policies, client config, serving, feature gate, conflicts -/

theorem validateSubset_nil (ups : List Str) (p : String) (l : List Str) : ∀ j,
    validateSubset ups p j l = [] ↔ ∀ u ∈ l, u ∈ ups := by
  induction l with
  | nil => intro j; simp [validateSubset]
  | cons u rest ih => intro j; simp [validateSubset, ih]

theorem validateDispatchPolicy_nil (ups names : List Str) (pol : Policy) (p : String) :
    validateDispatchPolicy ups names pol p = [] ↔
      (pol.strategy = sRoundRobin ∧ (∀ u ∈ pol.upstreamSubset, u ∈ ups) ∧
       (pol.flowControlSchemaName = [] ∨ pol.flowControlSchemaName ∈ names) ∧ pol.nRules ≠ 0 ∧ logModeOK pol.logMode = true) := by
  have hq : (¬pol.flowControlSchemaName = [] → pol.flowControlSchemaName ∈ names) ↔
      (pol.flowControlSchemaName = [] ∨ pol.flowControlSchemaName ∈ names) := by
    by_cases hn : pol.flowControlSchemaName = [] <;> simp [hn]
  simp [validateDispatchPolicy, validateSubset_nil, hq]

theorem validatePolicies_nil (ups names : List Str) (p : String) (l : List Policy) : ∀ i,
    validatePolicies ups names p i l = [] ↔ ∀ pol ∈ l,
      (pol.strategy = sRoundRobin ∧ (∀ u ∈ pol.upstreamSubset, u ∈ ups) ∧
       (pol.flowControlSchemaName = [] ∨ pol.flowControlSchemaName ∈ names) ∧ pol.nRules ≠ 0 ∧ logModeOK pol.logMode = true) := by
  induction l with
  | nil => intro i; simp [validatePolicies]
  | cons a rest ih => intro i; simp [validatePolicies, ih, validateDispatchPolicy_nil]

theorem validateClientConfig_nil (env : Env) (scheme : Str) (c : ClientConfig) (p : String) :
    validateClientConfig env scheme c p = [] ↔ (clientLimitsOK c = true ∧ clientTLSOK env scheme c = true) := by
  obtain ⟨insecure, token, key, cert, ca, qps, burst, div⟩ := c
  have hq : (0 < qps → qps ≤ burst) ↔ (qps ≤ 0 ∨ qps ≤ burst) := by omega
  by_cases hs : scheme = sHttps <;> by_cases hk : key = [] <;> by_cases hc : cert = [] <;> by_cases ha : ca = [] <;>
    by_cases ht : token = [] <;> cases insecure <;>
    simp [validateClientConfig, validateClientConfigHTTPS, clientLimitsOK, clientTLSOK, hs, hk, hc, ha, ht, errIf, hq, and_assoc]

theorem validateSecureServing_nil (env : Env) (s : SecureServing) (p : String) :
    validateSecureServing env s p = [] ↔ servingOK env s = true := by
  obtain ⟨key, cert, ca, names⟩ := s
  by_cases hk : key = [] <;> by_cases hc : cert = [] <;> by_cases ha : ca = [] <;>
    simp [validateSecureServing, servingOK, hk, hc, ha, errIf]

theorem validateFeatureGate_nil (env : Env) (c : Cluster) :
    validateFeatureGate env c = [] ↔ featureGateOK env c = true := by
  unfold validateFeatureGate featureGateOK
  cases c.annotations with
  | none => simp
  | some m =>
    by_cases h : mapGet m sFeatureGateKey = []
    · simp [h]
    · cases hg : env.featureGateSet (mapGet m sFeatureGateKey) <;> simp [h, hg]

theorem conflictsWith_nil (env : Env) (cn : Str) (sns : List Str) (l : List Str) :
    conflictsWith env cn sns l = [] ↔ ∀ s ∈ l, env.lower cn ≠ env.lower s ∧ ∀ sn ∈ sns, env.lower sn ≠ env.lower s := by
  induction l with
  | nil => simp [conflictsWith]
  | cons s rest ih =>
    simp [conflictsWith, ih, List.filter_eq_nil_iff, and_assoc]

theorem validateConflicts_nil (env : Env) (c : Cluster) (known : List Known) :
    validateConflicts env c known = [] ↔ noConflict env known c = true := by
  induction known with
  | nil => simp [validateConflicts, noConflict]
  | cons u rest ih =>
    unfold noConflict at ih ⊢
    by_cases h : env.lower u.name = env.lower c.name
    · simp [validateConflicts, h, ih]
    · simp only [validateConflicts, h, if_false, List.append_eq_nil_iff, conflictsWith_nil, ih]
      simp [h]

/-! ### the whole validation -/

/-- the model of the validation never panics and never returns an error value: it yields a list -/
theorem validate_total (env : Env) (known : List Known) (c : Cluster) : ∃ e, validate env known c = .ok e := by
  obtain ⟨ns, e3, hl, _, _⟩ := vfcLoop_spec (child (child "spec" "flowControl") "flowControlSchemas") c.schemas 0 []
  simp [validate, validateUpstreamCluster, validateUpstreamClusterSpec, validateFlowControl, hl, bind, Except.bind, pure, Except.pure]

theorem validate_ok_iff_valid (env : Env) (known : List Known) (c : Cluster) :
    validate env known c = .ok [] ↔ valid env known c = true := by
  obtain ⟨ns, e3, hl, hiff, hns⟩ := vfcLoop_spec (child (child "spec" "flowControl") "flowControlSchemas") c.schemas 0 []
  obtain ⟨hs1, hs2, hs3⟩ := validateServers_spec env c.servers (child "spec" "servers")
  simp only [validate, validateUpstreamCluster, validateUpstreamClusterSpec, validateFlowControl, hl, bind, Except.bind,
    pure, Except.pure, Except.ok.injEq, List.append_eq_nil_iff, validateClientConfig_nil, validateSecureServing_nil,
    validateFeatureGate_nil, validateConflicts_nil, validatePolicies_nil, hs3, errIf_eq_nil, validateLoggingConfig]
  simp only [List.nil_append, List.not_mem_nil, not_false_eq_true, implies_true, true_and] at hiff hns
  constructor
  · rintro ⟨⟨⟨hm, ⟨⟨⟨⟨⟨⟨hsrv, hcl⟩, hss⟩, he3⟩, hlog⟩, hpol0⟩, hpol⟩⟩, hg⟩, hk⟩
    have hsv := hs1.mp hsrv
    rw [hs2 hsrv] at hcl
    have hsch := hiff.mp he3
    rw [hns he3] at hpol
    simp only [valid, usable, classes, formOK, Bool.and_eq_true, decide_eq_true_eq, List.all_eq_true, policyRefsOK,
      Bool.or_eq_true, List.contains_iff_mem]
    have hlog' : logModeOK c.loggingMode = true := by simpa using hlog
    have hp0 : c.policies ≠ [] := by simpa using hpol0
    exact ⟨⟨⟨⟨⟨hm, ⟨⟨⟨⟨⟨⟨hsv.1, hsv.2.1⟩, hsv.2.2⟩, hcl.2⟩, hss⟩, fun x hx => (hsch.2 x hx).2⟩, hsch.1⟩,
      fun x hx => ⟨(hpol x hx).2.1, (hpol x hx).2.2.1⟩⟩, hcl.1⟩,
      ⟨⟨fun x hx => (hsch.2 x hx).1, hlog'⟩, hp0⟩, fun x hx => ⟨⟨(hpol x hx).1, (hpol x hx).2.2.2.1⟩, (hpol x hx).2.2.2.2⟩⟩, hg⟩, hk⟩
  · intro hv
    simp only [valid, usable, classes, formOK, Bool.and_eq_true, decide_eq_true_eq, List.all_eq_true, policyRefsOK,
      Bool.or_eq_true, List.contains_iff_mem] at hv
    obtain ⟨⟨⟨⟨⟨hm, ⟨⟨⟨⟨⟨⟨hsv1, hsv2⟩, hsv3⟩, hcl2⟩, hss⟩, hsch2⟩, hsch1⟩, hpolr⟩, hcl1⟩,
      ⟨⟨hstr, hlog⟩, hp0⟩, hpolf⟩, hg⟩, hk⟩ := hv
    have hsrv := hs1.mpr ⟨hsv1, hsv2, hsv3⟩
    have he3 : e3 = [] := hiff.mpr ⟨hsch1, fun s hs => ⟨hstr s hs, hsch2 s hs⟩⟩
    rw [hs2 hsrv, hns he3]
    refine ⟨⟨⟨hm, ⟨⟨⟨⟨⟨⟨hsrv, hcl1, hcl2⟩, hss⟩, he3⟩, by simpa using hlog⟩, by simpa using hp0⟩, ?_⟩⟩, hg⟩, hk⟩
    intro pol hp
    exact ⟨(hpolf pol hp).1.1, (hpolr pol hp).1, (hpolr pol hp).2, (hpolf pol hp).1.2, (hpolf pol hp).2⟩

/-! ### the gateway's consumers -/

/-- numbers of an accepted schema survive the `uint32` conversion -/
theorem toU32_of_nonneg (x : Int) (h0 : 0 ≤ x) (h1 : x < 4294967296) : toU32 x = x.toNat := by
  unfold toU32
  rw [Int.emod_eq_of_lt h0 h1]

theorem newFlowControl_ok (s : Schema) (h : schemaOK s = true) : ∃ fc, newFlowControl s = .ok fc := by
  obtain ⟨name, strategy, exempt, m, tb, gm, gtb⟩ := s
  cases exempt <;> cases m <;> cases tb <;> cases gm <;> cases gtb <;>
    simp [schemaOK, shapeOf] at h <;>
    simp [newFlowControl, guessFlowControlSchemaType, deref, bind, Except.bind, pure, Except.pure]

theorem localWrapperSync_ok (w : FlowControlCache) (s : Schema) (h : schemaOK s = true) :
    ∃ w', localWrapperSync w s = .ok w' := by
  unfold localWrapperSync
  split
  · exact ⟨_, rfl⟩
  · obtain ⟨fc, hfc⟩ := newFlowControl_ok s h
    cases hw : w.fc with
    | none => simp [hfc, bind, Except.bind, pure, Except.pure]
    | some cur =>
      simp only []
      split
      · simp [hfc, bind, Except.bind, pure, Except.pure]
      · obtain ⟨name, strategy, exempt, m, tb, gm, gtb⟩ := s
        cases exempt <;> cases m <;> cases tb <;> cases gm <;> cases gtb <;>
          simp [schemaOK, shapeOf] at h <;>
          simp [guessFlowControlSchemaType, deref, bind, Except.bind, pure, Except.pure]

theorem syncOneSchema_ok (fcs : List (Str × FlowControlCache)) (a : Schema) (h : schemaOK a = true) :
    ∃ fcs', syncOneSchema fcs a = .ok fcs' := by
  unfold syncOneSchema
  obtain ⟨w', hw⟩ := localWrapperSync_ok (loadOrNew fcs a.name) a h
  exact ⟨alSet fcs a.name w', by simp [hw, bind, Except.bind, pure, Except.pure]⟩

theorem upstreamLimiterSync_ok (l : UpstreamLimiter) (schemas : List Schema) (h : ∀ s ∈ schemas, schemaOK s = true) :
    ∃ l', upstreamLimiterSync l schemas = .ok l' := by
  unfold upstreamLimiterSync
  split
  · exact ⟨_, rfl⟩
  · obtain ⟨fcs, hf, _⟩ := foldM'_ok syncOneSchema (fun _ => True) schemas (by
      intro fcs _ a ha
      obtain ⟨f', hf'⟩ := syncOneSchema_ok fcs a (h a ha)
      exact ⟨f', hf', trivial⟩) l.flowControls trivial
    simp [hf, bind, Except.bind, pure, Except.pure]

theorem syncFeatureGate_ok (env : Env) (c : Cluster) (h : featureGateOK env c = true) :
    ∃ b, syncFeatureGate env c.annotations = .ok b := by
  unfold featureGateOK at h
  unfold syncFeatureGate
  cases ha : c.annotations with
  | none => exact ⟨false, by simp [pure, Except.pure]⟩
  | some m =>
    simp only [ha] at h ⊢
    by_cases he : mapGet m sFeatureGateKey = []
    · exact ⟨false, by simp [he, pure, Except.pure]⟩
    · cases hg : env.featureGateSet (mapGet m sFeatureGateKey) with
      | none => simp [he, hg] at h
      | some b => exact ⟨b, by simp [he, pure, Except.pure]⟩

theorem syncSecureServingConfig_ok (env : Env) (old new : SecureServing) (h : servingOK env new = true) :
    syncSecureServingConfig env old new = .ok new := by
  obtain ⟨key, cert, ca, names⟩ := new
  by_cases hk : key = [] <;> by_cases hc : cert = [] <;> by_cases ha : ca = [] <;>
    simp [servingOK, hk, hc, ha] at h <;> simp [syncSecureServingConfig, hk, hc, ha, h, pure, Except.pure]

/-- the client TLS configuration built from a valid object is accepted by client-go -/
theorem tlsConfigFor_ok (env : Env) (scheme : Str) (c : ClientConfig) (h : clientTLSOK env scheme c = true) :
    tlsConfigFor env (if scheme = sHttps then some ⟨c.keyData, c.certData, c.caData, c.insecure⟩ else none) = .ok () := by
  obtain ⟨insecure, token, key, cert, ca, qps, burst, div⟩ := c
  by_cases hs : scheme = sHttps
  · by_cases hk : key = [] <;> by_cases hc : cert = [] <;> by_cases ha : ca = [] <;> cases insecure <;>
      simp [clientTLSOK, hs, hk, hc, ha] at h <;> simp [tlsConfigFor, hs, hk, hc, ha, h, pure, Except.pure]
  · simp [tlsConfigFor, hs, pure, Except.pure]

theorem buildClusterRESTConfig_ok (env : Env) (henv : EnvOK env) (c : Cluster)
    (hne : c.servers ≠ []) (hep : ∀ s ∈ c.servers, endpointOK env s.endpoint = true) :
    buildClusterRESTConfig env c = .ok (if schemeOf c.servers = sHttps
      then some ⟨c.clientConfig.keyData, c.clientConfig.certData, c.clientConfig.caData, c.clientConfig.insecure⟩ else none) := by
  unfold buildClusterRESTConfig schemeOf
  cases hsv : c.servers with
  | nil => exact absurd hsv hne
  | cons s rest =>
    have h1 := hep s (by simp [hsv])
    unfold endpointOK at h1
    cases hu : env.urlParse s.endpoint with
    | none => simp [hu] at h1
    | some u =>
      simp [hu] at h1
      have := henv.scheme_agrees s.endpoint u hu h1.1
      simp [hu, this, bind, Except.bind, pure, Except.pure]
      split <;> rfl

theorem addOrUpdateEndpoint_ok (env : Env) (tls : Option TLSClientConfig) (htls : tlsConfigFor env tls = .ok ())
    (eps : List Str) (e : Str) (he : env.restHostOK e = true) : ∃ eps', addOrUpdateEndpoint env tls eps e = .ok eps' := by
  unfold addOrUpdateEndpoint
  split
  · exact ⟨_, rfl⟩
  · simp [htls, he, bind, Except.bind, pure, Except.pure]

theorem restHostOK_of_endpointOK (env : Env) (henv : EnvOK env) (e : Str) (h : endpointOK env e = true) :
    env.restHostOK e = true := by
  unfold endpointOK at h
  cases hu : env.urlParse e with
  | none => simp [hu] at h
  | some u =>
    simp [hu] at h
    have hs := henv.scheme_agrees e u hu h.1
    exact henv.rest_host e u hu (by rw [hs]; exact h.1) h.2

theorem syncEndpoints_ok (env : Env) (henv : EnvOK env) (tls : Option TLSClientConfig) (htls : tlsConfigFor env tls = .ok ())
    (eps : List Str) (servers : List Server) (hep : ∀ s ∈ servers, endpointOK env s.endpoint = true) :
    ∃ eps', syncEndpoints env tls eps servers = .ok eps' := by
  unfold syncEndpoints
  obtain ⟨r, hr, _⟩ := foldM'_ok (addOrUpdateEndpoint env tls) (fun _ => True) (servers.map (·.endpoint)) (by
    intro st _ a ha
    simp at ha
    obtain ⟨s, hs, rfl⟩ := ha
    obtain ⟨e', he'⟩ := addOrUpdateEndpoint_ok env tls htls st s.endpoint (restHostOK_of_endpointOK env henv _ (hep s hs))
    exact ⟨e', he', trivial⟩) (eps.filter (fun e => (servers.map (·.endpoint)).contains e)) trivial
  exact ⟨r, hr⟩

/-- `Sync` of a valid object succeeds on every `ClusterInfo` whose rest config client-go accepts, and keeps it so -/
theorem sync_ok (env : Env) (henv : EnvOK env) (known : List Known) (c : Cluster) (hv : valid env known c = true)
    (ci : ClusterInfo) (htls : tlsConfigFor env ci.restTLS = .ok ()) :
    ∃ ci', ci.sync env c = .ok ci' ∧ ci'.restTLS = ci.restTLS ∧ ci'.cluster = ci.cluster ∧
      (ci.cluster = env.lower c.name → ci'.secureServing = c.secureServing ∧
        ∀ fl, upstreamLimiterSync ci.flowcontrol c.schemas = .ok fl → ci'.flowcontrol = fl) := by
  simp only [valid, usable, classes, Bool.and_eq_true, decide_eq_true_eq, List.all_eq_true] at hv
  obtain ⟨⟨⟨⟨⟨hm, ⟨⟨⟨⟨⟨⟨hsv1, hsv2⟩, hsv3⟩, hcl2⟩, hss⟩, hsch2⟩, hsch1⟩, hpolr⟩, hcl1⟩, hform⟩, hg⟩, hk⟩ := hv
  unfold ClusterInfo.sync
  split
  · rename_i hne
    exact ⟨ci, rfl, rfl, rfl, fun h => absurd h hne⟩
  · obtain ⟨b, hb⟩ := syncFeatureGate_ok env c hg
    obtain ⟨fl, hfl⟩ := upstreamLimiterSync_ok ci.flowcontrol c.schemas hsch2
    have hssv := syncSecureServingConfig_ok env ci.secureServing c.secureServing hss
    obtain ⟨eps, heps⟩ := syncEndpoints_ok env henv ci.restTLS htls ci.endpoints c.servers hsv2
    simp only [hb, hfl, hssv, heps, bind, Except.bind, pure, Except.pure]
    exact ⟨_, rfl, rfl, rfl, fun _ => ⟨rfl, fun fl' h' => by cases h'; rfl⟩⟩

/-- `CreateClusterInfo` of a valid object succeeds -/
theorem createClusterInfo_ok (env : Env) (henv : EnvOK env) (known : List Known) (c : Cluster) (hv : valid env known c = true)
    (remote : Bool) : ∃ ci, createClusterInfo env remote c = .ok ci ∧ tlsConfigFor env ci.restTLS = .ok () ∧
      ci.cluster = env.lower c.name ∧ ci.secureServing = c.secureServing ∧
      ∀ fl, upstreamLimiterSync ⟨[], []⟩ c.schemas = .ok fl → ci.flowcontrol = fl := by
  have hv' := hv
  simp only [valid, usable, classes, Bool.and_eq_true, decide_eq_true_eq, List.all_eq_true] at hv'
  obtain ⟨⟨⟨⟨⟨hm, ⟨⟨⟨⟨⟨⟨hsv1, hsv2⟩, hsv3⟩, hcl2⟩, hss⟩, hsch2⟩, hsch1⟩, hpolr⟩, hcl1⟩, hform⟩, hg⟩, hk⟩ := hv'
  have hb := buildClusterRESTConfig_ok env henv c hsv1 hsv2
  have htls := tlsConfigFor_ok env (schemeOf c.servers) c.clientConfig hcl2
  obtain ⟨ci', h1, h2, h3, h4⟩ := sync_ok env henv known c hv
    (newEmptyClusterInfo env c.name (if schemeOf c.servers = sHttps
      then some ⟨c.clientConfig.keyData, c.clientConfig.certData, c.clientConfig.caData, c.clientConfig.insecure⟩ else none) remote)
    (by simpa [newEmptyClusterInfo] using htls)
  refine ⟨ci', ?_, ?_, ?_, ?_, ?_⟩
  · simp [createClusterInfo, hb, h1, bind, Except.bind]
  · rw [h2]; simpa [newEmptyClusterInfo] using htls
  · rw [h3]; rfl
  · exact (h4 rfl).1
  · exact (h4 rfl).2

/-! ### the controller -/

/-- "the manager reflects the lister": every name registered for another cluster is a (lower-cased) name of a
    cluster the lister knows -/
def ManagerReflects (env : Env) (known : List Known) (c : Cluster) (m : Manager) : Prop :=
  ∀ k ci, alGet m k = some ci → ci.cluster ≠ env.lower c.name →
    ∃ u ∈ known, env.lower u.name = ci.cluster ∧ ∃ s ∈ u.name :: u.serverNames, k = env.lower s

theorem noConflict_manager (env : Env) (henv : EnvOK env) (known : List Known) (c : Cluster) (m : Manager)
    (hk : noConflict env known c = true) (hm : ManagerReflects env known c m) :
    ∀ n ∈ serverNamesOf env c.name c.secureServing, ∀ ci, alGet m n = some ci → ci.cluster = env.lower c.name := by
  intro n hn ci hget
  apply Decidable.byContradiction
  intro hne
  obtain ⟨u, hu, hun, s, hs, hks⟩ := hm n ci hget hne
  unfold noConflict at hk
  simp only [List.all_eq_true, Bool.or_eq_true, decide_eq_true_eq, Bool.and_eq_true] at hk
  rcases hk u hu with h | h
  · exact hne (by rw [← hun, h])
  · have hs' := h s hs
    simp only [serverNamesOf, List.mem_cons, List.mem_map] at hn
    rcases hn with rfl | ⟨sn, hsn, rfl⟩
    · apply hs'.1
      rw [hks, henv.lower_idem]
    · have := hs'.2 sn hsn
      simp at this
      exact this hks

theorem checkServerNameConflict_false (m : Manager) (cn : Str) (new : List Str)
    (h : ∀ n ∈ new, ∀ ci, alGet m n = some ci → ci.cluster = cn) : checkServerNameConflict m cn [] new = false := by
  unfold checkServerNameConflict
  split
  · rfl
  · simp only [List.filter_nil, List.any_nil, Bool.or_false, List.any_eq_false]
    intro n hn
    cases hg : alGet m n with
    | none => simp
    | some ci => simp [h n hn ci hg]

/-- the controller's sync handler bootstraps a valid object (one it has no `ClusterInfo` for yet) -/
theorem syncUpstreamCluster_ok (env : Env) (henv : EnvOK env) (known : List Known) (c : Cluster)
    (hv : valid env known c = true) (remote : Bool) (m : Manager) (hm : ManagerReflects env known c m)
    (hnew : alGet m (env.lower c.name) = none) : ∃ m', syncUpstreamCluster env remote m c = .ok m' := by
  have hk : noConflict env known c = true := by
    simp only [valid, Bool.and_eq_true] at hv; exact hv.2
  have hnames := noConflict_manager env henv known c m hk hm
  obtain ⟨ci, hci, _, hcl, hss, _⟩ := createClusterInfo_ok env henv known c hv remote
  have hc1 := checkServerNameConflict_false m (env.lower c.name) (serverNamesOf env c.name c.secureServing) hnames
  unfold syncUpstreamCluster
  simp only [hnew, hc1, hci, Bool.false_eq_true, if_false]
  have : addOrUpdateForServerNames env m [] ci = .ok
      (((ci.cluster :: ci.secureServing.serverNames.map env.lower).filter (fun n => !([] : List Str).contains n)).foldl
        (fun acc n => alSet acc n ci) m) := by
    unfold addOrUpdateForServerNames
    have hc2 : checkServerNameConflict m ci.cluster [] (ci.cluster :: ci.secureServing.serverNames.map env.lower) = false := by
      rw [hcl, hss]; exact hc1
    simp [hc2, pure, Except.pure]
  rw [this]
  exact ⟨_, rfl⟩

/-! ### the limiter server -/

theorem toFlowControlLimit_ok (s : Schema) : ∃ d, toFlowControlLimit s = .ok d ∧
    d = ⟨s.globalMaxRequestsInflight, if s.globalMaxRequestsInflight.isSome then none else s.globalTokenBucket⟩ := by
  obtain ⟨name, strategy, exempt, m, tb, gm, gtb⟩ := s
  cases gm <;> cases gtb <;> simp [toFlowControlLimit, deref, bind, Except.bind, pure, Except.pure]

theorem upstreamStateItem_ok (old : List Status) (s : Schema) : ∃ r, upstreamStateItem old s = .ok r ∧
    r.1 = ⟨s.name, [], ⟨s.globalMaxRequestsInflight, if s.globalMaxRequestsInflight.isSome then none else s.globalTokenBucket⟩⟩ := by
  obtain ⟨d, hd, hd'⟩ := toFlowControlLimit_ok s
  unfold upstreamStateItem
  simp only [hd, bind, Except.bind, pure, Except.pure]
  exact ⟨_, rfl, by simp [hd']⟩

theorem newGlobalFlowControl_ok (s : Schema) : ∃ r, newGlobalFlowControl s = .ok r := by
  obtain ⟨name, strategy, exempt, m, tb, gm, gtb⟩ := s
  cases gm <;> cases gtb <;> simp [newGlobalFlowControl, deref, bind, Except.bind, pure, Except.pure]

theorem resizeGlobalFlowControl_ok (fc : GlobalFC) (s : Schema) : ∃ r, resizeGlobalFlowControl fc s = .ok r := by
  obtain ⟨name, strategy, exempt, m, tb, gm, gtb⟩ := s
  cases gm <;> cases gtb <;> simp [resizeGlobalFlowControl, deref, bind, Except.bind, pure, Except.pure]

theorem storeSyncOne_ok (fcs : List (Str × GlobalFC)) (s : Schema) : ∃ r, storeSyncOne fcs s = .ok r := by
  unfold storeSyncOne
  split
  · exact ⟨_, rfl⟩
  · obtain ⟨g, hg⟩ := newGlobalFlowControl_ok s
    cases ha : alGet fcs s.name with
    | none => cases g <;> simp [hg, bind, Except.bind, pure, Except.pure]
    | some cur =>
      simp only []
      by_cases ht : cur.typ ≠ guessFlowControlSchemaType s
      · cases g with
        | none =>
          obtain ⟨r, hr⟩ := resizeGlobalFlowControl_ok cur s
          simp [ht, hg, hr, bind, Except.bind, pure, Except.pure]
        | some g' =>
          obtain ⟨r, hr⟩ := resizeGlobalFlowControl_ok g' s
          simp [ht, hg, hr, bind, Except.bind, pure, Except.pure]
      · obtain ⟨r, hr⟩ := resizeGlobalFlowControl_ok cur s
        simp [ht, hr, bind, Except.bind, pure, Except.pure]

theorem mapM'_map {α β γ : Type} (f : α → M β) (g : β → γ) (k : α → γ) (l : List α)
    (h : ∀ a ∈ l, ∃ b, f a = .ok b ∧ g b = k a) : ∃ bs, mapM' f l = .ok bs ∧ bs.map g = l.map k := by
  induction l with
  | nil => exact ⟨[], rfl, rfl⟩
  | cons a l ih =>
    obtain ⟨b, hb, hg⟩ := h a (by simp)
    obtain ⟨bs, hbs, hm⟩ := ih (fun x hx => h x (by simp [hx]))
    exact ⟨b :: bs, by simp [mapM', hb, hbs, bind, Except.bind, pure, Except.pure], by simp [hg, hm]⟩

theorem storeSyncFlowControls_ok (u : Upstream) (schemas : List Schema) :
    ∃ u', storeSyncFlowControls u schemas = .ok u' ∧ u'.state = u.state ∧ u'.instances = u.instances := by
  unfold storeSyncFlowControls
  split
  · exact ⟨u, rfl, rfl, rfl⟩
  · obtain ⟨fcs, hf, _⟩ := foldM'_ok storeSyncOne (fun _ => True) schemas (by
      intro st _ a _
      obtain ⟨r, hr⟩ := storeSyncOne_ok st a
      exact ⟨r, hr, trivial⟩) u.flowControls trivial
    simp only [hf, bind, Except.bind, pure, Except.pure]
    exact ⟨_, rfl, rfl, rfl⟩

/-- the limiter server's handler never fails, whatever the object and whatever its state -/
theorem upstreamConditionHandler_ok (u : Upstream) (c : Cluster) : ∃ u', upstreamConditionHandler u c = .ok u' ∧
    u'.state.items = c.schemas.map (fun s => ⟨s.name, [],
      ⟨s.globalMaxRequestsInflight, if s.globalMaxRequestsInflight.isSome then none else s.globalTokenBucket⟩⟩) ∧
    u'.instances = u.instances := by
  obtain ⟨l, hl, hmap⟩ := mapM'_map (upstreamStateItem u.state.statuses) (·.1)
    (fun s => (⟨s.name, [], ⟨s.globalMaxRequestsInflight, if s.globalMaxRequestsInflight.isSome then none else s.globalTokenBucket⟩⟩ : Item))
    c.schemas (fun s _ => upstreamStateItem_ok u.state.statuses s)
  obtain ⟨u', hu', hst, hin⟩ := storeSyncFlowControls_ok
    { u with state := ⟨l.map (·.1), l.map (·.2)⟩ } c.schemas
  refine ⟨u', ?_, ?_, ?_⟩
  · simp only [upstreamConditionHandler, updateUpstreamStateCondition, hl, bind, Except.bind, pure, Except.pure]
    exact hu'
  · rw [hst]; exact hmap
  · rw [hin]

/-! ### limiter sizes after a first application -/

theorem newFlowControl_expected (s : Schema) (h : schemaOK s = true) (ht : wellTyped s = true) :
    ∃ fc, newFlowControl s = .ok fc ∧ expectedLocal s = some fc := by
  obtain ⟨name, strategy, exempt, m, tb, gm, gtb⟩ := s
  cases exempt <;> cases m <;> cases tb <;> cases gm <;> cases gtb <;>
    simp [schemaOK, shapeOf, Shape.inRange] at h <;>
    simp [wellTyped, isInt32] at ht <;>
    simp [newFlowControl, guessFlowControlSchemaType, deref, bind, Except.bind, pure, Except.pure, expectedLocal, shapeOf] <;>
    (try (refine ⟨?_, ?_⟩)) <;> (symm; apply toU32_of_nonneg <;> omega)

theorem localWrapperSync_fresh (s : Schema) (hn : s.name ≠ []) (h : schemaOK s = true) (ht : wellTyped s = true) :
    localWrapperSync newFlowControlCache s = .ok ⟨expectedLocal s, s, none⟩ := by
  obtain ⟨fc, hfc, he⟩ := newFlowControl_expected s h ht
  have hne : s ≠ emptySchema := by
    intro heq; apply hn; rw [heq]; rfl
  simp [localWrapperSync, newFlowControlCache, hne, hfc, he, bind, Except.bind, pure, Except.pure]

theorem alGet_map_entryOf_none (l : List Schema) (x : Str) (h : x ∉ l.map (·.name)) : alGet (l.map entryOf) x = none := by
  induction l with
  | nil => rfl
  | cons a l ih =>
    simp at h
    have hne : ¬ (a.name = x) := fun e => h.1 e.symm
    simp [alGet, entryOf, hne]
    exact ih (by simpa using h.2)

theorem alSet_of_none {β : Type} (l : List (Str × β)) (x : Str) (v : β) (h : alGet l x = none) : alSet l x v = l ++ [(x, v)] := by
  induction l with
  | nil => rfl
  | cons a l ih =>
    obtain ⟨k, w⟩ := a
    by_cases hk : k = x
    · simp [alGet, hk] at h
    · simp [alGet, hk] at h
      simp [alSet, hk, ih h]

theorem namesOK_append_cons (pre : List Schema) (s : Schema) (rest : List Schema) (h : namesOK (pre ++ s :: rest) = true) :
    s.name ≠ [] ∧ s.name ∉ pre.map (·.name) := by
  induction pre with
  | nil => simp [namesOK] at h; exact ⟨h.1.1, by simp⟩
  | cons a pre ih =>
    simp [namesOK] at h
    obtain ⟨⟨_, h2⟩, h3⟩ := h
    have := ih (by simpa using h3)
    refine ⟨this.1, ?_⟩
    simp
    refine ⟨?_, by simpa using this.2⟩
    intro heq
    exact h2.2.1 heq.symm

theorem foldSync_fresh (rest : List Schema) : ∀ (pre : List Schema), namesOK (pre ++ rest) = true →
    (∀ s ∈ rest, schemaOK s = true ∧ wellTyped s = true) →
    foldM' syncOneSchema (pre.map entryOf) rest = .ok ((pre ++ rest).map entryOf) := by
  induction rest with
  | nil => intro pre _ _; simp [foldM', pure, Except.pure]
  | cons s rest ih =>
    intro pre hn hs
    obtain ⟨h1, h2⟩ := namesOK_append_cons pre s rest hn
    have hg := alGet_map_entryOf_none pre s.name h2
    have hsync := localWrapperSync_fresh s h1 (hs s (by simp)).1 (hs s (by simp)).2
    have step : syncOneSchema (pre.map entryOf) s = .ok ((pre ++ [s]).map entryOf) := by
      simp [syncOneSchema, loadOrNew, hg, hsync, bind, Except.bind, pure, Except.pure, alSet_of_none _ _ _ hg, entryOf]
    simp only [foldM', step, bind, Except.bind]
    have := ih (pre ++ [s]) (by simpa using hn) (fun t ht => hs t (by simp [ht]))
    simpa using this

/-- a gateway that applies a valid object to a new cluster ends up with exactly one limiter per schema, of the
    configured type and size (`uint32` conversions lose nothing), and no remote limiter -/
theorem upstreamLimiterSync_fresh (schemas : List Schema) (hn : namesOK schemas = true)
    (hs : ∀ s ∈ schemas, schemaOK s = true ∧ wellTyped s = true) :
    upstreamLimiterSync ⟨[], []⟩ schemas = .ok ⟨schemas.map entryOf, schemas⟩ := by
  unfold upstreamLimiterSync
  by_cases he : ([] : List Schema) = schemas
  · subst he; simp [pure, Except.pure]
  · have := foldSync_fresh schemas [] (by simpa using hn) hs
    simp at this
    simp [he, this, bind, Except.bind, pure, Except.pure]

theorem createClusterInfo_sizes (env : Env) (henv : EnvOK env) (known : List Known) (c : Cluster) (hv : valid env known c = true)
    (ht : ∀ s ∈ c.schemas, wellTyped s = true) (remote : Bool) :
    ∃ ci, createClusterInfo env remote c = .ok ci ∧ ci.flowcontrol.flowControls = c.schemas.map entryOf := by
  obtain ⟨ci, hci, _, _, _, hfl⟩ := createClusterInfo_ok env henv known c hv remote
  have hv' := hv
  simp only [valid, usable, classes, Bool.and_eq_true, decide_eq_true_eq, List.all_eq_true] at hv'
  have hn : namesOK c.schemas = true := hv'.1.1.1.1.2.1.2
  have hs : ∀ s ∈ c.schemas, schemaOK s = true := hv'.1.1.1.1.2.1.1.2
  have := hfl _ (upstreamLimiterSync_fresh c.schemas hn (fun s h => ⟨hs s h, ht s h⟩))
  exact ⟨ci, hci, by rw [this]⟩

/-! ### the reconcile period against the limiter server -/

local notation "stype" => getFlowControlTypeFromLimitItem

/-- the detail of the limiter server's upstream item for a schema (`toFlowControlLimit`) -/
def detailOf (s : Schema) : Detail :=
  ⟨s.globalMaxRequestsInflight, if s.globalMaxRequestsInflight.isSome then none else s.globalTokenBucket⟩

def itemOf (s : Schema) : Item := ⟨s.name, [], detailOf s⟩

/-- the kind of global limit a schema configures -/
def gtype (s : Schema) : FCType := stype (detailOf s)

theorem stype_raw (s : Schema) : stype ⟨s.globalMaxRequestsInflight, s.globalTokenBucket⟩ = gtype s := by
  obtain ⟨name, strategy, exempt, m, tb, gm, gtb⟩ := s
  cases gm <;> cases gtb <;> simp [gtype, detailOf, getFlowControlTypeFromLimitItem]

theorem gtype_of_global (s : Schema) (h : schemaOK s = true) (hg : hasGlobal s = true) :
    gtype s = guessFlowControlSchemaType s ∧ (gtype s = .maxRequestsInflight ∨ gtype s = .tokenBucket) := by
  obtain ⟨name, strategy, exempt, m, tb, gm, gtb⟩ := s
  cases exempt <;> cases m <;> cases tb <;> cases gm <;> cases gtb <;>
    simp [schemaOK, shapeOf] at h <;> simp [hasGlobal] at hg <;>
    simp [gtype, detailOf, getFlowControlTypeFromLimitItem, guessFlowControlSchemaType]

theorem enableGlobal_hasGlobal (s : Schema) (h : enableGlobalFlowControl s = true) : hasGlobal s = true := by
  simp only [enableGlobalFlowControl, Bool.and_eq_true] at h
  exact h.2

theorem stype_max (d : Detail) : stype d = .maxRequestsInflight ↔ d.maxRequestsInflight.isSome = true := by
  obtain ⟨m, t⟩ := d
  cases m <;> cases t <;> simp [getFlowControlTypeFromLimitItem]

theorem stype_tb (d : Detail) : stype d = .tokenBucket ↔ (d.maxRequestsInflight = none ∧ d.tokenBucket.isSome = true) := by
  obtain ⟨m, t⟩ := d
  cases m <;> cases t <;> simp [getFlowControlTypeFromLimitItem]

theorem stype_bound (lc : Schema) (it : Item) : stype (boundByGlobalLimit lc it).detail = stype it.detail := by
  obtain ⟨n, st, ⟨m, t⟩⟩ := it
  cases m <;> cases t <;> simp [boundByGlobalLimit, getFlowControlTypeFromLimitItem]

theorem resize_typ (f : FlowCtl) (n b : Nat) : (f.resize n b).typ = f.typ := by
  unfold FlowCtl.resize; split <;> rfl

/-- building the remote limiter from an item that carries a limit succeeds, whatever the strategy -/
theorem remoteNew_ok (it : Item) (T : FCType) (hT : T = .maxRequestsInflight ∨ T = .tokenBucket) (h : stype it.detail = T) :
    ∃ fc, remoteNewFlowControl it = .ok fc ∧ fc.typ = T := by
  obtain ⟨n, st, ⟨m, t⟩⟩ := it
  rcases hT with rfl | rfl
  · have hm := (stype_max _).mp h
    cases m with
    | none => simp at hm
    | some mv =>
      by_cases hs : st ≠ sGlobalCountLimit <;>
        simp [remoteNewFlowControl, toFlowControlSchema, newFlowControl, guessFlowControlSchemaType, emptySchema, deref,
          bind, Except.bind, pure, Except.pure, hs, resize_typ]
  · have hm := (stype_tb _).mp h
    simp at hm
    obtain ⟨rfl, ht⟩ := hm
    cases t with
    | none => simp at ht
    | some tv =>
      by_cases hs : st ≠ sGlobalCountLimit <;>
        simp [remoteNewFlowControl, toFlowControlSchema, newFlowControl, guessFlowControlSchemaType, emptySchema, deref,
          bind, Except.bind, pure, Except.pure, hs, resize_typ]

/-- a remote wrapper is consistent with the local configuration it belongs to -/
def RemoteOK (lc : Schema) (r : RemoteWrapper) : Prop :=
  ∃ fc, r.fc = some fc ∧ fc.typ = stype r.remoteConfig.detail ∧ stype r.remoteConfig.detail = gtype lc

theorem remoteWrapperSync_ok (lc : Schema) (hT : gtype lc = .maxRequestsInflight ∨ gtype lc = .tokenBucket)
    (r : RemoteWrapper) (hr : RemoteOK lc r ∨ r = ⟨none, emptyItem, emptyItem⟩)
    (it : Item) (hit : stype it.detail = gtype lc) :
    ∃ r', remoteWrapperSync lc r it = .ok r' ∧ RemoteOK lc r' := by
  have happ : stype (boundByGlobalLimit lc it).detail = gtype lc := by rw [stype_bound]; exact hit
  obtain ⟨nfc, hnew, hntyp⟩ := remoteNew_ok (boundByGlobalLimit lc it) (gtype lc) hT happ
  have hnewOK : RemoteOK lc ⟨some nfc, it, boundByGlobalLimit lc it⟩ := ⟨nfc, rfl, by simp [hntyp, hit], hit⟩
  unfold remoteWrapperSync
  simp only []
  split
  · -- nothing changed
    rename_i heq
    rcases hr with hr | hr
    · exact ⟨r, rfl, hr⟩
    · exfalso
      simp only [Bool.and_eq_true, decide_eq_true_eq] at heq
      rw [hr] at heq
      have : stype it.detail = .unknown := by rw [heq.1]; rfl
      rw [hit] at this
      rcases hT with h | h <;> simp [h] at this
  · cases hfc : r.fc with
    | none =>
      simp only [hnew, bind, Except.bind, pure, Except.pure]
      exact ⟨_, rfl, hnewOK⟩
    | some cur =>
      simp only []
      split
      · simp only [hnew, bind, Except.bind, pure, Except.pure]
        exact ⟨_, rfl, hnewOK⟩
      · rename_i hsame
        simp only [Bool.or_eq_true, decide_eq_true_eq, not_or, Decidable.not_not] at hsame
        split
        · rename_i hb
          simp only [Bool.and_eq_true, decide_eq_true_eq] at hb
          have hs : (boundByGlobalLimit lc it).detail.maxRequestsInflight.isSome = true :=
            (stype_max _).mp (by rw [stype_bound]; exact (stype_max _).mpr hb.1)
          cases hm : (boundByGlobalLimit lc it).detail.maxRequestsInflight with
          | none => simp [hm] at hs
          | some mv =>
            simp only [deref, bind, Except.bind, pure, Except.pure]
            refine ⟨_, rfl, _, rfl, ?_, hit⟩
            simp only [resize_typ]
            rw [hb.2]; exact ((stype_max _).mpr hb.1).symm
        · split
          · rename_i hnb hb
            simp only [Bool.and_eq_true, decide_eq_true_eq] at hb
            have hty : stype it.detail = .tokenBucket := hsame.1.symm.trans hb.2
            have hs := (stype_tb _).mp (by rw [stype_bound]; exact hty : stype (boundByGlobalLimit lc it).detail = .tokenBucket)
            cases hm : (boundByGlobalLimit lc it).detail.tokenBucket with
            | none => simp [hm] at hs
            | some tv =>
              simp only [deref, bind, Except.bind, pure, Except.pure]
              refine ⟨_, rfl, _, rfl, ?_, hit⟩
              simp only [resize_typ]
              rw [hb.2]; exact hty.symm
          · simp only [hnew, bind, Except.bind, pure, Except.pure]
            exact ⟨_, rfl, hnewOK⟩

/-- a cache entry of the gateway is consistent with the object `schemas` come from -/
structure EntryOK (schemas : List Schema) (kv : Str × FlowControlCache) : Prop where
  mem : kv.2.localConfig ∈ schemas
  key : kv.1 = kv.2.localConfig.name
  fc : ∃ fc, kv.2.fc = some fc ∧ fc.typ = guessFlowControlSchemaType kv.2.localConfig
  remote : ∀ r, kv.2.remote = some r → enableGlobalFlowControl kv.2.localConfig = true ∧ RemoteOK kv.2.localConfig r

theorem cacheRemoteSync_ok (schemas : List Schema) (hs : ∀ s ∈ schemas, schemaOK s = true)
    (kv : Str × FlowControlCache) (hkv : EntryOK schemas kv) (hen : enableGlobalFlowControl kv.2.localConfig = true)
    (it : Item) (hit : stype it.detail = gtype kv.2.localConfig) :
    ∃ w', cacheRemoteSync kv.2 it = .ok w' ∧ EntryOK schemas (kv.1, w') := by
  have hT := (gtype_of_global _ (hs _ hkv.mem) (enableGlobal_hasGlobal _ hen)).2
  unfold cacheRemoteSync
  cases hrem : kv.2.remote with
  | none =>
    obtain ⟨r', hr', hok⟩ := remoteWrapperSync_ok kv.2.localConfig hT ⟨none, emptyItem, emptyItem⟩ (Or.inr rfl) it hit
    simp only [hr', bind, Except.bind, pure, Except.pure]
    exact ⟨_, rfl, ⟨hkv.mem, hkv.key, hkv.fc, fun r h => by cases h; exact ⟨hen, hok⟩⟩⟩
  | some r =>
    obtain ⟨r', hr', hok⟩ := remoteWrapperSync_ok kv.2.localConfig hT r (Or.inl (hkv.remote r hrem).2) it hit
    simp only [hr', bind, Except.bind, pure, Except.pure]
    exact ⟨_, rfl, ⟨hkv.mem, hkv.key, hkv.fc, fun r h => by cases h; exact ⟨hen, hok⟩⟩⟩

/-- `updateGlobalCuntFlowControls`, one entry. This is where the guard `Gen.C16.countPathGuarded` matters: without
    it a `globalCount` schema without global limit reaches `newFlowControlCounter` with an empty item. -/
theorem updateGlobalCountOne_ok (schemas : List Schema) (hs : ∀ s ∈ schemas, schemaOK s = true)
    (kv : Str × FlowControlCache) (hkv : EntryOK schemas kv) :
    ∃ kv', updateGlobalCountOne kv = .ok kv' ∧ EntryOK schemas kv' := by
  unfold updateGlobalCountOne
  simp only []
  split
  · exact ⟨kv, rfl, hkv⟩
  · split
    · exact ⟨kv, rfl, hkv⟩
    · rename_i hg
      have hen : enableGlobalFlowControl kv.2.localConfig = true := by
        simpa [Gen.C16.countPathGuarded] using hg
      obtain ⟨w', hw', hok⟩ := cacheRemoteSync_ok schemas hs kv hkv hen
        ⟨kv.1, kv.2.localConfig.strategy, ⟨kv.2.localConfig.globalMaxRequestsInflight, kv.2.localConfig.globalTokenBucket⟩⟩
        (stype_raw _)
      simp only [hw', bind, Except.bind, pure, Except.pure]
      exact ⟨_, rfl, hok⟩

/-- `buildLimitConditions`, one entry: what the gateway reports is of the kind of the schema's global limit -/
theorem limitConditionOne_ok (schemas : List Schema) (hs : ∀ s ∈ schemas, schemaOK s = true) (used : Str → Int)
    (kv : Str × FlowControlCache) (hkv : EntryOK schemas kv) :
    ∃ r, limitConditionOne used kv = .ok r ∧ ∀ it st, r = some (it, st) →
      it.name = kv.1 ∧ st.name = kv.1 ∧ (stype it.detail = .unknown ∨ stype it.detail = gtype kv.2.localConfig) ∧
      stype st.detail = gtype kv.2.localConfig := by
  unfold limitConditionOne
  simp only []
  split
  · exact ⟨none, rfl, by intro _ _ h; cases h⟩
  · split
    · exact ⟨none, rfl, by intro _ _ h; cases h⟩
    · rename_i _ hen
      have hen : enableGlobalFlowControl kv.2.localConfig = true := by simpa using hen
      obtain ⟨hgt, hT⟩ := gtype_of_global _ (hs _ hkv.mem) (enableGlobal_hasGlobal _ hen)
      obtain ⟨lfc, hlfc, hltyp⟩ := hkv.fc
      cases hrem : kv.2.remote with
      | none =>
        simp only [hlfc, deref, bind, Except.bind, pure, Except.pure, hltyp, ← hgt]
        rcases hT with h | h
        · simp only [h]
          refine ⟨_, rfl, ?_⟩
          intro it st heq; cases heq
          exact ⟨rfl, rfl, Or.inl rfl, by simp [getFlowControlTypeFromLimitItem]⟩
        · simp only [h]
          refine ⟨_, rfl, ?_⟩
          intro it st heq; cases heq
          exact ⟨rfl, rfl, Or.inl rfl, by simp [getFlowControlTypeFromLimitItem]⟩
      | some r =>
        obtain ⟨_, rfc, hrfc, hrtyp, hrg⟩ := hkv.remote r hrem
        simp only [hlfc, hrfc, deref, bind, Except.bind, pure, Except.pure, hrtyp, hrg]
        rcases hT with h | h
        · simp only [h]
          have hm := (stype_max _).mp (hrg.trans h)
          cases hd : r.remoteConfig.detail.maxRequestsInflight with
          | none => simp [hd] at hm
          | some mv =>
            refine ⟨_, rfl, ?_⟩
            intro it st heq; cases heq
            exact ⟨rfl, rfl, Or.inr (hrg.trans h), by simp [getFlowControlTypeFromLimitItem]⟩
        · simp only [h]
          have hm := (stype_tb _).mp (hrg.trans h)
          cases hd : r.remoteConfig.detail.tokenBucket with
          | none => simp [hd] at hm
          | some tv =>
            refine ⟨_, rfl, ?_⟩
            intro it st heq; cases heq
            exact ⟨rfl, rfl, Or.inr (hrg.trans h), by simp [getFlowControlTypeFromLimitItem]⟩

theorem lookupLast_itemOf (schemas : List Schema) (n : Str) (cfg : Item)
    (h : lookupLast (·.name) (schemas.map itemOf) n = some cfg) : ∃ s ∈ schemas, s.name = n ∧ cfg = itemOf s := by
  unfold lookupLast at h
  have h1 := List.find?_some h
  have h2 := List.mem_of_find?_eq_some h
  simp only [List.mem_reverse, List.mem_map] at h2
  obtain ⟨s, hs, rfl⟩ := h2
  exact ⟨s, hs, of_decide_eq_true h1, rfl⟩

theorem namesOK_unique (l : List Schema) (h : namesOK l = true) (a b : Schema) (ha : a ∈ l) (hb : b ∈ l)
    (hn : a.name = b.name) : a = b := by
  induction l with
  | nil => cases ha
  | cons x l ih =>
    simp only [namesOK, Bool.and_eq_true, decide_eq_true_eq, Bool.not_eq_true', List.contains_eq_mem,
      decide_eq_false_iff_not, List.mem_map, not_exists, not_and] at h
    simp only [List.mem_cons] at ha hb
    rcases ha with rfl | ha <;> rcases hb with rfl | hb
    · rfl
    · exact absurd hn.symm (h.1.2 b hb)
    · exact absurd hn (h.1.2 a ha)
    · exact ih h.2 ha hb

/-- what the gateway may send about a flow control: nothing yet, or a limit of the schema's kind -/
def ItemOK (schemas : List Schema) (it : Item) : Prop :=
  ∀ s ∈ schemas, s.name = it.name → stype it.detail = .unknown ∨ stype it.detail = gtype s

/-- what the server answers: a limit of the schema's kind -/
def AnswerOK (schemas : List Schema) (it : Item) : Prop :=
  ∀ s ∈ schemas, s.name = it.name → stype it.detail = gtype s

theorem calculateNextQuota_ok (quota : Str → Int × Int) (s0 : Schema) (it : Item)
    (hty : stype it.detail = .unknown ∨ stype it.detail = gtype s0) :
    ∃ nc, calculateNextQuota quota (itemOf s0) it = .ok nc ∧ nc.name = it.name ∧ stype nc.detail = gtype s0 := by
  unfold calculateNextQuota
  by_cases hcount : it.strategy = sGlobalCountLimit
  · simp only [hcount, if_true, pure, Except.pure]
    exact ⟨_, rfl, rfl, rfl⟩
  · simp only [hcount, if_false]
    have hup : getFlowControlTypeFromLimitItem (itemOf s0).detail = gtype s0 := rfl
    rw [hup]
    rcases hg : gtype s0 with _ | _ | _ | _
    · simp only [pure, Except.pure]
      refine ⟨_, rfl, rfl, ?_⟩
      rcases hty with h | h
      · exact h
      · rw [h, hg]
    · simp only [pure, Except.pure]
      refine ⟨_, rfl, rfl, ?_⟩
      rcases hty with h | h
      · exfalso
        have : gtype s0 ≠ .exempt := by
          unfold gtype getFlowControlTypeFromLimitItem; split <;> (try split) <;> simp
        exact this hg
      · rw [h, hg]
    · simp only [pure, Except.pure]
      exact ⟨_, rfl, rfl, by simp [getFlowControlTypeFromLimitItem]⟩
    · have hm := (stype_tb _).mp hg
      cases hd : (detailOf s0).tokenBucket with
      | none => simp [hd] at hm
      | some tv =>
        simp only [itemOf, hd, deref, bind, Except.bind, pure, Except.pure]
        refine ⟨_, rfl, rfl, ?_⟩
        have hnomax : it.detail.maxRequestsInflight = none := by
          rcases hty with h | h
          · cases hx : it.detail.maxRequestsInflight with
            | none => rfl
            | some _ => have := (stype_max it.detail).mpr (by simp [hx]); rw [h] at this; cases this
          · rw [hg] at h; exact ((stype_tb _).mp h).1
        simp [getFlowControlTypeFromLimitItem, hnomax]

theorem updateOneItem_ok (schemas : List Schema) (hn : namesOK schemas = true) (quota : Str → Int × Int)
    (it : Item) (hit : ItemOK schemas it) :
    ∃ r, updateOneItem quota (schemas.map itemOf) it = .ok r ∧ ∀ nc, r = some nc → AnswerOK schemas nc := by
  unfold updateOneItem
  cases hl : lookupLast (·.name) (schemas.map itemOf) it.name with
  | none => exact ⟨none, rfl, by intro _ h; cases h⟩
  | some up =>
    obtain ⟨s0, hs0, hname, rfl⟩ := lookupLast_itemOf schemas it.name up hl
    have hty := hit s0 hs0 hname
    have hup : getFlowControlTypeFromLimitItem (itemOf s0).detail = gtype s0 := rfl
    simp only [hup]
    have hcheck : ¬ (getFlowControlTypeFromLimitItem it.detail ≠ .unknown ∧ getFlowControlTypeFromLimitItem it.detail ≠ gtype s0) := by
      rcases hty with h | h <;> simp [h]
    obtain ⟨nc, hnc, hnn, hnt⟩ := calculateNextQuota_ok quota s0 it hty
    have answer : AnswerOK schemas nc := by
      intro s hs hsn
      have : s = s0 := namesOK_unique schemas hn s s0 hs hs0 (by rw [hsn, hnn, hname])
      rw [this]; exact hnt
    simp only [Bool.and_eq_true, decide_eq_true_eq, hcheck, if_false, hnc, bind, Except.bind, pure, Except.pure]
    rcases hit' : getFlowControlTypeFromLimitItem it.detail with _ | _ | _ | _
    · exact ⟨_, rfl, by intro x hx; cases hx; exact answer⟩
    · exact ⟨_, rfl, by intro x hx; cases hx; exact answer⟩
    · have : stype nc.detail = .maxRequestsInflight := by
        rcases hty with h | h
        · rw [hit'] at h; cases h
        · rw [hnt, ← h, hit']
      have hm := (stype_max _).mp this
      cases hd : nc.detail.maxRequestsInflight with
      | none => simp [hd] at hm
      | some mv =>
        simp only [deref, pure, Except.pure]
        exact ⟨_, rfl, by intro x hx; cases hx; exact answer⟩
    · have : stype nc.detail = .tokenBucket := by
        rcases hty with h | h
        · rw [hit'] at h; cases h
        · rw [hnt, ← h, hit']
      have hm := (stype_tb _).mp this
      cases hd : nc.detail.tokenBucket with
      | none => simp [hd] at hm
      | some tv =>
        simp only [deref, pure, Except.pure]
        exact ⟨_, rfl, by intro x hx; cases hx; exact answer⟩

theorem mapM'_all {α β : Type} (f : α → M β) (Q : β → Prop) (l : List α) (h : ∀ a ∈ l, ∃ b, f a = .ok b ∧ Q b) :
    ∃ bs, mapM' f l = .ok bs ∧ ∀ b ∈ bs, Q b := by
  induction l with
  | nil => exact ⟨[], rfl, by simp⟩
  | cons a l ih =>
    obtain ⟨b, hb, hq⟩ := h a (by simp)
    obtain ⟨bs, hbs, hall⟩ := ih (fun x hx => h x (by simp [hx]))
    refine ⟨b :: bs, by simp [mapM', hb, hbs, bind, Except.bind, pure, Except.pure], ?_⟩
    intro x hx
    simp at hx
    rcases hx with rfl | hx
    · exact hq
    · exact hall x hx

theorem alGet_mem {β : Type} (l : List (Str × β)) (k : Str) (v : β) (h : alGet l k = some v) : (k, v) ∈ l := by
  induction l with
  | nil => cases h
  | cons a l ih =>
    obtain ⟨k', w⟩ := a
    by_cases hk : k' = k
    · simp [alGet, hk] at h; simp [hk, h]
    · simp [alGet, hk] at h; simp [ih h]

theorem mem_alSet {β : Type} (l : List (Str × β)) (k : Str) (v : β) (x : Str × β) (h : x ∈ alSet l k v) :
    x ∈ l ∨ x = (k, v) := by
  induction l with
  | nil => simp [alSet] at h; exact Or.inr h
  | cons a l ih =>
    obtain ⟨k', w⟩ := a
    by_cases hk : k' = k
    · simp [alSet, hk] at h
      rcases h with h | h
      · exact Or.inr h
      · exact Or.inl (by simp [h])
    · simp [alSet, hk] at h
      rcases h with h | h
      · exact Or.inl (by simp [h])
      · rcases ih h with h' | h'
        · exact Or.inl (by simp [h'])
        · exact Or.inr h'

/-- what an instance reports: usage of the kind of the schema's global limit -/
def StatusOK (schemas : List Schema) (st : Status) : Prop :=
  ∀ s ∈ schemas, s.name = st.name → stype st.detail = .unknown ∨ stype st.detail = gtype s

theorem levelOfStatus_ok (schemas : List Schema) (st : Status) (h : StatusOK schemas st) :
    levelOfStatus (schemas.map itemOf) st = .ok () := by
  unfold levelOfStatus
  cases hl : lookupLast (·.name) (schemas.map itemOf) st.name with
  | none => rfl
  | some cfg =>
    obtain ⟨s0, hs0, hname, rfl⟩ := lookupLast_itemOf schemas st.name cfg hl
    have hty := h s0 hs0 hname
    simp only []
    split
    · rename_i hm
      have h1 := (stype_max _).mpr hm
      have h2 : gtype s0 = .maxRequestsInflight := by
        rcases hty with h | h
        · rw [h1] at h; cases h
        · rw [← h, h1]
      have h3 := (stype_max _).mp h2
      cases hd : (detailOf s0).maxRequestsInflight with
      | none => simp [hd] at h3
      | some mv => simp [itemOf, hd, deref, bind, Except.bind, pure, Except.pure]
    · split
      · rename_i hnm ht
        have hnone : st.detail.maxRequestsInflight = none := by
          cases hx : st.detail.maxRequestsInflight with
          | none => rfl
          | some _ => simp [hx] at hnm
        have h1 := (stype_tb _).mpr ⟨hnone, ht⟩
        have h2 : gtype s0 = .tokenBucket := by
          rcases hty with h | h
          · rw [h1] at h; cases h
          · rw [← h, h1]
        have h3 := (stype_tb _).mp h2
        cases hd : (detailOf s0).tokenBucket with
        | none => simp [hd] at h3
        | some tv => simp [itemOf, hd, deref, bind, Except.bind, pure, Except.pure]
      · rfl

/-- the limiter server's state for the upstream is the one its handler derived from the object -/
structure UpOK (schemas : List Schema) (u : Upstream) : Prop where
  items : u.state.items = schemas.map itemOf
  inst : ∀ kv ∈ u.instances, ∀ st ∈ kv.2.statuses, StatusOK schemas st

theorem updateRateLimitConditionStatus_ok (schemas : List Schema) (hn : namesOK schemas = true) (quota : Str → Int × Int)
    (u : Upstream) (hu : UpOK schemas u) (inst : Str) (cond : Condition)
    (hi : ∀ it ∈ cond.items, ItemOK schemas it) (hst : ∀ st ∈ cond.statuses, StatusOK schemas st) :
    ∃ r, updateRateLimitConditionStatus quota true u inst cond = .ok r ∧
      (∀ it ∈ r.1.items, AnswerOK schemas it) ∧ UpOK schemas r.2 := by
  unfold updateRateLimitConditionStatus
  simp only [Bool.not_true, Bool.false_eq_true, if_false, hu.items]
  obtain ⟨l, hl, hall⟩ := mapM'_all (updateOneItem quota (schemas.map itemOf))
    (fun r => ∀ nc, r = some nc → AnswerOK schemas nc) cond.items
    (fun it hit => updateOneItem_ok schemas hn quota it (hi it hit))
  have hinst : ∀ kv ∈ alSet u.instances inst ⟨l.filterMap id, cond.statuses⟩, ∀ st ∈ kv.2.statuses, StatusOK schemas st := by
    intro kv hkv st hs
    rcases mem_alSet _ _ _ _ hkv with h | h
    · exact hu.inst kv h st hs
    · rw [h] at hs; exact hst st hs
  obtain ⟨lv, hlv, _⟩ := mapM'_ok
    (fun (kv : Str × Condition) => mapM' (levelOfStatus (schemas.map itemOf)) kv.2.statuses)
    (alSet u.instances inst ⟨l.filterMap id, cond.statuses⟩)
    (fun kv hkv => by
      obtain ⟨bs, hbs, _⟩ := mapM'_ok (levelOfStatus (schemas.map itemOf)) kv.2.statuses
        (fun st hs => ⟨(), levelOfStatus_ok schemas st (hinst kv hkv st hs)⟩)
      exact ⟨bs, hbs⟩)
  simp only [hl, hlv, bind, Except.bind, pure, Except.pure]
  refine ⟨_, rfl, ?_, ⟨hu.items, hinst⟩⟩
  intro it hit
  simp only [List.mem_filterMap, id] at hit
  obtain ⟨r, hr, rfl⟩ := hit
  exact hall (some it) hr it rfl

theorem updateFlowControlsOne_ok (schemas : List Schema) (_hn : namesOK schemas = true) (hs : ∀ s ∈ schemas, schemaOK s = true)
    (fcs : List (Str × FlowControlCache)) (hall : ∀ kv ∈ fcs, EntryOK schemas kv) (config : Item) (hc : AnswerOK schemas config) :
    ∃ fcs', updateFlowControlsOne fcs config = .ok fcs' ∧ ∀ kv ∈ fcs', EntryOK schemas kv := by
  unfold updateFlowControlsOne
  cases hg : alGet fcs config.name with
  | none => exact ⟨fcs, rfl, hall⟩
  | some fcCache =>
    simp only []
    have hkv := hall _ (alGet_mem _ _ _ hg)
    split
    · exact ⟨fcs, rfl, hall⟩
    · rename_i hen
      have hen : enableGlobalFlowControl fcCache.localConfig = true := by simpa using hen
      obtain ⟨w', hw', hok⟩ := cacheRemoteSync_ok schemas hs (config.name, fcCache) hkv hen config
        (hc _ hkv.mem hkv.key.symm)
      simp only [hw', bind, Except.bind, pure, Except.pure]
      refine ⟨_, rfl, ?_⟩
      intro kv hkv'
      rcases mem_alSet _ _ _ _ hkv' with h | h
      · exact hall kv h
      · rw [h]; exact hok

/-- one reconcile period keeps gateway and limiter server consistent with the object, and does not fail -/
theorem reconcileOnce_ok (schemas : List Schema) (hn : namesOK schemas = true) (hs : ∀ s ∈ schemas, schemaOK s = true)
    (quota : Str → Int × Int) (used : Str → Int) (inst : Str)
    (fcs : List (Str × FlowControlCache)) (hall : ∀ kv ∈ fcs, EntryOK schemas kv) (u : Upstream) (hu : UpOK schemas u) :
    ∃ r, reconcileOnce quota used true inst fcs u = .ok r ∧ (∀ kv ∈ r.1, EntryOK schemas kv) ∧ UpOK schemas r.2 := by
  unfold reconcileOnce
  obtain ⟨fcs1, h1, hall1⟩ := mapM'_all updateGlobalCountOne (EntryOK schemas) fcs
    (fun kv hkv => updateGlobalCountOne_ok schemas hs kv (hall kv hkv))
  -- buildLimitConditions
  obtain ⟨l, hl, hlall⟩ := mapM'_all (limitConditionOne used)
    (fun r => ∀ it st, r = some (it, st) → ItemOK schemas it ∧ StatusOK schemas st) fcs1
    (fun kv hkv => by
      obtain ⟨r, hr, hprop⟩ := limitConditionOne_ok schemas hs used kv (hall1 kv hkv)
      refine ⟨r, hr, ?_⟩
      intro it st heq
      obtain ⟨hin, hsn, hit, hst⟩ := hprop it st heq
      have hk := hall1 kv hkv
      constructor
      · intro s hsm hname
        have : s = kv.2.localConfig := namesOK_unique schemas hn s _ hsm hk.mem (by rw [hname, hin, hk.key])
        rw [this]; exact hit
      · intro s hsm hname
        have : s = kv.2.localConfig := namesOK_unique schemas hn s _ hsm hk.mem (by rw [hname, hsn, hk.key])
        rw [this]; exact Or.inr hst)
  have hitems : ∀ it ∈ (l.filterMap id).map (·.1), ItemOK schemas it := by
    intro it hit
    simp only [List.mem_map, List.mem_filterMap, id] at hit
    obtain ⟨⟨it', st'⟩, ⟨r, hr, hrs⟩, rfl⟩ := hit
    exact (hlall r hr it' st' hrs).1
  have hstats : ∀ st ∈ (l.filterMap id).map (·.2), StatusOK schemas st := by
    intro st hst
    simp only [List.mem_map, List.mem_filterMap, id] at hst
    obtain ⟨⟨it', st'⟩, ⟨r, hr, hrs⟩, rfl⟩ := hst
    exact (hlall r hr it' st' hrs).2
  obtain ⟨r, hr, hans, hu'⟩ := updateRateLimitConditionStatus_ok schemas hn quota u hu inst
    ⟨(l.filterMap id).map (·.1), (l.filterMap id).map (·.2)⟩ hitems hstats
  obtain ⟨fcs2, h2, hall2⟩ := foldM'_ok updateFlowControlsOne (fun f => ∀ kv ∈ f, EntryOK schemas kv) r.1.items
    (fun f hf a ha => updateFlowControlsOne_ok schemas hn hs f hf a (hans a ha)) fcs1 hall1
  simp only [h1, buildLimitConditions, hl, hr, h2, bind, Except.bind, pure, Except.pure]
  exact ⟨_, rfl, hall2, hu'⟩

theorem reconcileLoop_ok (schemas : List Schema) (hn : namesOK schemas = true) (hs : ∀ s ∈ schemas, schemaOK s = true)
    (quota : Str → Int × Int) (used : Str → Int) (inst : Str) (n : Nat) :
    ∀ (st : List (Str × FlowControlCache) × Upstream), (∀ kv ∈ st.1, EntryOK schemas kv) → UpOK schemas st.2 →
    ∃ r, reconcileLoop quota used inst n st = .ok r := by
  induction n with
  | zero => intro st _ _; exact ⟨st, rfl⟩
  | succ n ih =>
    intro st h1 h2
    obtain ⟨r, hr, ha, hu⟩ := reconcileOnce_ok schemas hn hs quota used inst st.1 h1 st.2 h2
    obtain ⟨r', hr'⟩ := ih r ha hu
    exact ⟨r', by simp [reconcileLoop, hr, hr', bind, Except.bind]⟩

theorem entryOf_ok (schemas : List Schema) (hs : ∀ s ∈ schemas, schemaOK s = true) (s : Schema) (h : s ∈ schemas) :
    EntryOK schemas (entryOf s) := by
  refine ⟨h, rfl, ?_, by intro r hr; cases hr⟩
  have hok := hs s h
  obtain ⟨name, strategy, exempt, m, tb, gm, gtb⟩ := s
  cases exempt <;> cases m <;> cases tb <;> cases gm <;> cases gtb <;>
    simp [schemaOK, shapeOf] at hok <;>
    simp [entryOf, expectedLocal, shapeOf, guessFlowControlSchemaType]

/-- a gateway in remote mode that created the cluster from a valid object, against a limiter server that handled
    the same object: any number of reconcile periods run without error or panic -/
theorem reconcile_after_create (env : Env) (henv : EnvOK env) (known : List Known) (c : Cluster) (hv : valid env known c = true)
    (ht : ∀ s ∈ c.schemas, wellTyped s = true) (quota : Str → Int × Int) (used : Str → Int) (inst : Str) (n : Nat) :
    ∃ ci u, createClusterInfo env true c = .ok ci ∧ upstreamConditionHandler emptyUpstream c = .ok u ∧
      ∃ r, reconcileLoop quota used inst n (ci.flowcontrol.flowControls, u) = .ok r := by
  obtain ⟨ci, hci, hfl⟩ := createClusterInfo_sizes env henv known c hv ht true
  obtain ⟨u, hu, hitems, hinst⟩ := upstreamConditionHandler_ok emptyUpstream c
  have hv' := hv
  simp only [valid, usable, classes, Bool.and_eq_true, decide_eq_true_eq, List.all_eq_true] at hv'
  have hn : namesOK c.schemas = true := hv'.1.1.1.1.2.1.2
  have hs : ∀ s ∈ c.schemas, schemaOK s = true := hv'.1.1.1.1.2.1.1.2
  refine ⟨ci, u, hci, hu, ?_⟩
  apply reconcileLoop_ok c.schemas hn hs quota used inst n
  · intro kv hkv
    simp only [hfl, List.mem_map] at hkv
    obtain ⟨s, hs', rfl⟩ := hkv
    exact entryOf_ok c.schemas hs s hs'
  · exact ⟨hitems, by intro kv hkv; rw [hinst] at hkv; cases hkv⟩

/-! ### a gateway that already serves other clusters -/

theorem syncSecureServingConfig_eq (env : Env) (old new ss : SecureServing)
    (h : syncSecureServingConfig env old new = .ok ss) : ss = new := by
  unfold syncSecureServingConfig at h
  split at h
  · cases h
  · split at h
    · cases h
    · cases h; rfl

/-- `Sync` never renames the cluster, and installs the object's serving section -/
theorem sync_fields (env : Env) (ci ci' : ClusterInfo) (c : Cluster) (h : ci.sync env c = .ok ci') :
    ci'.cluster = ci.cluster ∧ (ci.cluster = env.lower c.name → ci'.secureServing = c.secureServing) := by
  unfold ClusterInfo.sync at h
  split at h
  · rename_i hne
    cases h
    exact ⟨rfl, fun e => absurd e hne⟩
  · simp only [bind, Except.bind] at h
    split at h
    · cases h
    · split at h
      · cases h
      · split at h
        · cases h
        · rename_i ss hss
          split at h
          · cases h
          · cases h
            exact ⟨rfl, fun _ => syncSecureServingConfig_eq env _ _ _ hss⟩

theorem create_fields (env : Env) (remote : Bool) (u : Cluster) (ci : ClusterInfo)
    (h : createClusterInfo env remote u = .ok ci) : ci.cluster = env.lower u.name ∧ ci.secureServing = u.secureServing := by
  unfold createClusterInfo at h
  simp only [bind, Except.bind] at h
  split at h
  · cases h
  · rename_i tls _
    have := sync_fields env _ ci u h
    exact ⟨by rw [this.1]; rfl, this.2 rfl⟩

theorem alGet_alSet {β : Type} (l : List (Str × β)) (x k : Str) (v : β) :
    alGet (alSet l x v) k = if x = k then some v else alGet l k := by
  induction l with
  | nil => simp [alSet, alGet]
  | cons a l ih =>
    obtain ⟨k', w⟩ := a
    by_cases h1 : k' = x
    · subst h1
      by_cases h2 : k' = k <;> simp [alSet, alGet, h2]
    · by_cases h2 : k' = k
      · subst h2
        have : ¬ x = k' := fun e => h1 e.symm
        simp [alSet, alGet, h1, this]
      · simp [alSet, alGet, h1, h2, ih]

theorem alGet_foldl_alSet {β : Type} (names : List Str) (v : β) : ∀ (m : List (Str × β)) (k : Str) (w : β),
    alGet (names.foldl (fun acc n => alSet acc n v) m) k = some w → alGet m k = some w ∨ (k ∈ names ∧ w = v) := by
  induction names with
  | nil => intro m k w h; exact Or.inl h
  | cons n rest ih =>
    intro m k w h
    rcases ih (alSet m n v) k w h with h1 | h1
    · rw [alGet_alSet] at h1
      by_cases hn : n = k
      · simp [hn] at h1; exact Or.inr ⟨by simp [hn], h1.symm⟩
      · simp [hn] at h1; exact Or.inl h1
    · exact Or.inr ⟨by simp [h1.1], h1.2⟩

/-- the bootstrap branch of the controller's handler: what it registers -/
theorem syncUpstreamCluster_bootstrap (env : Env) (remote : Bool) (m m' : Manager) (u : Cluster)
    (hnew : alGet m (env.lower u.name) = none) (h : syncUpstreamCluster env remote m u = .ok m') :
    ∃ ci : ClusterInfo, ci.cluster = env.lower u.name ∧ ∀ k w, alGet m' k = some w →
      alGet m k = some w ∨ (k ∈ serverNamesOf env u.name u.secureServing ∧ w = ci) := by
  unfold syncUpstreamCluster at h
  simp only [hnew] at h
  split at h
  · cases h
  · cases hc : createClusterInfo env remote u with
    | error e =>
      rw [hc] at h
      cases e <;> simp at h
      split at h <;> cases h
    | ok ci =>
      obtain ⟨h1, h2⟩ := create_fields env remote u ci hc
      rw [hc] at h
      simp only [] at h
      cases ha : addOrUpdateForServerNames env m [] ci with
      | error e => rw [ha] at h; cases h
      | ok m2 =>
        rw [ha] at h
        cases h
        refine ⟨ci, h1, ?_⟩
        intro k w hk
        unfold addOrUpdateForServerNames at ha
        simp only [List.nil_eq, reduceCtorEq, if_false, List.filter_nil, List.foldl_nil] at ha
        split at ha
        · cases ha
        · cases ha
          rcases alGet_foldl_alSet _ ci m k w hk with h3 | h3
          · exact Or.inl h3
          · refine Or.inr ⟨?_, h3.2⟩
            have := h3.1
            simp only [List.mem_filter] at this
            rw [h1, h2] at this
            exact this.1

/-- every name the manager holds is a (lower-cased) name or alias of one of the clusters `K`, registered for it -/
def ServesOnly (env : Env) (K : List Known) (m : Manager) : Prop :=
  ∀ k ci, alGet m k = some ci → ∃ u ∈ K, env.lower u.name = ci.cluster ∧ ∃ s ∈ u.name :: u.serverNames, k = env.lower s

theorem applyOthers_servesOnly (env : Env) (remote : Bool) (K : List Known) (others : List Cluster) :
    ∀ m, ServesOnly env K m → (∀ u ∈ others, u.toKnown ∈ K) → ServesOnly env K (applyOthers env remote m others) := by
  induction others with
  | nil => intro m hm _; exact hm
  | cons u rest ih =>
    intro m hm hK
    have hrest : ∀ x ∈ rest, x.toKnown ∈ K := fun x hx => hK x (by simp [hx])
    unfold applyOthers
    cases hg : alGet m (env.lower u.name) with
    | some _ => exact ih m hm hrest
    | none =>
      simp only []
      cases hs : syncUpstreamCluster env remote m u with
      | error e => exact ih m hm hrest
      | ok m' =>
        simp only []
        apply ih m' _ hrest
        obtain ⟨ci, hci, hreg⟩ := syncUpstreamCluster_bootstrap env remote m m' u hg hs
        intro k w hk
        rcases hreg k w hk with h | h
        · exact hm k w h
        · refine ⟨u.toKnown, hK u (by simp), ?_, ?_⟩
          · rw [h.2, hci]; rfl
          · have := h.1
            simp only [serverNamesOf, List.mem_cons, List.mem_map] at this
            rcases this with rfl | ⟨s, hs', rfl⟩
            · exact ⟨u.name, by simp [Cluster.toKnown], rfl⟩
            · exact ⟨s, by simp [Cluster.toKnown, hs'], rfl⟩

/-- the plugin's conflict rule implies the controller's: on a gateway that already serves the other clusters the
    lister knows (applied in any order, some possibly refused), an object the plugin accepts finds none of its names
    taken - the handler bootstraps it without refusing it for a server-name conflict -/
theorem syncUpstreamCluster_among_others (env : Env) (henv : EnvOK env) (others : List Cluster) (c : Cluster)
    (hv : valid env (others.map Cluster.toKnown) c = true)
    (hown : ∀ u ∈ others, env.lower u.name ≠ env.lower c.name) (remote : Bool) :
    ∃ m', syncUpstreamCluster env remote (applyOthers env remote [] others) c = .ok m' := by
  have hserves : ServesOnly env (others.map Cluster.toKnown) (applyOthers env remote [] others) :=
    applyOthers_servesOnly env remote _ others [] (by intro k ci h; simp [alGet] at h)
      (fun u hu => List.mem_map.mpr ⟨u, hu, rfl⟩)
  have hk : noConflict env (others.map Cluster.toKnown) c = true := by
    simp only [valid, Bool.and_eq_true] at hv; exact hv.2
  apply syncUpstreamCluster_ok env henv (others.map Cluster.toKnown) c hv remote
  · intro k ci hget _
    exact hserves k ci hget
  · -- the object's own name is not registered
    cases hget : alGet (applyOthers env remote [] others) (env.lower c.name) with
    | none => rfl
    | some ci =>
      exfalso
      obtain ⟨u, hu, _, s, hs, hks⟩ := hserves _ ci hget
      unfold noConflict at hk
      simp only [List.all_eq_true, Bool.or_eq_true, decide_eq_true_eq, Bool.and_eq_true] at hk
      rcases hk u hu with h | h
      · simp only [List.mem_map] at hu
        obtain ⟨x, hx, rfl⟩ := hu
        exact hown x hx h
      · have := (h s hs).1
        simp at this
        apply this
        rw [hks, henv.lower_idem]

/-! ### the limiter server after a take-over -/

theorem alGet_globalEntries_none (l : List Schema) (x : Str) (h : x ∉ l.map (·.name)) : alGet (globalEntries l) x = none := by
  induction l with
  | nil => rfl
  | cons a l ih =>
    simp at h
    have hne : ¬ (a.name = x) := fun e => h.1 e.symm
    have ih' := ih (by simpa using h.2)
    unfold globalEntries at ih' ⊢
    simp only [List.filterMap_cons]
    cases hg : expectedGlobal a with
    | none => simpa [hg] using ih'
    | some g => simp [alGet, hne]; exact ih'

theorem globalEntries_append (a b : List Schema) : globalEntries (a ++ b) = globalEntries a ++ globalEntries b := by
  simp [globalEntries, List.filterMap_append]

/-- one schema of a valid object against a store that has no limiter of that name yet -/
theorem storeSyncOne_fresh (fcs : List (Str × GlobalFC)) (s : Schema) (h : schemaOK s = true)
    (hg : alGet fcs s.name = none) : storeSyncOne fcs s = .ok (fcs ++ globalEntries [s]) := by
  obtain ⟨name, strategy, exempt, m, tb, gm, gtb⟩ := s
  cases exempt <;> cases m <;> cases tb <;> cases gm <;> cases gtb <;>
    simp [schemaOK, shapeOf] at h <;>
    simp [storeSyncOne, newGlobalFlowControl, deref, bind, Except.bind, pure, Except.pure, globalEntries, expectedGlobal,
      shapeOf] <;>
    simp_all [alSet_of_none]

theorem foldStore_fresh (rest : List Schema) : ∀ (pre : List Schema), namesOK (pre ++ rest) = true →
    (∀ s ∈ rest, schemaOK s = true) →
    foldM' storeSyncOne (globalEntries pre) rest = .ok (globalEntries (pre ++ rest)) := by
  induction rest with
  | nil => intro pre _ _; simp [foldM', pure, Except.pure]
  | cons s rest ih =>
    intro pre hn hs
    obtain ⟨_, h2⟩ := namesOK_append_cons pre s rest hn
    have step := storeSyncOne_fresh (globalEntries pre) s (hs s (by simp)) (alGet_globalEntries_none pre s.name h2)
    rw [← globalEntries_append] at step
    simp only [foldM', step, bind, Except.bind]
    have := ih (pre ++ [s]) (by simpa using hn) (fun t ht => hs t (by simp [ht]))
    simpa using this

/-- after a take-over (or on a fresh store) the handler re-creates every global limiter of a valid object, with the
    configured kind and numbers, whatever conditions were restored from the API -/
theorem handler_after_takeover (env : Env) (known : List Known) (c : Cluster) (hv : valid env known c = true)
    (persist : Bool) (u : Upstream) :
    ∃ u', upstreamConditionHandler (newTerm persist u) c = .ok u' ∧ u'.flowControls = globalEntries c.schemas := by
  have hv' := hv
  simp only [valid, usable, classes, Bool.and_eq_true, decide_eq_true_eq, List.all_eq_true] at hv'
  have hn : namesOK c.schemas = true := hv'.1.1.1.1.2.1.2
  have hs : ∀ s ∈ c.schemas, schemaOK s = true := hv'.1.1.1.1.2.1.1.2
  obtain ⟨l, hl, _⟩ := mapM'_ok (upstreamStateItem (newTerm persist u).state.statuses) c.schemas
    (fun s _ => by obtain ⟨r, hr, _⟩ := upstreamStateItem_ok (newTerm persist u).state.statuses s; exact ⟨r, hr⟩)
  have hfc : (newTerm persist u).flowControls = [] ∧ (newTerm persist u).currentSpec = [] := by
    unfold newTerm; cases persist <;> simp [emptyUpstream]
  have hfold := foldStore_fresh c.schemas [] (by simpa using hn) hs
  simp only [List.nil_append] at hfold
  have hge : globalEntries ([] : List Schema) = [] := rfl
  rw [hge] at hfold
  simp only [upstreamConditionHandler, updateUpstreamStateCondition, hl, bind, Except.bind, pure, Except.pure,
    storeSyncFlowControls, hfc.1, hfc.2]
  by_cases he : ([] : List Schema) = c.schemas
  · simp only [← he, if_true]
    exact ⟨_, rfl, by simp; rfl⟩
  · simp only [he, if_false, hfold, List.map_nil, List.filter_nil, List.foldl_nil]
    exact ⟨_, rfl, rfl⟩

/-! ### what the applied configuration resolves to -/

theorem addOrUpdateEndpoint_mem (env : Env) (tls : Option TLSClientConfig) (eps eps' : List Str) (e : Str)
    (h : addOrUpdateEndpoint env tls eps e = .ok eps') : ∀ x, x ∈ eps' ↔ x ∈ eps ∨ x = e := by
  unfold addOrUpdateEndpoint at h
  split at h
  · rename_i hc
    cases h
    intro x
    constructor
    · exact Or.inl
    · rintro (h | rfl)
      · exact h
      · simpa using hc
  · simp only [bind, Except.bind] at h
    split at h
    · cases h
    · split at h
      · cases h
      · split at h
        · cases h
        · cases h
          intro x; simp

theorem foldEndpoints_mem (env : Env) (tls : Option TLSClientConfig) (l : List Str) : ∀ (st r : List Str),
    foldM' (addOrUpdateEndpoint env tls) st l = .ok r → ∀ x, x ∈ r ↔ x ∈ st ∨ x ∈ l := by
  induction l with
  | nil => intro st r h; cases h; simp
  | cons e l ih =>
    intro st r h
    simp only [foldM', bind, Except.bind] at h
    split at h
    · cases h
    · rename_i st1 h1
      have hm := addOrUpdateEndpoint_mem env tls st st1 e h1
      have := ih st1 r h
      intro x
      rw [this x, hm x]
      simp [or_assoc]

/-- after a successful `syncEndpoints` the cluster holds exactly the endpoints the object names, each under the
    string the object uses for it -/
theorem syncEndpoints_mem (env : Env) (tls : Option TLSClientConfig) (eps r : List Str) (servers : List Server)
    (h : syncEndpoints env tls eps servers = .ok r) : ∀ x, x ∈ r ↔ x ∈ servers.map (·.endpoint) := by
  unfold syncEndpoints at h
  have := foldEndpoints_mem env tls _ _ r h
  intro x
  rw [this x]
  simp only [List.mem_filter, List.contains_iff_mem]
  constructor
  · rintro (⟨_, h2⟩ | h2)
    · simpa using h2
    · exact h2
  · exact Or.inr

theorem sync_endpoints_policies (env : Env) (ci ci' : ClusterInfo) (c : Cluster) (h : ci.sync env c = .ok ci')
    (hn : ci.cluster = env.lower c.name) :
    (∀ x, x ∈ ci'.endpoints ↔ x ∈ c.servers.map (·.endpoint)) ∧ ci'.policies = c.policies := by
  unfold ClusterInfo.sync at h
  split at h
  · rename_i hne; exact absurd hn hne
  · simp only [bind, Except.bind] at h
    split at h
    · cases h
    · split at h
      · cases h
      · split at h
        · cases h
        · split at h
          · cases h
          · rename_i eps heps
            cases h
            exact ⟨syncEndpoints_mem env _ _ eps c.servers heps, rfl⟩

theorem alGet_map_entryOf_some (l : List Schema) (hn : namesOK l = true) (s : Schema) (hs : s ∈ l) :
    alGet (l.map entryOf) s.name = some ⟨expectedLocal s, s, none⟩ := by
  induction l with
  | nil => cases hs
  | cons a l ih =>
    simp only [namesOK, Bool.and_eq_true, decide_eq_true_eq, Bool.not_eq_true', List.contains_eq_mem,
      decide_eq_false_iff_not, List.mem_map, not_exists, not_and] at hn
    simp only [List.mem_cons] at hs
    rcases hs with rfl | hs
    · simp [alGet, entryOf]
    · have hne : ¬ a.name = s.name := fun e => hn.1.2 s hs e.symm
      simp only [List.map_cons, alGet, entryOf, hne, if_false]
      exact ih hn.2 hs

/-- what every dispatch policy of an applied valid object resolves to is what the object says -/
theorem policies_resolve (env : Env) (known : List Known) (c : Cluster) (hv : valid env known c = true)
    (ci ci' : ClusterInfo) (hs : ci.sync env c = .ok ci') (hn : ci.cluster = env.lower c.name) :
    ci'.policies = c.policies ∧ (∀ x, x ∈ ci'.endpoints ↔ x ∈ c.servers.map (·.endpoint)) ∧
    ∀ p ∈ c.policies, loadedUpstreams ci' p = resolveUpstreams ci' p ∧
      (p.upstreamSubset ≠ [] → resolveUpstreams ci' p = p.upstreamSubset) ∧
      (p.upstreamSubset = [] → resolveUpstreams ci' p = ci'.endpoints) := by
  obtain ⟨hmem, hpol⟩ := sync_endpoints_policies env ci ci' c hs hn
  refine ⟨hpol, hmem, ?_⟩
  intro p hp
  simp only [valid, usable, classes, Bool.and_eq_true, decide_eq_true_eq, List.all_eq_true] at hv
  have href := hv.1.1.1.1.2.2 p hp
  simp only [policyRefsOK, Bool.and_eq_true, List.all_eq_true, List.contains_iff_mem] at href
  refine ⟨?_, by intro h; simp [resolveUpstreams, h], by intro h; simp [resolveUpstreams, h]⟩
  unfold loadedUpstreams
  apply List.filter_eq_self.mpr
  intro u hu
  simp only [List.contains_iff_mem]
  unfold resolveUpstreams at hu
  split at hu
  · exact (hmem u).mpr (href.1 u hu)
  · exact hu

theorem namesOK_mem_ne (l : List Schema) (h : namesOK l = true) (s : Schema) (hs : s ∈ l) : s.name ≠ [] := by
  induction l with
  | nil => cases hs
  | cons a l ih =>
    simp only [namesOK, Bool.and_eq_true, decide_eq_true_eq] at h
    simp only [List.mem_cons] at hs
    rcases hs with rfl | hs
    · exact h.1.1
    · exact ih h.2 hs

end KG.Lemmas.Validate
