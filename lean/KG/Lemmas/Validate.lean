import KG.Spec.Validate
/-! Helper lemmas for C16. -/
namespace KG.Lemmas.Validate
open KG KG.Model.Validate KG.Spec.Validate

/-! ### generic -/

@[simp] theorem errIf_eq_nil (c : Bool) (e : FieldErr) : errIf c e = [] ↔ c = false := by
  cases c <;> simp [errIf]

theorem mapM'_ok {α β : Type} (f : α → M β) (l : List α) (h : ∀ a ∈ l, ∃ b, f a = .ok b) :
    ∃ bs, mapM' f l = .ok bs ∧ bs.length = l.length := by
  induction l with
  | nil => exact ⟨[], rfl, rfl⟩
  | cons a l ih =>
    obtain ⟨b, hb⟩ := h a (by simp)
    obtain ⟨bs, hbs, hl⟩ := ih (fun x hx => h x (by simp [hx]))
    refine ⟨b :: bs, ?_, by simp [hl]⟩
    simp [mapM', hb, hbs, bind, Except.bind, pure, Except.pure]

theorem foldM'_ok {σ α : Type} (f : σ → α → M σ) (P : σ → Prop) (l : List α)
    (h : ∀ s, P s → ∀ a ∈ l, ∃ s', f s a = .ok s' ∧ P s') (s : σ) (hs : P s) :
    ∃ s', foldM' f s l = .ok s' ∧ P s' := by
  induction l generalizing s with
  | nil => exact ⟨s, rfl, hs⟩
  | cons a l ih =>
    obtain ⟨s1, h1, hp1⟩ := h s hs a (by simp)
    obtain ⟨s2, h2, hp2⟩ := ih (fun t ht x hx => h t ht x (by simp [hx])) s1 hp1
    exact ⟨s2, by simp [foldM', h1, h2, bind, Except.bind], hp2⟩

/-! ### flow-control schemas -/

theorem vfc_total (s : Schema) (p : String) : ∃ e, validateFlowControlConfiguration s p = .ok e := by
  obtain ⟨name, strategy, exempt, m, tb, gm, gtb⟩ := s
  cases exempt <;> cases m <;> cases tb <;> cases gm <;> cases gtb <;>
    simp [validateFlowControlConfiguration, vfcMaxRequestsInflight, vfcGlobalMaxRequestsInflight, vfcTokenBucket,
      vfcGlobalTokenBucket, deref, bind, Except.bind, pure, Except.pure]

theorem vfc_nil_iff (s : Schema) (p : String) :
    validateFlowControlConfiguration s p = .ok [] ↔ schemaOK s = true := by
  obtain ⟨name, strategy, exempt, m, tb, gm, gtb⟩ := s
  cases exempt <;> cases m <;> cases tb <;> cases gm <;> cases gtb <;>
    simp [validateFlowControlConfiguration, vfcMaxRequestsInflight, vfcGlobalMaxRequestsInflight, vfcTokenBucket,
      vfcGlobalTokenBucket, deref, bind, Except.bind, pure, Except.pure, schemaOK, shapeOf, Shape.inRange,
      validateTokenBucketFlowControlSchema, errIf]
  · split
    · simp; omega
    · split
      · simp; omega
      · simp; omega
  · omega

theorem setInsert_fresh (names : List Str) (x : Str) (h : x ∉ names) : setInsert names x = names ++ [x] := by
  simp [setInsert, h]

theorem vfcLoop_spec (p : String) (l : List Schema) : ∀ (i : Nat) (names : List Str),
    ∃ ns e, validateFlowControlLoop p i l names = .ok (ns, e) ∧
      (e = [] ↔ (namesOK l = true ∧ (∀ s ∈ l, s.name ∉ names) ∧
        ∀ s ∈ l, strategyOK s.strategy = true ∧ schemaOK s = true)) ∧
      (e = [] → ns = names ++ l.map (·.name)) := by
  induction l with
  | nil => intro i names; exact ⟨names, [], rfl, by simp [namesOK], by simp⟩
  | cons fs rest ih =>
    intro i names
    obtain ⟨e3, h3⟩ := vfc_total fs (index p i)
    have h3' : e3 = [] ↔ schemaOK fs = true := by
      rw [← vfc_nil_iff fs (index p i), h3]; simp
    obtain ⟨ns, es, hl, hiff, hns⟩ := ih (i+1) (if fs.name = [] then names else setInsert names fs.name)
    refine ⟨ns, (if fs.name = [] then [required (child (index p i) "name")]
      else if names.contains fs.name then [duplicate (child (index p i) "name")] else []) ++
      errIf (!strategyOK fs.strategy) (invalid (child (index p i) "strategy")) ++ e3 ++ es, ?_, ?_, ?_⟩
    · simp [validateFlowControlLoop, h3, hl, bind, Except.bind, pure, Except.pure]
    · by_cases hn : fs.name = []
      · simp [hn, namesOK]
      · by_cases hc : fs.name ∈ names
        · simp [hn, hc, namesOK]
        · simp only [hn, if_false, setInsert_fresh names fs.name hc] at hiff hns
          simp [hiff, h3', namesOK, hn, hc]
          constructor
          · rintro ⟨a, b, c, d, e⟩
            exact ⟨⟨fun x hx => (d x hx).2, c⟩, fun x hx => (d x hx).1, ⟨a, b⟩, e⟩
          · rintro ⟨⟨a, b⟩, c, ⟨d, e⟩, f⟩
            exact ⟨d, e, b, fun s hs => ⟨c s hs, a s hs⟩, f⟩
    · intro he
      by_cases hn : fs.name = []
      · simp [hn] at he
      · by_cases hc : fs.name ∈ names
        · simp [hn, hc] at he
        · simp only [hn, if_false, setInsert_fresh names fs.name hc] at hns
          simp [hn, hc] at he
          rw [hns he.2.2]
          simp

/-! ### servers -/

theorem validateServer_ok (env : Env) (p : String) (i : Nat) (s : Server) (h : endpointOK env s.endpoint = true) :
    validateServer env p i s = ([], some (getURLScheme s.endpoint)) := by
  unfold endpointOK at h
  unfold validateServer
  cases hu : env.urlParse s.endpoint with
  | none => simp [hu] at h
  | some u => simp [hu] at h; simp [h]

theorem validateServer_bad (env : Env) (p : String) (i : Nat) (s : Server) (h : endpointOK env s.endpoint = false) :
    (validateServer env p i s).1 ≠ [] ∧ (validateServer env p i s).2 = none := by
  unfold endpointOK at h
  unfold validateServer
  cases hu : env.urlParse s.endpoint with
  | none => by_cases hs : getURLScheme s.endpoint = [] <;> simp [hs]
  | some u =>
    by_cases hs : getURLScheme s.endpoint = []
    · simp [hs]
    · simp [hu, hs] at h; simp [hs, h]

theorem serversLoop_errs (env : Env) (p : String) (l : List Server) : ∀ (i : Nat) (schemes : List Str),
    ((validateServersLoop env p i l schemes).1 = [] ↔ ∀ s ∈ l, endpointOK env s.endpoint = true) := by
  induction l with
  | nil => intro i schemes; simp [validateServersLoop]
  | cons s rest ih =>
    intro i schemes
    cases h : endpointOK env s.endpoint with
    | true =>
      simp [validateServersLoop, validateServer_ok env p i s h, ih, h]
    | false =>
      have hb := validateServer_bad env p i s h
      simp [validateServersLoop, hb.1, h]

theorem serversLoop_mono (env : Env) (p : String) (l : List Server) : ∀ (i : Nat) (schemes : List Str),
    schemes.length ≤ (validateServersLoop env p i l schemes).2.length := by
  induction l with
  | nil => intro i schemes; simp [validateServersLoop]
  | cons s rest ih =>
    intro i schemes
    simp only [validateServersLoop]
    cases h : (validateServer env p i s).2 with
    | none => simpa using ih (i+1) schemes
    | some sc =>
      refine Nat.le_trans ?_ (ih (i+1) (setInsert schemes sc))
      unfold setInsert; split <;> simp

theorem serversLoop_same (env : Env) (p : String) (x : Str) (l : List Server) : ∀ (i : Nat),
    (∀ s ∈ l, endpointOK env s.endpoint = true) → (∀ s ∈ l, getURLScheme s.endpoint = x) →
    (validateServersLoop env p i l [x]).2 = [x] := by
  induction l with
  | nil => intro i _ _; simp [validateServersLoop]
  | cons s rest ih =>
    intro i hok hx
    have h1 := validateServer_ok env p i s (hok s (by simp))
    have h2 : getURLScheme s.endpoint = x := hx s (by simp)
    simp [validateServersLoop, h1, h2, setInsert]
    exact ih (i+1) (fun t ht => hok t (by simp [ht])) (fun t ht => hx t (by simp [ht]))

theorem serversLoop_diff (env : Env) (p : String) (x : Str) (l : List Server) : ∀ (i : Nat),
    (∀ s ∈ l, endpointOK env s.endpoint = true) → (∃ s ∈ l, getURLScheme s.endpoint ≠ x) →
    1 < (validateServersLoop env p i l [x]).2.length := by
  induction l with
  | nil => intro i _ h; simp at h
  | cons s rest ih =>
    intro i hok hx
    have h1 := validateServer_ok env p i s (hok s (by simp))
    by_cases h2 : getURLScheme s.endpoint = x
    · simp [validateServersLoop, h1, h2, setInsert]
      apply ih (i+1) (fun t ht => hok t (by simp [ht]))
      obtain ⟨t, ht, hne⟩ := hx
      simp at ht
      rcases ht with rfl | ht
      · exact absurd h2 hne
      · exact ⟨t, ht, hne⟩
    · have hm := serversLoop_mono env p rest (i+1) [x, getURLScheme s.endpoint]
      have hne : ¬ (x = getURLScheme s.endpoint) := fun h => h2 h.symm
      simp [validateServersLoop, h1, setInsert, h2]
      simp at hm
      omega

theorem sameScheme_cons (s : Server) (rest : List Server) :
    sameScheme (s :: rest) = true ↔ ∀ t ∈ rest, getURLScheme t.endpoint = getURLScheme s.endpoint := by
  unfold sameScheme
  simp only [List.all_eq_true, decide_eq_true_eq]
  constructor
  · intro h t ht
    exact h t (by simp [ht]) s (by simp)
  · intro h a ha b hb
    have ea : getURLScheme a.endpoint = getURLScheme s.endpoint := by
      simp at ha; rcases ha with rfl | ha
      · rfl
      · exact h a ha
    have eb : getURLScheme b.endpoint = getURLScheme s.endpoint := by
      simp at hb; rcases hb with rfl | hb
      · rfl
      · exact h b hb
    rw [ea, eb]

/-- `ValidateServers`: no error iff there is a server, every endpoint is usable and all use one scheme; the scheme
    handed to `ValidateClientConfig` is then the first server's. -/
theorem validateServers_spec (env : Env) (servers : List Server) (p : String) :
    ((validateServers env servers p).errs = [] ↔
      (servers ≠ [] ∧ (∀ s ∈ servers, endpointOK env s.endpoint = true) ∧ sameScheme servers = true)) ∧
    ((validateServers env servers p).errs = [] → (validateServers env servers p).scheme = schemeOf servers) ∧
    (validateServers env servers p).upstreams = servers.map (·.endpoint) := by
  cases servers with
  | nil => simp [validateServers, errIf]
  | cons s rest =>
    have key : (∀ t ∈ s :: rest, endpointOK env t.endpoint = true) →
        ((validateServersLoop env p 0 (s :: rest) []).2.length ≤ 1 ↔ sameScheme (s :: rest) = true) ∧
        (sameScheme (s :: rest) = true → (validateServersLoop env p 0 (s :: rest) []).2 = [getURLScheme s.endpoint]) := by
      intro hok
      have h1 := validateServer_ok env p 0 s (hok s (by simp))
      have hrest : ∀ t ∈ rest, endpointOK env t.endpoint = true := fun t ht => hok t (by simp [ht])
      rw [sameScheme_cons]
      simp only [validateServersLoop, h1, setInsert]
      simp only [List.contains_nil, Bool.false_eq_true, if_false, List.nil_append]
      by_cases hall : ∀ t ∈ rest, getURLScheme t.endpoint = getURLScheme s.endpoint
      · have := serversLoop_same env p (getURLScheme s.endpoint) rest (0+1) hrest hall
        simp only [this]
        simp
        exact hall
      · have hex : ∃ t ∈ rest, getURLScheme t.endpoint ≠ getURLScheme s.endpoint := by
          simpa using hall
        have := serversLoop_diff env p (getURLScheme s.endpoint) rest (0+1) hrest hex
        constructor
        · constructor
          · intro h; omega
          · intro h; exact absurd h hall
        · intro h; exact absurd h hall
    refine ⟨?_, ?_, rfl⟩
    · simp only [validateServers, List.append_eq_nil_iff, errIf_eq_nil]
      have he := serversLoop_errs env p (s :: rest) 0 []
      constructor
      · rintro ⟨⟨_, h2⟩, h3⟩
        have hok := he.mp h2
        have hk := key hok
        refine ⟨by simp, hok, hk.1.mp ?_⟩
        simpa using h3
      · rintro ⟨_, hok, hs⟩
        have hk := key hok
        refine ⟨⟨by simp, he.mpr hok⟩, ?_⟩
        have := hk.1.mpr hs
        simp; omega
    · intro h
      simp only [validateServers, List.append_eq_nil_iff, errIf_eq_nil] at h
      have hok := (serversLoop_errs env p (s :: rest) 0 []).mp h.1.2
      have hk := key hok
      have hs : sameScheme (s :: rest) = true := hk.1.mp (by simpa using h.2)
      simp [validateServers, hk.2 hs, popAny, schemeOf]

/-! ### policies, client config, serving, feature gate, conflicts -/

theorem validateSubset_nil (ups : List Str) (p : String) (l : List Str) : ∀ j,
    validateSubset ups p j l = [] ↔ ∀ u ∈ l, u ∈ ups := by
  induction l with
  | nil => intro j; simp [validateSubset]
  | cons u rest ih => intro j; simp [validateSubset, ih]

theorem validateDispatchPolicy_nil (ups names : List Str) (pol : Policy) (p : String) :
    validateDispatchPolicy ups names pol p = [] ↔
      (pol.strategy = sRoundRobin ∧ (∀ u ∈ pol.upstreamSubset, u ∈ ups) ∧
       (pol.flowControlSchemaName = [] ∨ pol.flowControlSchemaName ∈ names) ∧ pol.nRules ≠ 0 ∧ logModeOK pol.logMode = true) := by
  have hq : (¬pol.flowControlSchemaName = [] → pol.flowControlSchemaName ∈ names) ↔
      (pol.flowControlSchemaName = [] ∨ pol.flowControlSchemaName ∈ names) := by
    by_cases hn : pol.flowControlSchemaName = [] <;> simp [hn]
  simp [validateDispatchPolicy, validateSubset_nil, hq]

theorem validatePolicies_nil (ups names : List Str) (p : String) (l : List Policy) : ∀ i,
    validatePolicies ups names p i l = [] ↔ ∀ pol ∈ l,
      (pol.strategy = sRoundRobin ∧ (∀ u ∈ pol.upstreamSubset, u ∈ ups) ∧
       (pol.flowControlSchemaName = [] ∨ pol.flowControlSchemaName ∈ names) ∧ pol.nRules ≠ 0 ∧ logModeOK pol.logMode = true) := by
  induction l with
  | nil => intro i; simp [validatePolicies]
  | cons a rest ih => intro i; simp [validatePolicies, ih, validateDispatchPolicy_nil]

theorem validateClientConfig_nil (env : Env) (scheme : Str) (c : ClientConfig) (p : String) :
    validateClientConfig env scheme c p = [] ↔ (clientLimitsOK c = true ∧ clientTLSOK env scheme c = true) := by
  obtain ⟨insecure, token, key, cert, ca, qps, burst, div⟩ := c
  have hq : (0 < qps → qps ≤ burst) ↔ (qps ≤ 0 ∨ qps ≤ burst) := by omega
  by_cases hs : scheme = sHttps <;> by_cases hk : key = [] <;> by_cases hc : cert = [] <;> by_cases ha : ca = [] <;>
    by_cases ht : token = [] <;> cases insecure <;>
    simp [validateClientConfig, validateClientConfigHTTPS, clientLimitsOK, clientTLSOK, hs, hk, hc, ha, ht, errIf, hq, and_assoc]

theorem validateSecureServing_nil (env : Env) (s : SecureServing) (p : String) :
    validateSecureServing env s p = [] ↔ servingOK env s = true := by
  obtain ⟨key, cert, ca, names⟩ := s
  by_cases hk : key = [] <;> by_cases hc : cert = [] <;> by_cases ha : ca = [] <;>
    simp [validateSecureServing, servingOK, hk, hc, ha, errIf]

theorem validateFeatureGate_nil (env : Env) (c : Cluster) :
    validateFeatureGate env c = [] ↔ featureGateOK env c = true := by
  unfold validateFeatureGate featureGateOK
  cases c.annotations with
  | none => simp
  | some m =>
    by_cases h : mapGet m sFeatureGateKey = []
    · simp [h]
    · cases hg : env.featureGateSet (mapGet m sFeatureGateKey) <;> simp [h, hg]

theorem conflictsWith_nil (env : Env) (cn : Str) (sns : List Str) (l : List Str) :
    conflictsWith env cn sns l = [] ↔ ∀ s ∈ l, env.lower cn ≠ env.lower s ∧ ∀ sn ∈ sns, env.lower sn ≠ env.lower s := by
  induction l with
  | nil => simp [conflictsWith]
  | cons s rest ih =>
    simp [conflictsWith, ih, List.filter_eq_nil_iff, and_assoc]

theorem validateConflicts_nil (env : Env) (c : Cluster) (known : List Known) :
    validateConflicts env c known = [] ↔ noConflict env known c = true := by
  induction known with
  | nil => simp [validateConflicts, noConflict]
  | cons u rest ih =>
    unfold noConflict at ih ⊢
    by_cases h : env.lower u.name = env.lower c.name
    · simp [validateConflicts, h, ih]
    · simp only [validateConflicts, h, if_false, List.append_eq_nil_iff, conflictsWith_nil, ih]
      simp [h]

/-! ### the whole validation -/

/-- the model of the validation never panics and never returns an error value: it yields a list -/
theorem validate_total (env : Env) (known : List Known) (c : Cluster) : ∃ e, validate env known c = .ok e := by
  obtain ⟨ns, e3, hl, _, _⟩ := vfcLoop_spec (child (child "spec" "flowControl") "flowControlSchemas") c.schemas 0 []
  simp [validate, validateUpstreamCluster, validateUpstreamClusterSpec, validateFlowControl, hl, bind, Except.bind, pure, Except.pure]

theorem validate_ok_iff_valid (env : Env) (known : List Known) (c : Cluster) :
    validate env known c = .ok [] ↔ valid env known c = true := by
  obtain ⟨ns, e3, hl, hiff, hns⟩ := vfcLoop_spec (child (child "spec" "flowControl") "flowControlSchemas") c.schemas 0 []
  obtain ⟨hs1, hs2, hs3⟩ := validateServers_spec env c.servers (child "spec" "servers")
  simp only [validate, validateUpstreamCluster, validateUpstreamClusterSpec, validateFlowControl, hl, bind, Except.bind,
    pure, Except.pure, Except.ok.injEq, List.append_eq_nil_iff, validateClientConfig_nil, validateSecureServing_nil,
    validateFeatureGate_nil, validateConflicts_nil, validatePolicies_nil, hs3, errIf_eq_nil, validateLoggingConfig]
  simp only [List.nil_append, List.not_mem_nil, not_false_eq_true, implies_true, true_and] at hiff hns
  constructor
  · rintro ⟨⟨⟨hm, ⟨⟨⟨⟨⟨⟨hsrv, hcl⟩, hss⟩, he3⟩, hlog⟩, hpol0⟩, hpol⟩⟩, hg⟩, hk⟩
    have hsv := hs1.mp hsrv
    rw [hs2 hsrv] at hcl
    have hsch := hiff.mp he3
    rw [hns he3] at hpol
    simp only [valid, usable, classes, formOK, Bool.and_eq_true, decide_eq_true_eq, List.all_eq_true, policyRefsOK,
      Bool.or_eq_true, List.contains_iff_mem]
    have hlog' : logModeOK c.loggingMode = true := by simpa using hlog
    have hp0 : c.policies ≠ [] := by simpa using hpol0
    exact ⟨⟨⟨⟨⟨hm, ⟨⟨⟨⟨⟨⟨hsv.1, hsv.2.1⟩, hsv.2.2⟩, hcl.2⟩, hss⟩, fun x hx => (hsch.2 x hx).2⟩, hsch.1⟩,
      fun x hx => ⟨(hpol x hx).2.1, (hpol x hx).2.2.1⟩⟩, hcl.1⟩,
      ⟨⟨fun x hx => (hsch.2 x hx).1, hlog'⟩, hp0⟩, fun x hx => ⟨⟨(hpol x hx).1, (hpol x hx).2.2.2.1⟩, (hpol x hx).2.2.2.2⟩⟩, hg⟩, hk⟩
  · intro hv
    simp only [valid, usable, classes, formOK, Bool.and_eq_true, decide_eq_true_eq, List.all_eq_true, policyRefsOK,
      Bool.or_eq_true, List.contains_iff_mem] at hv
    obtain ⟨⟨⟨⟨⟨hm, ⟨⟨⟨⟨⟨⟨hsv1, hsv2⟩, hsv3⟩, hcl2⟩, hss⟩, hsch2⟩, hsch1⟩, hpolr⟩, hcl1⟩,
      ⟨⟨hstr, hlog⟩, hp0⟩, hpolf⟩, hg⟩, hk⟩ := hv
    have hsrv := hs1.mpr ⟨hsv1, hsv2, hsv3⟩
    have he3 : e3 = [] := hiff.mpr ⟨hsch1, fun s hs => ⟨hstr s hs, hsch2 s hs⟩⟩
    rw [hs2 hsrv, hns he3]
    refine ⟨⟨⟨hm, ⟨⟨⟨⟨⟨⟨hsrv, hcl1, hcl2⟩, hss⟩, he3⟩, by simpa using hlog⟩, by simpa using hp0⟩, ?_⟩⟩, hg⟩, hk⟩
    intro pol hp
    exact ⟨(hpolf pol hp).1.1, (hpolr pol hp).1, (hpolr pol hp).2, (hpolf pol hp).1.2, (hpolf pol hp).2⟩

/-! ### the gateway's consumers -/

/-- numbers of an accepted schema survive the `uint32` conversion -/
theorem toU32_of_nonneg (x : Int) (h0 : 0 ≤ x) (h1 : x < 4294967296) : toU32 x = x.toNat := by
  unfold toU32
  rw [Int.emod_eq_of_lt h0 h1]

theorem newFlowControl_ok (s : Schema) (h : schemaOK s = true) : ∃ fc, newFlowControl s = .ok fc := by
  obtain ⟨name, strategy, exempt, m, tb, gm, gtb⟩ := s
  cases exempt <;> cases m <;> cases tb <;> cases gm <;> cases gtb <;>
    simp [schemaOK, shapeOf] at h <;>
    simp [newFlowControl, guessFlowControlSchemaType, deref, bind, Except.bind, pure, Except.pure]

theorem localWrapperSync_ok (w : FlowControlCache) (s : Schema) (h : schemaOK s = true) :
    ∃ w', localWrapperSync w s = .ok w' := by
  unfold localWrapperSync
  split
  · exact ⟨_, rfl⟩
  · obtain ⟨fc, hfc⟩ := newFlowControl_ok s h
    cases hw : w.fc with
    | none => simp [hfc, bind, Except.bind, pure, Except.pure]
    | some cur =>
      simp only []
      split
      · simp [hfc, bind, Except.bind, pure, Except.pure]
      · obtain ⟨name, strategy, exempt, m, tb, gm, gtb⟩ := s
        cases exempt <;> cases m <;> cases tb <;> cases gm <;> cases gtb <;>
          simp [schemaOK, shapeOf] at h <;>
          simp [guessFlowControlSchemaType, deref, bind, Except.bind, pure, Except.pure]

theorem syncOneSchema_ok (fcs : List (Str × FlowControlCache)) (a : Schema) (h : schemaOK a = true) :
    ∃ fcs', syncOneSchema fcs a = .ok fcs' := by
  unfold syncOneSchema
  obtain ⟨w', hw⟩ := localWrapperSync_ok (loadOrNew fcs a.name) a h
  exact ⟨alSet fcs a.name w', by simp [hw, bind, Except.bind, pure, Except.pure]⟩

theorem upstreamLimiterSync_ok (l : UpstreamLimiter) (schemas : List Schema) (h : ∀ s ∈ schemas, schemaOK s = true) :
    ∃ l', upstreamLimiterSync l schemas = .ok l' := by
  unfold upstreamLimiterSync
  split
  · exact ⟨_, rfl⟩
  · obtain ⟨fcs, hf, _⟩ := foldM'_ok syncOneSchema (fun _ => True) schemas (by
      intro fcs _ a ha
      obtain ⟨f', hf'⟩ := syncOneSchema_ok fcs a (h a ha)
      exact ⟨f', hf', trivial⟩) l.flowControls trivial
    simp [hf, bind, Except.bind, pure, Except.pure]

theorem syncFeatureGate_ok (env : Env) (c : Cluster) (h : featureGateOK env c = true) :
    ∃ b, syncFeatureGate env c.annotations = .ok b := by
  unfold featureGateOK at h
  unfold syncFeatureGate
  cases ha : c.annotations with
  | none => exact ⟨false, by simp [pure, Except.pure]⟩
  | some m =>
    simp only [ha] at h ⊢
    by_cases he : mapGet m sFeatureGateKey = []
    · exact ⟨false, by simp [he, pure, Except.pure]⟩
    · cases hg : env.featureGateSet (mapGet m sFeatureGateKey) with
      | none => simp [he, hg] at h
      | some b => exact ⟨b, by simp [he, pure, Except.pure]⟩

theorem syncSecureServingConfig_ok (env : Env) (old new : SecureServing) (h : servingOK env new = true) :
    syncSecureServingConfig env old new = .ok new := by
  obtain ⟨key, cert, ca, names⟩ := new
  by_cases hk : key = [] <;> by_cases hc : cert = [] <;> by_cases ha : ca = [] <;>
    simp [servingOK, hk, hc, ha] at h <;> simp [syncSecureServingConfig, hk, hc, ha, h, pure, Except.pure]

/-- the client TLS configuration built from a valid object is accepted by client-go -/
theorem tlsConfigFor_ok (env : Env) (scheme : Str) (c : ClientConfig) (h : clientTLSOK env scheme c = true) :
    tlsConfigFor env (if scheme = sHttps then some ⟨c.keyData, c.certData, c.caData, c.insecure⟩ else none) = .ok () := by
  obtain ⟨insecure, token, key, cert, ca, qps, burst, div⟩ := c
  by_cases hs : scheme = sHttps
  · by_cases hk : key = [] <;> by_cases hc : cert = [] <;> by_cases ha : ca = [] <;> cases insecure <;>
      simp [clientTLSOK, hs, hk, hc, ha] at h <;> simp [tlsConfigFor, hs, hk, hc, ha, h, pure, Except.pure]
  · simp [tlsConfigFor, hs, pure, Except.pure]

theorem buildClusterRESTConfig_ok (env : Env) (henv : EnvOK env) (c : Cluster)
    (hne : c.servers ≠ []) (hep : ∀ s ∈ c.servers, endpointOK env s.endpoint = true) :
    buildClusterRESTConfig env c = .ok (if schemeOf c.servers = sHttps
      then some ⟨c.clientConfig.keyData, c.clientConfig.certData, c.clientConfig.caData, c.clientConfig.insecure⟩ else none) := by
  unfold buildClusterRESTConfig schemeOf
  cases hsv : c.servers with
  | nil => exact absurd hsv hne
  | cons s rest =>
    have h1 := hep s (by simp [hsv])
    unfold endpointOK at h1
    cases hu : env.urlParse s.endpoint with
    | none => simp [hu] at h1
    | some u =>
      simp [hu] at h1
      have := henv.scheme_agrees s.endpoint u hu h1.1
      simp [hu, this, bind, Except.bind, pure, Except.pure]
      split <;> rfl

theorem addOrUpdateEndpoint_ok (env : Env) (tls : Option TLSClientConfig) (htls : tlsConfigFor env tls = .ok ())
    (eps : List Str) (e : Str) (he : env.restHostOK e = true) : ∃ eps', addOrUpdateEndpoint env tls eps e = .ok eps' := by
  unfold addOrUpdateEndpoint
  split
  · exact ⟨_, rfl⟩
  · simp [htls, he, bind, Except.bind, pure, Except.pure]

theorem restHostOK_of_endpointOK (env : Env) (henv : EnvOK env) (e : Str) (h : endpointOK env e = true) :
    env.restHostOK e = true := by
  unfold endpointOK at h
  cases hu : env.urlParse e with
  | none => simp [hu] at h
  | some u =>
    simp [hu] at h
    have hs := henv.scheme_agrees e u hu h.1
    exact henv.rest_host e u hu (by rw [hs]; exact h.1) h.2

theorem syncEndpoints_ok (env : Env) (henv : EnvOK env) (tls : Option TLSClientConfig) (htls : tlsConfigFor env tls = .ok ())
    (eps : List Str) (servers : List Server) (hep : ∀ s ∈ servers, endpointOK env s.endpoint = true) :
    ∃ eps', syncEndpoints env tls eps servers = .ok eps' := by
  unfold syncEndpoints
  obtain ⟨r, hr, _⟩ := foldM'_ok (addOrUpdateEndpoint env tls) (fun _ => True) (servers.map (·.endpoint)) (by
    intro st _ a ha
    simp at ha
    obtain ⟨s, hs, rfl⟩ := ha
    obtain ⟨e', he'⟩ := addOrUpdateEndpoint_ok env tls htls st s.endpoint (restHostOK_of_endpointOK env henv _ (hep s hs))
    exact ⟨e', he', trivial⟩) (eps.filter (fun e => (servers.map (·.endpoint)).contains e)) trivial
  exact ⟨r, hr⟩

/-- `Sync` of a valid object succeeds on every `ClusterInfo` whose rest config client-go accepts, and keeps it so -/
theorem sync_ok (env : Env) (henv : EnvOK env) (known : List Known) (c : Cluster) (hv : valid env known c = true)
    (ci : ClusterInfo) (htls : tlsConfigFor env ci.restTLS = .ok ()) :
    ∃ ci', ci.sync env c = .ok ci' ∧ ci'.restTLS = ci.restTLS ∧ ci'.cluster = ci.cluster ∧
      (ci.cluster = env.lower c.name → ci'.secureServing = c.secureServing) := by
  simp only [valid, usable, classes, Bool.and_eq_true, decide_eq_true_eq, List.all_eq_true] at hv
  obtain ⟨⟨⟨⟨⟨hm, ⟨⟨⟨⟨⟨⟨hsv1, hsv2⟩, hsv3⟩, hcl2⟩, hss⟩, hsch2⟩, hsch1⟩, hpolr⟩, hcl1⟩, hform⟩, hg⟩, hk⟩ := hv
  unfold ClusterInfo.sync
  split
  · rename_i hne
    exact ⟨ci, rfl, rfl, rfl, fun h => absurd h hne⟩
  · obtain ⟨b, hb⟩ := syncFeatureGate_ok env c hg
    obtain ⟨fl, hfl⟩ := upstreamLimiterSync_ok ci.flowcontrol c.schemas hsch2
    have hssv := syncSecureServingConfig_ok env ci.secureServing c.secureServing hss
    obtain ⟨eps, heps⟩ := syncEndpoints_ok env henv ci.restTLS htls ci.endpoints c.servers hsv2
    simp only [hb, hfl, hssv, heps, bind, Except.bind, pure, Except.pure]
    exact ⟨_, rfl, rfl, rfl, fun _ => rfl⟩

/-- `CreateClusterInfo` of a valid object succeeds -/
theorem createClusterInfo_ok (env : Env) (henv : EnvOK env) (known : List Known) (c : Cluster) (hv : valid env known c = true)
    (remote : Bool) : ∃ ci, createClusterInfo env remote c = .ok ci ∧ tlsConfigFor env ci.restTLS = .ok () ∧
      ci.cluster = env.lower c.name ∧ ci.secureServing = c.secureServing := by
  have hv' := hv
  simp only [valid, usable, classes, Bool.and_eq_true, decide_eq_true_eq, List.all_eq_true] at hv'
  obtain ⟨⟨⟨⟨⟨hm, ⟨⟨⟨⟨⟨⟨hsv1, hsv2⟩, hsv3⟩, hcl2⟩, hss⟩, hsch2⟩, hsch1⟩, hpolr⟩, hcl1⟩, hform⟩, hg⟩, hk⟩ := hv'
  have hb := buildClusterRESTConfig_ok env henv c hsv1 hsv2
  have htls := tlsConfigFor_ok env (schemeOf c.servers) c.clientConfig hcl2
  obtain ⟨ci', h1, h2, h3, h4⟩ := sync_ok env henv known c hv
    (newEmptyClusterInfo env c.name (if schemeOf c.servers = sHttps
      then some ⟨c.clientConfig.keyData, c.clientConfig.certData, c.clientConfig.caData, c.clientConfig.insecure⟩ else none) remote)
    (by simpa [newEmptyClusterInfo] using htls)
  refine ⟨ci', ?_, ?_, ?_, ?_⟩
  · simp [createClusterInfo, hb, h1, bind, Except.bind]
  · rw [h2]; simpa [newEmptyClusterInfo] using htls
  · rw [h3]; rfl
  · exact h4 rfl

/-! ### the controller -/

/-- "the manager reflects the lister": every name registered for another cluster is a (lower-cased) name of a
    cluster the lister knows -/
def ManagerReflects (env : Env) (known : List Known) (c : Cluster) (m : Manager) : Prop :=
  ∀ k ci, alGet m k = some ci → ci.cluster ≠ env.lower c.name →
    ∃ u ∈ known, env.lower u.name = ci.cluster ∧ ∃ s ∈ u.name :: u.serverNames, k = env.lower s

theorem noConflict_manager (env : Env) (henv : EnvOK env) (known : List Known) (c : Cluster) (m : Manager)
    (hk : noConflict env known c = true) (hm : ManagerReflects env known c m) :
    ∀ n ∈ serverNamesOf env c.name c.secureServing, ∀ ci, alGet m n = some ci → ci.cluster = env.lower c.name := by
  intro n hn ci hget
  apply Decidable.byContradiction
  intro hne
  obtain ⟨u, hu, hun, s, hs, hks⟩ := hm n ci hget hne
  unfold noConflict at hk
  simp only [List.all_eq_true, Bool.or_eq_true, decide_eq_true_eq, Bool.and_eq_true] at hk
  rcases hk u hu with h | h
  · exact hne (by rw [← hun, h])
  · have hs' := h s hs
    simp only [serverNamesOf, List.mem_cons, List.mem_map] at hn
    rcases hn with rfl | ⟨sn, hsn, rfl⟩
    · apply hs'.1
      rw [hks, henv.lower_idem]
    · have := hs'.2 sn hsn
      simp at this
      exact this hks

theorem checkServerNameConflict_false (m : Manager) (cn : Str) (new : List Str)
    (h : ∀ n ∈ new, ∀ ci, alGet m n = some ci → ci.cluster = cn) : checkServerNameConflict m cn [] new = false := by
  unfold checkServerNameConflict
  split
  · rfl
  · simp only [List.filter_nil, List.any_nil, Bool.or_false, List.any_eq_false]
    intro n hn
    cases hg : alGet m n with
    | none => simp
    | some ci => simp [h n hn ci hg]

/-- the controller's sync handler bootstraps a valid object (one it has no `ClusterInfo` for yet) -/
theorem syncUpstreamCluster_ok (env : Env) (henv : EnvOK env) (known : List Known) (c : Cluster)
    (hv : valid env known c = true) (remote : Bool) (m : Manager) (hm : ManagerReflects env known c m)
    (hnew : alGet m (env.lower c.name) = none) : ∃ m', syncUpstreamCluster env remote m c = .ok m' := by
  have hk : noConflict env known c = true := by
    simp only [valid, Bool.and_eq_true] at hv; exact hv.2
  have hnames := noConflict_manager env henv known c m hk hm
  obtain ⟨ci, hci, _, hcl, hss⟩ := createClusterInfo_ok env henv known c hv remote
  have hc1 := checkServerNameConflict_false m (env.lower c.name) (serverNamesOf env c.name c.secureServing) hnames
  unfold syncUpstreamCluster
  simp only [hnew, hc1, hci, Bool.false_eq_true, if_false]
  have : addOrUpdateForServerNames env m [] ci = .ok
      (((ci.cluster :: ci.secureServing.serverNames.map env.lower).filter (fun n => !([] : List Str).contains n)).foldl
        (fun acc n => alSet acc n ci) m) := by
    unfold addOrUpdateForServerNames
    have hc2 : checkServerNameConflict m ci.cluster [] (ci.cluster :: ci.secureServing.serverNames.map env.lower) = false := by
      rw [hcl, hss]; exact hc1
    simp [hc2, pure, Except.pure]
  rw [this]
  exact ⟨_, rfl⟩

/-! ### the limiter server -/

theorem toFlowControlLimit_ok (s : Schema) : ∃ d, toFlowControlLimit s = .ok d ∧
    d = ⟨s.globalMaxRequestsInflight, if s.globalMaxRequestsInflight.isSome then none else s.globalTokenBucket⟩ := by
  obtain ⟨name, strategy, exempt, m, tb, gm, gtb⟩ := s
  cases gm <;> cases gtb <;> simp [toFlowControlLimit, deref, bind, Except.bind, pure, Except.pure]

theorem upstreamStateItem_ok (old : List Status) (s : Schema) : ∃ r, upstreamStateItem old s = .ok r ∧
    r.1 = ⟨s.name, [], ⟨s.globalMaxRequestsInflight, if s.globalMaxRequestsInflight.isSome then none else s.globalTokenBucket⟩⟩ := by
  obtain ⟨d, hd, hd'⟩ := toFlowControlLimit_ok s
  unfold upstreamStateItem
  simp only [hd, bind, Except.bind, pure, Except.pure]
  exact ⟨_, rfl, by simp [hd']⟩

theorem newGlobalFlowControl_ok (s : Schema) : ∃ r, newGlobalFlowControl s = .ok r := by
  obtain ⟨name, strategy, exempt, m, tb, gm, gtb⟩ := s
  cases gm <;> cases gtb <;> simp [newGlobalFlowControl, deref, bind, Except.bind, pure, Except.pure]

theorem resizeGlobalFlowControl_ok (fc : GlobalFC) (s : Schema) : ∃ r, resizeGlobalFlowControl fc s = .ok r := by
  obtain ⟨name, strategy, exempt, m, tb, gm, gtb⟩ := s
  cases gm <;> cases gtb <;> simp [resizeGlobalFlowControl, deref, bind, Except.bind, pure, Except.pure]

theorem storeSyncOne_ok (fcs : List (Str × GlobalFC)) (s : Schema) : ∃ r, storeSyncOne fcs s = .ok r := by
  unfold storeSyncOne
  split
  · exact ⟨_, rfl⟩
  · obtain ⟨g, hg⟩ := newGlobalFlowControl_ok s
    cases ha : alGet fcs s.name with
    | none => cases g <;> simp [hg, bind, Except.bind, pure, Except.pure]
    | some cur =>
      simp only []
      by_cases ht : cur.typ ≠ guessFlowControlSchemaType s
      · cases g with
        | none =>
          obtain ⟨r, hr⟩ := resizeGlobalFlowControl_ok cur s
          simp [ht, hg, hr, bind, Except.bind, pure, Except.pure]
        | some g' =>
          obtain ⟨r, hr⟩ := resizeGlobalFlowControl_ok g' s
          simp [ht, hg, hr, bind, Except.bind, pure, Except.pure]
      · obtain ⟨r, hr⟩ := resizeGlobalFlowControl_ok cur s
        simp [ht, hr, bind, Except.bind, pure, Except.pure]

theorem mapM'_map {α β γ : Type} (f : α → M β) (g : β → γ) (k : α → γ) (l : List α)
    (h : ∀ a ∈ l, ∃ b, f a = .ok b ∧ g b = k a) : ∃ bs, mapM' f l = .ok bs ∧ bs.map g = l.map k := by
  induction l with
  | nil => exact ⟨[], rfl, rfl⟩
  | cons a l ih =>
    obtain ⟨b, hb, hg⟩ := h a (by simp)
    obtain ⟨bs, hbs, hm⟩ := ih (fun x hx => h x (by simp [hx]))
    exact ⟨b :: bs, by simp [mapM', hb, hbs, bind, Except.bind, pure, Except.pure], by simp [hg, hm]⟩

theorem storeSyncFlowControls_ok (u : Upstream) (schemas : List Schema) :
    ∃ u', storeSyncFlowControls u schemas = .ok u' ∧ u'.state = u.state ∧ u'.instances = u.instances := by
  unfold storeSyncFlowControls
  split
  · exact ⟨u, rfl, rfl, rfl⟩
  · obtain ⟨fcs, hf, _⟩ := foldM'_ok storeSyncOne (fun _ => True) schemas (by
      intro st _ a _
      obtain ⟨r, hr⟩ := storeSyncOne_ok st a
      exact ⟨r, hr, trivial⟩) u.flowControls trivial
    simp only [hf, bind, Except.bind, pure, Except.pure]
    exact ⟨_, rfl, rfl, rfl⟩

/-- the limiter server's handler never fails, whatever the object and whatever its state -/
theorem upstreamConditionHandler_ok (u : Upstream) (c : Cluster) : ∃ u', upstreamConditionHandler u c = .ok u' ∧
    u'.state.items = c.schemas.map (fun s => ⟨s.name, [],
      ⟨s.globalMaxRequestsInflight, if s.globalMaxRequestsInflight.isSome then none else s.globalTokenBucket⟩⟩) ∧
    u'.instances = u.instances := by
  obtain ⟨l, hl, hmap⟩ := mapM'_map (upstreamStateItem u.state.statuses) (·.1)
    (fun s => (⟨s.name, [], ⟨s.globalMaxRequestsInflight, if s.globalMaxRequestsInflight.isSome then none else s.globalTokenBucket⟩⟩ : Item))
    c.schemas (fun s _ => upstreamStateItem_ok u.state.statuses s)
  obtain ⟨u', hu', hst, hin⟩ := storeSyncFlowControls_ok
    { u with state := ⟨l.map (·.1), l.map (·.2)⟩ } c.schemas
  refine ⟨u', ?_, ?_, ?_⟩
  · simp only [upstreamConditionHandler, updateUpstreamStateCondition, hl, bind, Except.bind, pure, Except.pure]
    exact hu'
  · rw [hst]; exact hmap
  · rw [hin]

end KG.Lemmas.Validate
