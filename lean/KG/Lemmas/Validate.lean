import KG.Spec.Validate
/-! Helper lemmas for C16. -/
namespace KG.Lemmas.Validate
open KG KG.Model.Validate KG.Spec.Validate

/-! ### generic -/

@[simp] theorem errIf_eq_nil (c : Bool) (e : FieldErr) : errIf c e = [] ↔ c = false := by
  cases c <;> simp [errIf]

theorem mapM'_ok {α β : Type} (f : α → M β) (l : List α) (h : ∀ a ∈ l, ∃ b, f a = .ok b) :
    ∃ bs, mapM' f l = .ok bs ∧ bs.length = l.length := by
  induction l with
  | nil => exact ⟨[], rfl, rfl⟩
  | cons a l ih =>
    obtain ⟨b, hb⟩ := h a (by simp)
    obtain ⟨bs, hbs, hl⟩ := ih (fun x hx => h x (by simp [hx]))
    refine ⟨b :: bs, ?_, by simp [hl]⟩
    simp [mapM', hb, hbs, bind, Except.bind, pure, Except.pure]

theorem foldM'_ok {σ α : Type} (f : σ → α → M σ) (P : σ → Prop) (l : List α)
    (h : ∀ s, P s → ∀ a ∈ l, ∃ s', f s a = .ok s' ∧ P s') (s : σ) (hs : P s) :
    ∃ s', foldM' f s l = .ok s' ∧ P s' := by
  induction l generalizing s with
  | nil => exact ⟨s, rfl, hs⟩
  | cons a l ih =>
    obtain ⟨s1, h1, hp1⟩ := h s hs a (by simp)
    obtain ⟨s2, h2, hp2⟩ := ih (fun t ht x hx => h t ht x (by simp [hx])) s1 hp1
    exact ⟨s2, by simp [foldM', h1, h2, bind, Except.bind], hp2⟩

end KG.Lemmas.Validate
