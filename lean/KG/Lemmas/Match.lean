import KG.Spec.Match
/-! Helper lemmas relating the loops of `KG.Model.Match` to the declarative `KG.Spec.Match`. -/
namespace KG.Lemmas.Match
open KG KG.Model.Match KG.Spec.Match

theorem star_not_inverted : inverted star = false := by decide

theorem filterLoop_star (E : List Str) (f r : List Matcher) (h : star ∈ E) :
    (filterLoop E f r).2.2 = true := by
  induction E generalizing f r with
  | nil => cases h
  | cons x xs ih =>
    unfold filterLoop
    by_cases hx : x = star
    · simp [hx]
    · have hm : star ∈ xs := by
        cases h with
        | head => exact absurd rfl hx
        | tail _ h' => exact h'
      simp only [hx, if_false]
      split <;> exact ih _ _ hm

theorem filterLoop_nostar (E : List Str) (f r : List Matcher) (h : star ∉ E) :
    filterLoop E f r =
      (f ++ (positives E).map (fun v => ⟨false, v⟩), r ++ (negatives E).map (fun v => ⟨true, v⟩), false) := by
  induction E generalizing f r with
  | nil => simp [filterLoop, positives, negatives]
  | cons x xs ih =>
    have hx : x ≠ star := fun e => h (by simp [e])
    have hxs : star ∉ xs := fun e => h (by simp [e])
    unfold filterLoop
    simp only [hx, if_false]
    by_cases hi : inverted x = true
    · simp [hi, ih _ _ hxs, positives, negatives]
    · have hi' : inverted x = false := by simpa using hi
      simp [hi', ih _ _ hxs, positives, negatives]

theorem contains_star_iff (E : List Str) : E.contains star = true ↔ star ∈ E := by
  simp

/-- `filterRules` in terms of the declarative partition. -/
theorem filterRules_star (E : List Str) (h : star ∈ E) : (filterRules E).2 = true := by
  have := filterLoop_star E [] [] h
  unfold filterRules
  split
  rename_i f r all heq
  rw [heq] at this
  simp at this
  subst this
  split <;> rfl

theorem filterRules_nostar (E : List Str) (h : star ∉ E) :
    filterRules E =
      (if (positives E).isEmpty then (negatives E).map (fun v => ⟨true, v⟩)
       else (positives E).map (fun v => ⟨false, v⟩), false) := by
  unfold filterRules
  rw [filterLoop_nostar E [] [] h]
  cases hp : positives E <;> simp

/-- The central refinement: the loop `simpleMatches` computes the declarative `fieldSpec`
    (for a non-optional field) with positive relation "equals one of the request values, or the closure". -/
theorem simpleMatches_spec (E reqs : List Str) (extra : Str → Bool) :
    simpleMatches E reqs extra =
      fieldSpec false (fun p => reqs.any (fun q => p == q) || extra p) E := by
  unfold simpleMatches fieldSpec
  by_cases hs : star ∈ E
  · have h1 := filterRules_star E hs
    have h2 : E.contains star = true := (contains_star_iff E).2 hs
    generalize filterRules E = t at h1
    obtain ⟨fl, all⟩ := t
    simp at h1
    simp [h1, hs]
  · have h2 : E.contains star = false := by
      cases hc : E.contains star
      · rfl
      · exact absurd ((contains_star_iff E).1 hc) hs
    rw [filterRules_nostar E hs]
    simp only [h2]
    cases hp : positives E with
    | nil =>
      cases hn : negatives E with
      | nil => simp
      | cons n ns =>
        rw [Bool.eq_iff_iff]; simp [List.any_map, Function.comp_def, List.any_eq_true]
        intro _ _
        exact ⟨fun h x hx e => h (e ▸ hx), fun h hm => h n hm rfl⟩
    | cons p ps => rw [Bool.eq_iff_iff]; simp [List.any_map, Function.comp_def, List.any_eq_true]

end KG.Lemmas.Match
