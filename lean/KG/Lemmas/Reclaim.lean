import KG.Spec.Reclaim
/-! Helper lemmas for C18: what each operation of `KG.Model.Reclaim` does to the heartbeat table, to the
    per-instance in-flight states and to the stored conditions. -/
namespace KG.Lemmas.Reclaim
open KG KG.Model.Reclaim KG.Spec.Reclaim

/-! ### `globalMaxInflight` -/

theorem getState_none_iff (f : FC) (i : Inst) : f.getState i = none ↔ ∀ p ∈ f.states, p.1 ≠ i := by
  unfold FC.getState
  simp only [Option.map_eq_none_iff, List.find?_eq_none]
  constructor
  · intro h p hp he; exact h p hp (by simp [he])
  · intro h p hp; have := h p hp; simpa using this

theorem find_filter_ne (l : List (Inst × IState)) (i j : Inst) (h : i ≠ j) :
    (l.filter (·.1 != j)).find? (·.1 == i) = l.find? (·.1 == i) := by
  rw [List.find?_filter]
  congr 1
  funext a
  by_cases hi : a.1 = i
  · have : a.1 ≠ j := fun e => h (hi ▸ e)
    simp [hi, h]
  · simp [hi]

theorem drop_isMif (f : FC) (j : Inst) : (f.drop j).isMif = f.isMif := by
  unfold FC.drop; split
  · rfl
  · split <;> rfl

theorem drop_name (f : FC) (j : Inst) : (f.drop j).name = f.name := by
  unfold FC.drop; split
  · rfl
  · split <;> rfl

theorem drop_states_sub (f : FC) (j : Inst) : ∀ p ∈ (f.drop j).states, p ∈ f.states := by
  unfold FC.drop; split
  · intro p hp; exact hp
  · split
    · intro p hp; exact (List.mem_filter.1 hp).1
    · intro p hp; exact hp

theorem drop_removes (f : FC) (j : Inst) (hm : f.isMif = true) : ∀ p ∈ (f.drop j).states, p.1 ≠ j := by
  unfold FC.drop
  simp only [hm, Bool.not_true, Bool.false_eq_true, if_false]
  split
  · intro p hp; have := (List.mem_filter.1 hp).2; simpa using this
  · rename_i hn; exact (getState_none_iff f j).1 hn

theorem drop_getState_ne (f : FC) (i j : Inst) (h : i ≠ j) : (f.drop j).getState i = f.getState i := by
  unfold FC.drop; split
  · rfl
  · split
    · unfold FC.getState; simp only; rw [find_filter_ne _ _ _ h]
    · rfl

theorem dropAll_isMif (ds : List Inst) (f : FC) : (dropAll ds f).isMif = f.isMif := by
  induction ds generalizing f with
  | nil => rfl
  | cons d t ih => simp only [dropAll, List.foldl_cons] at ih ⊢; rw [ih, drop_isMif]

theorem dropAll_name (ds : List Inst) (f : FC) : (dropAll ds f).name = f.name := by
  induction ds generalizing f with
  | nil => rfl
  | cons d t ih => simp only [dropAll, List.foldl_cons] at ih ⊢; rw [ih, drop_name]

theorem dropAll_states_sub (ds : List Inst) (f : FC) : ∀ p ∈ (dropAll ds f).states, p ∈ f.states := by
  induction ds generalizing f with
  | nil => intro p hp; exact hp
  | cons d t ih =>
    simp only [dropAll, List.foldl_cons] at ih ⊢
    intro p hp; exact drop_states_sub f d p (ih _ p hp)

theorem dropAll_removes (ds : List Inst) (f : FC) (hm : f.isMif = true) (d : Inst) (hd : d ∈ ds) :
    ∀ p ∈ (dropAll ds f).states, p.1 ≠ d := by
  induction ds generalizing f with
  | nil => cases hd
  | cons e t ih =>
    simp only [dropAll, List.foldl_cons] at ih ⊢
    intro p hp
    cases hd with
    | head => exact drop_removes f d hm p (dropAll_states_sub t _ p hp)
    | tail _ h' => exact ih (f.drop e) (by rw [drop_isMif]; exact hm) h' p hp

theorem dropAll_getState (ds : List Inst) (f : FC) (i : Inst) (h : i ∉ ds) :
    (dropAll ds f).getState i = f.getState i := by
  induction ds generalizing f with
  | nil => rfl
  | cons d t ih =>
    simp only [dropAll, List.foldl_cons] at ih ⊢
    have hd : i ≠ d := fun e => h (by simp [e])
    have ht : i ∉ t := fun e => h (by simp [e])
    rw [ih _ ht, drop_getState_ne _ _ _ hd]


/-! ### `FC.put` / `setState` -/

theorem put_states (f : FC) (j : Inst) (st : IState) (c : Int) :
    ∀ p ∈ (f.put j st c).states, p ∈ f.states ∨ p.1 = j := by
  intro p hp
  simp only [FC.put, List.mem_append, List.mem_filter, List.mem_singleton] at hp
  cases hp with
  | inl h => exact Or.inl h.1
  | inr h => exact Or.inr (by rw [h])

theorem put_getState_ne (f : FC) (i j : Inst) (st : IState) (c : Int) (h : i ≠ j) :
    (f.put j st c).getState i = f.getState i := by
  unfold FC.getState FC.put
  simp only [List.find?_append, find_filter_ne _ _ _ h]
  have : ([(j, st)] : List (Inst × IState)).find? (·.1 == i) = none := by
    simp [List.find?_cons, Ne.symm h]
  rw [this]; simp

theorem setState_cases (f : FC) (j : Inst) (rid cur : Int) :
    (setState f j rid cur).1 = f ∨ (setState f j rid cur).1 = f.drop j ∨
      ∃ st c, (setState f j rid cur).1 = f.put j st c := by
  unfold setState
  repeat' (first | split | (simp only []; split))
  all_goals first
    | exact Or.inl rfl
    | exact Or.inr (Or.inl rfl)
    | exact Or.inr (Or.inr ⟨_, _, rfl⟩)

theorem setState_isMif (f : FC) (j : Inst) (rid cur : Int) : (setState f j rid cur).1.isMif = f.isMif := by
  rcases setState_cases f j rid cur with h | h | ⟨st, c, h⟩
  · rw [h]
  · rw [h, drop_isMif]
  · rw [h]; rfl

theorem setState_name (f : FC) (j : Inst) (rid cur : Int) : (setState f j rid cur).1.name = f.name := by
  rcases setState_cases f j rid cur with h | h | ⟨st, c, h⟩
  · rw [h]
  · rw [h, drop_name]
  · rw [h]; rfl

theorem setState_states (f : FC) (j : Inst) (rid cur : Int) :
    ∀ p ∈ (setState f j rid cur).1.states, p ∈ f.states ∨ p.1 = j := by
  rcases setState_cases f j rid cur with h | h | ⟨st, c, h⟩
  · rw [h]; intro p hp; exact Or.inl hp
  · rw [h]; intro p hp; exact Or.inl (drop_states_sub f j p hp)
  · rw [h]; exact put_states f j st c

theorem setState_getState_ne (f : FC) (i j : Inst) (rid cur : Int) (h : i ≠ j) :
    (setState f j rid cur).1.getState i = f.getState i := by
  rcases setState_cases f j rid cur with e | e | ⟨st, c, e⟩
  · rw [e]
  · rw [e, drop_getState_ne _ _ _ h]
  · rw [e, put_getState_ne _ _ _ _ _ h]

/-! ### lists of flow controls -/

/-- no max-in-flight flow control of the list counts a state for `i`. -/
def NoStateL (i : Inst) (fcs : List (Nat × Ups × FC)) : Prop :=
  ∀ r ∈ fcs, r.2.2.isMif = true → ∀ p ∈ r.2.2.states, p.1 ≠ i

/-- `g` does not introduce a state of `i`. -/
def Clean (i : Inst) (g : FC → FC) : Prop :=
  ∀ f, (f.isMif = true → ∀ p ∈ f.states, p.1 ≠ i) → ((g f).isMif = true → ∀ p ∈ (g f).states, p.1 ≠ i)

theorem noStateL_mapFC {i : Inst} {fcs : List (Nat × Ups × FC)} (sh : Nat) (u : Ups) (n : Str) (g : FC → FC)
    (hg : Clean i g) (h : NoStateL i fcs) : NoStateL i (mapFC fcs sh u n g) := by
  intro r hr
  simp only [mapFC, List.mem_map] at hr
  obtain ⟨r0, hr0, rfl⟩ := hr
  split
  · exact hg _ (h r0 hr0)
  · exact h r0 hr0

theorem noStateL_filter {i : Inst} {fcs : List (Nat × Ups × FC)} (p : Nat × Ups × FC → Bool) (h : NoStateL i fcs) :
    NoStateL i (fcs.filter p) := fun r hr => h r (List.mem_filter.1 hr).1

theorem noStateL_dropAll {i : Inst} {fcs : List (Nat × Ups × FC)} (ds : List Inst) (h : NoStateL i fcs) :
    NoStateL i (fcs.map fun r => (r.1, r.2.1, dropAll ds r.2.2)) := by
  intro r hr hm p hp
  obtain ⟨r0, hr0, rfl⟩ := List.mem_map.1 hr
  have hm0 : r0.2.2.isMif = true := by rw [← dropAll_isMif]; exact hm
  exact h r0 hr0 hm0 p (dropAll_states_sub ds _ p hp)

theorem clean_setState {i j : Inst} (h : i ≠ j) (rid cur : Int) : Clean i (fun f => (setState f j rid cur).1) := by
  intro f hf hm p hp
  have hm0 : f.isMif = true := by rw [← setState_isMif f j rid cur]; exact hm
  cases setState_states f j rid cur p hp with
  | inl h1 => exact hf hm0 p h1
  | inr h1 => rw [h1]; exact Ne.symm h

theorem newFC_states (sc : Schema) : (newFC sc).states = [] := by
  unfold newFC; split <;> rfl

theorem clean_newFC (i : Inst) (sc : Schema) : Clean i (fun _ => newFC sc) := by
  intro f _ _ p hp; rw [newFC_states] at hp; cases hp

theorem resizeFC_states (f : FC) (sc : Schema) : (resizeFC f sc).states = f.states := by
  unfold resizeFC; split
  · rfl
  · split <;> rfl
  · rfl

theorem resizeFC_isMif (f : FC) (sc : Schema) : (resizeFC f sc).isMif = f.isMif := by
  unfold resizeFC; split
  · rfl
  · split <;> rfl
  · rfl

theorem clean_resizeFC (i : Inst) (sc : Schema) : Clean i (fun f => resizeFC f sc) := by
  intro f hf hm p hp
  rw [resizeFC_states] at hp; rw [resizeFC_isMif] at hm
  exact hf hm p hp

theorem foldl_inv {α β : Type} (P : α → Prop) (f : α → β → α) (l : List β) (a : α)
    (h : ∀ a b, P a → P (f a b)) (ha : P a) : P (l.foldl f a) := by
  induction l generalizing a with
  | nil => exact ha
  | cons x t ih => exact ih _ (h _ _ ha)

theorem noStateL_syncOne {i : Inst} (sh : Nat) (u : Ups) (fcs : List (Nat × Ups × FC)) (sc : Schema)
    (h : NoStateL i fcs) : NoStateL i (syncOne sh u fcs sc) := by
  unfold syncOne
  split
  · exact h
  · split
    · intro r hr
      rcases List.mem_append.1 hr with h1 | h1
      · exact h r h1
      · rw [List.mem_singleton] at h1; subst h1
        intro _ p hp; rw [newFC_states] at hp; cases hp
    · split
      · exact noStateL_mapFC _ _ _ _ (clean_newFC i sc) h
      · exact noStateL_mapFC _ _ _ _ (clean_resizeFC i sc) h


/-! ### frames: what each operation leaves alone -/

section frames
variable (shardOf : Ups → Nat)

theorem syncFlowControl_frame (s : State) (sh : Nat) (u : Ups) (sc : List Schema) :
    (syncFlowControl s sh u sc).hb = s.hb ∧ (syncFlowControl s sh u sc).conds = s.conds ∧
    (syncFlowControl s sh u sc).leaders = s.leaders ∧ (syncFlowControl s sh u sc).listed = s.listed ∧
    (syncFlowControl s sh u sc).shards = s.shards := by
  unfold syncFlowControl; simp only []; split <;> exact ⟨rfl, rfl, rfl, rfl, rfl⟩

theorem syncFlowControl_noState {i : Inst} (s : State) (sh : Nat) (u : Ups) (sc : List Schema)
    (h : NoStateL i s.fcs) : NoStateL i (syncFlowControl s sh u sc).fcs := by
  unfold syncFlowControl; simp only []; split
  · exact h
  · apply noStateL_filter
    exact foldl_inv (NoStateL i) (syncOne sh u) sc s.fcs (fun a b ha => noStateL_syncOne sh u a b ha) h

theorem handle_frame (s : State) (u : Ups) :
    (handle shardOf s u).hb = s.hb ∧ (handle shardOf s u).leaders = s.leaders ∧
    (handle shardOf s u).listed = s.listed ∧ (handle shardOf s u).shards = s.shards := by
  unfold handle
  simp only
  split
  · exact ⟨rfl, rfl, rfl, rfl⟩
  · split
    · exact ⟨rfl, rfl, rfl, rfl⟩
    · split
      · exact ⟨rfl, rfl, rfl, rfl⟩
      · refine ⟨?_, ?_, ?_, ?_⟩
        · rw [(syncFlowControl_frame _ _ _ _).1]
        · rw [(syncFlowControl_frame _ _ _ _).2.2.1]
        · rw [(syncFlowControl_frame _ _ _ _).2.2.2.1]
        · rw [(syncFlowControl_frame _ _ _ _).2.2.2.2]

theorem handle_noState {i : Inst} (s : State) (u : Ups) (h : NoStateL i s.fcs) :
    NoStateL i (handle shardOf s u).fcs := by
  unfold handle
  simp only
  split
  · exact h
  · split
    · exact h
    · split
      · exact noStateL_filter _ h
      · exact syncFlowControl_noState _ _ _ _ h

theorem dropStore_noState {i : Inst} (s : State) (sh : Nat) (h : NoStateL i s.fcs) :
    NoStateL i (dropStore s sh).fcs := noStateL_filter _ h

theorem foldl_handle_inv (P : State → Prop) (h : ∀ a u, P a → P (handle shardOf a u))
    (l : List (Ups × List Schema)) (a : State) (ha : P a) :
    P (l.foldl (fun st p => handle shardOf st p.1) a) := by
  induction l generalizing a with
  | nil => exact ha
  | cons x t ih => exact ih _ (h _ _ ha)

theorem foldl_dropStore_inv (P : State → Prop) (h : ∀ a sh, P a → P (dropStore a sh))
    (l : List Nat) (a : State) (ha : P a) : P (l.foldl dropStore a) := by
  induction l generalizing a with
  | nil => exact ha
  | cons x t ih => exact ih _ (h _ _ ha)

/-- whatever survives a change of `limitStoreMap`'s key set, `UpstreamConditionHandler` and `stopLeading`
    survives `leaderCheck`. -/
theorem leaderCheck_inv (P : State → Prop) (h0 : ∀ a l, P a → P { a with shards := l })
    (h1 : ∀ a u, P a → P (handle shardOf a u)) (h2 : ∀ a sh, P a → P (dropStore a sh))
    (s : State) (hs : P s) : P (leaderCheck shardOf s) := by
  unfold leaderCheck
  simp only
  exact foldl_dropStore_inv P h2 _ _ (foldl_handle_inv shardOf P h1 _ _ (h0 _ _ hs))

theorem leaderCheck_hb (s : State) : (leaderCheck shardOf s).hb = s.hb :=
  leaderCheck_inv shardOf (fun st => st.hb = s.hb) (fun _ _ ha => ha)
    (fun a u ha => by rw [(handle_frame shardOf a u).1]; exact ha) (fun _ _ ha => ha) s rfl

theorem leaderCheck_noState {i : Inst} (s : State) (h : NoStateL i s.fcs) :
    NoStateL i (leaderCheck shardOf s).fcs :=
  leaderCheck_inv shardOf (fun st => NoStateL i st.fcs) (fun _ _ ha => ha)
    (fun a u ha => handle_noState shardOf a u ha) (fun a sh ha => dropStore_noState a sh ha) s h

theorem report_frame (s : State) (u : Ups) (j : Inst) (ri : List (Str × Kind)) (q : List Item) :
    (report shardOf s u j ri q).1.hb = s.hb ∧ (report shardOf s u j ri q).1.fcs = s.fcs ∧
    (report shardOf s u j ri q).1.leaders = s.leaders := by
  unfold report
  repeat' (first | split | (simp only []; split))
  all_goals exact ⟨rfl, rfl, rfl⟩

theorem acquireOne_frame (j : Inst) (rid : Int) (sh : Nat) (u : Ups) (s : State) (rq : Str × Int) :
    (acquireOne j rid sh u s rq).1.hb = s.hb ∧ (acquireOne j rid sh u s rq).1.conds = s.conds ∧
    (acquireOne j rid sh u s rq).1.leaders = s.leaders := by
  unfold acquireOne
  repeat' (first | split | (simp only []; split))
  all_goals exact ⟨rfl, rfl, rfl⟩

theorem acquireOne_fcs (j : Inst) (rid : Int) (sh : Nat) (u : Ups) (s : State) (rq : Str × Int) :
    (acquireOne j rid sh u s rq).1.fcs = s.fcs ∨
    (acquireOne j rid sh u s rq).1.fcs = mapFC s.fcs sh u rq.1 (fun f => (setState f j rid rq.2).1) := by
  unfold acquireOne
  repeat' (first | split | (simp only []; split))
  all_goals first
    | exact Or.inl rfl
    | exact Or.inr rfl

theorem acquireLoop_inv (P : State → Prop) (j : Inst) (rid : Int) (sh : Nat) (u : Ups)
    (h : ∀ s rq, P s → P (acquireOne j rid sh u s rq).1) (reqs : List (Str × Int)) :
    ∀ s acc, P s → P (acquireLoop j rid sh u s reqs acc).1 := by
  induction reqs with
  | nil => intro s acc hs; exact hs
  | cons rq rest ih =>
    intro s acc hs
    unfold acquireLoop
    exact ih _ _ (h s rq hs)

theorem acquire_inv (P : State → Prop) (s : State) (u : Ups) (j : Inst) (rid : Int) (reqs : List (Str × Int))
    (h : ∀ s rq, P s → P (acquireOne j rid (shardOf u) u s rq).1) (hs : P s) :
    P (acquire shardOf s u j rid reqs).1 := by
  unfold acquire
  simp only
  split
  · exact hs
  · split
    · exact hs
    · exact acquireLoop_inv P j rid (shardOf u) u h reqs s [] hs

theorem acquire_hb (s : State) (u : Ups) (j : Inst) (rid : Int) (reqs : List (Str × Int)) :
    (acquire shardOf s u j rid reqs).1.hb = s.hb :=
  acquire_inv shardOf (fun st => st.hb = s.hb) s u j rid reqs
    (fun a rq ha => by rw [(acquireOne_frame j rid _ u a rq).1]; exact ha) rfl

theorem acquire_conds (s : State) (u : Ups) (j : Inst) (rid : Int) (reqs : List (Str × Int)) :
    (acquire shardOf s u j rid reqs).1.conds = s.conds :=
  acquire_inv shardOf (fun st => st.conds = s.conds) s u j rid reqs
    (fun a rq ha => by rw [(acquireOne_frame j rid _ u a rq).2.1]; exact ha) rfl

theorem acquire_noState {i j : Inst} (hij : i ≠ j) (s : State) (u : Ups) (rid : Int) (reqs : List (Str × Int))
    (h : NoStateL i s.fcs) : NoStateL i (acquire shardOf s u j rid reqs).1.fcs :=
  acquire_inv shardOf (fun st => NoStateL i st.fcs) s u j rid reqs
    (fun a rq ha => by
      rcases acquireOne_fcs j rid (shardOf u) u a rq with e | e
      · rw [e]; exact ha
      · rw [e]; exact noStateL_mapFC _ _ _ _ (clean_setState hij rid rq.2) ha) h

theorem cleanupTimeout_noState {i : Inst} (s : State) (now : Nat) (h : NoStateL i s.fcs) :
    NoStateL i (cleanupTimeout shardOf s now).fcs := noStateL_dropAll _ h

theorem cleanupUnknown_noState {i : Inst} (s : State) (h : NoStateL i s.fcs) :
    NoStateL i (cleanupUnknown shardOf s).fcs := noStateL_filter _ (noStateL_dropAll _ h)

end frames

end KG.Lemmas.Reclaim
