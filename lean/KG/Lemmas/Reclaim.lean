import KG.Spec.Reclaim
/-! Helper lemmas for C18: what each operation of `KG.Model.Reclaim` does to the heartbeat table, to the
    per-instance in-flight states and to the stored conditions. -/
namespace KG.Lemmas.Reclaim
open KG KG.Model.Reclaim KG.Spec.Reclaim

/-! ### `globalMaxInflight` -/

theorem getState_none_iff (f : FC) (i : Inst) : f.getState i = none ↔ ∀ p ∈ f.states, p.1 ≠ i := by
  unfold FC.getState
  simp only [Option.map_eq_none_iff, List.find?_eq_none]
  constructor
  · intro h p hp he; exact h p hp (by simp [he])
  · intro h p hp; have := h p hp; simpa using this

theorem find_filter_ne (l : List (Inst × IState)) (i j : Inst) (h : i ≠ j) :
    (l.filter (·.1 != j)).find? (·.1 == i) = l.find? (·.1 == i) := by
  rw [List.find?_filter]
  congr 1
  funext a
  by_cases hi : a.1 = i
  · have : a.1 ≠ j := fun e => h (hi ▸ e)
    simp [hi, h]
  · simp [hi]

theorem drop_isMif (f : FC) (j : Inst) : (f.drop j).isMif = f.isMif := by
  unfold FC.drop; split
  · rfl
  · split <;> rfl

theorem drop_name (f : FC) (j : Inst) : (f.drop j).name = f.name := by
  unfold FC.drop; split
  · rfl
  · split <;> rfl

theorem drop_states_sub (f : FC) (j : Inst) : ∀ p ∈ (f.drop j).states, p ∈ f.states := by
  unfold FC.drop; split
  · intro p hp; exact hp
  · split
    · intro p hp; exact (List.mem_filter.1 hp).1
    · intro p hp; exact hp

theorem drop_removes (f : FC) (j : Inst) (hm : f.isMif = true) : ∀ p ∈ (f.drop j).states, p.1 ≠ j := by
  unfold FC.drop
  simp only [hm, Bool.not_true, Bool.false_eq_true, if_false]
  split
  · intro p hp; have := (List.mem_filter.1 hp).2; simpa using this
  · rename_i hn; exact (getState_none_iff f j).1 hn

theorem drop_getState_ne (f : FC) (i j : Inst) (h : i ≠ j) : (f.drop j).getState i = f.getState i := by
  unfold FC.drop; split
  · rfl
  · split
    · unfold FC.getState; simp only; rw [find_filter_ne _ _ _ h]
    · rfl

theorem dropAll_isMif (ds : List Inst) (f : FC) : (dropAll ds f).isMif = f.isMif := by
  induction ds generalizing f with
  | nil => rfl
  | cons d t ih => simp only [dropAll, List.foldl_cons] at ih ⊢; rw [ih, drop_isMif]

theorem dropAll_name (ds : List Inst) (f : FC) : (dropAll ds f).name = f.name := by
  induction ds generalizing f with
  | nil => rfl
  | cons d t ih => simp only [dropAll, List.foldl_cons] at ih ⊢; rw [ih, drop_name]

theorem dropAll_states_sub (ds : List Inst) (f : FC) : ∀ p ∈ (dropAll ds f).states, p ∈ f.states := by
  induction ds generalizing f with
  | nil => intro p hp; exact hp
  | cons d t ih =>
    simp only [dropAll, List.foldl_cons] at ih ⊢
    intro p hp; exact drop_states_sub f d p (ih _ p hp)

theorem dropAll_removes (ds : List Inst) (f : FC) (hm : f.isMif = true) (d : Inst) (hd : d ∈ ds) :
    ∀ p ∈ (dropAll ds f).states, p.1 ≠ d := by
  induction ds generalizing f with
  | nil => cases hd
  | cons e t ih =>
    simp only [dropAll, List.foldl_cons] at ih ⊢
    intro p hp
    cases hd with
    | head => exact drop_removes f d hm p (dropAll_states_sub t _ p hp)
    | tail _ h' => exact ih (f.drop e) (by rw [drop_isMif]; exact hm) h' p hp

theorem dropAll_getState (ds : List Inst) (f : FC) (i : Inst) (h : i ∉ ds) :
    (dropAll ds f).getState i = f.getState i := by
  induction ds generalizing f with
  | nil => rfl
  | cons d t ih =>
    simp only [dropAll, List.foldl_cons] at ih ⊢
    have hd : i ≠ d := fun e => h (by simp [e])
    have ht : i ∉ t := fun e => h (by simp [e])
    rw [ih _ ht, drop_getState_ne _ _ _ hd]


/-! ### `FC.put` / `setState` -/

theorem put_states (f : FC) (j : Inst) (st : IState) (c : Int) :
    ∀ p ∈ (f.put j st c).states, p ∈ f.states ∨ p.1 = j := by
  intro p hp
  simp only [FC.put, List.mem_append, List.mem_filter, List.mem_singleton] at hp
  cases hp with
  | inl h => exact Or.inl h.1
  | inr h => exact Or.inr (by rw [h])

theorem put_getState_ne (f : FC) (i j : Inst) (st : IState) (c : Int) (h : i ≠ j) :
    (f.put j st c).getState i = f.getState i := by
  unfold FC.getState FC.put
  simp only [List.find?_append, find_filter_ne _ _ _ h]
  have : ([(j, st)] : List (Inst × IState)).find? (·.1 == i) = none := by
    simp [List.find?_cons, Ne.symm h]
  rw [this]; simp

theorem setState_cases (f : FC) (j : Inst) (rid cur : Int) :
    (setState f j rid cur).1 = f ∨ (setState f j rid cur).1 = f.drop j ∨
      ∃ st c, (setState f j rid cur).1 = f.put j st c := by
  unfold setState
  repeat' (first | split | (simp only []; split))
  all_goals first
    | exact Or.inl rfl
    | exact Or.inr (Or.inl rfl)
    | exact Or.inr (Or.inr ⟨_, _, rfl⟩)

theorem setState_isMif (f : FC) (j : Inst) (rid cur : Int) : (setState f j rid cur).1.isMif = f.isMif := by
  rcases setState_cases f j rid cur with h | h | ⟨st, c, h⟩
  · rw [h]
  · rw [h, drop_isMif]
  · rw [h]; rfl

theorem setState_name (f : FC) (j : Inst) (rid cur : Int) : (setState f j rid cur).1.name = f.name := by
  rcases setState_cases f j rid cur with h | h | ⟨st, c, h⟩
  · rw [h]
  · rw [h, drop_name]
  · rw [h]; rfl

theorem setState_states (f : FC) (j : Inst) (rid cur : Int) :
    ∀ p ∈ (setState f j rid cur).1.states, p ∈ f.states ∨ p.1 = j := by
  rcases setState_cases f j rid cur with h | h | ⟨st, c, h⟩
  · rw [h]; intro p hp; exact Or.inl hp
  · rw [h]; intro p hp; exact Or.inl (drop_states_sub f j p hp)
  · rw [h]; exact put_states f j st c

theorem setState_getState_ne (f : FC) (i j : Inst) (rid cur : Int) (h : i ≠ j) :
    (setState f j rid cur).1.getState i = f.getState i := by
  rcases setState_cases f j rid cur with e | e | ⟨st, c, e⟩
  · rw [e]
  · rw [e, drop_getState_ne _ _ _ h]
  · rw [e, put_getState_ne _ _ _ _ _ h]

theorem force_cases (f : FC) (j : Inst) (st : IState) : f.force j st = f ∨ ∃ c, f.force j st = f.put j st c := by
  unfold FC.force; split
  · exact Or.inl rfl
  · exact Or.inr ⟨_, rfl⟩

theorem force_isMif (f : FC) (j : Inst) (st : IState) : (f.force j st).isMif = f.isMif := by
  rcases force_cases f j st with h | ⟨c, h⟩ <;> rw [h] <;> rfl

theorem force_name (f : FC) (j : Inst) (st : IState) : (f.force j st).name = f.name := by
  rcases force_cases f j st with h | ⟨c, h⟩ <;> rw [h] <;> rfl

theorem force_states (f : FC) (j : Inst) (st : IState) : ∀ p ∈ (f.force j st).states, p ∈ f.states ∨ p.1 = j := by
  rcases force_cases f j st with h | ⟨c, h⟩
  · rw [h]; intro p hp; exact Or.inl hp
  · rw [h]; exact put_states f j st c

theorem force_getState_ne (f : FC) (i j : Inst) (st : IState) (h : i ≠ j) :
    (f.force j st).getState i = f.getState i := by
  rcases force_cases f j st with e | ⟨c, e⟩
  · rw [e]
  · rw [e, put_getState_ne _ _ _ _ _ h]

/-! ### lists of flow controls -/

/-- no max-in-flight flow control of the list counts a state for `i`. -/
def NoStateL (i : Inst) (fcs : List (Nat × Ups × FC)) : Prop :=
  ∀ r ∈ fcs, r.2.2.isMif = true → ∀ p ∈ r.2.2.states, p.1 ≠ i

/-- `g` does not introduce a state of `i`. -/
def Clean (i : Inst) (g : FC → FC) : Prop :=
  ∀ f, (f.isMif = true → ∀ p ∈ f.states, p.1 ≠ i) → ((g f).isMif = true → ∀ p ∈ (g f).states, p.1 ≠ i)

theorem noStateL_mapFC {i : Inst} {fcs : List (Nat × Ups × FC)} (sh : Nat) (u : Ups) (n : Str) (g : FC → FC)
    (hg : Clean i g) (h : NoStateL i fcs) : NoStateL i (mapFC fcs sh u n g) := by
  intro r hr
  simp only [mapFC, List.mem_map] at hr
  obtain ⟨r0, hr0, rfl⟩ := hr
  split
  · exact hg _ (h r0 hr0)
  · exact h r0 hr0

theorem noStateL_filter {i : Inst} {fcs : List (Nat × Ups × FC)} (p : Nat × Ups × FC → Bool) (h : NoStateL i fcs) :
    NoStateL i (fcs.filter p) := fun r hr => h r (List.mem_filter.1 hr).1

theorem noStateL_dropAll {i : Inst} {fcs : List (Nat × Ups × FC)} (ds : List Inst) (h : NoStateL i fcs) :
    NoStateL i (fcs.map fun r => (r.1, r.2.1, dropAll ds r.2.2)) := by
  intro r hr hm p hp
  obtain ⟨r0, hr0, rfl⟩ := List.mem_map.1 hr
  have hm0 : r0.2.2.isMif = true := by rw [← dropAll_isMif]; exact hm
  exact h r0 hr0 hm0 p (dropAll_states_sub ds _ p hp)

theorem clean_setState {i j : Inst} (h : i ≠ j) (rid cur : Int) : Clean i (fun f => (setState f j rid cur).1) := by
  intro f hf hm p hp
  have hm0 : f.isMif = true := by rw [← setState_isMif f j rid cur]; exact hm
  cases setState_states f j rid cur p hp with
  | inl h1 => exact hf hm0 p h1
  | inr h1 => rw [h1]; exact Ne.symm h

theorem clean_force {i j : Inst} (h : i ≠ j) (st : IState) : Clean i (fun f => f.force j st) := by
  intro f hf hm p hp
  have hm0 : f.isMif = true := by rw [← force_isMif f j st]; exact hm
  cases force_states f j st p hp with
  | inl h1 => exact hf hm0 p h1
  | inr h1 => rw [h1]; exact Ne.symm h

theorem newFC_states (sc : Schema) : (newFC sc).states = [] := by
  unfold newFC; split <;> rfl

theorem clean_newFC (i : Inst) (sc : Schema) : Clean i (fun _ => newFC sc) := by
  intro f _ _ p hp; rw [newFC_states] at hp; cases hp

theorem resizeFC_states (f : FC) (sc : Schema) : (resizeFC f sc).states = f.states := by
  unfold resizeFC; split
  · rfl
  · split <;> rfl
  · rfl

theorem resizeFC_isMif (f : FC) (sc : Schema) : (resizeFC f sc).isMif = f.isMif := by
  unfold resizeFC; split
  · rfl
  · split <;> rfl
  · rfl

theorem clean_resizeFC (i : Inst) (sc : Schema) : Clean i (fun f => resizeFC f sc) := by
  intro f hf hm p hp
  rw [resizeFC_states] at hp; rw [resizeFC_isMif] at hm
  exact hf hm p hp

theorem foldl_inv {α β : Type} (P : α → Prop) (f : α → β → α) (l : List β) (a : α)
    (h : ∀ a b, P a → P (f a b)) (ha : P a) : P (l.foldl f a) := by
  induction l generalizing a with
  | nil => exact ha
  | cons x t ih => exact ih _ (h _ _ ha)

theorem noStateL_syncOne {i : Inst} (sh : Nat) (u : Ups) (fcs : List (Nat × Ups × FC)) (sc : Schema)
    (h : NoStateL i fcs) : NoStateL i (syncOne sh u fcs sc) := by
  unfold syncOne
  split
  · exact h
  · split
    · intro r hr
      rcases List.mem_append.1 hr with h1 | h1
      · exact h r h1
      · rw [List.mem_singleton] at h1; subst h1
        intro _ p hp; rw [newFC_states] at hp; cases hp
    · split
      · exact noStateL_mapFC _ _ _ _ (clean_newFC i sc) h
      · exact noStateL_mapFC _ _ _ _ (clean_resizeFC i sc) h


/-! ### frames: what each operation leaves alone -/

section frames
variable (shardOf : Ups → Nat)

theorem syncFlowControl_frame (s : State) (sh : Nat) (u : Ups) (sc : List Schema) :
    (syncFlowControl s sh u sc).hb = s.hb ∧ (syncFlowControl s sh u sc).conds = s.conds ∧
    (syncFlowControl s sh u sc).leaders = s.leaders ∧ (syncFlowControl s sh u sc).listed = s.listed ∧
    (syncFlowControl s sh u sc).shards = s.shards := by
  unfold syncFlowControl; simp only []; split <;> exact ⟨rfl, rfl, rfl, rfl, rfl⟩

theorem syncFlowControl_noState {i : Inst} (s : State) (sh : Nat) (u : Ups) (sc : List Schema)
    (h : NoStateL i s.fcs) : NoStateL i (syncFlowControl s sh u sc).fcs := by
  unfold syncFlowControl; simp only []; split
  · exact h
  · apply noStateL_filter
    exact foldl_inv (NoStateL i) (syncOne sh u) sc s.fcs (fun a b ha => noStateL_syncOne sh u a b ha) h

theorem handle_frame (s : State) (u : Ups) :
    (handle shardOf s u).hb = s.hb ∧ (handle shardOf s u).leaders = s.leaders ∧
    (handle shardOf s u).listed = s.listed ∧ (handle shardOf s u).shards = s.shards := by
  unfold handle
  simp only
  split
  · exact ⟨rfl, rfl, rfl, rfl⟩
  · split
    · exact ⟨rfl, rfl, rfl, rfl⟩
    · split
      · unfold deleteUpstream; split <;> exact ⟨rfl, rfl, rfl, rfl⟩
      · refine ⟨?_, ?_, ?_, ?_⟩
        · rw [(syncFlowControl_frame _ _ _ _).1]
        · rw [(syncFlowControl_frame _ _ _ _).2.2.1]
        · rw [(syncFlowControl_frame _ _ _ _).2.2.2.1]
        · rw [(syncFlowControl_frame _ _ _ _).2.2.2.2]

theorem handle_noState {i : Inst} (s : State) (u : Ups) (h : NoStateL i s.fcs) :
    NoStateL i (handle shardOf s u).fcs := by
  unfold handle
  simp only
  split
  · exact h
  · split
    · exact h
    · split
      · unfold deleteUpstream; split
        · exact h
        · exact noStateL_filter _ h
      · exact syncFlowControl_noState _ _ _ _ h

theorem dropStore_noState {i : Inst} (s : State) (sh : Nat) (h : NoStateL i s.fcs) :
    NoStateL i (dropStore s sh).fcs := noStateL_filter _ h

theorem foldl_handle_inv (P : State → Prop) (h : ∀ a u, P a → P (handle shardOf a u))
    (l : List (Ups × List Schema)) (a : State) (ha : P a) :
    P (l.foldl (fun st p => handle shardOf st p.1) a) := by
  induction l generalizing a with
  | nil => exact ha
  | cons x t ih => exact ih _ (h _ _ ha)

theorem foldl_dropStore_inv (P : State → Prop) (h : ∀ a sh, P a → P (dropStore a sh))
    (l : List Nat) (a : State) (ha : P a) : P (l.foldl dropStore a) := by
  induction l generalizing a with
  | nil => exact ha
  | cons x t ih => exact ih _ (h _ _ ha)

/-- whatever survives a change of `limitStoreMap`'s key set, `UpstreamConditionHandler` and `stopLeading`
    survives `leaderCheck`. -/
theorem leaderCheck_inv (P : State → Prop) (h0 : ∀ a l, P a → P { a with shards := l })
    (h1 : ∀ a u, P a → P (handle shardOf a u)) (h2 : ∀ a sh, P a → P (dropStore a sh))
    (s : State) (hs : P s) : P (leaderCheck shardOf s) := by
  unfold leaderCheck
  simp only
  exact foldl_dropStore_inv P h2 _ _ (foldl_handle_inv shardOf P h1 _ _ (h0 _ _ hs))

theorem leaderCheck_hb (s : State) : (leaderCheck shardOf s).hb = s.hb :=
  leaderCheck_inv shardOf (fun st => st.hb = s.hb) (fun _ _ ha => ha)
    (fun a u ha => by rw [(handle_frame shardOf a u).1]; exact ha) (fun _ _ ha => ha) s rfl

theorem leaderCheck_noState {i : Inst} (s : State) (h : NoStateL i s.fcs) :
    NoStateL i (leaderCheck shardOf s).fcs :=
  leaderCheck_inv shardOf (fun st => NoStateL i st.fcs) (fun _ _ ha => ha)
    (fun a u ha => handle_noState shardOf a u ha) (fun a sh ha => dropStore_noState a sh ha) s h

theorem report_frame (s : State) (u : Ups) (j : Inst) (ri : List (Str × Kind)) (q : List Item) :
    (report shardOf s u j ri q).1.hb = s.hb ∧ (report shardOf s u j ri q).1.fcs = s.fcs ∧
    (report shardOf s u j ri q).1.leaders = s.leaders := by
  unfold report
  repeat' (first | split | (simp only []; split))
  all_goals exact ⟨rfl, rfl, rfl⟩

theorem acquireOne_frame (j : Inst) (rid : Int) (sh : Nat) (u : Ups) (s : State) (rq : Str × Int) :
    (acquireOne j rid sh u s rq).1.hb = s.hb ∧ (acquireOne j rid sh u s rq).1.conds = s.conds ∧
    (acquireOne j rid sh u s rq).1.leaders = s.leaders := by
  unfold acquireOne
  repeat' (first | split | (simp only []; split))
  all_goals exact ⟨rfl, rfl, rfl⟩

theorem acquireOne_fcs (j : Inst) (rid : Int) (sh : Nat) (u : Ups) (s : State) (rq : Str × Int) :
    (acquireOne j rid sh u s rq).1.fcs = s.fcs ∨
    (acquireOne j rid sh u s rq).1.fcs = mapFC s.fcs sh u rq.1 (fun f => (setState f j rid rq.2).1) := by
  unfold acquireOne
  repeat' (first | split | (simp only []; split))
  all_goals first
    | exact Or.inl rfl
    | exact Or.inr rfl

theorem acquireLoop_inv (P : State → Prop) (j : Inst) (rid : Int) (sh : Nat) (u : Ups)
    (h : ∀ s rq, P s → P (acquireOne j rid sh u s rq).1) (reqs : List (Str × Int)) :
    ∀ s acc, P s → P (acquireLoop j rid sh u s reqs acc).1 := by
  induction reqs with
  | nil => intro s acc hs; exact hs
  | cons rq rest ih =>
    intro s acc hs
    unfold acquireLoop
    exact ih _ _ (h s rq hs)

theorem acquire_inv (P : State → Prop) (s : State) (u : Ups) (j : Inst) (rid : Int) (reqs : List (Str × Int))
    (h : ∀ s rq, P s → P (acquireOne j rid (shardOf u) u s rq).1) (hs : P s) :
    P (acquire shardOf s u j rid reqs).1 := by
  unfold acquire
  simp only
  split
  · exact hs
  · split
    · exact hs
    · exact acquireLoop_inv P j rid (shardOf u) u h reqs s [] hs

theorem acquire_hb (s : State) (u : Ups) (j : Inst) (rid : Int) (reqs : List (Str × Int)) :
    (acquire shardOf s u j rid reqs).1.hb = s.hb :=
  acquire_inv shardOf (fun st => st.hb = s.hb) s u j rid reqs
    (fun a rq ha => by rw [(acquireOne_frame j rid _ u a rq).1]; exact ha) rfl

theorem acquire_conds (s : State) (u : Ups) (j : Inst) (rid : Int) (reqs : List (Str × Int)) :
    (acquire shardOf s u j rid reqs).1.conds = s.conds :=
  acquire_inv shardOf (fun st => st.conds = s.conds) s u j rid reqs
    (fun a rq ha => by rw [(acquireOne_frame j rid _ u a rq).2.1]; exact ha) rfl

theorem acquire_noState {i j : Inst} (hij : i ≠ j) (s : State) (u : Ups) (rid : Int) (reqs : List (Str × Int))
    (h : NoStateL i s.fcs) : NoStateL i (acquire shardOf s u j rid reqs).1.fcs :=
  acquire_inv shardOf (fun st => NoStateL i st.fcs) s u j rid reqs
    (fun a rq ha => by
      rcases acquireOne_fcs j rid (shardOf u) u a rq with e | e
      · rw [e]; exact ha
      · rw [e]; exact noStateL_mapFC _ _ _ _ (clean_setState hij rid rq.2) ha) h

theorem burst_frame (s : State) (u : Ups) (j : Inst) (n : Str) (st : Option IState) :
    (burst shardOf s u j n st).hb = s.hb ∧ (burst shardOf s u j n st).conds = s.conds := by
  unfold burst
  simp only
  repeat' split
  all_goals exact ⟨rfl, rfl⟩

theorem burst_fcs (s : State) (u : Ups) (j : Inst) (n : Str) (st : Option IState) :
    (burst shardOf s u j n st).fcs = s.fcs ∨
    ∃ st', (burst shardOf s u j n st).fcs = mapFC s.fcs (shardOf u) u n (fun f => f.force j st') := by
  unfold burst
  simp only
  repeat' split
  all_goals first
    | exact Or.inl rfl
    | exact Or.inr ⟨_, rfl⟩

theorem burst_noState {i j : Inst} (hij : i ≠ j) (s : State) (u : Ups) (n : Str) (st : Option IState)
    (h : NoStateL i s.fcs) : NoStateL i (burst shardOf s u j n st).fcs := by
  rcases burst_fcs shardOf s u j n st with e | ⟨st', e⟩
  · rw [e]; exact h
  · rw [e]; exact noStateL_mapFC _ _ _ _ (clean_force hij st') h

theorem cleanupTimeout_noState {i : Inst} (s : State) (now : Nat) (h : NoStateL i s.fcs) :
    NoStateL i (cleanupTimeout shardOf s now).fcs := noStateL_dropAll _ h

theorem cleanupUnknown_noState {i : Inst} (s : State) (h : NoStateL i s.fcs) :
    NoStateL i (cleanupUnknown shardOf s).fcs := noStateL_filter _ (noStateL_dropAll _ h)

/-! ### conditions: `Save`, `calculateUpstreamCondition`, a successful report -/

theorem find_saveCond_self (conds : List (Nat × Cond)) (sh : Nat) (c : Cond) :
    ((saveCond conds sh c).find? fun r => r.1 == sh && r.2.upstream == c.upstream && r.2.name == c.name)
      = some (sh, c) := by
  unfold saveCond
  rw [List.find?_append]
  have h1 : (conds.filter fun r => !(r.1 == sh && r.2.upstream == c.upstream && r.2.name == c.name)).find?
      (fun r => r.1 == sh && r.2.upstream == c.upstream && r.2.name == c.name) = none := by
    rw [List.find?_eq_none]
    intro x hx
    have h := (List.mem_filter.1 hx).2
    show ¬((x.1 == sh && x.2.upstream == c.upstream && x.2.name == c.name) = true)
    cases hp : (x.1 == sh && x.2.upstream == c.upstream && x.2.name == c.name)
    · simp
    · rw [hp] at h; cases h
  rw [h1]
  simp

theorem mem_saveCond (conds : List (Nat × Cond)) (sh : Nat) (c : Cond) (r : Nat × Cond)
    (h : r ∈ saveCond conds sh c) : r ∈ conds ∨ r = (sh, c) := by
  simp only [saveCond, List.mem_append, List.mem_filter, List.mem_singleton] at h
  cases h with
  | inl h => exact Or.inl h.1
  | inr h => exact Or.inr h

theorem mem_saveCond_of_ne (conds : List (Nat × Cond)) (sh : Nat) (c : Cond) (r : Nat × Cond) (hr : r ∈ conds)
    (hne : ¬(r.1 = sh ∧ r.2.upstream = c.upstream ∧ r.2.name = c.name)) : r ∈ saveCond conds sh c := by
  simp only [saveCond, List.mem_append, List.mem_filter, List.mem_singleton]
  refine Or.inl ⟨hr, ?_⟩
  simp only [Bool.not_eq_true', Bool.and_eq_false_iff, beq_eq_false_iff_ne]
  by_cases h1 : r.1 = sh
  · by_cases h2 : r.2.upstream = c.upstream
    · exact Or.inr (fun h3 => hne ⟨h1, h2, h3⟩)
    · exact Or.inl (Or.inr h2)
  · exact Or.inl (Or.inl h1)

theorem mem_summed (conds : List (Nat × Cond)) (sh : Nat) (u : Ups) (c : Cond) (h : c ∈ summed conds sh u) :
    (sh, c) ∈ conds ∧ c.upstream = u ∧ c.name ≠ stateName u := by
  simp only [summed, listUpstream, List.mem_filter, List.mem_map] at h
  obtain ⟨⟨r, ⟨hr, hk⟩, rfl⟩, hn⟩ := h
  simp only [Bool.and_eq_true, beq_iff_eq] at hk
  refine ⟨?_, hk.2, by simpa using hn⟩
  have : r = (sh, r.2) := by rw [← hk.1]
  rw [← this]; exact hr

/-- saving the upstream state condition does not change what `calculateUpstreamCondition` adds up. -/
theorem summed_saveCond_state (conds : List (Nat × Cond)) (sh : Nat) (u : Ups) (c : Cond)
    (hu : c.upstream = u) (hn : c.name = stateName u) : summed (saveCond conds sh c) sh u = summed conds sh u := by
  unfold summed listUpstream saveCond
  rw [List.filter_append, List.map_append, List.filter_append]
  have h2 : ((([(sh, c)] : List (Nat × Cond)).filter fun r => r.1 == sh && r.2.upstream == u).map (·.2)).filter
      (fun c => c.name != stateName u) = [] := by
    simp [hu, hn]
  rw [h2, List.append_nil, hu, hn]
  rw [List.filter_map, List.filter_map, List.filter_filter, List.filter_filter, List.filter_filter]
  congr 1
  apply List.filter_congr
  intro x _
  simp only [Function.comp, bne]
  cases (x.1 == sh) <;> cases (x.2.upstream == u) <;> cases (x.2.name == stateName u) <;> rfl

/-- after saving the upstream state condition `c`, `Get` finds it and the summed conditions are those of before. -/
theorem state_saved (s : State) (L : List (Nat × Cond)) (sh : Nat) (u : Ups) (c : Cond)
    (hu : c.upstream = u) (hn : c.name = stateName u) :
    getCond { s with conds := saveCond L sh c } sh u (stateName u) = some c ∧
    summed (saveCond L sh c) sh u = summed L sh u := by
  refine ⟨?_, summed_saveCond_state L sh u c hu hn⟩
  have h := find_saveCond_self L sh c
  rw [hu, hn] at h
  unfold getCond
  simp only
  rw [h]; rfl

theorem getCond_some (s : State) (sh : Nat) (u : Ups) (n : Str) (c : Cond) (h : getCond s sh u n = some c) :
    (sh, c) ∈ s.conds ∧ c.upstream = u ∧ c.name = n := by
  unfold getCond at h
  obtain ⟨r, hr, hr2⟩ := Option.map_eq_some_iff.1 h
  have hp := List.find?_some hr
  have hm := List.mem_of_find?_eq_some hr
  simp only [Bool.and_eq_true, beq_iff_eq] at hp
  subst hr2
  refine ⟨?_, hp.1.2, hp.2⟩
  have : r = (sh, r.2) := by rw [← hp.1.1]
  rw [← this]; exact hm

/-- what a report that is answered (not rejected) did. -/
theorem report_ok (s : State) (u : Ups) (j : Inst) (ri : List (Str × Kind)) (q : List Item) (l : Str)
    (h : (report shardOf s u j ri q).2 = .reported l) :
    isLeader s (shardOf u) = true ∧ ∃ upc, getCond s (shardOf u) u (stateName u) = some upc ∧
      (report shardOf s u j ri q).1 =
        { s with conds := (saveCond (saveCond s.conds (shardOf u) ⟨condName u j, u, j, some l, q, []⟩) (shardOf u)
            ({ upc with status := calcSums (summed (saveCond s.conds (shardOf u) ⟨condName u j, u, j, some l, q, []⟩)
                (shardOf u) u) } : Cond)) } := by
  have h0 := h
  unfold report at h
  simp only [] at h
  split at h
  · cases h
  · rename_i hl
    split at h
    · cases h
    · rename_i hst
      split at h
      · cases h
      · rename_i hlock
        split at h
        · cases h
        · rename_i upc hupc
          split at h
          · cases h
          · rename_i kept hk
            split at h
            · cases h
            · rename_i hq
              simp only [Out.reported.injEq] at h
              refine ⟨by simpa using hl, upc, hupc, ?_⟩
              unfold report
              simp only [hl, hst, hlock, hupc, hk, hq, if_false, Bool.false_eq_true]
              rw [h]

theorem report_out_cases (s : State) (u : Ups) (j : Inst) (ri : List (Str × Kind)) (q : List Item) :
    (∃ e, (report shardOf s u j ri q).2 = .err e) ∨ (∃ l, (report shardOf s u j ri q).2 = .reported l) := by
  unfold report
  simp only []
  repeat' (first | split | (simp only []; split))
  all_goals first
    | exact Or.inl ⟨_, rfl⟩
    | exact Or.inr ⟨_, rfl⟩

/-- a report that is not answered changes nothing. -/
theorem report_unchanged_conds (s : State) (u : Ups) (j : Inst) (ri : List (Str × Kind)) (q : List Item)
    (h : ∀ l, (report shardOf s u j ri q).2 ≠ .reported l) : (report shardOf s u j ri q).1.conds = s.conds := by
  unfold report at h ⊢
  simp only [] at h ⊢
  repeat' (first | split | (simp only []; split))
  all_goals first
    | rfl
    | (exfalso; simp_all)

/-- flow control `r` of `pre` is still there in `fcs` (same store, cluster, name) with the same state for `i`. -/
def Kept (i : Inst) (fcs : List (Nat × Ups × FC)) (r : Nat × Ups × FC) : Prop :=
  ∃ r' ∈ fcs, r'.1 = r.1 ∧ r'.2.1 = r.2.1 ∧ r'.2.2.name = r.2.2.name ∧ r'.2.2.getState i = r.2.2.getState i

theorem kept_mapFC {i : Inst} (fcs : List (Nat × Ups × FC)) (sh : Nat) (u : Ups) (n : Str) (g : FC → FC)
    (hname : ∀ f, (g f).name = f.name) (hst : ∀ f, (g f).getState i = f.getState i)
    (r : Nat × Ups × FC) (h : Kept i fcs r) : Kept i (mapFC fcs sh u n g) r := by
  obtain ⟨r', hr', h1, h2, h3, h4⟩ := h
  by_cases hk : (r'.1 == sh && r'.2.1 == u && r'.2.2.name == n) = true
  · refine ⟨(r'.1, r'.2.1, g r'.2.2), ?_, h1, h2, ?_, ?_⟩
    · exact List.mem_map.2 ⟨r', hr', by simp [hk]⟩
    · simp only [hname]; exact h3
    · simp only [hst]; exact h4
  · refine ⟨r', ?_, h1, h2, h3, h4⟩
    exact List.mem_map.2 ⟨r', hr', by simp [hk]⟩

theorem acquire_kept {i j : Inst} (hij : i ≠ j) (s : State) (u : Ups) (rid : Int) (reqs : List (Str × Int))
    (r : Nat × Ups × FC) (hr : r ∈ s.fcs) : Kept i (acquire shardOf s u j rid reqs).1.fcs r :=
  acquire_inv shardOf (fun st => Kept i st.fcs r) s u j rid reqs
    (fun a rq ha => by
      rcases acquireOne_fcs j rid (shardOf u) u a rq with e | e
      · rw [e]; exact ha
      · rw [e]
        exact kept_mapFC _ _ _ _ _ (fun f => setState_name f j rid rq.2)
          (fun f => setState_getState_ne f i j rid rq.2 hij) r ha)
    ⟨r, hr, rfl, rfl, rfl, rfl⟩

theorem burst_kept {i j : Inst} (hij : i ≠ j) (s : State) (u : Ups) (n : Str) (st : Option IState)
    (r : Nat × Ups × FC) (hr : r ∈ s.fcs) : Kept i (burst shardOf s u j n st).fcs r := by
  rcases burst_fcs shardOf s u j n st with e | ⟨st', e⟩
  · rw [e]; exact ⟨r, hr, rfl, rfl, rfl, rfl⟩
  · rw [e]
    exact kept_mapFC _ _ _ _ _ (fun f => force_name f j st') (fun f => force_getState_ne f i j st' hij) r
      ⟨r, hr, rfl, rfl, rfl, rfl⟩

/-! ### an acquire records under the acquiring id -/

theorem put_getState_self (f : FC) (i : Inst) (st : IState) (c : Int) : (f.put i st c).getState i = some st := by
  unfold FC.getState FC.put
  simp only [List.find?_append]
  have h1 : (f.states.filter (·.1 != i)).find? (·.1 == i) = none := by
    rw [List.find?_eq_none]
    intro x hx
    have := (List.mem_filter.1 hx).2
    simpa using this
  rw [h1]; simp

theorem setState_has (f : FC) (i : Inst) (rid cur : Int) (h : ¬ cur < 0) (hm : f.isMif = true) :
    (setState f i rid cur).1.getState i ≠ none := by
  unfold setState
  simp only [hm, Bool.not_true, Bool.false_eq_true, if_false, h]
  repeat' (first | split | (simp only []; split))
  all_goals (rw [put_getState_self]; simp)

theorem setState_keeps_has (f : FC) (i : Inst) (rid cur : Int) (h : ¬ cur < 0) (hs : f.getState i ≠ none) :
    (setState f i rid cur).1.getState i ≠ none := by
  by_cases hm : f.isMif = true
  · exact setState_has f i rid cur h hm
  · have hf : f.isMif = false := by simpa using hm
    have : (setState f i rid cur).1 = f := by unfold setState; simp [hf]
    rw [this]; exact hs

/-- a flow control (store, cluster, name) of the list records an in-flight state of `i`. -/
def Has (i : Inst) (sh : Nat) (u : Ups) (n : Str) (fcs : List (Nat × Ups × FC)) : Prop :=
  ∃ x ∈ fcs, x.1 = sh ∧ x.2.1 = u ∧ x.2.2.name = n ∧ x.2.2.getState i ≠ none

theorem has_mapFC {i : Inst} {sh : Nat} {u : Ups} {n : Str} {fcs : List (Nat × Ups × FC)} (sh' : Nat) (u' : Ups)
    (n' : Str) (g : FC → FC) (hname : ∀ f, (g f).name = f.name)
    (hkeep : ∀ f, f.getState i ≠ none → (g f).getState i ≠ none) (h : Has i sh u n fcs) :
    Has i sh u n (mapFC fcs sh' u' n' g) := by
  obtain ⟨x, hx, h1, h2, h3, h4⟩ := h
  by_cases hk : (x.1 == sh' && x.2.1 == u' && x.2.2.name == n') = true
  · exact ⟨(x.1, x.2.1, g x.2.2), List.mem_map.2 ⟨x, hx, by simp [hk]⟩, h1, h2, by simp only [hname]; exact h3, hkeep _ h4⟩
  · exact ⟨x, List.mem_map.2 ⟨x, hx, by simp [hk]⟩, h1, h2, h3, h4⟩

theorem acquireOne_has (i : Inst) (rid : Int) (sh : Nat) (u : Ups) (s : State) (rq : Str × Int) :
    (∀ n, Has i sh u n s.fcs → Has i sh u n (acquireOne i rid sh u s rq).1.fcs) ∧
    ((acquireOne i rid sh u s rq).2.2.2.2 = "" →
      (acquireOne i rid sh u s rq).2.1 = rq.1 ∧ Has i sh u rq.1 (acquireOne i rid sh u s rq).1.fcs) := by
  unfold acquireOne
  split
  · exact ⟨fun _ h => h, fun h => by simp at h⟩
  · rename_i f hf
    split
    · exact ⟨fun _ h => h, fun h => by simp at h⟩
    · rename_i hneg
      split
      · exact ⟨fun _ h => h, fun h => by simp at h⟩
      · rename_i hmif
        have hm : f.isMif = true := by simpa using hmif
        have hkeepall : ∀ n, Has i sh u n s.fcs →
            Has i sh u n (mapFC s.fcs sh u rq.1 (fun f => (setState f i rid rq.2).1)) := fun n h =>
          has_mapFC sh u rq.1 _ (fun f => setState_name f i rid rq.2)
            (fun f hs => setState_keeps_has f i rid rq.2 hneg hs) h
        have hnew : Has i sh u rq.1 (mapFC s.fcs sh u rq.1 (fun f => (setState f i rid rq.2).1)) := by
          unfold getFlowControl at hf
          obtain ⟨x, hx, hx2⟩ := Option.map_eq_some_iff.1 hf
          have hp := List.find?_some hx
          have hmem := List.mem_of_find?_eq_some hx
          have hp' := hp
          simp only [Bool.and_eq_true, beq_iff_eq] at hp'
          refine ⟨(x.1, x.2.1, (setState x.2.2 i rid rq.2).1), List.mem_map.2 ⟨x, hmem, by simp [hp]⟩,
            hp'.1.1, hp'.1.2, ?_, ?_⟩
          · simp only [setState_name]; exact hp'.2
          · exact setState_has _ i rid rq.2 hneg (by rw [hx2]; exact hm)
        simp only []
        generalize setState f i rid rq.2 = res
        obtain ⟨f', acc, latest, old⟩ := res
        simp only
        repeat' split
        all_goals exact ⟨hkeepall, fun _ => ⟨rfl, hnew⟩⟩

theorem acquireLoop_recorded (i : Inst) (rid : Int) (sh : Nat) (u : Ups) (reqs : List (Str × Int)) :
    ∀ (s : State) (acc : List (Str × Bool × Int × String)),
      (∀ r ∈ acc, r.2.2.2 = "" → Has i sh u r.1 s.fcs) →
      ∀ r ∈ (acquireLoop i rid sh u s reqs acc).2, r.2.2.2 = "" →
        Has i sh u r.1 (acquireLoop i rid sh u s reqs acc).1.fcs := by
  induction reqs with
  | nil => intro s acc h; exact h
  | cons rq rest ih =>
    intro s acc h
    have e : acquireLoop i rid sh u s (rq :: rest) acc =
        acquireLoop i rid sh u (acquireOne i rid sh u s rq).1 rest (acc ++ [(acquireOne i rid sh u s rq).2]) := rfl
    rw [e]
    have hone := acquireOne_has i rid sh u s rq
    apply ih
    intro r hr he
    rcases List.mem_append.1 hr with h1 | h1
    · exact hone.1 _ (h r h1 he)
    · rw [List.mem_singleton] at h1
      subst h1
      have := hone.2 he
      rw [this.1]; exact this.2

/-! ### upstream events and leadership changes -/

theorem updateUpstreamStateCondition_key (upc : Option Cond) (u : Ups) (sc : List Schema)
    (h : ∀ c, upc = some c → c.upstream = u ∧ c.name = stateName u) :
    (updateUpstreamStateCondition upc u sc).upstream = u ∧ (updateUpstreamStateCondition upc u sc).name = stateName u := by
  unfold updateUpstreamStateCondition
  cases upc with
  | none => exact ⟨rfl, rfl⟩
  | some c => exact h c rfl

/-- an upstream event leaves every condition alone except the state condition of that upstream in its own store,
    unless the upstream is gone (then `DeleteUpstream`). -/
theorem handle_keeps_conds (s : State) (u : Ups) (r : Nat × Cond) (hr : r ∈ s.conds)
    (hne : ¬(r.1 = shardOf u ∧ r.2.upstream = u ∧ (isListed s u = false ∨ r.2.name = stateName u))) :
    r ∈ (handle shardOf s u).conds := by
  unfold handle
  simp only
  split
  · exact hr
  · split
    · exact hr
    · split
      · rename_i hnone
        have hl : isListed s u = false := by
          unfold isListed
          rw [List.any_eq_false]
          intro p hp hpu
          have : (s.listed.find? (·.1 == u)).isSome = true := by
            rw [List.find?_isSome]; exact ⟨p, hp, hpu⟩
          cases hf : s.listed.find? (·.1 == u) with
          | none => rw [hf] at this; cases this
          | some x => rw [hf] at hnone; cases hnone
        unfold deleteUpstream
        split
        · exact hr
        · simp only [List.mem_filter]
          refine ⟨hr, ?_⟩
          cases h1 : (r.1 == shardOf u && r.2.upstream == u)
          · rfl
          · exfalso
            simp only [Bool.and_eq_true, beq_iff_eq] at h1
            exact hne ⟨h1.1, h1.2, Or.inl hl⟩
      · rw [(syncFlowControl_frame _ _ _ _).2.1]
        simp only
        have hk := updateUpstreamStateCondition_key (getCond s (shardOf u) u (stateName u)) u ‹List Schema›
          (fun c hc => (getCond_some s _ _ _ c hc).2)
        apply mem_saveCond_of_ne _ _ _ _ hr
        intro hk2
        exact hne ⟨hk2.1, by rw [hk2.2.1]; exact hk.1, Or.inr (by rw [hk2.2.2]; exact hk.2)⟩

theorem foldl_handle_keeps (r : Nat × Cond) (l : List (Ups × List Schema)) (hl : ∀ p ∈ l, shardOf p.1 ≠ r.1)
    (a : State) (ha : r ∈ a.conds) : r ∈ (l.foldl (fun st p => handle shardOf st p.1) a).conds := by
  induction l generalizing a with
  | nil => exact ha
  | cons x t ih =>
    refine ih (fun p hp => hl p (by simp [hp])) _ ?_
    exact handle_keeps_conds shardOf a x.1 r ha (fun h => hl x (by simp) h.1.symm)

theorem foldl_dropStore_keeps (r : Nat × Cond) (l : List Nat) (hl : ∀ sh ∈ l, sh ≠ r.1)
    (a : State) (ha : r ∈ a.conds) : r ∈ (l.foldl dropStore a).conds := by
  induction l generalizing a with
  | nil => exact ha
  | cons x t ih =>
    refine ih (fun p hp => hl p (by simp [hp])) _ ?_
    simp only [dropStore, List.mem_filter]
    exact ⟨ha, by simp [Ne.symm (hl x (by simp))]⟩

/-! ### one step of a history, seen from a silent instance -/

theorem step_noState {i : Inst} (s : State) (op : Op) (h : op.isBy i = false) (hs : NoState i s) :
    NoState i (step shardOf s op).1 := by
  cases op with
  | heartbeat j t => exact hs
  | report u j ri q =>
    show NoStateL i (report shardOf s u j ri q).1.fcs
    rw [(report_frame shardOf s u j ri q).2.1]; exact hs
  | acquire u j rid reqs =>
    have hij : i ≠ j := by intro e; subst e; simp [Op.isBy] at h
    exact acquire_noState shardOf hij s u rid reqs hs
  | cleanupTimeout now => exact cleanupTimeout_noState shardOf s now hs
  | cleanupUnknown => exact cleanupUnknown_noState shardOf s hs
  | setLeader sh b => exact hs
  | leaderCheck => exact leaderCheck_noState shardOf s hs
  | list u sc => exact hs
  | unlist u => exact hs
  | handle u => exact handle_noState shardOf s u hs
  | burst u j n st =>
    have hij : i ≠ j := by intro e; subst e; simp [Op.isBy] at h
    exact burst_noState shardOf hij s u n st hs
  | faults names => exact hs
  | apiDelete name => exact hs
  | wireRejected => exact hs

/-- heartbeat entries of a silent instance are never created. -/
theorem step_hb_from {i : Inst} (s : State) (op : Op) (h : op.isBy i = false) :
    ∀ p ∈ (step shardOf s op).1.hb, p.1 = i → p ∈ s.hb := by
  intro p hp hi
  cases op with
  | heartbeat j t =>
    have hij : j ≠ i := by intro e; subst e; simp [Op.isBy] at h
    simp only [step, heartbeat, List.mem_append, List.mem_filter, List.mem_singleton] at hp
    cases hp with
    | inl h1 => exact h1.1
    | inr h1 => subst h1; exact absurd hi hij
  | report u j ri q => rw [show (step shardOf s (.report u j ri q)).1.hb = s.hb from (report_frame shardOf s u j ri q).1] at hp; exact hp
  | acquire u j rid reqs => rw [show (step shardOf s (.acquire u j rid reqs)).1.hb = s.hb from acquire_hb shardOf s u j rid reqs] at hp; exact hp
  | cleanupTimeout now => exact (List.mem_filter.1 hp).1
  | cleanupUnknown => exact hp
  | setLeader sh b => exact hp
  | leaderCheck => rw [show (step shardOf s .leaderCheck).1.hb = s.hb from leaderCheck_hb shardOf s] at hp; exact hp
  | list u sc => exact hp
  | unlist u => exact hp
  | handle u => rw [show (step shardOf s (.handle u)).1.hb = s.hb from (handle_frame shardOf s u).1] at hp; exact hp
  | burst u j n st => rw [show (step shardOf s (.burst u j n st)).1.hb = s.hb from (burst_frame shardOf s u j n st).1] at hp; exact hp
  | faults names => exact hp
  | apiDelete name => exact hp
  | wireRejected => exact hp

/-- only the time-out pass removes heartbeat entries of an instance other than the one acting. -/
theorem step_hb_keep {i : Inst} (s : State) (op : Op) (h : op.isBy i = false) (hop : ∀ now, op ≠ .cleanupTimeout now) :
    ∀ p ∈ s.hb, p.1 = i → p ∈ (step shardOf s op).1.hb := by
  intro p hp hi
  cases op with
  | heartbeat j t =>
    have hij : j ≠ i := by intro e; subst e; simp [Op.isBy] at h
    simp only [step, heartbeat, List.mem_append, List.mem_filter, List.mem_singleton]
    exact Or.inl ⟨hp, by simp [hi, Ne.symm hij]⟩
  | report u j ri q => rw [show (step shardOf s (.report u j ri q)).1.hb = s.hb from (report_frame shardOf s u j ri q).1]; exact hp
  | acquire u j rid reqs => rw [show (step shardOf s (.acquire u j rid reqs)).1.hb = s.hb from acquire_hb shardOf s u j rid reqs]; exact hp
  | cleanupTimeout now => exact absurd rfl (hop now)
  | cleanupUnknown => exact hp
  | setLeader sh b => exact hp
  | leaderCheck => rw [show (step shardOf s .leaderCheck).1.hb = s.hb from leaderCheck_hb shardOf s]; exact hp
  | list u sc => exact hp
  | unlist u => exact hp
  | handle u => rw [show (step shardOf s (.handle u)).1.hb = s.hb from (handle_frame shardOf s u).1]; exact hp
  | burst u j n st => rw [show (step shardOf s (.burst u j n st)).1.hb = s.hb from (burst_frame shardOf s u j n st).1]; exact hp
  | faults names => exact hp
  | apiDelete name => exact hp
  | wireRejected => exact hp

/-- the time-out pass drops every in-flight state of an instance that is dead at `now`. -/
theorem cleanupTimeout_drops_dead (s : State) (now : Nat) (i : Inst) (hdead : DeadAt now s i) :
    NoState i (cleanupTimeout shardOf s now) := by
  obtain ⟨q, hq, hqi⟩ := hdead.1
  have hqd : i ∈ (s.hb.filter (timedOut now)).map (·.1) :=
    List.mem_map.2 ⟨q, List.mem_filter.2 ⟨hq, hdead.2 q hq hqi⟩, hqi⟩
  intro r hr hm p hp
  simp only [cleanupTimeout, List.mem_map] at hr
  obtain ⟨r0, hr0, rfl⟩ := hr
  have hm0 : r0.2.2.isMif = true := by rw [← dropAll_isMif]; exact hm
  exact dropAll_removes _ _ hm0 _ hqd p hp

theorem run_append (s : State) (a b : List Op) : run shardOf s (a ++ b) = run shardOf (run shardOf s a) b := by
  simp [run, List.foldl_append]

theorem run_cons (s : State) (op : Op) (ops : List Op) :
    run shardOf s (op :: ops) = run shardOf (step shardOf s op).1 ops := rfl

/-! ### the fault environment only changes by the `faults` op -/

theorem syncFlowControl_failing (s : State) (sh : Nat) (u : Ups) (sc : List Schema) :
    (syncFlowControl s sh u sc).failing = s.failing := by
  unfold syncFlowControl; simp only []; split <;> rfl

theorem handle_failing (s : State) (u : Ups) : (handle shardOf s u).failing = s.failing := by
  unfold handle
  simp only
  split
  · rfl
  · split
    · rfl
    · split
      · unfold deleteUpstream; split <;> rfl
      · rw [syncFlowControl_failing]

theorem report_failing (s : State) (u : Ups) (j : Inst) (ri : List (Str × Kind)) (q : List Item) :
    (report shardOf s u j ri q).1.failing = s.failing := by
  unfold report
  repeat' (first | split | (simp only []; split))
  all_goals rfl

theorem acquireOne_failing (j : Inst) (rid : Int) (sh : Nat) (u : Ups) (s : State) (rq : Str × Int) :
    (acquireOne j rid sh u s rq).1.failing = s.failing := by
  unfold acquireOne
  repeat' (first | split | (simp only []; split))
  all_goals rfl

theorem burst_failing (s : State) (u : Ups) (j : Inst) (n : Str) (st : Option IState) :
    (burst shardOf s u j n st).failing = s.failing := by
  unfold burst
  simp only
  repeat' split
  all_goals rfl

theorem step_failing (s : State) (op : Op) (h : ∀ l, op ≠ .faults l) : (step shardOf s op).1.failing = s.failing := by
  cases op with
  | heartbeat j t => rfl
  | report u j ri q => exact report_failing shardOf s u j ri q
  | acquire u j rid reqs =>
    exact acquire_inv shardOf (fun st => st.failing = s.failing) s u j rid reqs
      (fun a rq ha => by rw [acquireOne_failing]; exact ha) rfl
  | cleanupTimeout now => rfl
  | cleanupUnknown => rfl
  | setLeader sh b => rfl
  | leaderCheck =>
    exact leaderCheck_inv shardOf (fun st => st.failing = s.failing) (fun _ _ ha => ha)
      (fun a u ha => by rw [handle_failing]; exact ha) (fun _ _ ha => ha) s rfl
  | list u sc => rfl
  | unlist u => rfl
  | handle u => exact handle_failing shardOf s u
  | burst u j n st => exact burst_failing shardOf s u j n st
  | faults names => exact absurd rfl (h names)
  | apiDelete name => rfl
  | wireRejected => rfl

/-- a history without `faults` ops (every history of a server with the local store) never has a failing delete. -/
theorem run_failing (ops : List Op) (h : ∀ op ∈ ops, ∀ l, op ≠ .faults l) (s : State) :
    (run shardOf s ops).failing = s.failing := by
  induction ops generalizing s with
  | nil => rfl
  | cons op t ih =>
    rw [run_cons, ih (fun o ho => h o (by simp [ho])), step_failing shardOf s op (h op (by simp))]

/-- what a silent, already forgotten instance stays: forgotten. -/
theorem gone_run {i : Inst} (ops : List Op) (hq : Quiet i ops) (s : State) (h : NoHb i s ∧ NoState i s) :
    NoHb i (run shardOf s ops) ∧ NoState i (run shardOf s ops) := by
  induction ops generalizing s with
  | nil => exact h
  | cons op t ih =>
    rw [run_cons]
    have hop : op.isBy i = false := hq op (by simp)
    refine ih (fun o ho => hq o (by simp [ho])) _ ⟨?_, step_noState shardOf s op hop h.2⟩
    intro p hp hi
    exact h.1 p (step_hb_from shardOf s op hop p hp hi) hi

/-- the invariant carried from the last heartbeat of `i` (at `t0`) through a history in which `i` is silent:
    every entry of `i` still says `t0`, and once the entry is gone so are the in-flight states. -/
def LastSeen (i : Inst) (t0 : Nat) (s : State) : Prop :=
  (∀ p ∈ s.hb, p.1 = i → p.2 = t0) ∧ (NoHb i s → NoState i s)

theorem lastSeen_step {i : Inst} {t0 : Nat} (s : State) (op : Op) (hop : op.isBy i = false)
    (h : LastSeen i t0 s) : LastSeen i t0 (step shardOf s op).1 := by
  refine ⟨fun p hp hi => h.1 p (step_hb_from shardOf s op hop p hp hi) hi, ?_⟩
  intro hno
  by_cases hct : ∃ now, op = .cleanupTimeout now
  · obtain ⟨now, rfl⟩ := hct
    by_cases hn : NoHb i s
    · exact step_noState shardOf s _ hop (h.2 hn)
    · have hex : ∃ p ∈ s.hb, p.1 = i := by
        apply Classical.byContradiction
        intro hne
        exact hn (fun p hp hi => hne ⟨p, hp, hi⟩)
      refine cleanupTimeout_drops_dead shardOf s now i ⟨hex, ?_⟩
      intro p hp hi
      cases hto : timedOut now p
      · exact absurd hi (hno p (List.mem_filter.2 ⟨hp, by simp [hto]⟩))
      · rfl
  · have hop' : ∀ now, op ≠ .cleanupTimeout now := fun now e => hct ⟨now, e⟩
    have hn : NoHb i s := fun p hp hi => hno p (step_hb_keep shardOf s op hop hop' p hp hi) hi
    exact step_noState shardOf s op hop (h.2 hn)

theorem lastSeen_run {i : Inst} {t0 : Nat} (ops : List Op) (hq : Quiet i ops) (s : State)
    (h : LastSeen i t0 s) : LastSeen i t0 (run shardOf s ops) := by
  induction ops generalizing s with
  | nil => exact h
  | cons op t ih =>
    rw [run_cons]
    exact ih (fun o ho => hq o (by simp [ho])) _ (lastSeen_step shardOf s op (hq op (by simp)) h)

theorem lastSeen_heartbeat (s : State) (i : Inst) (t0 : Nat) : LastSeen i t0 (heartbeat s i t0) := by
  refine ⟨?_, ?_⟩
  · intro p hp hi
    simp only [heartbeat, List.mem_append, List.mem_filter, List.mem_singleton] at hp
    cases hp with
    | inl h1 => simp [hi] at h1
    | inr h1 => rw [h1]
  · intro hno
    exact absurd rfl (hno (i, t0) (by simp [heartbeat]))

end frames


/-! ### the total of a flow control is the sum of what it records per instance -/

/-- no instance has two states in the list. -/
def KeysNodup : List (Inst × IState) → Prop
  | [] => True
  | p :: t => (∀ q ∈ t, q.1 ≠ p.1) ∧ KeysNodup t

/-- the invariant of `globalMaxInflight` (`count = Σ instanceStates[i].count`, in int32). -/
def Good (f : FC) : Prop := f.isMif = true → KeysNodup f.states ∧ f.count = toI32 (sumCounts f.states)

theorem sumCounts_append (a b : List (Inst × IState)) : sumCounts (a ++ b) = sumCounts a + sumCounts b := by
  induction a with
  | nil => simp [sumCounts]
  | cons x t ih => simp only [List.cons_append, sumCounts, ih]; omega

theorem keysNodup_filter (l : List (Inst × IState)) (p : Inst × IState → Bool) (h : KeysNodup l) :
    KeysNodup (l.filter p) := by
  induction l with
  | nil => exact h
  | cons x t ih =>
    simp only [List.filter_cons]
    split
    · exact ⟨fun q hq => h.1 q (List.mem_filter.1 hq).1, ih h.2⟩
    · exact ih h.2

theorem keysNodup_snoc (l : List (Inst × IState)) (x : Inst × IState) (h : KeysNodup l) (hx : ∀ q ∈ l, q.1 ≠ x.1) :
    KeysNodup (l ++ [x]) := by
  induction l with
  | nil => exact ⟨fun q hq => (by cases hq), trivial⟩
  | cons y t ih =>
    refine ⟨?_, ih h.2 (fun q hq => hx q (by simp [hq]))⟩
    intro q hq
    rcases List.mem_append.1 hq with h1 | h1
    · exact h.1 q h1
    · rw [List.mem_singleton] at h1; subst h1
      exact Ne.symm (hx y (by simp))

theorem keysNodup_put (l : List (Inst × IState)) (i : Inst) (st : IState) (h : KeysNodup l) :
    KeysNodup (l.filter (·.1 != i) ++ [(i, st)]) := by
  apply keysNodup_snoc _ _ (keysNodup_filter l _ h)
  intro q hq
  have := (List.mem_filter.1 hq).2
  simpa using this

theorem filter_ne_of_absent (l : List (Inst × IState)) (i : Inst) (h : ∀ p ∈ l, p.1 ≠ i) :
    l.filter (·.1 != i) = l := by
  rw [List.filter_eq_self]
  intro p hp; simp [h p hp]

theorem sum_filter_present (l : List (Inst × IState)) (i : Inst) (p : Inst × IState) (hn : KeysNodup l)
    (hf : l.find? (·.1 == i) = some p) : sumCounts l = sumCounts (l.filter (·.1 != i)) + p.2.count := by
  induction l with
  | nil => cases hf
  | cons x t ih =>
    by_cases hx : x.1 = i
    · have hxp : x = p := by simpa [List.find?_cons, hx] using hf
      have hrest : t.filter (·.1 != i) = t := by
        apply filter_ne_of_absent
        intro q hq; rw [← hx]; exact hn.1 q hq
      simp only [List.filter_cons, hx, bne_self_eq_false, Bool.false_eq_true, if_false, hrest, sumCounts, ← hxp]
      omega
    · have hf' : t.find? (·.1 == i) = some p := by simpa [List.find?_cons, hx] using hf
      have := ih hn.2 hf'
      simp only [List.filter_cons, bne_iff_ne, ne_eq, hx, not_false_eq_true, decide_true, if_true, sumCounts, this]
      omega

theorem good_drop (f : FC) (i : Inst) (h : Good f) : Good (f.drop i) := by
  unfold FC.drop
  split
  · exact h
  · rename_i hm
    have hm' : f.isMif = true := by simpa using hm
    obtain ⟨hn, hc⟩ := h hm'
    split
    · rename_i st hst
      intro _
      refine ⟨keysNodup_filter _ _ hn, ?_⟩
      unfold FC.getState at hst
      obtain ⟨p, hp, hp2⟩ := Option.map_eq_some_iff.1 hst
      have := sum_filter_present f.states i p hn hp
      simp only
      rw [hc, this, ← hp2]
      unfold toI32; omega
    · exact h

theorem good_put_present (f : FC) (i : Inst) (st st' : IState) (c : Int) (hm : f.isMif = true) (h : Good f)
    (hst : f.getState i = some st) (hc : c = toI32 (sumCounts f.states - st.count + st'.count)) :
    Good (f.put i st' c) := by
  intro _
  obtain ⟨hn, _⟩ := h hm
  refine ⟨keysNodup_put _ _ _ hn, ?_⟩
  unfold FC.getState at hst
  obtain ⟨p, hp, hp2⟩ := Option.map_eq_some_iff.1 hst
  have := sum_filter_present f.states i p hn hp
  simp only [FC.put, sumCounts_append, sumCounts]
  rw [hc, this, ← hp2]
  congr 1; omega

theorem good_put_absent (f : FC) (i : Inst) (st' : IState) (c : Int) (hm : f.isMif = true) (h : Good f)
    (hst : f.getState i = none) (hc : c = toI32 (sumCounts f.states + st'.count)) :
    Good (f.put i st' c) := by
  intro _
  obtain ⟨hn, _⟩ := h hm
  refine ⟨keysNodup_put _ _ _ hn, ?_⟩
  have := filter_ne_of_absent f.states i ((getState_none_iff f i).1 hst)
  simp only [FC.put, sumCounts_append, sumCounts, this]
  rw [hc]; congr 1; omega


theorem good_setState (f : FC) (i : Inst) (rid cur : Int) (h : Good f) : Good (setState f i rid cur).1 := by
  unfold setState
  by_cases hm : f.isMif = true
  · simp only [hm, Bool.not_true, Bool.false_eq_true, if_false]
    by_cases hneg : cur < 0
    · simp only [hneg, if_true]; exact good_drop f i h
    · simp only [hneg, if_false]
      obtain ⟨hn, hc⟩ := h hm
      cases hst : f.getState i with
      | none =>
        simp only [Option.getD_none]
        repeat' (first | split | (simp only []; split))
        all_goals (apply good_put_absent f i _ _ hm h hst; (try simp only []); rw [hc]; unfold toI32; omega)
      | some st =>
        simp only [Option.getD_some]
        repeat' (first | split | (simp only []; split))
        all_goals (apply good_put_present f i st _ _ hm h hst; (try simp only []); rw [hc]; unfold toI32; omega)
  · have hf : f.isMif = false := by simpa using hm
    simp only [hf, Bool.not_false, if_true]; exact h


/-! ### a property of single flow controls that every operation preserves -/

def AllFC (P : FC → Prop) (fcs : List (Nat × Ups × FC)) : Prop := ∀ r ∈ fcs, P r.2.2

/-- `P` survives everything the server ever does to a flow control. -/
structure Closed (P : FC → Prop) : Prop where
  new : ∀ sc, P (newFC sc)
  resize : ∀ f sc, P f → P (resizeFC f sc)
  drop : ∀ f d, P f → P (f.drop d)
  set : ∀ f j rid cur, P f → P (setState f j rid cur).1
  force : ∀ f j st, P f → P (f.force j st)

section allfc
variable (shardOf : Ups → Nat) {P : FC → Prop}

theorem allFC_mapFC {fcs : List (Nat × Ups × FC)} (sh : Nat) (u : Ups) (n : Str) (g : FC → FC)
    (hg : ∀ f, P f → P (g f)) (h : AllFC P fcs) : AllFC P (mapFC fcs sh u n g) := by
  intro r hr
  simp only [mapFC, List.mem_map] at hr
  obtain ⟨r0, hr0, rfl⟩ := hr
  split
  · exact hg _ (h r0 hr0)
  · exact h r0 hr0

theorem allFC_filter {fcs : List (Nat × Ups × FC)} (p : Nat × Ups × FC → Bool) (h : AllFC P fcs) :
    AllFC P (fcs.filter p) := fun r hr => h r (List.mem_filter.1 hr).1

theorem allFC_dropAll (hP : Closed P) {fcs : List (Nat × Ups × FC)} (ds : List Inst) (h : AllFC P fcs) :
    AllFC P (fcs.map fun r => (r.1, r.2.1, dropAll ds r.2.2)) := by
  intro r hr
  obtain ⟨r0, hr0, rfl⟩ := List.mem_map.1 hr
  show P (dropAll ds r0.2.2)
  have : ∀ (l : List Inst) (f : FC), P f → P (dropAll l f) := by
    intro l
    induction l with
    | nil => intro f hf; exact hf
    | cons d t ih => intro f hf; exact ih _ (hP.drop f d hf)
  exact this ds _ (h r0 hr0)

theorem allFC_syncOne (hP : Closed P) (sh : Nat) (u : Ups) (fcs : List (Nat × Ups × FC)) (sc : Schema)
    (h : AllFC P fcs) : AllFC P (syncOne sh u fcs sc) := by
  unfold syncOne
  split
  · exact h
  · split
    · intro r hr
      rcases List.mem_append.1 hr with h1 | h1
      · exact h r h1
      · rw [List.mem_singleton] at h1; subst h1; exact hP.new sc
    · split
      · exact allFC_mapFC _ _ _ _ (fun _ _ => hP.new sc) h
      · exact allFC_mapFC _ _ _ _ (fun f hf => hP.resize f sc hf) h

theorem syncFlowControl_allFC (hP : Closed P) (s : State) (sh : Nat) (u : Ups) (sc : List Schema)
    (h : AllFC P s.fcs) : AllFC P (syncFlowControl s sh u sc).fcs := by
  unfold syncFlowControl; simp only []; split
  · exact h
  · apply allFC_filter
    exact foldl_inv (AllFC P) (syncOne sh u) sc s.fcs (fun a b ha => allFC_syncOne hP sh u a b ha) h

theorem handle_allFC (hP : Closed P) (s : State) (u : Ups) (h : AllFC P s.fcs) :
    AllFC P (handle shardOf s u).fcs := by
  unfold handle
  simp only
  split
  · exact h
  · split
    · exact h
    · split
      · unfold deleteUpstream; split
        · exact h
        · exact allFC_filter _ h
      · exact syncFlowControl_allFC hP _ _ _ _ h

theorem step_allFC (hP : Closed P) (s : State) (op : Op) (h : AllFC P s.fcs) :
    AllFC P (step shardOf s op).1.fcs := by
  cases op with
  | heartbeat j t => exact h
  | report u j ri q =>
    show AllFC P (report shardOf s u j ri q).1.fcs
    rw [(report_frame shardOf s u j ri q).2.1]; exact h
  | acquire u j rid reqs =>
    exact acquire_inv shardOf (fun st => AllFC P st.fcs) s u j rid reqs
      (fun a rq ha => by
        rcases acquireOne_fcs j rid (shardOf u) u a rq with e | e
        · rw [e]; exact ha
        · rw [e]; exact allFC_mapFC _ _ _ _ (fun f hf => hP.set f j rid rq.2 hf) ha) h
  | cleanupTimeout now => exact allFC_dropAll hP _ h
  | cleanupUnknown => exact allFC_filter _ (allFC_dropAll hP _ h)
  | setLeader sh b => exact h
  | leaderCheck =>
    exact leaderCheck_inv shardOf (fun st => AllFC P st.fcs) (fun _ _ ha => ha)
      (fun a u ha => handle_allFC shardOf hP a u ha) (fun a sh ha => allFC_filter _ ha) s h
  | list u sc => exact h
  | unlist u => exact h
  | handle u => exact handle_allFC shardOf hP s u h
  | burst u j n st =>
    rcases burst_fcs shardOf s u j n st with e | ⟨st', e⟩
    · show AllFC P (burst shardOf s u j n st).fcs; rw [e]; exact h
    · show AllFC P (burst shardOf s u j n st).fcs; rw [e]
      exact allFC_mapFC _ _ _ _ (fun f hf => hP.force f j st' hf) h
  | faults names => exact h
  | apiDelete name => exact h
  | wireRejected => exact h

theorem run_allFC (hP : Closed P) (ops : List Op) (s : State) (h : AllFC P s.fcs) :
    AllFC P (run shardOf s ops).fcs := by
  induction ops generalizing s with
  | nil => exact h
  | cons op t ih => rw [run_cons]; exact ih _ (step_allFC shardOf hP s op h)

end allfc

theorem resizeFC_count (f : FC) (sc : Schema) : (resizeFC f sc).count = f.count := by
  unfold resizeFC; split
  · rfl
  · split <;> rfl
  · rfl

theorem closed_good : Closed Good where
  new := by
    intro sc _
    rw [newFC_states]
    refine ⟨trivial, ?_⟩
    unfold newFC; split <;> rfl
  resize := by
    intro f sc h hm
    rw [resizeFC_isMif] at hm
    rw [resizeFC_states, resizeFC_count]; exact h hm
  drop := fun f d h => good_drop f d h
  set := fun f j rid cur h => good_setState f j rid cur h
  force := by
    intro f j st h
    unfold FC.force
    by_cases hm : f.isMif = true
    · simp only [hm, Bool.not_true, Bool.false_eq_true, if_false]
      obtain ⟨_, hc⟩ := h hm
      cases hst : f.getState j with
      | none =>
        apply good_put_absent f j _ _ hm h hst
        simp only [Option.map_none, Option.getD_none]; rw [hc]; unfold toI32; omega
      | some st0 =>
        apply good_put_present f j st0 _ _ hm h hst
        simp only [Option.map_some, Option.getD_some]; rw [hc]; unfold toI32; omega
    · have hf : f.isMif = false := by simpa using hm
      simp only [hf, Bool.not_false, if_true]; exact h

end KG.Lemmas.Reclaim
