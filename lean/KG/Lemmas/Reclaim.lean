import KG.Spec.Reclaim
/-! Helper lemmas for C18: what each operation of `KG.Model.Reclaim` does to the heartbeat table, to the
    per-instance in-flight states and to the stored conditions. -/
namespace KG.Lemmas.Reclaim
open KG KG.Model.Reclaim KG.Spec.Reclaim

/-! ### `globalMaxInflight` -/

theorem getState_none_iff (f : FC) (i : Inst) : f.getState i = none ↔ ∀ p ∈ f.states, p.1 ≠ i := by
  unfold FC.getState
  simp only [Option.map_eq_none_iff, List.find?_eq_none]
  constructor
  · intro h p hp he; exact h p hp (by simp [he])
  · intro h p hp; have := h p hp; simpa using this

theorem find_filter_ne (l : List (Inst × IState)) (i j : Inst) (h : i ≠ j) :
    (l.filter (·.1 != j)).find? (·.1 == i) = l.find? (·.1 == i) := by
  rw [List.find?_filter]
  congr 1
  funext a
  by_cases hi : a.1 = i
  · have : a.1 ≠ j := fun e => h (hi ▸ e)
    simp [hi, h]
  · simp [hi]

theorem drop_isMif (f : FC) (j : Inst) : (f.drop j).isMif = f.isMif := by
  unfold FC.drop; split
  · rfl
  · split <;> rfl

theorem drop_name (f : FC) (j : Inst) : (f.drop j).name = f.name := by
  unfold FC.drop; split
  · rfl
  · split <;> rfl

theorem drop_states_sub (f : FC) (j : Inst) : ∀ p ∈ (f.drop j).states, p ∈ f.states := by
  unfold FC.drop; split
  · intro p hp; exact hp
  · split
    · intro p hp; exact (List.mem_filter.1 hp).1
    · intro p hp; exact hp

theorem drop_removes (f : FC) (j : Inst) (hm : f.isMif = true) : ∀ p ∈ (f.drop j).states, p.1 ≠ j := by
  unfold FC.drop
  simp only [hm, Bool.not_true, Bool.false_eq_true, if_false]
  split
  · intro p hp; have := (List.mem_filter.1 hp).2; simpa using this
  · rename_i hn; exact (getState_none_iff f j).1 hn

theorem drop_getState_ne (f : FC) (i j : Inst) (h : i ≠ j) : (f.drop j).getState i = f.getState i := by
  unfold FC.drop; split
  · rfl
  · split
    · unfold FC.getState; simp only; rw [find_filter_ne _ _ _ h]
    · rfl

theorem dropAll_isMif (ds : List Inst) (f : FC) : (dropAll ds f).isMif = f.isMif := by
  induction ds generalizing f with
  | nil => rfl
  | cons d t ih => simp only [dropAll, List.foldl_cons] at ih ⊢; rw [ih, drop_isMif]

theorem dropAll_name (ds : List Inst) (f : FC) : (dropAll ds f).name = f.name := by
  induction ds generalizing f with
  | nil => rfl
  | cons d t ih => simp only [dropAll, List.foldl_cons] at ih ⊢; rw [ih, drop_name]

theorem dropAll_states_sub (ds : List Inst) (f : FC) : ∀ p ∈ (dropAll ds f).states, p ∈ f.states := by
  induction ds generalizing f with
  | nil => intro p hp; exact hp
  | cons d t ih =>
    simp only [dropAll, List.foldl_cons] at ih ⊢
    intro p hp; exact drop_states_sub f d p (ih _ p hp)

theorem dropAll_removes (ds : List Inst) (f : FC) (hm : f.isMif = true) (d : Inst) (hd : d ∈ ds) :
    ∀ p ∈ (dropAll ds f).states, p.1 ≠ d := by
  induction ds generalizing f with
  | nil => cases hd
  | cons e t ih =>
    simp only [dropAll, List.foldl_cons] at ih ⊢
    intro p hp
    cases hd with
    | head => exact drop_removes f d hm p (dropAll_states_sub t _ p hp)
    | tail _ h' => exact ih (f.drop e) (by rw [drop_isMif]; exact hm) h' p hp

theorem dropAll_getState (ds : List Inst) (f : FC) (i : Inst) (h : i ∉ ds) :
    (dropAll ds f).getState i = f.getState i := by
  induction ds generalizing f with
  | nil => rfl
  | cons d t ih =>
    simp only [dropAll, List.foldl_cons] at ih ⊢
    have hd : i ≠ d := fun e => h (by simp [e])
    have ht : i ∉ t := fun e => h (by simp [e])
    rw [ih _ ht, drop_getState_ne _ _ _ hd]

end KG.Lemmas.Reclaim
