import KG.Spec.Names
/-!
# Lemmas for C10: association lists, the manager operations, the two loops of the controller
-/
namespace KG.Lemmas.Names
open KG KG.Model.Names KG.Spec.Names

/-! ## association lists -/

theorem alookup_aerase (k k' : Str) (l : List (Str × Nat)) :
    alookup k (aerase k' l) = if k = k' then none else alookup k l := by
  induction l with
  | nil => simp [aerase, alookup]
  | cons e l ih =>
    obtain ⟨a, v⟩ := e
    unfold aerase at ih ⊢
    by_cases h1 : a = k'
    · subst h1
      simp only [List.filter, ne_eq, not_true_eq_false, decide_false]
      rw [ih]
      by_cases h2 : k = a
      · simp [h2]
      · have : ¬ a = k := fun e => h2 e.symm
        simp [h2, alookup, this]
    · simp only [List.filter, ne_eq, h1, not_false_eq_true, decide_true]
      simp only [alookup]
      rw [ih]
      by_cases h2 : a = k
      · subst h2
        simp [h1]
      · simp [h2]

/-! ## host and port -/

theorem indexOf_none (c : UInt8) (s : Str) (h : c ∉ s) : indexOf c s = none := by
  induction s with
  | nil => rfl
  | cons x xs ih =>
    have hx : x ≠ c := fun e => h (by simp [e])
    have hxs : c ∉ xs := fun e => h (by simp [e])
    simp [indexOf, hx, ih hxs]

theorem indexOf_append (c : UInt8) (h p : Str) (hh : c ∉ h) : indexOf c (h ++ c :: p) = some h.length := by
  induction h with
  | nil => simp [indexOf]
  | cons x xs ih =>
    have hx : x ≠ c := fun e => hh (by simp [e])
    have hxs : c ∉ xs := fun e => hh (by simp [e])
    simp [indexOf, hx, ih hxs]

theorem lastIndexOf_none (c : UInt8) (s : Str) (h : c ∉ s) : lastIndexOf c s = none := by
  induction s with
  | nil => rfl
  | cons x xs ih =>
    have hx : x ≠ c := fun e => h (by simp [e])
    have hxs : c ∉ xs := fun e => h (by simp [e])
    simp [lastIndexOf, hx, ih hxs]

theorem lastIndexOf_append (c : UInt8) (h p : Str) (hp : c ∉ p) : lastIndexOf c (h ++ c :: p) = some h.length := by
  induction h with
  | nil => simp [lastIndexOf, lastIndexOf_none c p hp]
  | cons x xs ih => simp [lastIndexOf, ih]

theorem splitHostPort_noport (s : Str) (h : colon ∉ s) : splitHostPort s = none := by
  unfold splitHostPort
  rw [lastIndexOf_none colon s h]

theorem splitHostPort_plain (h p : Str) (h1 : colon ∉ h) (h2 : lbr ∉ h) (h3 : rbr ∉ h)
    (p1 : colon ∉ p) (p2 : lbr ∉ p) (p3 : rbr ∉ p) : splitHostPort (h ++ colon :: p) = some h := by
  unfold splitHostPort
  rw [lastIndexOf_append colon h p p1]
  simp only
  have hhead : (h ++ colon :: p).head? ≠ some lbr := by
    cases h with
    | nil => simp [colon, lbr]
    | cons x xs =>
      simp only [List.cons_append, List.head?_cons, ne_eq, Option.some.injEq]
      intro e; exact h2 (by simp [e])
  rw [if_neg hhead]
  have ht : (h ++ colon :: p).take h.length = h := by simp
  rw [ht, indexOf_none colon h h1]
  have hl : lbr ∉ h ++ colon :: p := by
    simp only [List.mem_append, List.mem_cons, not_or]
    exact ⟨h2, by decide, p2⟩
  have hr : rbr ∉ h ++ colon :: p := by
    simp only [List.mem_append, List.mem_cons, not_or]
    exact ⟨h3, by decide, p3⟩
  rw [indexOf_none lbr _ hl, indexOf_none rbr _ hr]
  simp

theorem splitHostPort_bracket (h p : Str) (h2 : lbr ∉ h) (h3 : rbr ∉ h)
    (p1 : colon ∉ p) (p2 : lbr ∉ p) (p3 : rbr ∉ p) :
    splitHostPort (lbr :: h ++ rbr :: colon :: p) = some h := by
  unfold splitHostPort
  have e1 : lbr :: h ++ rbr :: colon :: p = (lbr :: h ++ [rbr]) ++ colon :: p := by simp
  have hlast : lastIndexOf colon (lbr :: h ++ rbr :: colon :: p) = some (h.length + 2) := by
    rw [e1, lastIndexOf_append colon _ p p1]; simp
  rw [hlast]
  simp only [List.cons_append, List.head?_cons, if_true]
  have e2 : lbr :: (h ++ rbr :: colon :: p) = (lbr :: h) ++ rbr :: (colon :: p) := by simp
  have hidx : indexOf rbr (lbr :: (h ++ rbr :: colon :: p)) = some (h.length + 1) := by
    rw [e2, indexOf_append rbr (lbr :: h) (colon :: p)]
    · simp
    · simp only [List.mem_cons, not_or]; exact ⟨by decide, h3⟩
  rw [hidx]
  simp only
  have hlen : ¬ (h.length + 1 + 1 = (lbr :: (h ++ rbr :: colon :: p)).length) := by simp
  rw [if_neg hlen]
  simp only [if_true]
  have hd1 : (lbr :: (h ++ rbr :: colon :: p)).drop 1 = h ++ rbr :: colon :: p := rfl
  have hl : lbr ∉ h ++ rbr :: colon :: p := by
    simp only [List.mem_append, List.mem_cons, not_or]
    exact ⟨h2, by decide, by decide, p2⟩
  rw [hd1, indexOf_none lbr _ hl]
  have hd2 : (lbr :: (h ++ rbr :: colon :: p)).drop (h.length + 1 + 1) = colon :: p := by
    rw [e2]
    have : h.length + 1 + 1 = (lbr :: h).length + 1 := by simp
    rw [this, List.drop_append]
    simp
  have hr : rbr ∉ colon :: p := by
    simp only [List.mem_cons, not_or]; exact ⟨by decide, p3⟩
  rw [hd2, indexOf_none rbr _ hr]
  simp only [Option.isSome_none, Bool.false_eq_true, if_false]
  have ht : (lbr :: (h ++ rbr :: colon :: p)).take (h.length + 1) = lbr :: h := by
    rw [e2]
    have : h.length + 1 = (lbr :: h).length := by simp
    rw [this, List.take_left']
    rfl
  rw [ht]
  rfl

theorem lowerByte_special (b c : UInt8) (hc : c = 58 ∨ c = 91 ∨ c = 93) : lowerByte b = c ↔ b = c := by
  unfold lowerByte
  split
  · rename_i h
    obtain ⟨h1, h2⟩ := h
    have h1' := UInt8.le_iff_toNat_le.1 h1
    have h2' := UInt8.le_iff_toNat_le.1 h2
    constructor
    · intro e
      have := congrArg UInt8.toNat e
      rw [UInt8.toNat_add] at this
      rcases hc with rfl | rfl | rfl <;> simp at this h1' h2' <;> omega
    · intro e
      subst e
      rcases hc with rfl | rfl | rfl <;> simp at h1' h2'
  · rfl

theorem lowerByte_idem (b : UInt8) : lowerByte (lowerByte b) = lowerByte b := by
  unfold lowerByte
  split
  · rename_i h
    obtain ⟨h1, h2⟩ := h
    have h1' := UInt8.le_iff_toNat_le.1 h1
    have h2' := UInt8.le_iff_toNat_le.1 h2
    split
    · rename_i h'
      exfalso
      have h3 := UInt8.le_iff_toNat_le.1 h'.2
      rw [UInt8.toNat_add] at h3
      simp at h3 h1' h2'
      omega
    · rfl
  · rfl

theorem asciiLower_idem (s : Str) : asciiLower (asciiLower s) = asciiLower s := by
  unfold asciiLower
  rw [List.map_map]
  apply List.map_congr_left
  intro b _
  exact lowerByte_idem b

theorem mem_asciiLower_special (c : UInt8) (hc : c = 58 ∨ c = 91 ∨ c = 93) (s : Str) :
    c ∈ asciiLower s ↔ c ∈ s := by
  unfold asciiLower
  rw [List.mem_map]
  constructor
  · rintro ⟨b, hb, e⟩
    rw [(lowerByte_special b c hc).1 e] at hb
    exact hb
  · intro h
    exact ⟨c, h, (lowerByte_special c c hc).2 rfl⟩

/-! ## the lister -/

theorem lister_get_filter (l : Lister) (n n' : Str) :
    Lister.get (l.filter (fun e => decide (e.1 ≠ n))) n' = if n = n' then none else Lister.get l n' := by
  induction l with
  | nil => simp [Lister.get]
  | cons e l ih =>
    obtain ⟨a, s⟩ := e
    by_cases h1 : a = n
    · subst h1
      simp only [List.filter, ne_eq, not_true_eq_false, decide_false]
      rw [ih]
      by_cases h2 : a = n'
      · simp [h2]
      · simp [h2, Lister.get]
    · simp only [List.filter, ne_eq, h1, not_false_eq_true, decide_true]
      simp only [Lister.get]
      rw [ih]
      by_cases h2 : a = n'
      · subst h2; simp [Ne.symm h1]
      · simp [h2]

theorem lister_get_set (l : Lister) (n : Str) (s : Spec) (n' : Str) :
    (l.set n s).get n' = if n = n' then some s else l.get n' := by
  unfold Lister.set
  simp only [Lister.get]
  by_cases h : n = n'
  · simp [h]
  · simp only [h, if_false]
    rw [lister_get_filter]
    simp [h]

theorem lister_get_unset (l : Lister) (n n' : Str) :
    (l.unset n).get n' = if n = n' then none else l.get n' :=
  lister_get_filter l n n'

theorem lister_mem_of_get (l : Lister) (n : Str) (s : Spec) (h : l.get n = some s) : (n, s) ∈ l := by
  induction l with
  | nil => simp [Lister.get] at h
  | cons e l ih =>
    obtain ⟨a, t⟩ := e
    simp only [Lister.get] at h
    by_cases h1 : a = n
    · simp only [h1, if_true, Option.some.injEq] at h
      subst h1; subst h
      exact List.mem_cons_self
    · simp only [h1, if_false] at h
      exact List.mem_cons_of_mem _ (ih h)

section
variable (lower : Str → Str)

/-! ## manager operations seen through `look` -/

theorem look_addWithKey (m : Mgr) (key : Str) (p : Nat) (k : Str) :
    (m.addWithKey lower key p).look k = if lower key = k then some p else m.look k := by
  simp [Mgr.addWithKey, Mgr.look, alookup]

theorem heap_addWithKey (m : Mgr) (key : Str) (p : Nat) : (m.addWithKey lower key p).heap = m.heap := rfl
theorem stopped_addWithKey (m : Mgr) (key : Str) (p : Nat) : (m.addWithKey lower key p).stopped = m.stopped := rfl

theorem look_doDelete (m : Mgr) (name : Str) (stop : Bool) (k : Str) :
    (m.doDelete lower name stop).look k = if k = lower name then none else m.look k := by
  unfold Mgr.doDelete Mgr.look
  cases h : alookup (lower name) m.map with
  | none =>
    by_cases hk : k = lower name
    · simp [hk, h]
    · simp [hk]
  | some p => simp [alookup_aerase]

theorem heap_doDelete (m : Mgr) (name : Str) (stop : Bool) : (m.doDelete lower name stop).heap = m.heap := by
  unfold Mgr.doDelete
  cases alookup (lower name) m.map <;> rfl

theorem stopped_doDelete_false (m : Mgr) (name : Str) : (m.doDelete lower name false).stopped = m.stopped := by
  unfold Mgr.doDelete
  cases alookup (lower name) m.map <;> simp

theorem mem_stopped_doDelete (m : Mgr) (name : Str) (stop : Bool) (q : Nat) :
    q ∈ (m.doDelete lower name stop).stopped ↔ q ∈ m.stopped ∨ (stop = true ∧ m.look (lower name) = some q) := by
  unfold Mgr.doDelete Mgr.look
  cases h : alookup (lower name) m.map with
  | none => simp
  | some p =>
    cases stop
    · simp
    · simp only [if_true, List.mem_cons, true_and, Option.some.injEq]
      constructor
      · rintro (h | h)
        · exact Or.inr h.symm
        · exact Or.inl h
      · rintro (h | h)
        · exact Or.inr h
        · exact Or.inl h.symm

/-- `Get` in terms of `look` and the heap -/
theorem get_eq (m : Mgr) (name : Str) :
    m.get lower name = match m.look (lower name) with
      | none => none
      | some p => match m.heap[p]? with
        | none => none
        | some ci => some (p, ci) := rfl

theorem get_some_iff (m : Mgr) (name : Str) (p : Nat) (ci : CI) :
    m.get lower name = some (p, ci) ↔ m.look (lower name) = some p ∧ m.heap[p]? = some ci := by
  constructor
  · intro h
    rw [get_eq] at h
    split at h
    · cases h
    · rename_i q hq
      split at h
      · cases h
      · rename_i ci' hci
        cases h
        exact ⟨hq, hci⟩
  · rintro ⟨h1, h2⟩
    rw [get_eq]
    simp [h1, h2]

theorem get_none_of_look (m : Mgr) (name : Str) (h : m.look (lower name) = none) : m.get lower name = none := by
  rw [get_eq, h]

theorem ownedBy_eq (m : Mgr) (name c : Str) :
    m.ownedBy lower name c = decide (clusterAt m (lower name) = some c) := by
  unfold Mgr.ownedBy clusterAt
  rw [get_eq]
  cases h1 : m.look (lower name) with
  | none => simp
  | some q =>
    cases h2 : m.heap[q]? with
    | none => simp [h2]
    | some ci => simp [h2]

theorem heldByOther_iff (m : Mgr) (name c : Str) :
    m.heldByOther lower name c = true ↔ ∃ c', clusterAt m (lower name) = some c' ∧ c' ≠ c := by
  unfold Mgr.heldByOther clusterAt
  rw [get_eq]
  cases h1 : m.look (lower name) with
  | none => simp
  | some q =>
    cases h2 : m.heap[q]? with
    | none => simp [h2]
    | some ci => simp [h2]

theorem clusterAt_some_iff (m : Mgr) (k c : Str) :
    clusterAt m k = some c ↔ ∃ p ci, m.look k = some p ∧ m.heap[p]? = some ci ∧ ci.cluster = c := by
  unfold clusterAt
  cases h1 : m.look k with
  | none => simp
  | some q =>
    cases h2 : m.heap[q]? with
    | none => simp [h2]
    | some ci => simp [h2]

/-- `clusterAt` only depends on `look` and the `cluster` fields of the heap -/
theorem clusterAt_congr (m m' : Mgr) (k : Str) (hl : m'.look k = m.look k)
    (hh : ∀ p, m.look k = some p → (m'.heap[p]?).map (·.cluster) = (m.heap[p]?).map (·.cluster)) :
    clusterAt m' k = clusterAt m k := by
  unfold clusterAt
  rw [hl]
  cases h : m.look k with
  | none => rfl
  | some p => exact hh p h

theorem clusterAt_of (m m' : Mgr) (k : Str) (cond : Bool)
    (hl : m'.look k = if cond then none else m.look k) (hh : m'.heap = m.heap) :
    clusterAt m' k = if cond then none else clusterAt m k := by
  cases cond
  · simp only [Bool.false_eq_true, if_false] at hl ⊢
    simp only [clusterAt, hl, hh]
  · simp only [if_true] at hl ⊢
    simp only [clusterAt, hl]

/-! ## the deletion loop -/

/-- which names of the list the loop looks at for key `k` -/
def hits (skip : Str → Bool) (l : List Str) (k : Str) : Bool :=
  l.any (fun sn => !skip sn && decide (lower sn = k))

theorem heap_delOwned (c : Str) (stop : Bool) (skip : Str → Bool) (l : List Str) (m : Mgr) :
    (delOwned lower c stop skip l m).heap = m.heap := by
  induction l generalizing m with
  | nil => rfl
  | cons sn rest ih =>
    unfold delOwned
    rw [ih]
    split
    · rfl
    · split
      · exact heap_doDelete lower m sn stop
      · rfl

theorem stopped_delOwned_false (c : Str) (skip : Str → Bool) (l : List Str) (m : Mgr) :
    (delOwned lower c false skip l m).stopped = m.stopped := by
  induction l generalizing m with
  | nil => rfl
  | cons sn rest ih =>
    unfold delOwned
    rw [ih]
    split
    · rfl
    · split
      · exact stopped_doDelete_false lower m sn
      · rfl

/-- one iteration of the deletion loop -/
def delStep (c : Str) (stop : Bool) (skip : Str → Bool) (sn : Str) (m : Mgr) : Mgr :=
  if skip sn then m else if m.ownedBy lower sn c then m.doDelete lower sn stop else m

theorem delOwned_cons (c : Str) (stop : Bool) (skip : Str → Bool) (sn : Str) (rest : List Str) (m : Mgr) :
    delOwned lower c stop skip (sn :: rest) m = delOwned lower c stop skip rest (delStep lower c stop skip sn m) := rfl

theorem heap_delStep (c : Str) (stop : Bool) (skip : Str → Bool) (sn : Str) (m : Mgr) :
    (delStep lower c stop skip sn m).heap = m.heap := by
  unfold delStep
  split
  · rfl
  · split
    · exact heap_doDelete lower m sn stop
    · rfl

theorem look_delStep (c : Str) (stop : Bool) (skip : Str → Bool) (sn : Str) (m : Mgr) (k : Str) :
    (delStep lower c stop skip sn m).look k =
      if (!skip sn && decide (lower sn = k)) && decide (clusterAt m k = some c) then none else m.look k := by
  unfold delStep
  by_cases hs : skip sn = true
  · simp [hs]
  · have hs' : skip sn = false := by simpa using hs
    simp only [hs', Bool.false_eq_true, if_false, Bool.not_false, Bool.true_and]
    rw [ownedBy_eq]
    by_cases hk : lower sn = k
    · subst hk
      by_cases ho : clusterAt m (lower sn) = some c
      · simp [ho, look_doDelete]
      · simp [ho]
    · by_cases ho : clusterAt m (lower sn) = some c
      · have : ¬ k = lower sn := fun e => hk e.symm
        simp [ho, look_doDelete, hk, this]
      · simp [ho, hk]

theorem clusterAt_delStep (c : Str) (stop : Bool) (skip : Str → Bool) (sn : Str) (m : Mgr) (k : Str) :
    clusterAt (delStep lower c stop skip sn m) k =
      if (!skip sn && decide (lower sn = k)) && decide (clusterAt m k = some c) then none else clusterAt m k := by
  exact clusterAt_of _ _ _ _ (look_delStep lower c stop skip sn m k) (heap_delStep lower c stop skip sn m)

/-- The deletion loop removes exactly the listed (not skipped) keys that resolved to cluster `c`. -/
theorem look_delOwned (c : Str) (stop : Bool) (skip : Str → Bool) (l : List Str) (m : Mgr) (k : Str) :
    (delOwned lower c stop skip l m).look k =
      if hits lower skip l k && decide (clusterAt m k = some c) then none else m.look k := by
  induction l generalizing m with
  | nil => simp [delOwned, hits]
  | cons sn rest ih =>
    rw [delOwned_cons, ih, look_delStep, clusterAt_delStep]
    have hh : hits lower skip (sn :: rest) k = ((!skip sn && decide (lower sn = k)) || hits lower skip rest k) := by
      simp [hits]
    rw [hh]
    by_cases hc : clusterAt m k = some c
    · by_cases h1 : (!skip sn && decide (lower sn = k)) = true
      · simp [hc, h1]
      · have h1' : (!skip sn && decide (lower sn = k)) = false := by simpa using h1
        simp [hc, h1']
    · simp [hc]

theorem clusterAt_delOwned (c : Str) (stop : Bool) (skip : Str → Bool) (l : List Str) (m : Mgr) (k : Str) :
    clusterAt (delOwned lower c stop skip l m) k =
      if hits lower skip l k && decide (clusterAt m k = some c) then none else clusterAt m k := by
  exact clusterAt_of _ _ _ _ (look_delOwned lower c stop skip l m k) (heap_delOwned lower c stop skip l m)

/-- only pointers of cluster `c` get stopped, and only when a key of theirs is deleted -/
theorem mem_stopped_delOwned (c : Str) (stop : Bool) (skip : Str → Bool) (l : List Str) (m : Mgr) (q : Nat)
    (h : q ∈ (delOwned lower c stop skip l m).stopped) :
    q ∈ m.stopped ∨ ∃ k, m.look k = some q ∧ clusterAt m k = some c := by
  induction l generalizing m with
  | nil => exact Or.inl h
  | cons sn rest ih =>
    rw [delOwned_cons] at h
    rcases ih _ h with h1 | ⟨k, hk1, hk2⟩
    · -- stopped by this iteration or before
      unfold delStep at h1
      by_cases hs : skip sn = true
      · simp [hs] at h1; exact Or.inl h1
      · have hs' : skip sn = false := by simpa using hs
        simp only [hs', Bool.false_eq_true, if_false] at h1
        by_cases ho : m.ownedBy lower sn c = true
        · simp only [ho, if_true] at h1
          rcases (mem_stopped_doDelete lower m sn stop q).1 h1 with h2 | ⟨_, h2⟩
          · exact Or.inl h2
          · refine Or.inr ⟨lower sn, h2, ?_⟩
            rw [ownedBy_eq] at ho
            simpa using ho
        · simp only [ho, if_false] at h1
          exact Or.inl h1
    · right
      rw [look_delStep] at hk1
      rw [clusterAt_delStep] at hk2
      split at hk1
      · cases hk1
      · rename_i hcond
        rw [if_neg hcond] at hk2
        exact ⟨k, hk1, hk2⟩

theorem stopped_mono_delOwned (c : Str) (stop : Bool) (skip : Str → Bool) (l : List Str) (m : Mgr) (q : Nat)
    (h : q ∈ m.stopped) : q ∈ (delOwned lower c stop skip l m).stopped := by
  induction l generalizing m with
  | nil => exact h
  | cons sn rest ih =>
    rw [delOwned_cons]
    apply ih
    unfold delStep
    split
    · exact h
    · split
      · exact (mem_stopped_doDelete lower m sn stop q).2 (Or.inl h)
      · exact h

/-- the first listed name, when it resolves to a pointer of cluster `c`, gets that pointer stopped -/
theorem head_stopped_delOwned (c : Str) (skip : Str → Bool) (sn : Str) (rest : List Str) (m : Mgr) (q : Nat)
    (hs : skip sn = false) (hl : m.look (lower sn) = some q) (hc : clusterAt m (lower sn) = some c) :
    q ∈ (delOwned lower c true skip (sn :: rest) m).stopped := by
  rw [delOwned_cons]
  apply stopped_mono_delOwned
  unfold delStep
  rw [ownedBy_eq]
  simp only [hs, Bool.false_eq_true, if_false, hc, decide_true, if_true]
  exact (mem_stopped_doDelete lower m sn true q).2 (Or.inr ⟨rfl, hl⟩)

/-! ## the addition loop -/

theorem heap_addNew (p : Nat) (skip : Str → Bool) (l : List Str) (m : Mgr) :
    (addNew lower p skip l m).heap = m.heap := by
  induction l generalizing m with
  | nil => rfl
  | cons n rest ih =>
    unfold addNew
    rw [ih]
    split <;> rfl

theorem stopped_addNew (p : Nat) (skip : Str → Bool) (l : List Str) (m : Mgr) :
    (addNew lower p skip l m).stopped = m.stopped := by
  induction l generalizing m with
  | nil => rfl
  | cons n rest ih =>
    unfold addNew
    rw [ih]
    split <;> rfl

theorem look_addNew (p : Nat) (skip : Str → Bool) (l : List Str) (m : Mgr) (k : Str) :
    (addNew lower p skip l m).look k = if hits lower skip l k then some p else m.look k := by
  induction l generalizing m with
  | nil => simp [addNew, hits]
  | cons n rest ih =>
    unfold addNew
    rw [ih]
    have hh : hits lower skip (n :: rest) k = ((!skip n && decide (lower n = k)) || hits lower skip rest k) := by
      simp [hits]
    rw [hh]
    by_cases hr : hits lower skip rest k = true
    · simp [hr]
    · have hr' : hits lower skip rest k = false := by simpa using hr
      simp only [hr', Bool.false_eq_true, if_false, Bool.or_false]
      by_cases hs : skip n = true
      · simp [hs]
      · have hs' : skip n = false := by simpa using hs
        simp only [hs', Bool.false_eq_true, if_false, Bool.not_false, Bool.true_and, look_addWithKey,
          decide_eq_true_eq]

theorem hits_iff (skip : Str → Bool) (l : List Str) (k : Str) :
    hits lower skip l k = true ↔ ∃ sn ∈ l, skip sn = false ∧ lower sn = k := by
  simp [hits, List.any_eq_true]

/-! ## the states a concurrent reader can see during the two loops -/

theorem hits_mem (skip : Str → Bool) (l : List Str) (k : Str) (hlow : ∀ n ∈ l, lower n = n) :
    hits lower skip l k = true ↔ k ∈ l ∧ skip k = false := by
  rw [hits_iff]
  constructor
  · rintro ⟨sn, hsn, hs, hk⟩
    have := hlow sn hsn
    rw [this] at hk
    subst hk
    exact ⟨hsn, hs⟩
  · rintro ⟨h1, h2⟩
    exact ⟨k, h1, h2, hlow k h1⟩


/-- `s` resolves every key like `a` or like `b` -/
def Between (a b s : Mgr) : Prop := ∀ k, s.look k = a.look k ∨ s.look k = b.look k

theorem delOwned_removes (c : Str) (stop : Bool) (skip : Str → Bool) (l : List Str) (m : Mgr) (k : Str) :
    (delOwned lower c stop skip l m).look k = none ∨ (delOwned lower c stop skip l m).look k = m.look k := by
  rw [look_delOwned]
  split
  · exact Or.inl rfl
  · exact Or.inr rfl

theorem between_delOwnedT (c : Str) (stop : Bool) (skip : Str → Bool) (l : List Str) (m : Mgr) :
    ∀ s ∈ delOwnedT lower c stop skip l m, Between m (delOwned lower c stop skip l m) s := by
  induction l generalizing m with
  | nil => intro s hs; simp [delOwnedT] at hs
  | cons sn rest ih =>
    intro s hs
    rw [delOwned_cons]
    unfold delStep
    unfold delOwnedT at hs
    by_cases hsk : skip sn = true
    · rw [if_pos hsk] at hs ⊢
      exact ih m s hs
    · rw [if_neg hsk] at hs ⊢
      by_cases ho : m.ownedBy lower sn c = true
      · rw [if_pos ho] at hs ⊢
        -- once the key is deleted it stays deleted until the end of the loop
        have hgone : ∀ k, k = lower sn →
            (delOwned lower c stop skip rest (m.doDelete lower sn stop)).look k = none := by
          intro k hk
          rcases delOwned_removes lower c stop skip rest (m.doDelete lower sn stop) k with h | h
          · exact h
          · rw [h, look_doDelete, if_pos hk]
        rcases List.mem_cons.1 hs with h | h
        · subst h
          intro k
          by_cases hk : k = lower sn
          · right; rw [hgone k hk, look_doDelete, if_pos hk]
          · left; rw [look_doDelete, if_neg hk]
        · intro k
          rcases ih _ s h k with h1 | h1
          · by_cases hk : k = lower sn
            · right
              rw [h1, hgone k hk, look_doDelete, if_pos hk]
            · left; rw [h1, look_doDelete, if_neg hk]
          · exact Or.inr h1
      · rw [if_neg ho] at hs ⊢
        exact ih m s hs

theorem between_addNewT (p : Nat) (skip : Str → Bool) (l : List Str) (m : Mgr) :
    ∀ s ∈ addNewT lower p skip l m, Between m (addNew lower p skip l m) s := by
  induction l generalizing m with
  | nil => intro s hs; simp [addNewT] at hs
  | cons n rest ih =>
    intro s hs
    unfold addNew
    unfold addNewT at hs
    by_cases hsk : skip n = true
    · simp only [hsk, if_true] at hs ⊢
      exact ih m s hs
    · simp only [hsk, Bool.false_eq_true, if_false] at hs ⊢
      have hfin : ∀ k, lower n = k →
          (addNew lower p skip rest (m.addWithKey lower n p)).look k = some p := by
        intro k hk
        rw [look_addNew]
        split
        · rfl
        · rw [look_addWithKey, if_pos hk]
      rcases List.mem_cons.1 hs with h | h
      · subst h
        intro k
        by_cases hk : lower n = k
        · right; rw [hfin k hk, look_addWithKey, if_pos hk]
        · left; rw [look_addWithKey, if_neg hk]
      · intro k
        rcases ih _ s h k with h1 | h1
        · by_cases hk : lower n = k
          · right; rw [h1, hfin k hk, look_addWithKey, if_pos hk]
          · left; rw [h1, look_addWithKey, if_neg hk]
        · exact Or.inr h1

/-- during `AddOrUpdateForServerNames` (names lower-cased, lists different, no conflict): every intermediate state
    resolves every key like the state before or like the state after -/
theorem between_addOrUpdateT (m1 : Mgr) (old : List Str) (p : Nat) (ci : CI) (hp : m1.heap[p]? = some ci)
    (hne : old ≠ loadServerNames lower ci)
    (hchk : checkServerNameConflict lower m1 ci.cluster old (loadServerNames lower ci) = false)
    (holdlow : ∀ n ∈ old, lower n = n) (hnewlow : ∀ n ∈ loadServerNames lower ci, lower n = n) :
    ∀ s ∈ addOrUpdateForServerNamesT lower m1 old p,
      Between m1 (addNew lower p (fun n => decide (n ∈ old)) (loadServerNames lower ci)
        (delOwned lower ci.cluster false (fun o => decide (o ∈ loadServerNames lower ci)) old m1)) s := by
  intro s hs
  unfold addOrUpdateForServerNamesT at hs
  rw [hp] at hs
  simp only at hs
  rw [if_neg hne, hchk] at hs
  simp only [Bool.false_eq_true, if_false] at hs
  -- the state between the two loops
  have hF : ∀ k,
      (delOwned lower ci.cluster false (fun o => decide (o ∈ loadServerNames lower ci)) old m1).look k = m1.look k ∨
      (delOwned lower ci.cluster false (fun o => decide (o ∈ loadServerNames lower ci)) old m1).look k =
        (addNew lower p (fun n => decide (n ∈ old)) (loadServerNames lower ci)
          (delOwned lower ci.cluster false (fun o => decide (o ∈ loadServerNames lower ci)) old m1)).look k := by
    intro k
    rw [look_addNew]
    by_cases hh : hits lower (fun n => decide (n ∈ old)) (loadServerNames lower ci) k = true
    · left
      have h1 := (hits_mem lower _ _ _ hnewlow).1 hh
      rw [look_delOwned]
      have h2 : hits lower (fun o => decide (o ∈ loadServerNames lower ci)) old k = false := by
        cases h3 : hits lower (fun o => decide (o ∈ loadServerNames lower ci)) old k with
        | false => rfl
        | true =>
          have := (hits_mem lower _ _ _ holdlow).1 h3
          simp at this h1
          exact absurd this.1 h1.2
      rw [h2]
      simp
    · right; rw [if_neg hh]
  rcases List.mem_append.1 hs with h | h
  · intro k
    rcases between_delOwnedT lower _ _ _ _ _ s h k with h1 | h1
    · exact Or.inl h1
    · rcases hF k with h2 | h2
      · left; rw [h1, h2]
      · right; rw [h1, h2]
  · intro k
    rcases between_addNewT lower _ _ _ _ s h k with h1 | h1
    · rcases hF k with h2 | h2
      · left; rw [h1, h2]
      · right; rw [h1, h2]
    · exact Or.inr h1

/-! ## consequences of the invariant -/

theorem names_lower (hl : ∀ s, lower (lower s) = lower s) (ci : CI) (hc : lower ci.cluster = ci.cluster)
    (n : Str) (hn : n ∈ loadServerNames lower ci) : lower n = n := by
  unfold loadServerNames at hn
  rcases List.mem_cons.1 hn with h | h
  · rw [h]; exact hc
  · obtain ⟨a, _, rfl⟩ := List.mem_map.1 h
    exact hl a

theorem objNames_lower (hl : ∀ s, lower (lower s) = lower s) (c : Str) (hc : lower c = c) (spec : Spec)
    (n : Str) (hn : n ∈ objNames lower c spec) : lower n = n := by
  unfold objNames at hn
  rcases List.mem_cons.1 hn with h | h
  · rw [h]; exact hc
  · obtain ⟨a, _, rfl⟩ := List.mem_map.1 h
    exact hl a

theorem key_lower {m : Mgr} (hl : ∀ s, lower (lower s) = lower s) (hI : Inv lower m) {k : Str} {p : Nat}
    (h : m.look k = some p) : lower k = k := by
  obtain ⟨ci, hci⟩ := hI.wf k p h
  exact names_lower lower hl ci (hI.low p ci hci) k (hI.mem k p ci h hci)

/-- the pointer a key resolves to is the one its cluster name resolves to -/
theorem look_cluster {m : Mgr} (hI : Inv lower m) {k : Str} {p : Nat} {ci : CI}
    (h : m.look k = some p) (hci : m.heap[p]? = some ci) : m.look ci.cluster = some p :=
  hI.all k p ci h hci ci.cluster (by simp [loadServerNames])

/-- two keys of the same cluster name resolve to the same pointer -/
theorem owner_unique {m : Mgr} (hI : Inv lower m) {k k' c : Str}
    (h : clusterAt m k = some c) (h' : clusterAt m k' = some c) : m.look k = m.look k' := by
  obtain ⟨p, ci, h1, h2, h3⟩ := (clusterAt_some_iff m k c).1 h
  obtain ⟨p', ci', h1', h2', h3'⟩ := (clusterAt_some_iff m k' c).1 h'
  have e1 := look_cluster lower hI h1 h2
  have e2 := look_cluster lower hI h1' h2'
  rw [h3] at e1
  rw [h3'] at e2
  rw [h1, h1', ← e1, ← e2]

theorem clusterAt_of_look {m : Mgr} {k : Str} {p : Nat} {ci : CI}
    (h : m.look k = some p) (hci : m.heap[p]? = some ci) : clusterAt m k = some ci.cluster := by
  simp [clusterAt, h, hci]

/-- when the cluster name does not resolve, no key resolves to that cluster -/
theorem none_of_get_none {m : Mgr} (hI : Inv lower m) {c : Str} (hc : lower c = c)
    (hg : m.get lower c = none) (k : Str) : clusterAt m k ≠ some c := by
  intro h
  obtain ⟨p, ci, h1, h2, h3⟩ := (clusterAt_some_iff m k c).1 h
  have := look_cluster lower hI h1 h2
  rw [h3] at this
  have hg' : m.get lower c = some (p, ci) := (get_some_iff lower m c p ci).2 ⟨by rw [hc]; exact this, h2⟩
  rw [hg] at hg'
  cases hg'

/-! ## what a delete event does -/

/-- the effect of `DeleteForServerNames` on a state satisfying the invariant -/
structure DeletedChar (c : Str) (m m' : Mgr) : Prop where
  heap : m'.heap = m.heap
  look : ∀ k, m'.look k = if clusterAt m k = some c then none else m.look k
  stopped : ∀ q, q ∈ m'.stopped ↔ q ∈ m.stopped ∨ ∃ k, m.look k = some q ∧ clusterAt m k = some c

theorem deleteForServerNames_char (hl : ∀ s, lower (lower s) = lower s) (m : Mgr) (hI : Inv lower m)
    (c : Str) (hc : lower c = c) : DeletedChar c m (deleteForServerNames lower m c) := by
  unfold deleteForServerNames
  cases hg : m.get lower c with
  | none =>
    have hn := none_of_get_none lower hI hc hg
    refine ⟨rfl, ?_, ?_⟩
    · intro k; simp [hn k]
    · intro q
      constructor
      · exact Or.inl
      · rintro (h | ⟨k, _, h⟩)
        · exact h
        · exact absurd h (hn k)
  | some pc =>
    obtain ⟨p, ci⟩ := pc
    obtain ⟨hp, hci⟩ := (get_some_iff lower m c p ci).1 hg
    rw [hc] at hp
    simp only
    refine ⟨heap_delOwned lower _ _ _ _ _, ?_, ?_⟩
    · intro k
      rw [look_delOwned]
      by_cases hk : clusterAt m k = some c
      · -- k is one of the listed names
        obtain ⟨q, ci', h1, h2, h3⟩ := (clusterAt_some_iff m k c).1 hk
        have hq : m.look c = some q := by
          have := look_cluster lower hI h1 h2
          rwa [h3] at this
        have : q = p := by rw [hp] at hq; cases hq; rfl
        subst this
        have : ci' = ci := by rw [hci] at h2; cases h2; rfl
        subst this
        have hmem := hI.mem k q ci' h1 h2
        have hkl := key_lower lower hl hI h1
        have : hits lower (fun _ => false) (loadServerNames lower ci') k = true :=
          (hits_iff lower _ _ _).2 ⟨k, hmem, rfl, hkl⟩
        simp [this, hk]
      · simp [hk]
    · intro q
      constructor
      · exact mem_stopped_delOwned lower c true _ _ m q
      · rintro (h | ⟨k, h1, h2⟩)
        · exact stopped_mono_delOwned lower c true _ _ m q h
        · obtain ⟨q', ci', h1', h2', h3'⟩ := (clusterAt_some_iff m k c).1 h2
          have : q' = q := by rw [h1] at h1'; cases h1'; rfl
          subst this
          have hq : m.look c = some q' := by
            have := look_cluster lower hI h1 h2'
            rwa [h3'] at this
          have : q' = p := by rw [hp] at hq; cases hq; rfl
          subst this
          have : ci' = ci := by rw [hci] at h2'; cases h2'; rfl
          subst this
          unfold loadServerNames
          rw [h3']
          apply head_stopped_delOwned lower c _ c _ m q' rfl
          · rw [hc]; exact hq
          · rw [hc]; exact clusterAt_of_look hq h2' ▸ (by rw [h3'])

/-! ## what an applied create/update event does -/

theorem heldByOther_congr (m m1 : Mgr) (h : ∀ k, clusterAt m1 k = clusterAt m k) (n c : Str) :
    m1.heldByOther lower n c = m.heldByOther lower n c := by
  rw [Bool.eq_iff_iff, heldByOther_iff, heldByOther_iff, h]

theorem check_congr (m m1 : Mgr) (h : ∀ k, clusterAt m1 k = clusterAt m k) (c : Str) (old new : List Str) :
    checkServerNameConflict lower m1 c old new = checkServerNameConflict lower m c old new := by
  unfold checkServerNameConflict
  simp only [heldByOther_congr lower m m1 h]

/-- a passed conflict check: every name of the new list is free or already held by `c` -/
theorem free_of_noconflict (m : Mgr) (c : Str) (old new : List Str) (hne : old ≠ new)
    (h : checkServerNameConflict lower m c old new = false) (n : Str) (hn : n ∈ new) :
    clusterAt m (lower n) = none ∨ clusterAt m (lower n) = some c := by
  unfold checkServerNameConflict at h
  rw [if_neg hne] at h
  have h1 : (new.any fun n => m.heldByOther lower n c) = false := by
    cases hh : (new.any fun n => m.heldByOther lower n c) with
    | false => rfl
    | true => rw [hh] at h; simp at h
  have h2 : m.heldByOther lower n c = false := by
    cases hh : m.heldByOther lower n c with
    | false => rfl
    | true =>
      have : (new.any fun n => m.heldByOther lower n c) = true := List.any_eq_true.2 ⟨n, hn, hh⟩
      rw [this] at h1; cases h1
  cases hcl : clusterAt m (lower n) with
  | none => exact Or.inl rfl
  | some c' =>
    right
    by_cases hcc : c' = c
    · rw [hcc]
    · have : m.heldByOther lower n c = true := (heldByOther_iff lower m n c).2 ⟨c', hcl, hcc⟩
      rw [this] at h2; cases h2

theorem noconflict_of_free (m : Mgr) (c : Str) (old new : List Str)
    (h1 : ∀ n ∈ new, m.heldByOther lower n c = false)
    (h2 : ∀ o ∈ old, o ∉ new → m.heldByOther lower o c = false) :
    checkServerNameConflict lower m c old new = false := by
  unfold checkServerNameConflict
  split
  · rfl
  · rw [Bool.or_eq_false_iff]
    constructor
    · rw [List.any_eq_false]
      intro n hn
      rw [h1 n hn]; simp
    · rw [List.any_eq_false]
      intro o ho
      by_cases hm : o ∈ new
      · simp [hm]
      · rw [h2 o ho hm]; simp

/-- the effect of an applied create/update event on a state satisfying the invariant -/
structure AppliedChar (c : Str) (spec : Spec) (m m' : Mgr) : Prop where
  ex : ∃ p ci',
    m'.heap[p]? = some ci' ∧ ci'.cluster = c ∧ ci'.aliases = spec.aliases ∧ ci'.cert = spec.cert ∧ ci'.ca = spec.ca ∧
    (∀ q, q ≠ p → m'.heap[q]? = m.heap[q]?) ∧
    m'.stopped = m.stopped ∧ p ∉ m.stopped ∧
    (∀ k, m'.look k = if k ∈ objNames lower c spec then some p
                      else if clusterAt m k = some c then none else m.look k) ∧
    (∀ k ∈ objNames lower c spec, clusterAt m k = none ∨ clusterAt m k = some c) ∧
    (∀ k q, m.look k = some q → (q = p ↔ clusterAt m k = some c))

theorem getElem?_append_singleton_ne {α : Type} (l : List α) (a : α) (q : Nat) (h : q ≠ l.length) :
    (l ++ [a])[q]? = l[q]? := by
  by_cases hq : q < l.length
  · exact List.getElem?_append_left hq
  · have h1 : l.length < q := by omega
    have h2 : l[q]? = none := List.getElem?_eq_none (by omega)
    have h3 : (l ++ [a])[q]? = none := List.getElem?_eq_none (by simp; omega)
    rw [h2, h3]

theorem lt_of_getElem?_some {α : Type} (l : List α) (q : Nat) (a : α) (h : l[q]? = some a) : q < l.length := by
  by_cases hq : q < l.length
  · exact hq
  · have : l[q]? = none := List.getElem?_eq_none (by omega)
    rw [this] at h; cases h

theorem create_char (hl : ∀ s, lower (lower s) = lower s) (m : Mgr) (hI : Inv lower m) (c : Str) (hc : lower c = c)
    (spec : Spec) (hg : m.get lower c = none)
    (hchk : checkUpstreamServerNameConflict lower m c spec = false) :
    ∃ m2, addOrUpdateForServerNames lower
            { m with heap := m.heap ++ [({ cluster := c, aliases := spec.aliases, cert := spec.cert, ca := spec.ca } : CI)] }
            [] m.heap.length = some m2 ∧ AppliedChar lower c spec m m2 ∧
          ∀ s ∈ addOrUpdateForServerNamesT lower
            { m with heap := m.heap ++ [({ cluster := c, aliases := spec.aliases, cert := spec.cert, ca := spec.ca } : CI)] }
            [] m.heap.length, Between m m2 s := by
  let ci0 : CI := { cluster := c, aliases := spec.aliases, cert := spec.cert, ca := spec.ca }
  let m1 : Mgr := { m with heap := m.heap ++ [ci0] }
  have hnone := none_of_get_none lower hI hc hg
  have hnewlow : ∀ n ∈ objNames lower c spec, lower n = n := objNames_lower lower hl c hc spec
  have hcl1 : ∀ k, clusterAt m1 k = clusterAt m k := by
    intro k
    apply clusterAt_congr
    · rfl
    · intro q hq
      obtain ⟨ci, hci⟩ := hI.wf k q hq
      have hlt : q < m.heap.length := lt_of_getElem?_some _ _ _ hci
      show ((m.heap ++ [ci0])[q]?).map _ = _
      rw [List.getElem?_append_left hlt]
  have hp : m1.heap[m.heap.length]? = some ci0 := by simp [m1]
  have hne : ([] : List Str) ≠ loadServerNames lower ci0 := by simp [loadServerNames]
  have hchk0 : checkServerNameConflict lower m c [] (objNames lower c spec) = false := by
    unfold checkUpstreamServerNameConflict at hchk
    rw [hg] at hchk
    exact hchk
  have hfree : ∀ k ∈ objNames lower c spec, clusterAt m k = none ∨ clusterAt m k = some c := by
    intro k hk
    have := free_of_noconflict lower m c [] (objNames lower c spec) hne hchk0 k hk
    rwa [hnewlow k hk] at this
  have hcc : checkServerNameConflict lower m1 ci0.cluster [] (loadServerNames lower ci0) = false := by
    rw [check_congr lower m m1 hcl1]
    exact hchk0
  have hbet := between_addOrUpdateT lower m1 [] m.heap.length ci0 hp hne hcc (fun n hn => by cases hn) hnewlow
  show ∃ m2, addOrUpdateForServerNames lower m1 [] m.heap.length = some m2 ∧ _
  unfold addOrUpdateForServerNames
  rw [hp]
  simp only
  rw [if_neg hne, hcc]
  simp only [Bool.false_eq_true, if_false]
  refine ⟨_, rfl, ⟨m.heap.length, ci0, ?_, rfl, rfl, rfl, rfl, ?_, ?_, ?_, ?_, hfree, ?_⟩, hbet⟩
  · rw [heap_addNew, heap_delOwned]; exact hp
  · intro q hq
    rw [heap_addNew, heap_delOwned]
    exact getElem?_append_singleton_ne _ _ _ hq
  · rw [stopped_addNew, stopped_delOwned_false]
  · intro hs
    obtain ⟨ci, hci⟩ := hI.swf _ hs
    have := lt_of_getElem?_some _ _ _ hci
    omega
  · intro k
    rw [look_addNew]
    have hd : delOwned lower ci0.cluster false (fun o => decide (o ∈ loadServerNames lower ci0)) [] m1 = m1 := rfl
    rw [hd]
    have hh : hits lower (fun n => decide (n ∈ ([] : List Str))) (loadServerNames lower ci0) k = true ↔
        k ∈ objNames lower c spec := by
      have hnames : loadServerNames lower ci0 = objNames lower c spec := rfl
      rw [hnames, hits_mem lower _ _ _ hnewlow]
      simp
    by_cases hk : k ∈ objNames lower c spec
    · rw [if_pos (hh.2 hk), if_pos hk]
    · have : ¬ hits lower (fun n => decide (n ∈ ([] : List Str))) (loadServerNames lower ci0) k = true :=
        fun h => hk (hh.1 h)
      rw [if_neg this, if_neg hk, if_neg (hnone k)]
      rfl
  · intro k q hq
    obtain ⟨ci, hci⟩ := hI.wf k q hq
    have := lt_of_getElem?_some _ _ _ hci
    constructor
    · intro h; omega
    · intro h; exact absurd h (hnone k)

theorem cluster_of_check (m : Mgr) (c : Str) (hc : lower c = c) (spec : Spec) (p : Nat) (info : CI)
    (hg : m.get lower c = some (p, info))
    (hchk : checkUpstreamServerNameConflict lower m c spec = false) : info.cluster = c := by
  obtain ⟨hp, hci⟩ := (get_some_iff lower m c p info).1 hg
  unfold checkUpstreamServerNameConflict at hchk
  rw [hg] at hchk
  simp only at hchk
  by_cases he : loadServerNames lower info = objNames lower c spec
  · unfold loadServerNames objNames at he
    exact (List.cons.inj he).1
  · have := free_of_noconflict lower m c _ _ he hchk c (by simp [objNames])
    have hcl : clusterAt m (lower c) = some info.cluster := clusterAt_of_look hp hci
    rw [hcl] at this
    rcases this with h | h
    · cases h
    · cases h; rfl

theorem update_char (hl : ∀ s, lower (lower s) = lower s) (m : Mgr) (hI : Inv lower m) (c : Str) (hc : lower c = c)
    (spec : Spec) (p : Nat) (info : CI) (hg : m.get lower c = some (p, info))
    (hchk : checkUpstreamServerNameConflict lower m c spec = false) :
    info.cluster = c ∧
    ∃ m2, addOrUpdateForServerNames lower { m with heap := m.heap.set p (info.sync spec) }
            (loadServerNames lower info) p = some m2 ∧ AppliedChar lower c spec m m2 ∧
          ∀ s ∈ addOrUpdateForServerNamesT lower { m with heap := m.heap.set p (info.sync spec) }
            (loadServerNames lower info) p, Between m m2 s := by
  have hcl := cluster_of_check lower m c hc spec p info hg hchk
  refine ⟨hcl, ?_⟩
  obtain ⟨hp, hci⟩ := (get_some_iff lower m c p info).1 hg
  rw [hc] at hp
  let info' : CI := info.sync spec
  let m1 : Mgr := { m with heap := m.heap.set p info' }
  have hplt : p < m.heap.length := lt_of_getElem?_some _ _ _ hci
  have hp1 : m1.heap[p]? = some info' := by
    show (m.heap.set p info')[p]? = some info'
    simp [hplt]
  have hother : ∀ q, q ≠ p → m1.heap[q]? = m.heap[q]? := by
    intro q hq
    show (m.heap.set p info')[q]? = m.heap[q]?
    exact List.getElem?_set_ne (fun e => hq e.symm)
  have hcl1 : ∀ k, clusterAt m1 k = clusterAt m k := by
    intro k
    apply clusterAt_congr
    · rfl
    · intro q _
      by_cases hq : q = p
      · subst hq
        rw [hp1, hci]
        rfl
      · rw [hother q hq]
  have holdlow : ∀ n ∈ loadServerNames lower info, lower n = n :=
    names_lower lower hl info (hI.low p info hci)
  have hnewlow : ∀ n ∈ objNames lower c spec, lower n = n := objNames_lower lower hl c hc spec
  have hnew : loadServerNames lower info' = objNames lower c spec := by
    show info.cluster :: spec.aliases.map lower = c :: spec.aliases.map lower
    rw [hcl]
  have hall : ∀ n ∈ loadServerNames lower info, m.look n = some p := hI.all c p info hp hci
  have hmem : ∀ k, m.look k = some p → k ∈ loadServerNames lower info := fun k h => hI.mem k p info h hci
  have hclc : clusterAt m c = some c := by
    have := clusterAt_of_look hp hci
    rwa [hcl] at this
  have howner : ∀ k q, m.look k = some q → (q = p ↔ clusterAt m k = some c) := by
    intro k q hq
    constructor
    · intro e
      subst e
      have := clusterAt_of_look hq hci
      rwa [hcl] at this
    · intro h
      have := owner_unique lower hI h hclc
      rw [hq, hp] at this
      cases this; rfl
  have hchk0 : checkServerNameConflict lower m c (loadServerNames lower info) (objNames lower c spec) = false := by
    unfold checkUpstreamServerNameConflict at hchk
    rw [hg] at hchk
    exact hchk
  have hfree : ∀ k ∈ objNames lower c spec, clusterAt m k = none ∨ clusterAt m k = some c := by
    intro k hk
    by_cases he : loadServerNames lower info = objNames lower c spec
    · rw [← he] at hk
      right
      exact (howner k p (hall k hk)).1 rfl
    · have := free_of_noconflict lower m c _ _ he hchk0 k hk
      rwa [hnewlow k hk] at this
  have halive : p ∉ m.stopped := hI.alive c p hp
  show ∃ m2, addOrUpdateForServerNames lower m1 (loadServerNames lower info) p = some m2 ∧ _
  unfold addOrUpdateForServerNames
  rw [hp1]
  simp only
  rw [hnew]
  by_cases he : loadServerNames lower info = objNames lower c spec
  · rw [if_pos he]
    have htr : ∀ s ∈ addOrUpdateForServerNamesT lower m1 (loadServerNames lower info) p, Between m m1 s := by
      intro s hs
      exfalso
      have : addOrUpdateForServerNamesT lower m1 (loadServerNames lower info) p = [] := by
        unfold addOrUpdateForServerNamesT
        rw [hp1]
        simp only
        rw [hnew, if_pos he]
      rw [this] at hs
      cases hs
    refine ⟨m1, rfl, ⟨p, info', hp1, hcl, rfl, rfl, rfl, hother, rfl, halive, ?_, hfree, howner⟩, htr⟩
    intro k
    show m.look k = _
    by_cases hk : k ∈ objNames lower c spec
    · rw [if_pos hk]
      rw [← he] at hk
      exact hall k hk
    · rw [if_neg hk]
      by_cases hcc : clusterAt m k = some c
      · exfalso
        obtain ⟨q, ci, h1, _, _⟩ := (clusterAt_some_iff m k c).1 hcc
        have : q = p := (howner k q h1).2 hcc
        subst this
        exact hk (he ▸ hmem k h1)
      · rw [if_neg hcc]
  · rw [if_neg he]
    have hcc : checkServerNameConflict lower m1 info'.cluster (loadServerNames lower info) (objNames lower c spec) = false := by
      rw [check_congr lower m m1 hcl1]
      show checkServerNameConflict lower m info.cluster _ _ = false
      rw [hcl]
      exact hchk0
    have hbet := between_addOrUpdateT lower m1 (loadServerNames lower info) p info' hp1
      (by rw [hnew]; exact he) (by rw [hnew]; exact hcc) holdlow (by rw [hnew]; exact hnewlow)
    rw [hnew] at hbet
    rw [hcc]
    simp only [Bool.false_eq_true, if_false]
    refine ⟨_, rfl, ⟨p, info', ?_, hcl, rfl, rfl, rfl, ?_, ?_, halive, ?_, hfree, howner⟩, hbet⟩
    · rw [heap_addNew, heap_delOwned]; exact hp1
    · intro q hq
      rw [heap_addNew, heap_delOwned]
      exact hother q hq
    · rw [stopped_addNew, stopped_delOwned_false]
    · intro k
      rw [look_addNew, look_delOwned, hcl1]
      have hc' : info'.cluster = c := hcl
      rw [hc']
      have h1 : hits lower (fun n => decide (n ∈ loadServerNames lower info)) (objNames lower c spec) k = true ↔
          k ∈ objNames lower c spec ∧ k ∉ loadServerNames lower info := by
        rw [hits_mem lower _ _ _ hnewlow]; simp
      have h2 : hits lower (fun o => decide (o ∈ objNames lower c spec)) (loadServerNames lower info) k = true ↔
          k ∈ loadServerNames lower info ∧ k ∉ objNames lower c spec := by
        rw [hits_mem lower _ _ _ holdlow]; simp
      show (if _ then some p else if _ then none else m.look k) = _
      by_cases hkn : k ∈ objNames lower c spec
      · rw [if_pos hkn]
        by_cases hko : k ∈ loadServerNames lower info
        · have n1 : ¬ hits lower (fun n => decide (n ∈ loadServerNames lower info)) (objNames lower c spec) k = true :=
            fun h => (h1.1 h).2 hko
          have n2 : hits lower (fun o => decide (o ∈ objNames lower c spec)) (loadServerNames lower info) k = false := by
            cases hh : hits lower (fun o => decide (o ∈ objNames lower c spec)) (loadServerNames lower info) k with
            | false => rfl
            | true => exact absurd hkn (h2.1 hh).2
          rw [if_neg n1, n2]
          simp only [Bool.false_and, Bool.false_eq_true, if_false]
          exact hall k hko
        · rw [if_pos (h1.2 ⟨hkn, hko⟩)]
      · rw [if_neg hkn]
        have n1 : ¬ hits lower (fun n => decide (n ∈ loadServerNames lower info)) (objNames lower c spec) k = true :=
          fun h => hkn (h1.1 h).1
        rw [if_neg n1]
        by_cases hko : k ∈ loadServerNames lower info
        · have hcc2 : clusterAt m k = some c := (howner k p (hall k hko)).1 rfl
          rw [h2.2 ⟨hko, hkn⟩, hcc2]
          simp
        · have n2 : hits lower (fun o => decide (o ∈ objNames lower c spec)) (loadServerNames lower info) k = false := by
            cases hh : hits lower (fun o => decide (o ∈ objNames lower c spec)) (loadServerNames lower info) k with
            | false => rfl
            | true => exact absurd (h2.1 hh).1 hko
          rw [n2]
          simp only [Bool.false_and, Bool.false_eq_true, if_false]
          by_cases hcc2 : clusterAt m k = some c
          · exfalso
            obtain ⟨q, ci, hq1, _, _⟩ := (clusterAt_some_iff m k c).1 hcc2
            have : q = p := (howner k q hq1).2 hcc2
            subst this
            exact hko (hmem k hq1)
          · rw [if_neg hcc2]

/-! ## consequences of the two characterisations -/

theorem clusterAt_deleted {c : Str} {m m' : Mgr} (h : DeletedChar c m m') (k : Str) :
    clusterAt m' k = if clusterAt m k = some c then none else clusterAt m k := by
  have := clusterAt_of m m' k (decide (clusterAt m k = some c)) (by simpa using h.look k) h.heap
  simpa using this

theorem inv_of_deleted {c : Str} {m m' : Mgr} (hI : Inv lower m) (h : DeletedChar c m m') : Inv lower m' := by
  have hlook : ∀ k q, m'.look k = some q → m.look k = some q ∧ clusterAt m k ≠ some c := by
    intro k q hq
    rw [h.look] at hq
    split at hq
    · cases hq
    · rename_i hn; exact ⟨hq, hn⟩
  refine ⟨?_, ?_, ?_, ?_, ?_, ?_⟩
  · intro k q hq
    rw [h.heap]
    exact hI.wf k q (hlook k q hq).1
  · intro k q ci hq hci
    rw [h.heap] at hci
    exact hI.mem k q ci (hlook k q hq).1 hci
  · intro k q ci hq hci n hn
    rw [h.heap] at hci
    obtain ⟨h1, h2⟩ := hlook k q hq
    have hn1 := hI.all k q ci h1 hci n hn
    rw [h.look]
    have : clusterAt m n = clusterAt m k := by
      rw [clusterAt_of_look hn1 hci, clusterAt_of_look h1 hci]
    rw [this, if_neg h2]
    exact hn1
  · intro q ci hci
    rw [h.heap] at hci
    exact hI.low q ci hci
  · intro k q hq hs
    obtain ⟨h1, h2⟩ := hlook k q hq
    rcases (h.stopped q).1 hs with h3 | ⟨k', h3, h4⟩
    · exact hI.alive k q h1 h3
    · obtain ⟨ci, hci⟩ := hI.wf k q h1
      rw [clusterAt_of_look h3 hci] at h4
      rw [clusterAt_of_look h1 hci] at h2
      exact h2 h4
  · intro q hs
    rw [h.heap]
    rcases (h.stopped q).1 hs with h3 | ⟨k', h3, _⟩
    · exact hI.swf q h3
    · exact hI.wf k' q h3

theorem frame_of_deleted {c : Str} {m m' : Mgr} (h : DeletedChar c m m') : Frame c m m' := by
  refine ⟨?_, ?_, ?_⟩
  · intro k p ci hp hci hne
    have hcl : clusterAt m k = some ci.cluster := clusterAt_of_look hp hci
    have hn : clusterAt m k ≠ some c := by rw [hcl]; intro e; cases e; exact hne rfl
    refine ⟨?_, ?_, ?_⟩
    · rw [h.look, if_neg hn]; exact hp
    · rw [h.heap]; exact hci
    · rw [h.stopped]
      constructor
      · rintro (h1 | ⟨k', h1, h2⟩)
        · exact h1
        · rw [clusterAt_of_look h1 hci] at h2
          cases h2; exact absurd rfl hne
      · exact Or.inl
  · intro k
    by_cases hk : clusterAt m k = some c
    · exact Or.inr (Or.inr hk)
    · left; rw [h.look, if_neg hk]
  · intro k p ci hp hci _
    rw [h.heap] at hci
    rw [h.look] at hp
    split at hp
    · cases hp
    · exact ⟨hp, hci⟩

theorem deleted_of_char {c : Str} {m m' : Mgr} (hc : lower c = c) (h : DeletedChar c m m') :
    Deleted lower c m m' := by
  refine ⟨?_, ?_⟩
  · intro k hk
    rw [clusterAt_deleted h] at hk
    split at hk
    · cases hk
    · rename_i hn; exact hn hk
  · intro p ci hg hcl
    obtain ⟨hp, hci⟩ := (get_some_iff lower m c p ci).1 hg
    rw [hc] at hp
    rw [h.stopped]
    right
    refine ⟨c, hp, ?_⟩
    rw [clusterAt_of_look hp hci, hcl]

theorem inv_of_applied (hl : ∀ s, lower (lower s) = lower s) {c : Str} (hc : lower c = c) {spec : Spec}
    {m m' : Mgr} (hI : Inv lower m) (h : AppliedChar lower c spec m m') : Inv lower m' := by
  obtain ⟨p, ci', hp', hcl, hal, _, _, hother, hst, hpns, hlook, hfree, howner⟩ := h.ex
  have hnames : loadServerNames lower ci' = objNames lower c spec := by
    unfold loadServerNames objNames; rw [hcl, hal]
  -- a key that does not resolve to p afterwards resolved to the same pointer before, and is not one of the new names
  have hold : ∀ k q, m'.look k = some q → q ≠ p →
      k ∉ objNames lower c spec ∧ m.look k = some q ∧ clusterAt m k ≠ some c := by
    intro k q hq hne
    rw [hlook] at hq
    split at hq
    · cases hq; exact absurd rfl hne
    · rename_i hk
      split at hq
      · cases hq
      · rename_i hn; exact ⟨hk, hq, hn⟩
  have hnewp : ∀ k q, m'.look k = some q → k ∈ objNames lower c spec → q = p := by
    intro k q hq hk
    rw [hlook, if_pos hk] at hq
    cases hq; rfl
  refine ⟨?_, ?_, ?_, ?_, ?_, ?_⟩
  · intro k q hq
    by_cases hqp : q = p
    · subst hqp; exact ⟨ci', hp'⟩
    · rw [hother q hqp]
      exact hI.wf k q (hold k q hq hqp).2.1
  · intro k q ci hq hci
    by_cases hqp : q = p
    · subst hqp
      rw [hp'] at hci; cases hci
      rw [hnames]
      rw [hlook] at hq
      split at hq
      · assumption
      · rename_i hk
        split at hq
        · cases hq
        · rename_i hn
          exact absurd ((howner k q hq).1 rfl) hn
    · rw [hother q hqp] at hci
      exact hI.mem k q ci (hold k q hq hqp).2.1 hci
  · intro k q ci hq hci n hn
    by_cases hqp : q = p
    · subst hqp
      rw [hp'] at hci; cases hci
      rw [hnames] at hn
      rw [hlook, if_pos hn]
    · rw [hother q hqp] at hci
      obtain ⟨_, h2, h3⟩ := hold k q hq hqp
      have hn1 := hI.all k q ci h2 hci n hn
      have hcn : clusterAt m n = clusterAt m k := by
        rw [clusterAt_of_look hn1 hci, clusterAt_of_look h2 hci]
      have hnn : n ∉ objNames lower c spec := by
        intro hmem
        rcases hfree n hmem with h4 | h4
        · rw [clusterAt_of_look hn1 hci] at h4; cases h4
        · rw [hcn] at h4; exact h3 h4
      rw [hlook, if_neg hnn, hcn, if_neg h3]
      exact hn1
  · intro q ci hci
    by_cases hqp : q = p
    · subst hqp
      rw [hp'] at hci; cases hci
      rw [hcl]; exact hc
    · rw [hother q hqp] at hci
      exact hI.low q ci hci
  · intro k q hq
    rw [hst]
    by_cases hqp : q = p
    · subst hqp; exact hpns
    · exact hI.alive k q (hold k q hq hqp).2.1
  · intro q hs
    rw [hst] at hs
    by_cases hqp : q = p
    · subst hqp; exact ⟨ci', hp'⟩
    · rw [hother q hqp]; exact hI.swf q hs

theorem frame_of_applied {c : Str} {spec : Spec} {m m' : Mgr}
    (h : AppliedChar lower c spec m m') : Frame c m m' := by
  obtain ⟨p, ci', hp', hcl, _, _, _, hother, hst, _, hlook, hfree, howner⟩ := h.ex
  refine ⟨?_, ?_, ?_⟩
  · intro k q ci hq hci hne
    have hclk : clusterAt m k = some ci.cluster := clusterAt_of_look hq hci
    have hn : clusterAt m k ≠ some c := by rw [hclk]; intro e; cases e; exact hne rfl
    have hk : k ∉ objNames lower c spec := by
      intro hmem
      rcases hfree k hmem with h4 | h4
      · rw [hclk] at h4; cases h4
      · exact hn h4
    have hqp : q ≠ p := fun e => hn ((howner k q hq).1 e)
    refine ⟨?_, ?_, ?_⟩
    · rw [hlook, if_neg hk, if_neg hn]; exact hq
    · rw [hother q hqp]; exact hci
    · rw [hst]
  · intro k
    by_cases hk : k ∈ objNames lower c spec
    · right; left
      have : m'.look k = some p := by rw [hlook, if_pos hk]
      rw [clusterAt_of_look this hp', hcl]
    · by_cases hn : clusterAt m k = some c
      · exact Or.inr (Or.inr hn)
      · left; rw [hlook, if_neg hk, if_neg hn]
  · intro k q ci hq hci hne
    have hqp : q ≠ p := by
      intro e; subst e
      rw [hp'] at hci; cases hci
      exact hne hcl
    rw [hother q hqp] at hci
    rw [hlook] at hq
    split at hq
    · cases hq; exact absurd rfl hqp
    · split at hq
      · cases hq
      · exact ⟨hq, hci⟩

theorem applied_of_char {c : Str} (hc : lower c = c) {spec : Spec} {m m' : Mgr}
    (h : AppliedChar lower c spec m m') : Applied lower c spec m' := by
  obtain ⟨p, ci', hp', hcl, hal, hcert, hca, _, hst, hpns, hlook, _, howner⟩ := h.ex
  have hcmem : c ∈ objNames lower c spec := by simp [objNames]
  refine ⟨⟨p, ci', ?_, hcl, ?_, hcert, hca, ?_, ?_⟩⟩
  · apply (get_some_iff lower m' c p ci').2
    rw [hc]
    exact ⟨by rw [hlook, if_pos hcmem], hp'⟩
  · unfold loadServerNames objNames; rw [hcl, hal]
  · rw [hst]; exact hpns
  · intro k
    constructor
    · intro hk
      rw [hlook] at hk
      split at hk
      · assumption
      · split at hk
        · cases hk
        · rename_i hn
          exact absurd ((howner k p hk).1 rfl) hn
    · intro hk
      rw [hlook, if_pos hk]

/-! ## one handler invocation -/

/-- What `syncUpstreamCluster` does to a state satisfying the invariant: nothing (and it asks for a requeue), or
    the deletion of cluster `c`, or the application of the lister's object. -/
inductive StepChar (c : Str) (latest : Option Spec) (m m' : Mgr) (o : Outcome) : Prop
  | requeue : o.requeue = true → m' = m → StepChar c latest m m' o
  | deleted : o = .deleted → latest = none → DeletedChar c m m' → StepChar c latest m m' o
  | applied (spec : Spec) : o.requeue = false → latest = some spec → spec.bad = false →
      AppliedChar lower c spec m m' → StepChar c latest m m' o

theorem sync_char (hl : ∀ s, lower (lower s) = lower s) (m : Mgr) (hI : Inv lower m) (name : Str)
    (latest : Option Spec) :
    StepChar lower (lower name) latest m (syncUpstreamCluster lower m name latest).1
      (syncUpstreamCluster lower m name latest).2 := by
  have hc : lower (lower name) = lower name := hl name
  unfold syncUpstreamCluster
  cases latest with
  | none =>
    exact StepChar.deleted rfl rfl (deleteForServerNames_char lower hl m hI _ hc)
  | some spec =>
    simp only
    by_cases hchk : checkUpstreamServerNameConflict lower m (lower name) spec = true
    · rw [if_pos hchk]
      exact StepChar.requeue rfl rfl
    · rw [if_neg hchk]
      have hchk' : checkUpstreamServerNameConflict lower m (lower name) spec = false := by simpa using hchk
      cases hg : m.get lower (lower name) with
      | none =>
        simp only
        by_cases hb : spec.bad = true
        · rw [if_pos hb]
          refine StepChar.requeue rfl ?_
          show deleteForServerNames lower m (lower name) = m
          unfold deleteForServerNames
          rw [hg]
        · rw [if_neg hb]
          obtain ⟨m2, hm2, hchar, _⟩ := create_char lower hl m hI (lower name) hc spec hg hchk'
          rw [hm2]
          exact StepChar.applied spec rfl rfl (by simpa using hb) hchar
      | some pi =>
        obtain ⟨p, info⟩ := pi
        obtain ⟨hcl, m2, hm2, hchar, _⟩ := update_char lower hl m hI (lower name) hc spec p info hg hchk'
        simp only
        rw [if_neg (by simpa using hcl)]
        by_cases hb : spec.bad = true
        · rw [if_pos hb]
          exact StepChar.requeue rfl rfl
        · rw [if_neg hb, hm2]
          exact StepChar.applied spec rfl rfl (by simpa using hb) hchar

/-- every state a concurrent reader can observe during one handler invocation resolves every key like the
    state before or like the state after the invocation -/
theorem trace_between (hl : ∀ s, lower (lower s) = lower s) (m : Mgr) (hI : Inv lower m) (name : Str)
    (latest : Option Spec) :
    ∀ s ∈ syncTrace lower m name latest, Between m (syncUpstreamCluster lower m name latest).1 s := by
  have hc : lower (lower name) = lower name := hl name
  unfold syncUpstreamCluster syncTrace
  cases latest with
  | none =>
    simp only
    unfold deleteForServerNamesT deleteForServerNames
    cases hg : m.get lower (lower name) with
    | none => intro s hs; cases hs
    | some pi =>
      obtain ⟨p, ci⟩ := pi
      exact between_delOwnedT lower _ _ _ _ m
  | some spec =>
    simp only
    by_cases hchk : checkUpstreamServerNameConflict lower m (lower name) spec = true
    · simp only [if_pos hchk]
      intro s hs; cases hs
    · simp only [if_neg hchk]
      have hchk' : checkUpstreamServerNameConflict lower m (lower name) spec = false := by simpa using hchk
      cases hg : m.get lower (lower name) with
      | none =>
        simp only
        by_cases hb : spec.bad = true
        · simp only [if_pos hb]
          unfold deleteForServerNamesT
          rw [hg]
          intro s hs; cases hs
        · simp only [if_neg hb]
          obtain ⟨m2, hm2, _, hbet⟩ := create_char lower hl m hI (lower name) hc spec hg hchk'
          rw [hm2]
          exact hbet
      | some pi =>
        obtain ⟨p, info⟩ := pi
        obtain ⟨hcl, m2, hm2, _, hbet⟩ := update_char lower hl m hI (lower name) hc spec p info hg hchk'
        have hne : ¬ (info.cluster ≠ lower name) := by simpa using hcl
        simp only [if_neg hne]
        by_cases hb : spec.bad = true
        · simp only [if_pos hb]
          intro s hs; cases hs
        · simp only [if_neg hb]
          rw [hm2]
          exact hbet

end
end KG.Lemmas.Names
