import KG.Spec.Endpoints
/-! Helper lemmas for C03 / C14: the endpoint map as a finite function, `syncEndpoints` extensionally,
    the simulation between the model and the abstract state of `KG.Spec.Endpoints`. -/
namespace KG.Lemmas.Endpoints
open KG KG.Model.Endpoints KG.Spec.Endpoints

/-! ## `get` / `updateAt` -/

theorem load_nil (n : Name) : load [] n = none := rfl

theorem load_cons (e : EP) (eps : List EP) (n : Name) :
    load (e :: eps) n = if e.name = n then some e else load eps n := by
  unfold load
  by_cases h : e.name = n <;> simp [List.find?_cons, h]

theorem load_some_name {eps : List EP} {n : Name} {e : EP} (h : load eps n = some e) : e.name = n := by
  unfold load at h
  have := List.find?_some h
  simpa using this

theorem load_some_mem {eps : List EP} {n : Name} {e : EP} (h : load eps n = some e) : e ∈ eps := by
  unfold load at h
  exact List.mem_of_find?_eq_some h

theorem load_none_iff {eps : List EP} {n : Name} : load eps n = none ↔ n ∉ eps.map (·.name) := by
  induction eps with
  | nil => simp [load_nil]
  | cons e eps ih =>
    rw [load_cons]
    by_cases h : e.name = n
    · simp [h]
    · simp only [h, if_false, ih, List.map_cons, List.mem_cons, not_or]
      constructor
      · intro h2; exact ⟨fun h3 => h h3.symm, h2⟩
      · intro h2; exact h2.2

theorem load_isSome_iff {eps : List EP} {n : Name} : (load eps n).isSome = true ↔ n ∈ eps.map (·.name) := by
  cases hg : load eps n with
  | none => simp [load_none_iff.1 hg]
  | some e =>
    simp only [Option.isSome_some, true_iff]
    have := load_some_mem hg
    have hn := load_some_name hg
    exact List.mem_map.2 ⟨e, this, hn⟩

theorem load_updateAt (eps : List EP) (n m : Name) (f : EP → EP) (hf : ∀ e, (f e).name = e.name) :
    load (updateAt eps n f) m = if m = n then (load eps n).map f else load eps m := by
  induction eps with
  | nil => simp [updateAt, load_nil]
  | cons e eps ih =>
    have ih' : load (List.map (fun e => if (e.name == n) = true then f e else e) eps) m
        = if m = n then (load eps n).map f else load eps m := ih
    simp only [updateAt, List.map_cons]
    rw [load_cons, ih', load_cons, load_cons]
    by_cases h1 : e.name = n
    · by_cases h2 : m = n
      · subst h2; simp [h1, hf]
      · have : ¬ n = m := fun h => h2 h.symm
        simp [h1, h2, hf, this]
    · by_cases h2 : m = n
      · subst h2; simp [h1]
      · simp [h1, h2]

theorem names_updateAt (eps : List EP) (n : Name) (f : EP → EP) (hf : ∀ e, (f e).name = e.name) :
    (updateAt eps n f).map (·.name) = eps.map (·.name) := by
  unfold updateAt
  rw [List.map_map]
  apply List.map_congr_left
  intro e _
  simp only [Function.comp]
  split <;> simp [hf]

theorem load_append_single (eps : List EP) (x : EP) (m : Name) :
    load (eps ++ [x]) m = match load eps m with | some e => some e | none => if x.name = m then some x else none := by
  induction eps with
  | nil => simp [load_cons, load_nil]
  | cons e eps ih =>
    simp only [List.cons_append]
    rw [load_cons, load_cons, ih]
    by_cases h : e.name = m <;> simp [h]


/-! ## what the per-object methods change -/

theorem ensureHC_facts (e : EP) :
    e.ensureHC.name = e.name ∧ e.ensureHC.gen = e.gen ∧ e.ensureHC.disabled = e.disabled ∧
    e.ensureHC.healthy = e.healthy ∧ e.ensureHC.probing = !e.disabled := by
  rcases e with ⟨name, gen, dis, healthy, uc, probing, chan, blocked, probes⟩
  cases dis <;> cases probing <;> cases chan <;> simp [EP.ensureHC]

theorem ensureHC_name (e : EP) : e.ensureHC.name = e.name := (ensureHC_facts e).1

theorem trigger_facts (e : EP) :
    e.trigger.name = e.name ∧ e.trigger.gen = e.gen ∧ e.trigger.disabled = e.disabled ∧
    e.trigger.healthy = e.healthy ∧ e.trigger.probing = e.probing := by
  rcases e with ⟨name, gen, dis, healthy, uc, probing, chan, blocked, probes⟩
  cases chan <;> simp [EP.trigger]

theorem updateStatus_facts (e : EP) (h : Bool) :
    (e.updateStatus h).name = e.name ∧ (e.updateStatus h).gen = e.gen ∧ (e.updateStatus h).disabled = e.disabled ∧
    (e.updateStatus h).healthy = h ∧ (e.updateStatus h).probing = e.probing := by
  simp [EP.updateStatus]

theorem fire_facts (e : EP) (h : Bool) :
    (e.fire h).name = e.name ∧ (e.fire h).gen = e.gen ∧ (e.fire h).disabled = e.disabled ∧
    (e.fire h).healthy = h ∧ (e.fire h).probing = e.probing := by
  simp [EP.fire, EP.updateStatus]

theorem setDisabled_facts (e : EP) (d : Bool) :
    (e.setDisabled d).name = e.name ∧ (e.setDisabled d).gen = e.gen ∧ (e.setDisabled d).disabled = d ∧
    (e.setDisabled d).healthy = e.healthy := by
  simp [EP.setDisabled]

/-! ## `addOrUpdateEndpoint` and the loop over the wanted set -/

/-- the object stored under `n` after `addOrUpdateEndpoint … n d` -/
def upserted (gen : Nat) (old : Option EP) (n : Name) (d : Bool) : EP :=
  match old with
  | some e => (e.setDisabled d).ensureHC
  | none => (newEP n gen d).ensureHC

theorem load_addOrUpdate (gen : Nat) (eps : List EP) (n m : Name) (d : Bool) :
    load (addOrUpdateEndpoint gen eps n d) m = if m = n then some (upserted gen (load eps n) n d) else load eps m := by
  unfold addOrUpdateEndpoint
  cases hg : load eps n with
  | some e =>
    simp only
    rw [load_updateAt _ _ _ _ (fun e => by simp [ensureHC_name, EP.setDisabled])]
    simp [hg, upserted]
  | none =>
    simp only
    rw [load_append_single]
    by_cases h : m = n
    · subst h; simp [hg, upserted, ensureHC_name, newEP]
    · have h' : ¬ n = m := fun x => h x.symm
      cases hm : load eps m <;> simp [h, h', ensureHC_name, newEP]

theorem names_addOrUpdate_nodup (gen : Nat) (eps : List EP) (n : Name) (d : Bool)
    (h : (eps.map (·.name)).Nodup) : ((addOrUpdateEndpoint gen eps n d).map (·.name)).Nodup := by
  unfold addOrUpdateEndpoint
  cases hg : load eps n with
  | some e =>
    simp only
    rw [names_updateAt _ _ _ (fun e => by simp [ensureHC_name, EP.setDisabled])]
    exact h
  | none =>
    simp only [List.map_append, List.map_cons, List.map_nil, ensureHC_name, newEP]
    have hn := load_none_iff.1 hg
    rw [List.nodup_append]
    refine ⟨h, by simp, ?_⟩
    intro a ha b hb
    simp at hb
    subst hb
    intro hab
    exact hn (hab ▸ ha)

theorem mem_dedup (l : List Name) (a : Name) : a ∈ dedup l ↔ a ∈ l := by
  induction l with
  | nil => simp [dedup]
  | cons x xs ih =>
    simp only [dedup, List.mem_cons, List.mem_filter, ih]
    by_cases h : a = x
    · simp [h]
    · simp [h]

theorem nodup_dedup (l : List Name) : (dedup l).Nodup := by
  induction l with
  | nil => simp [dedup]
  | cons x xs ih =>
    simp only [dedup, List.nodup_cons]
    constructor
    · simp [List.mem_filter]
    · exact List.Pairwise.filter _ ih

/-- the loop `wantedEPs.Range(addOrUpdateEndpoint)` as a finite function -/
theorem load_foldl_addOrUpdate (gen : Nat) (D : Name → Bool) (wanted : List Name) (hw : wanted.Nodup) (eps : List EP) (m : Name) :
    load (wanted.foldl (fun eps n => addOrUpdateEndpoint gen eps n (D n)) eps) m
      = if m ∈ wanted then some (upserted gen (load eps m) m (D m)) else load eps m := by
  induction wanted generalizing eps with
  | nil => simp
  | cons n rest ih =>
    simp only [List.foldl_cons]
    have hn : n ∉ rest := (List.nodup_cons.1 hw).1
    rw [ih (List.nodup_cons.1 hw).2, load_addOrUpdate]
    by_cases h1 : m ∈ rest
    · have : ¬ m = n := fun h => hn (h ▸ h1)
      simp [h1, this]
    · by_cases h2 : m = n
      · subst h2; simp [h1]
      · simp [h1, h2]

theorem nodup_foldl_addOrUpdate (gen : Nat) (D : Name → Bool) (wanted : List Name) (eps : List EP)
    (h : (eps.map (·.name)).Nodup) :
    ((wanted.foldl (fun eps n => addOrUpdateEndpoint gen eps n (D n)) eps).map (·.name)).Nodup := by
  induction wanted generalizing eps with
  | nil => simpa
  | cons n rest ih =>
    simp only [List.foldl_cons]
    exact ih _ (names_addOrUpdate_nodup gen eps n (D n) h)


/-! ## `syncEndpoints` as a finite function -/

theorem load_filter_name (eps : List EP) (q : Name → Bool) (m : Name) :
    load (eps.filter fun e => q e.name) m = if q m then load eps m else none := by
  induction eps with
  | nil => simp [load_nil]
  | cons e eps ih =>
    by_cases hq : q e.name = true
    · rw [List.filter_cons_of_pos (by simpa using hq), load_cons, load_cons, ih]
      by_cases h : e.name = m
      · subst h; simp [hq]
      · simp [h]
    · rw [List.filter_cons_of_neg (by simpa using hq), ih, load_cons]
      by_cases h : e.name = m
      · subst h; simp [hq]
      · simp [h]

theorem nodup_filter_names (eps : List EP) (p : EP → Bool) (h : (eps.map (·.name)).Nodup) :
    ((eps.filter p).map (·.name)).Nodup :=
  List.Nodup.sublist ((List.filter_sublist).map _) h

theorem mem_disabledSet (servers : List Server) (n : Name) :
    n ∈ disabledSet servers ↔ specDisabled servers n = true := by
  unfold disabledSet specDisabled
  simp only [List.mem_map, List.mem_filter, List.any_eq_true, Bool.and_eq_true, beq_iff_eq]
  constructor
  · rintro ⟨a, ⟨ha, hd⟩, hn⟩; exact ⟨a, ha, hn, hd⟩
  · rintro ⟨a, ha, hn, hd⟩; exact ⟨a, ⟨ha, hd⟩, hn⟩

theorem disabledSet_decide (servers : List Server) (n : Name) :
    decide (n ∈ disabledSet servers) = specDisabled servers n := by
  rw [Bool.eq_iff_iff]; simp [mem_disabledSet]

/-- the endpoints kept by the deletion loop are those still wanted -/
theorem sync_kept (eps : List EP) (wanted : List Name) :
    (eps.filter fun e => !((eps.map (·.name)).filter fun n => !wanted.contains n).contains e.name)
      = eps.filter fun e => wanted.contains e.name := by
  apply List.filter_congr
  intro e he
  have hmem : e.name ∈ eps.map (·.name) := List.mem_map.2 ⟨e, he, rfl⟩
  rw [Bool.eq_iff_iff]
  simp only [Bool.not_eq_true', List.contains_eq_mem, List.mem_filter, decide_eq_false_iff_not, decide_eq_true_eq]
  constructor
  · intro h
    by_cases hw : e.name ∈ wanted
    · exact hw
    · exact absurd ⟨hmem, by simpa using hw⟩ h
  · intro hw h
    have := h.2
    simp [hw] at this

theorem load_syncEndpoints (s : State) (servers : List Server) (m : Name) :
    load (syncEndpoints s servers).eps m
      = if m ∈ serverNames servers then some (upserted s.epoch (load s.eps m) m (specDisabled servers m)) else none := by
  unfold syncEndpoints
  simp only
  rw [sync_kept, load_foldl_addOrUpdate s.epoch (fun n => (disabledSet servers).contains n) _ (nodup_dedup _),
    load_filter_name s.eps (fun n => (dedup (serverNames servers)).contains n)]
  simp only [mem_dedup, List.contains_eq_mem, decide_eq_true_eq, disabledSet_decide]
  by_cases h : m ∈ serverNames servers <;> simp [h]

theorem nodup_syncEndpoints (s : State) (servers : List Server) (h : (s.eps.map (·.name)).Nodup) :
    ((syncEndpoints s servers).eps.map (·.name)).Nodup := by
  unfold syncEndpoints
  simp only
  exact nodup_foldl_addOrUpdate _ _ _ _ (nodup_filter_names _ _ h)


/-! ## `Pop` -/

theorem mem_readyList {eps : List EP} {us : List Name} {e : EP} :
    e ∈ readyList eps us ↔ ∃ n, n ∈ us ∧ load eps n = some e ∧ e.isReady = true := by
  unfold readyList
  rw [List.mem_filterMap]
  constructor
  · rintro ⟨n, hn, h⟩
    refine ⟨n, hn, ?_⟩
    cases hg : load eps n with
    | none => simp [hg] at h
    | some e' =>
      simp only [hg] at h
      by_cases hr : e'.isReady = true
      · simp only [hr, if_true, Option.some.injEq] at h
        subst h; exact ⟨rfl, hr⟩
      · simp [hr] at h
  · rintro ⟨n, hn, hg, hr⟩
    exact ⟨n, hn, by simp [hg, hr]⟩

/-- the three possible answers of `Pop` -/
theorem popScoped_cases (tag : Key) (eps : List EP) (lb : List (Key × Nat)) (us : List Name) :
    ((popScoped tag eps lb us).1 = .noReady ∧ readyList eps us = []) ∨
    (∃ e, e ∈ readyList eps us ∧ (popScoped tag eps lb us).1 = .picked e.name e.gen) := by
  unfold popScoped
  by_cases hu : us.isEmpty = true
  · left
    have : us = [] := by simpa using hu
    subst this
    simp [readyList]
  · simp only [hu]
    cases hr : readyList eps us with
    | nil => left; simp
    | cons e1 t =>
      right
      cases t with
      | nil => exact ⟨e1, by simp, by simp⟩
      | cons e2 t2 =>
        simp only [indexResult]
        have hlt : toU64 (lbGet lb (tag ++ List.map EP.id (e1 :: e2 :: t2)) + 1) % (e1 :: e2 :: t2).length < (e1 :: e2 :: t2).length :=
          Nat.mod_lt _ (by simp)
        rw [List.getElem?_eq_getElem hlt]
        exact ⟨_, List.getElem_mem hlt, rfl⟩

theorem pop_cases (eps : List EP) (lb : List (Key × Nat)) (us : List Name) :
    ((pop eps lb us).1 = .noReady ∧ readyList eps us = []) ∨
    (∃ e, e ∈ readyList eps us ∧ (pop eps lb us).1 = .picked e.name e.gen) := popScoped_cases [] eps lb us

theorem popScoped_never_panics (tag : Key) (eps : List EP) (lb : List (Key × Nat)) (us : List Name) :
    (popScoped tag eps lb us).1 ≠ .panic := by
  rcases popScoped_cases tag eps lb us with ⟨h, _⟩ | ⟨e, _, h⟩ <;> simp [h]

theorem pop_never_panics (eps : List EP) (lb : List (Key × Nat)) (us : List Name) : (pop eps lb us).1 ≠ .panic :=
  popScoped_never_panics [] eps lb us

theorem popScoped_sound {tag : Key} {eps : List EP} {lb : List (Key × Nat)} {us : List Name} {n : Name} {g : Nat}
    (h : (popScoped tag eps lb us).1 = .picked n g) :
    ∃ e, load eps n = some e ∧ e.gen = g ∧ n ∈ us ∧ e.isReady = true := by
  rcases popScoped_cases tag eps lb us with ⟨h', _⟩ | ⟨e, he, h'⟩
  · rw [h'] at h; cases h
  · rw [h'] at h
    injection h with h1 h2
    obtain ⟨m, hm, hg, hr⟩ := mem_readyList.1 he
    have := load_some_name hg
    subst h1; subst h2
    subst this
    exact ⟨e, hg, rfl, hm, hr⟩

theorem pop_sound {eps : List EP} {lb : List (Key × Nat)} {us : List Name} {n : Name} {g : Nat}
    (h : (pop eps lb us).1 = .picked n g) :
    ∃ e, load eps n = some e ∧ e.gen = g ∧ n ∈ us ∧ e.isReady = true := popScoped_sound (tag := []) h

theorem popScoped_noReady {tag : Key} {eps : List EP} {lb : List (Key × Nat)} {us : List Name}
    (h : (popScoped tag eps lb us).1 = .noReady) :
    ∀ n, n ∈ us → ∀ e, load eps n = some e → e.isReady = false := by
  rcases popScoped_cases tag eps lb us with ⟨_, h'⟩ | ⟨e, _, h'⟩
  · intro n hn e hg
    cases hr : e.isReady with
    | false => rfl
    | true =>
      have : e ∈ readyList eps us := mem_readyList.2 ⟨n, hn, hg, hr⟩
      rw [h'] at this; cases this
  · rw [h'] at h; cases h


theorem pop_noReady {eps : List EP} {lb : List (Key × Nat)} {us : List Name}
    (h : (pop eps lb us).1 = .noReady) :
    ∀ n, n ∈ us → ∀ e, load eps n = some e → e.isReady = false := popScoped_noReady (tag := []) h

/-! ## association lists of the abstract state -/

theorem lookup_filter_fst {β : Type} (l : List (Name × β)) (q : Name → Bool) (n : Name) :
    (l.filter fun p => q p.1).lookup n = if q n then l.lookup n else none := by
  induction l with
  | nil => simp
  | cons p rest ih =>
    obtain ⟨k, v⟩ := p
    by_cases hq : q k = true
    · rw [List.filter_cons_of_pos (by simpa using hq)]
      simp only [List.lookup_cons, ih]
      by_cases h : n = k
      · subst h; simp [hq]
      · have : (n == k) = false := by simpa using h
        simp [this]
    · rw [List.filter_cons_of_neg (by simpa using hq), ih]
      simp only [List.lookup_cons]
      by_cases h : n = k
      · subst h; simp [hq]
      · have : (n == k) = false := by simpa using h
        simp [this]

theorem lookup_map_pair {β : Type} (l : List Name) (f : Name → β) (n : Name) :
    (l.map fun m => (m, f m)).lookup n = if n ∈ l then some (f n) else none := by
  induction l with
  | nil => simp
  | cons x rest ih =>
    simp only [List.map_cons, List.lookup_cons, ih, List.mem_cons]
    by_cases h : n = x
    · subst h; simp
    · have : (n == x) = false := by simpa using h
      simp [this, h]

theorem report_lookup_sync (report : List (Name × Bool)) (servers : List Server) (n : Name) :
    (report.filter fun p => (serverNames servers).contains p.1).lookup n
      = if n ∈ serverNames servers then report.lookup n else none := by
  rw [lookup_filter_fst report (fun m => (serverNames servers).contains m) n]; simp

/-! ## the simulation -/

structure Sim (s : State) (a : Abs) : Prop where
  policies : s.policies = a.policies
  pickers : s.pickers = a.pickers
  epoch : s.epoch = a.epoch
  nodup : (s.eps.map (·.name)).Nodup
  dom : ∀ n, (load s.eps n).isSome = a.inServers n
  ep : ∀ n e, load s.eps n = some e →
        e.disabled = specDisabled a.servers n ∧ e.healthy = a.healthy n ∧ e.gen = a.bornAt n ∧ e.probing = !e.disabled
  rep : ∀ n, a.inServers n = false → a.report.lookup n = none

theorem sim_init : Sim init Abs.init := by
  refine ⟨rfl, rfl, rfl, by simp [init], ?_, ?_, ?_⟩
  · intro n; simp [init, load_nil, Abs.init, Abs.inServers, serverNames]
  · intro n e h; simp [init, load_nil] at h
  · intro n _; simp [Abs.init]

theorem sim_initScoped (ps : Bool) : Sim (initScoped ps) Abs.init := by
  refine ⟨rfl, rfl, rfl, by simp [initScoped, init], ?_, ?_, ?_⟩
  · intro n; simp [initScoped, init, load_nil, Abs.init, Abs.inServers, serverNames]
  · intro n e h; simp [initScoped, init, load_nil] at h
  · intro n _; simp [Abs.init]

theorem sim_sync {s : State} {a : Abs} (h : Sim s a) (servers : List Server) (pols : List (List Name)) :
    Sim (sync s servers pols) (absStep a (.sync servers pols) .none) := by
  have hin : ∀ n, (absStep a (.sync servers pols) .none).inServers n = decide (n ∈ serverNames servers) := by
    intro n; simp [absStep, Abs.inServers]
  refine ⟨rfl, ?_, ?_, ?_, ?_, ?_, ?_⟩
  · simpa [sync, syncEndpoints, absStep] using h.pickers
  · simp [sync, syncEndpoints, absStep, h.epoch]
  · simpa [sync] using nodup_syncEndpoints s servers h.nodup
  · intro n
    rw [hin]
    simp only [sync]
    rw [load_syncEndpoints]
    by_cases hn : n ∈ serverNames servers <;> simp [hn]
  · intro n e he
    simp only [sync] at he
    rw [load_syncEndpoints] at he
    by_cases hn : n ∈ serverNames servers
    · simp only [hn, if_true, Option.some.injEq] at he
      have hrep : (absStep a (.sync servers pols) .none).healthy n = a.healthy n := by
        simp only [absStep, Abs.healthy]
        rw [report_lookup_sync]
        simp [hn]
      have hborn : (absStep a (.sync servers pols) .none).bornAt n = if a.inServers n then a.bornAt n else a.epoch := by
        simp only [absStep, Abs.bornAt]
        rw [lookup_map_pair]
        simp [mem_dedup, hn]
      have hdis : (absStep a (.sync servers pols) .none).servers = servers := by simp [absStep]
      rw [hrep, hborn, hdis]
      cases hl : load s.eps n with
      | some e0 =>
        rw [hl] at he
        simp only [upserted] at he
        subst he
        obtain ⟨_, h2, h3, h4, h5⟩ := ensureHC_facts (e0.setDisabled (specDisabled servers n))
        obtain ⟨_, g2, g3, g4⟩ := setDisabled_facts e0 (specDisabled servers n)
        obtain ⟨_, k2, k3, _⟩ := h.ep n e0 hl
        have hdom : a.inServers n = true := by rw [← h.dom n, hl]; rfl
        refine ⟨by rw [h3, g3], by rw [h4, g4, k2], by rw [h2, g2, k3, hdom]; simp, by rw [h5, h3]⟩
      | none =>
        rw [hl] at he
        simp only [upserted] at he
        subst he
        obtain ⟨_, h2, h3, h4, h5⟩ := ensureHC_facts (newEP n s.epoch (specDisabled servers n))
        have hdom : a.inServers n = false := by rw [← h.dom n, hl]; rfl
        have hr : a.healthy n = false := by simp [Abs.healthy, h.rep n hdom]
        refine ⟨by rw [h3]; rfl, by rw [h4, hr]; rfl, by rw [h2, hdom]; simp [newEP, h.epoch], by rw [h5, h3]⟩
    · simp [hn] at he
  · intro n hn
    rw [hin] at hn
    have : n ∉ serverNames servers := by simpa using hn
    simp only [absStep]
    rw [report_lookup_sync]
    simp [this]


/-- a method called on the object stored under `n` that leaves identity and `disabled` alone -/
theorem sim_updateAt {s : State} {a : Abs} (h : Sim s a) (n : Name) (f : EP → EP) (a' : Abs)
    (hname : ∀ e, (f e).name = e.name) (hgen : ∀ e, (f e).gen = e.gen) (hdis : ∀ e, (f e).disabled = e.disabled)
    (hprob : ∀ e, e.probing = (!e.disabled) → (f e).probing = !e.disabled)
    (ha1 : a'.servers = a.servers) (ha2 : a'.policies = a.policies) (ha3 : a'.born = a.born)
    (ha4 : a'.epoch = a.epoch) (ha5 : a'.pickers = a.pickers)
    (hother : ∀ m, m ≠ n → a'.healthy m = a.healthy m)
    (hn : ∀ e, load s.eps n = some e → (f e).healthy = a'.healthy n)
    (hrep : ∀ m, a'.inServers m = false → a'.report.lookup m = none) :
    Sim { s with eps := updateAt s.eps n f } a' := by
  have hin : ∀ m, a'.inServers m = a.inServers m := by intro m; simp [Abs.inServers, ha1]
  have hborn : ∀ m, a'.bornAt m = a.bornAt m := by intro m; simp [Abs.bornAt, ha3]
  refine ⟨by simpa [ha2] using h.policies, by simpa [ha5] using h.pickers, by simpa [ha4] using h.epoch, ?_, ?_, ?_, hrep⟩
  · simp only; rw [names_updateAt _ _ _ hname]; exact h.nodup
  · intro m
    simp only
    rw [load_updateAt _ _ _ _ hname, hin, ← h.dom m]
    by_cases hm : m = n
    · subst hm; cases load s.eps m <;> simp
    · simp [hm]
  · intro m e he
    simp only at he
    rw [load_updateAt _ _ _ _ hname] at he
    rw [hborn, ha1]
    by_cases hm : m = n
    · subst hm
      simp only [if_true] at he
      cases hl : load s.eps m with
      | none => simp [hl] at he
      | some e0 =>
        simp only [hl, Option.map_some, Option.some.injEq] at he
        subst he
        obtain ⟨k1, _, k3, k4⟩ := h.ep m e0 hl
        exact ⟨by rw [hdis, k1], hn e0 hl, by rw [hgen, k3], by rw [hdis]; exact hprob e0 k4⟩
    · simp only [hm, if_false] at he
      obtain ⟨k1, k2, k3, k4⟩ := h.ep m e he
      exact ⟨k1, by rw [hother m hm, k2], k3, k4⟩

theorem sim_trigger {s : State} {a : Abs} (h : Sim s a) (n : Name) :
    Sim { s with eps := updateAt s.eps n EP.trigger } a := by
  apply sim_updateAt h n EP.trigger a
    (fun e => (trigger_facts e).1) (fun e => (trigger_facts e).2.1) (fun e => (trigger_facts e).2.2.1)
    (fun e he => by rw [(trigger_facts e).2.2.2.2, he]) rfl rfl rfl rfl rfl (fun _ _ => rfl)
  · intro e he; rw [(trigger_facts e).2.2.2.1]; exact (h.ep n e he).2.1
  · exact h.rep

theorem sim_ensure {s : State} {a : Abs} (h : Sim s a) (n : Name) :
    Sim { s with eps := updateAt s.eps n EP.ensureHC } a := by
  apply sim_updateAt h n EP.ensureHC a
    (fun e => (ensureHC_facts e).1) (fun e => (ensureHC_facts e).2.1) (fun e => (ensureHC_facts e).2.2.1)
    (fun e _ => (ensureHC_facts e).2.2.2.2) rfl rfl rfl rfl rfl (fun _ _ => rfl)
  · intro e he; rw [(ensureHC_facts e).2.2.2.1]; exact (h.ep n e he).2.1
  · exact h.rep

/-- a health report for `n` arrives (from a probe, or `UpdateStatus` called by anybody) -/
theorem sim_report {s : State} {a : Abs} (h : Sim s a) (n : Name) (hv : Bool) (f : EP → EP)
    (hf : ∀ e, (f e).name = e.name ∧ (f e).gen = e.gen ∧ (f e).disabled = e.disabled ∧ (f e).healthy = hv ∧ (f e).probing = e.probing)
    (hin : a.inServers n = true) :
    Sim { s with eps := updateAt s.eps n f } { a with report := (n, hv) :: a.report } := by
  apply sim_updateAt h n f { a with report := (n, hv) :: a.report } (fun e => (hf e).1) (fun e => (hf e).2.1) (fun e => (hf e).2.2.1)
    (fun e he => by rw [(hf e).2.2.2.2, he]) rfl rfl rfl rfl rfl
  · intro m hm
    have : (m == n) = false := by simpa using hm
    simp [Abs.healthy, List.lookup_cons, this]
  · intro e _
    rw [(hf e).2.2.2.1]
    simp [Abs.healthy, List.lookup_cons]
  · intro m hm
    have hm' : a.inServers m = false := by simpa [Abs.inServers] using hm
    have : m ≠ n := fun x => by rw [x, hin] at hm'; cases hm'
    have : (m == n) = false := by simpa using this
    simp only [List.lookup_cons, this]
    exact h.rep m hm'


theorem sim_inServers_iff {s : State} {a : Abs} (h : Sim s a) (n : Name) :
    a.inServers n = true ↔ n ∈ s.eps.map (·.name) := by
  rw [← h.dom n, load_isSome_iff]

/-- "eligible" in the abstract state is "present and `IsReady()`" in the endpoint map -/
theorem sim_eligible_iff {s : State} {a : Abs} (h : Sim s a) (n : Name) :
    a.eligible n = true ↔ ∃ e, load s.eps n = some e ∧ e.isReady = true := by
  constructor
  · intro he
    simp only [Abs.eligible, Abs.enabled, Bool.and_eq_true, Bool.not_eq_true'] at he
    obtain ⟨⟨h1, h2⟩, h3⟩ := he
    have : (load s.eps n).isSome = true := by rw [h.dom n]; exact h1
    cases hl : load s.eps n with
    | none => rw [hl] at this; cases this
    | some e =>
      obtain ⟨k1, k2, _, _⟩ := h.ep n e hl
      exact ⟨e, rfl, by simp [EP.isReady, k1, k2, h2, h3]⟩
  · rintro ⟨e, hl, hr⟩
    obtain ⟨k1, k2, _, _⟩ := h.ep n e hl
    have hd : a.inServers n = true := by rw [← h.dom n, hl]; rfl
    simp only [EP.isReady, Bool.and_eq_true, Bool.not_eq_true'] at hr
    simp [Abs.eligible, Abs.enabled, hd, ← k1, ← k2, hr.1, hr.2]

theorem sim_names_perm {s : State} {a : Abs} (h : Sim s a) :
    (s.eps.map (·.name)).Perm (dedup (serverNames a.servers)) := by
  rw [List.perm_ext_iff_of_nodup h.nodup (nodup_dedup _)]
  intro n
  rw [mem_dedup, ← sim_inServers_iff h n]
  simp [Abs.inServers]

theorem isPerm_congr_right {l l₁ l₂ : List Name} (h : l₁.Perm l₂) : l.isPerm l₁ = l.isPerm l₂ := by
  rw [Bool.eq_iff_iff, List.isPerm_iff, List.isPerm_iff]
  exact ⟨fun x => x.trans h, fun x => x.trans h.symm⟩

/-- **one step**: the model's output passes the judge and the simulation is kept -/
theorem sim_step {s : State} {a : Abs} (h : Sim s a) (op : Op) :
    judgeStep a op (step s op).2 = true ∧ Sim (step s op).1 (absStep a op (step s op).2) := by
  cases op with
  | sync servers pols => exact ⟨by simp [judgeStep, step], sim_sync h servers pols⟩
  | updateStatus n hv =>
    refine ⟨by simp [judgeStep, step], ?_⟩
    simp only [step, absStep]
    by_cases hin : a.inServers n = true
    · simp only [hin, if_true]
      exact sim_report h n hv _ (fun e => updateStatus_facts e hv) hin
    · have hnone : load s.eps n = none := by
        cases hl : load s.eps n with
        | none => rfl
        | some e => exact absurd (by rw [← h.dom n, hl]; rfl) hin
      have : updateAt s.eps n (fun e => e.updateStatus hv) = s.eps := by
        unfold updateAt
        have hn := load_none_iff.1 hnone
        conv => rhs; rw [← List.map_id s.eps]
        apply List.map_congr_left
        intro e he
        have : e.name ≠ n := fun x => hn (List.mem_map.2 ⟨e, he, x⟩)
        simp [this]
      simp only [hin]
      rw [this]
      exact h
  | trigger n => exact ⟨by simp [judgeStep, step], by simpa [step, absStep] using sim_trigger h n⟩
  | ensure n => exact ⟨by simp [judgeStep, step], by simpa [step, absStep] using sim_ensure h n⟩
  | probeFire n hv =>
    simp only [step]
    cases hl : load s.eps n with
    | none => exact ⟨by simp [judgeStep], by simpa [absStep] using h⟩
    | some e =>
      simp only
      by_cases hc : e.canFire = true
      · simp only [hc, if_true]
        obtain ⟨k1, _, k3, k4⟩ := h.ep n e hl
        have hname := load_some_name hl
        have hin : a.inServers n = true := by rw [← h.dom n, hl]; rfl
        have hprob : e.probing = true := by
          simp only [EP.canFire, Bool.and_eq_true] at hc; exact hc.1
        have hdis : specDisabled a.servers n = false := by
          rw [← k1]; rw [hprob] at k4; simpa using k4.symm
        refine ⟨by simp [judgeStep, hname, Abs.enabled, hin, hdis, k3], ?_⟩
        simp only [absStep]
        exact sim_report h n hv _ (fun e => fire_facts e hv) hin
      · simp only [hc]
        exact ⟨by simp [judgeStep], by simpa [absStep] using h⟩
  | matchAttrs policy order =>
    simp only [step, matchAttrs, judgeStep, ← h.policies]
    cases hp : s.policies[policy]? with
    | none =>
      refine ⟨by simp, ?_⟩
      simp only [absStep]
      exact { h with pickers := by simp [h.pickers] }
    | some subset =>
      simp only
      by_cases he : subset.isEmpty = true
      · simp only [he, Bool.not_true, Bool.false_eq_true, if_false]
        rw [isPerm_congr_right (sim_names_perm h)]
        by_cases hperm : order.isPerm (dedup (serverNames a.servers)) = true
        · simp only [hperm, if_true]
          refine ⟨by simp, ?_⟩
          simp only [absStep]
          exact { h with pickers := by simp [h.pickers] }
        · simp only [hperm]
          refine ⟨by simp, ?_⟩
          simp only [absStep]
          exact { h with pickers := by simp [h.pickers] }
      · simp only [he, Bool.not_false, if_true]
        refine ⟨by simp, ?_⟩
        simp only [absStep]
        exact { h with pickers := by simp [h.pickers] }
  | pop j =>
    simp only [step, judgeStep, ← h.pickers]
    cases hj : s.pickers[j]? with
    | none => exact ⟨by simp, by simpa [absStep] using h⟩
    | some pk =>
      cases pk with
      | none => exact ⟨by simp, by simpa [absStep] using h⟩
      | some us =>
        simp only
        have hsim : Sim { s with lb := (popScoped (pickerTag s j) s.eps s.lb us).2 } a := { h with }
        refine ⟨?_, by simpa [absStep] using hsim⟩
        cases hr : (popScoped (pickerTag s j) s.eps s.lb us).1 with
        | picked n g =>
          obtain ⟨e, hl, hg, hmem, hready⟩ := popScoped_sound hr
          have helig := (sim_eligible_iff h n).2 ⟨e, hl, hready⟩
          obtain ⟨_, _, k3, _⟩ := h.ep n e hl
          simp [hmem, helig, ← hg, k3]
        | noReady =>
          have hno := popScoped_noReady hr
          simp only [List.all_eq_true, Bool.not_eq_true']
          intro n hn
          cases hel : a.eligible n with
          | false => rfl
          | true =>
            obtain ⟨e, hl, hready⟩ := (sim_eligible_iff h n).1 hel
            rw [hno n hn e hl] at hready; cases hready
        | panic => exact absurd hr (popScoped_never_panics _ _ _ _)

theorem judge_run {s : State} {a : Abs} (h : Sim s a) (ops : List Op) :
    judgeTrace a (modelTrace s ops) = true := by
  induction ops generalizing s a with
  | nil => simp [modelTrace, run, judgeTrace]
  | cons op ops ih =>
    obtain ⟨h1, h2⟩ := sim_step h op
    simp only [modelTrace, run, List.zip_cons_cons, judgeTrace, h1, Bool.true_and]
    exact ih h2


/-! ## C14: round-robin counting -/

/-- steps since the cursor last had residue `p` modulo `k` -/
def dist (k p c : Nat) : Nat := (c + k - p) % k

theorem dist_eq {k p : Nat} (hp : p < k) (c : Nat) :
    dist k p c = if p ≤ c % k then c % k - p else c % k + k - p := by
  unfold dist
  have hc := Nat.div_add_mod c k
  have hr : c % k < k := Nat.mod_lt _ (by omega)
  have h1 : c + k - p = k * (c / k) + (c % k + k - p) := by omega
  rw [h1, Nat.mul_add_mod]
  by_cases h : p ≤ c % k
  · simp only [h, if_true]
    have : c % k + k - p = k + (c % k - p) := by omega
    rw [this, Nat.add_mod_left, Nat.mod_eq_of_lt (by omega)]
  · simp only [h, if_false]
    exact Nat.mod_eq_of_lt (by omega)

theorem succ_mod {k : Nat} (hk : 2 ≤ k) (c : Nat) :
    (c + 1) % k = if c % k + 1 = k then 0 else c % k + 1 := by
  have hr : c % k < k := Nat.mod_lt _ (by omega)
  rw [Nat.add_mod, Nat.mod_eq_of_lt (show 1 < k by omega)]
  by_cases h : c % k + 1 = k
  · simp [h]
  · simp only [h, if_false]; exact Nat.mod_eq_of_lt (by omega)

theorem dist_lt {k p : Nat} (hp : p < k) (c : Nat) : dist k p c < k := Nat.mod_lt _ (by omega)

/-- one increment of the cursor: the pick hits residue `p` exactly when the distance wraps from `k-1` to `0` -/
theorem dist_step {k p : Nat} (hk : 2 ≤ k) (hp : p < k) (c : Nat) :
    k * (if (c + 1) % k = p then 1 else 0) + dist k p (c + 1) = 1 + dist k p c := by
  rw [dist_eq hp, dist_eq hp, succ_mod hk]
  have hr : c % k < k := Nat.mod_lt _ (by omega)
  by_cases h : c % k + 1 = k
  · simp only [h, if_true]
    by_cases h0 : 0 = p
    · subst h0; simp; omega
    · have : ¬ p ≤ 0 := by omega
      simp only [h0, this, if_false]
      split <;> omega
  · simp only [h, if_false]
    by_cases h1 : c % k + 1 = p
    · simp only [h1, if_true]
      have : ¬ p ≤ c % k := by omega
      simp [this]; omega
    · simp only [h1, if_false]
      split <;> split <;> omega

theorem lbGet_lbSet (lb : List (Key × Nat)) (k k' : Key) (v : Nat) :
    lbGet (lbSet lb k v) k' = if k' = k then v else lbGet lb k' := by
  induction lb with
  | nil =>
    by_cases h : k' = k
    · subst h; simp [lbSet, lbGet, List.lookup_cons]
    · have : (k' == k) = false := by simpa using h
      simp [lbSet, lbGet, List.lookup_cons, this, h]
  | cons p rest ih =>
    obtain ⟨k0, v0⟩ := p
    unfold lbSet
    by_cases h0 : (k0 == k) = true
    · have h0' : k0 = k := by simpa using h0
      subst h0'
      simp only [h0, if_true]
      by_cases h : k' = k0
      · subst h; simp [lbGet, List.lookup_cons]
      · have : (k' == k0) = false := by simpa using h
        simp [lbGet, List.lookup_cons, this, h]
    · have h0f : (k0 == k) = false := by simpa using h0
      simp only [h0f, Bool.false_eq_true, if_false]
      have h0' : ¬ k0 = k := by simpa using h0
      unfold lbGet at ih ⊢
      simp only [List.lookup_cons]
      by_cases h : k' = k0
      · subst h
        have : ¬ k' = k := h0'
        simp [this]
      · have hb : (k' == k0) = false := by simpa using h
        simp only [hb]
        exact ih

/-- the potential: over the orders in `K`, the steps since each order's cursor last selected `e` -/
def potential (K : List Key) (k : Nat) (e : Name × Nat) (lb : List (Key × Nat)) : Nat :=
  (K.map fun κ => dist k (κ.idxOf e) (lbGet lb κ)).sum

theorem potential_le (K : List Key) (k : Nat) (e : Name × Nat) (lb : List (Key × Nat))
    (hK : ∀ κ, κ ∈ K → κ.length = k ∧ e ∈ κ) : potential K k e lb ≤ K.length * (k - 1) := by
  unfold potential
  induction K with
  | nil => simp
  | cons κ rest ih =>
    have h1 := hK κ (by simp)
    have hp : κ.idxOf e < k := by rw [← h1.1]; exact List.idxOf_lt_length_iff.2 h1.2
    have := dist_lt hp (lbGet lb κ)
    have ih' := ih (fun κ' h' => hK κ' (by simp [h']))
    simp only [List.map_cons, List.sum_cons, List.length_cons]
    rw [Nat.add_mul]
    omega

/-- moving the cursor of one order of a duplicate-free `K` changes one term of the potential -/
theorem potential_set (K : List Key) (hK : K.Nodup) (k : Nat) (e : Name × Nat) (lb : List (Key × Nat)) (κ : Key) (v : Nat)
    (hκ : κ ∈ K) :
    potential K k e (lbSet lb κ v) + dist k (κ.idxOf e) (lbGet lb κ)
      = potential K k e lb + dist k (κ.idxOf e) v := by
  unfold potential
  induction K with
  | nil => cases hκ
  | cons κ0 rest ih =>
    simp only [List.map_cons, List.sum_cons]
    have hnd := List.nodup_cons.1 hK
    by_cases h : κ = κ0
    · subst h
      -- the rest does not contain κ: its terms are unchanged
      have hrest : (rest.map fun κ' => dist k (κ'.idxOf e) (lbGet (lbSet lb κ v) κ'))
          = rest.map fun κ' => dist k (κ'.idxOf e) (lbGet lb κ') := by
        apply List.map_congr_left
        intro κ' h'
        have : κ' ≠ κ := fun x => hnd.1 (x ▸ h')
        rw [lbGet_lbSet]; simp [this]
      rw [hrest, lbGet_lbSet]; simp; omega
    · have hmem : κ ∈ rest := by
        rcases List.mem_cons.1 hκ with h' | h'
        · exact absurd h' h
        · exact h'
      have := ih hnd.2 hmem
      have h0 : ¬ κ0 = κ := fun x => h x.symm
      rw [lbGet_lbSet]; simp only [h0, if_false]
      omega

/-- `Pop` with at least two ready endpoints: advance the cursor of the ordered ready list, index with it -/
theorem pop_multi (eps : List EP) (lb : List (Key × Nat)) (us : List Name) (h : 2 ≤ (readyList eps us).length) :
    pop eps lb us = (indexResult (readyList eps us) (toU64 (lbGet lb ((readyList eps us).map EP.id) + 1)),
                     lbSet lb ((readyList eps us).map EP.id) (toU64 (lbGet lb ((readyList eps us).map EP.id) + 1))) := by
  unfold pop popScoped
  have hu : us.isEmpty = false := by
    cases us with
    | nil => simp [readyList] at h
    | cons _ _ => rfl
  simp only [hu, Bool.false_eq_true, if_false, List.nil_append]
  generalize readyList eps us = ready at h
  match ready, h with
  | e1 :: e2 :: t, _ => rfl

theorem pop_single (eps : List EP) (lb : List (Key × Nat)) (us : List Name) (e : EP) (h : readyList eps us = [e]) :
    pop eps lb us = (.picked e.name e.gen, lb) := by
  unfold pop popScoped
  have hu : us.isEmpty = false := by
    cases us with
    | nil => simp [readyList] at h
    | cons _ _ => rfl
  simp only [hu, Bool.false_eq_true, if_false, h]

theorem pop_none (eps : List EP) (lb : List (Key × Nat)) (us : List Name) (h : readyList eps us = []) :
    pop eps lb us = (.noReady, lb) := by
  unfold pop popScoped
  by_cases hu : us.isEmpty = true
  · simp [hu]
  · simp [hu, h]

/-- with a duplicate-free ordered ready list, the cursor value `c` selects object `e` iff `c mod k` is `e`'s position -/
theorem indexResult_hit (ready : List EP) (e : Name × Nat) (c : Nat)
    (hnd : (ready.map EP.id).Nodup) (he : e ∈ ready.map EP.id) (hk : 0 < ready.length) :
    (indexResult ready c == .picked e.1 e.2) = decide (c % ready.length = (ready.map EP.id).idxOf e) := by
  have hlt : c % ready.length < ready.length := Nat.mod_lt _ hk
  have hidx : (ready.map EP.id).idxOf e < (ready.map EP.id).length := List.idxOf_lt_length_iff.2 he
  unfold indexResult
  rw [List.getElem?_eq_getElem hlt]
  simp only
  rw [Bool.eq_iff_iff]
  simp only [beq_iff_eq, PopOut.picked.injEq, decide_eq_true_eq]
  have hlt' : c % ready.length < (ready.map EP.id).length := by simpa using hlt
  have hget : (ready.map EP.id)[c % ready.length]'hlt' = (ready[c % ready.length].name, ready[c % ready.length].gen) := by
    simp [EP.id]
  constructor
  · rintro ⟨h1, h2⟩
    have : (ready.map EP.id)[c % ready.length]'hlt' = (ready.map EP.id)[(ready.map EP.id).idxOf e]'hidx := by
      rw [hget, List.getElem_idxOf hidx, h1, h2]
    exact (List.getElem_inj hnd).1 this
  · intro h
    have : (ready.map EP.id)[c % ready.length]'hlt' = e := by
      rw [← List.getElem_idxOf hidx]; congr 1
    rw [hget] at this
    rw [← this]; exact ⟨rfl, rfl⟩

theorem countPicked_cons (n : Name) (g : Nat) (r : PopOut) (rs : List PopOut) :
    countPicked n g (r :: rs) = countPicked n g rs + (if (r == .picked n g) = true then 1 else 0) := by
  unfold countPicked; rw [List.countP_cons]

/-- **the round-robin invariant**: over any sequence of picks whose ordered ready lists all belong to `K` (duplicate-free
    orders of the same `k ≥ 2` ready objects, among them `e`), `k · (#picks of e) + potential` grows by exactly one per pick. -/
theorem popMany_potential (eps : List EP) (e : Name × Nat) (k : Nat) (hk : 2 ≤ k) (K : List Key) (hK : K.Nodup)
    (hKe : ∀ κ, κ ∈ K → κ.Nodup ∧ κ.length = k ∧ e ∈ κ)
    (uss : List (List Name)) (lb : List (Key × Nat))
    (hkeys : ∀ us, us ∈ uss → (readyList eps us).map EP.id ∈ K)
    (hwrap : ∀ κ, κ ∈ K → lbGet lb κ + uss.length < 2 ^ 64) :
    k * countPicked e.1 e.2 (popMany eps lb uss).1 + potential K k e (popMany eps lb uss).2
      = uss.length + potential K k e lb := by
  induction uss generalizing lb with
  | nil => simp [popMany, countPicked]
  | cons us rest ih =>
    have hκ := hkeys us (by simp)
    obtain ⟨hnd, hlen, hmem⟩ := hKe _ hκ
    have hlen' : (readyList eps us).length = k := by simpa using hlen
    have hw := hwrap _ hκ
    simp only [List.length_cons] at hw
    have hc : toU64 (lbGet lb ((readyList eps us).map EP.id) + 1) = lbGet lb ((readyList eps us).map EP.id) + 1 := by
      unfold toU64; exact Nat.mod_eq_of_lt (by omega)
    have hpop := pop_multi eps lb us (by omega)
    rw [hc] at hpop
    simp only [popMany, hpop, List.length_cons]
    rw [countPicked_cons, indexResult_hit _ e _ hnd hmem (by omega), hlen']
    have hih := ih (lbSet lb ((readyList eps us).map EP.id) (lbGet lb ((readyList eps us).map EP.id) + 1))
      (fun us' h' => hkeys us' (by simp [h']))
      (by
        intro κ' h'
        have := hwrap κ' h'
        simp only [List.length_cons] at this
        rw [lbGet_lbSet]
        split
        · rename_i heq; subst heq; omega
        · omega)
    have hset := potential_set K hK k e lb _ (lbGet lb ((readyList eps us).map EP.id) + 1) hκ
    have hp : ((readyList eps us).map EP.id).idxOf e < k := by rw [← hlen]; exact List.idxOf_lt_length_iff.2 hmem
    have hstep := dist_step hk hp (lbGet lb ((readyList eps us).map EP.id))
    simp only [decide_eq_true_eq]
    rw [Nat.mul_add]
    split at hstep <;> rename_i hres <;> simp only [hres, if_true, if_false] <;> omega


/-! ## C14: concurrent pickers -/

/-- the result thread `t` has produced or is bound to produce -/
def final (eps : List EP) (uss : List (List Name)) (pcs : List PC) (t : Nat) : PopOut :=
  match pcs[t]? with
  | some (.done r) => r
  | some (.added c) => indexResult (readyList eps (usAt uss t)) c
  | _ => .panic

theorem popMany_append (eps : List EP) (lb : List (Key × Nat)) (xs : List (List Name)) (us : List Name) :
    popMany eps lb (xs ++ [us]) =
      ((popMany eps lb xs).1 ++ [(pop eps (popMany eps lb xs).2 us).1], (pop eps (popMany eps lb xs).2 us).2) := by
  induction xs generalizing lb with
  | nil => simp [popMany]
  | cons x xs ih => simp [popMany, ih]

structure CInv (eps : List EP) (uss : List (List Name)) (lb0 : List (Key × Nat)) (sys : Sys) : Prop where
  len : sys.pcs.length = uss.length
  view : sys.log.map (final eps uss sys.pcs) = (popMany eps lb0 (sys.log.map (usAt uss))).1
  lb : sys.lb = (popMany eps lb0 (sys.log.map (usAt uss))).2
  logged : ∀ t, t ∈ sys.log → t < uss.length ∧ sys.pcs[t]? ≠ some .start
  unlogged : ∀ t, t < uss.length → t ∉ sys.log → sys.pcs[t]? = some .start
  nodup : sys.log.Nodup

theorem cinv_init (eps : List EP) (uss : List (List Name)) (lb0 : List (Key × Nat)) :
    CInv eps uss lb0 (cinit lb0 uss.length) := by
  refine ⟨by simp [cinit], by simp [cinit, popMany], by simp [cinit, popMany], ?_, ?_, by simp [cinit]⟩
  · intro t ht; simp [cinit] at ht
  · intro t ht _; simp [cinit, ht]

theorem final_set_other (eps : List EP) (uss : List (List Name)) (pcs : List PC) (t t' : Nat) (pc : PC) (h : t' ≠ t) :
    final eps uss (pcs.set t pc) t' = final eps uss pcs t' := by
  unfold final
  rw [List.getElem?_set_ne (Ne.symm h)]

theorem cinv_step {eps : List EP} {uss : List (List Name)} {lb0 : List (Key × Nat)} {sys : Sys}
    (h : CInv eps uss lb0 sys) (t : Nat) : CInv eps uss lb0 (cstep eps uss sys t) := by
  unfold cstep
  cases hu : uss[t]? with
  | none => simpa using h
  | some us =>
    have htlt : t < uss.length := by
      rcases List.getElem?_eq_some_iff.1 hu with ⟨h', _⟩; exact h'
    have husAt : usAt uss t = us := by simp [usAt, hu]
    cases hp : sys.pcs[t]? with
    | none => simpa using h
    | some pc =>
      have htp : t < sys.pcs.length := by
        rcases List.getElem?_eq_some_iff.1 hp with ⟨h', _⟩; exact h'
      cases pc with
      | done r => simpa using h
      | added c =>
        simp only
        have hview : ∀ t', final eps uss (sys.pcs.set t (.done (indexResult (readyList eps us) c))) t' = final eps uss sys.pcs t' := by
          intro t'
          by_cases ht' : t' = t
          · subst ht'
            unfold final
            rw [List.getElem?_set_self htp, hp, husAt]
          · exact final_set_other _ _ _ _ _ _ ht'
        refine ⟨by simpa using h.len, ?_, h.lb, ?_, ?_, h.nodup⟩
        · show List.map (final eps uss (sys.pcs.set t (.done (indexResult (readyList eps us) c)))) sys.log = _
          rw [funext hview]; exact h.view
        · intro t' ht'
          refine ⟨(h.logged t' ht').1, ?_⟩
          by_cases hh : t' = t
          · subst hh; rw [List.getElem?_set_self htp]; simp
          · rw [List.getElem?_set_ne (Ne.symm hh)]; exact (h.logged t' ht').2
        · intro t' h1 h2
          have := h.unlogged t' h1 h2
          by_cases hh : t' = t
          · subst hh; rw [hp] at this; cases this
          · rw [List.getElem?_set_ne (Ne.symm hh)]; exact this
      | start =>
        simp only
        have hnot : t ∉ sys.log := fun hm => (h.logged t hm).2 hp
        -- the old log entries are other threads: their `final` is unchanged by setting thread t
        have hold : ∀ pc, sys.log.map (final eps uss (sys.pcs.set t pc)) = sys.log.map (final eps uss sys.pcs) := by
          intro pc
          apply List.map_congr_left
          intro t' ht'
          exact final_set_other _ _ _ _ _ _ (fun x => hnot (x ▸ ht'))
        have hlogged : ∀ pc, pc ≠ PC.start → ∀ t', t' ∈ sys.log ++ [t] → t' < uss.length ∧ (sys.pcs.set t pc)[t']? ≠ some .start := by
          intro pc hpc t' ht'
          rcases List.mem_append.1 ht' with h' | h'
          · refine ⟨(h.logged t' h').1, ?_⟩
            have : t' ≠ t := fun x => hnot (x ▸ h')
            rw [List.getElem?_set_ne (Ne.symm this)]; exact (h.logged t' h').2
          · have : t' = t := by simpa using h'
            subst this
            refine ⟨htlt, ?_⟩
            rw [List.getElem?_set_self htp]
            intro x; injection x with x; exact hpc x
        have hunlogged : ∀ pc, ∀ t', t' < uss.length → t' ∉ sys.log ++ [t] → (sys.pcs.set t pc)[t']? = some .start := by
          intro pc t' h1 h2
          have hne : t' ≠ t := fun x => h2 (by simp [x])
          rw [List.getElem?_set_ne (Ne.symm hne)]
          exact h.unlogged t' h1 (fun x => h2 (by simp [x]))
        have hnd : (sys.log ++ [t]).Nodup := by
          rw [List.nodup_append]
          refine ⟨h.nodup, by simp, ?_⟩
          intro a ha b hb
          have : b = t := by simpa using hb
          subst this
          exact fun x => hnot (x ▸ ha)
        by_cases hm : 2 ≤ (readyList eps us).length
        · simp only [hm, if_true]
          have hpop := pop_multi eps sys.lb us hm
          refine ⟨by simpa using h.len, ?_, ?_, hlogged _ (by simp), hunlogged _, hnd⟩
          · simp only [List.map_append, List.map_cons, List.map_nil, hold, husAt]
            rw [popMany_append, ← h.lb, ← h.view, hpop]
            simp only
            congr 1
            unfold final
            rw [List.getElem?_set_self htp, husAt]
          · simp only [List.map_append, List.map_cons, List.map_nil, husAt]
            rw [popMany_append, ← h.lb, hpop]
        · simp only [hm, if_false]
          have hpop2 : (pop eps sys.lb us).2 = sys.lb := by
            have hl : (readyList eps us).length = 0 ∨ (readyList eps us).length = 1 := by omega
            rcases hl with hl | hl
            · rw [pop_none eps sys.lb us (List.length_eq_zero_iff.1 hl)]
            · obtain ⟨e, he⟩ := List.length_eq_one_iff.1 hl
              rw [pop_single eps sys.lb us e he]
          refine ⟨by simpa using h.len, ?_, ?_, hlogged _ (by simp), hunlogged _, hnd⟩
          · simp only [List.map_append, List.map_cons, List.map_nil, hold, husAt]
            rw [popMany_append, ← h.lb, ← h.view]
            simp only
            congr 1
            unfold final
            rw [List.getElem?_set_self htp]
          · simp only [List.map_append, List.map_cons, List.map_nil, husAt]
            rw [popMany_append, ← h.lb, hpop2]

theorem cinv_run {eps : List EP} {uss : List (List Name)} {lb0 : List (Key × Nat)} {sys : Sys}
    (h : CInv eps uss lb0 sys) (sched : List Nat) : CInv eps uss lb0 (crun eps uss sys sched) := by
  induction sched generalizing sys with
  | nil => simpa [crun] using h
  | cons t rest ih => simpa [crun] using ih (cinv_step h t)


/-! ## the load-balancer map under a concurrent Sync (finding C03-lb-reset-race) -/

/-- invariant of the race model when nothing overwrites the mutex -/
def RaceOK (s : RaceSys) : Prop := s.fatal = false ∧ s.muLocked = s.holder.isSome

theorem raceStep_ok (inPlace : Bool) (s : RaceSys) (a : RaceAct) (h : RaceOK s) (ha : inPlace = true ∨ a ≠ .syncReset) :
    RaceOK (raceStep inPlace s a) := by
  obtain ⟨h1, h2⟩ := h
  cases a with
  | popLock t =>
    simp only [raceStep]
    split
    · exact ⟨h1, h2⟩
    · exact ⟨h1, by simp⟩
  | popUnlock t =>
    simp only [raceStep]
    split
    · exact ⟨h1, h2⟩
    · rename_i hc
      simp only [Bool.or_eq_true, not_or, bne_iff_ne, ne_eq, Decidable.not_not] at hc
      have : s.muLocked = true := by rw [h2, hc.2]; rfl
      simp [this, RaceOK, h1]
  | syncReset =>
    rcases ha with ha | ha
    · subst ha; simpa [raceStep] using ⟨h1, h2⟩
    · exact absurd rfl ha

theorem raceRun_ok (inPlace : Bool) (acts : List RaceAct) (ha : inPlace = true ∨ RaceAct.syncReset ∉ acts) :
    RaceOK (raceRun inPlace acts) := by
  unfold raceRun
  suffices ∀ s, RaceOK s → RaceOK (acts.foldl (raceStep inPlace) s) from this _ ⟨rfl, rfl⟩
  induction acts with
  | nil => intro s h; simpa using h
  | cons a rest ih =>
    intro s h
    simp only [List.foldl_cons]
    have ha' : inPlace = true ∨ RaceAct.syncReset ∉ rest := by
      rcases ha with ha | ha
      · exact Or.inl ha
      · exact Or.inr (fun x => ha (by simp [x]))
    apply ih ha'
    apply raceStep_ok inPlace s a h
    rcases ha with ha | ha
    · exact Or.inl ha
    · exact Or.inr (fun x => ha (by simp [x]))


/-! ## C14: Syncs that do not change the server list -/

/-- a spec whose server list names the same endpoints with the same disabled marks (order, duplicates and everything
    else in the object may differ) -/
def sameServers (old new : List Server) : Prop :=
  ∀ n, (n ∈ serverNames old ↔ n ∈ serverNames new) ∧ specDisabled old n = specDisabled new n

theorem load_of_mem_nodup {eps : List EP} (hnd : (eps.map (·.name)).Nodup) {e : EP} (he : e ∈ eps) :
    load eps e.name = some e := by
  induction eps with
  | nil => cases he
  | cons x rest ih =>
    rw [load_cons]
    simp only [List.map_cons, List.nodup_cons] at hnd
    rcases List.mem_cons.1 he with h | h
    · subst h; simp
    · have hne : x.name ≠ e.name := fun hx => hnd.1 (hx ▸ List.mem_map.2 ⟨e, h, rfl⟩)
      simp [hne, ih hnd.2 h]

theorem ensureHC_fix (e : EP) (h : e.probing = !e.disabled) : e.ensureHC = e := by
  rcases e with ⟨name, gen, dis, healthy, uc, probing, chan, blocked, probes⟩
  simp only at h
  subst h
  cases dis <;> simp [EP.ensureHC]

theorem updateAt_id (eps : List EP) (n : Name) (f : EP → EP) (h : ∀ e, e ∈ eps → e.name = n → f e = e) :
    updateAt eps n f = eps := by
  unfold updateAt
  conv => rhs; rw [← List.map_id eps]
  apply List.map_congr_left
  intro e he
  by_cases hn : e.name = n
  · simp [hn, h e he hn]
  · simp [hn]

/-- a Sync whose server list is unchanged is a no-op on the endpoint objects and on the cursors -/
theorem resync_noop {s : State} {a : Abs} (h : Sim s a) (servers : List Server) (hs : sameServers a.servers servers) :
    (syncEndpoints s servers).eps = s.eps ∧ (syncEndpoints s servers).lb = s.lb := by
  have hmem : ∀ n, n ∈ s.eps.map (·.name) ↔ n ∈ serverNames servers := by
    intro n
    rw [← sim_inServers_iff h n, ← (hs n).1]
    simp [Abs.inServers]
  have hdel : (s.eps.map (·.name)).filter (fun n => !(dedup (serverNames servers)).contains n) = [] := by
    rw [List.filter_eq_nil_iff]
    intro n hn
    simp [mem_dedup, (hmem n).1 hn]
  have hadd : (dedup (serverNames servers)).filter (fun n => !(s.eps.map (·.name)).contains n) = [] := by
    rw [List.filter_eq_nil_iff]
    intro n hn
    have : n ∈ s.eps.map (·.name) := (hmem n).2 ((mem_dedup _ _).1 hn)
    simpa using this
  unfold syncEndpoints
  simp only [hdel, hadd, List.isEmpty_nil, Bool.and_self, if_true, and_true]
  have hf : (s.eps.filter fun e => !([] : List Name).contains e.name) = s.eps := by
    rw [List.filter_eq_self]; intro e _; simp
  rw [hf]
  -- every call of the loop finds its object and leaves it as it is
  have hloop : ∀ (wanted : List Name), (∀ n, n ∈ wanted → n ∈ serverNames servers) →
      wanted.foldl (fun eps n => addOrUpdateEndpoint s.epoch eps n ((disabledSet servers).contains n)) s.eps = s.eps := by
    intro wanted
    induction wanted with
    | nil => intro _; rfl
    | cons n rest ih =>
      intro hw
      simp only [List.foldl_cons]
      have hn : n ∈ s.eps.map (·.name) := (hmem n).2 (hw n (by simp))
      have hstep : addOrUpdateEndpoint s.epoch s.eps n ((disabledSet servers).contains n) = s.eps := by
        unfold addOrUpdateEndpoint
        cases hl : load s.eps n with
        | none => exact absurd hn (load_none_iff.1 hl)
        | some e0 =>
          simp only
          apply updateAt_id
          intro e he hname
          have hle : load s.eps n = some e := by rw [← hname]; exact load_of_mem_nodup h.nodup he
          obtain ⟨k1, _, _, k4⟩ := h.ep n e hle
          have hd : (disabledSet servers).contains n = e.disabled := by
            rw [k1, (hs n).2, List.contains_eq_mem, disabledSet_decide]
          rw [hd]
          have : e.setDisabled e.disabled = e := by cases e; rfl
          rw [this]
          exact ensureHC_fix e k4
      rw [hstep]
      exact ih (fun m hm => hw m (by simp [hm]))
  exact hloop _ (fun n hn => (mem_dedup _ _).1 hn)

theorem sameServers_trans {a b c : List Server} (h1 : sameServers a b) (h2 : sameServers a c) : sameServers b c :=
  fun n => ⟨((h1 n).1.symm).trans (h2 n).1, ((h1 n).2.symm).trans (h2 n).2⟩

/-- a window whose Syncs leave the server list as it is: the picks answer exactly as if the Syncs were not there -/
theorem runEvents_resyncs {s : State} {a : Abs} (h : Sim s a) (events : List Event)
    (hev : ∀ sv pl, Event.sync sv pl ∈ events → sameServers a.servers sv) :
    (runEvents s events).2 = (popMany s.eps s.lb (picksOf events)).1 ∧
    (runEvents s events).1.eps = s.eps ∧ (runEvents s events).1.lb = (popMany s.eps s.lb (picksOf events)).2 := by
  induction events generalizing s a with
  | nil => simp [runEvents, picksOf, popMany]
  | cons ev rest ih =>
    cases ev with
    | pick us =>
      have hs' : Sim { s with lb := (pop s.eps s.lb us).2 } a := { h with }
      obtain ⟨i1, i2, i3⟩ := ih hs' (fun sv pl hm => hev sv pl (by simp [hm]))
      simp only [runEvents, picksOf, popMany]
      exact ⟨by rw [i1], i2, i3⟩
    | sync sv pl =>
      have hsame := hev sv pl (by simp)
      have hs' : Sim (sync s sv pl) (absStep a (.sync sv pl) .none) := sim_sync h sv pl
      obtain ⟨e1, e2⟩ := resync_noop h sv hsame
      have heps : (sync s sv pl).eps = s.eps := by simpa [sync] using e1
      have hlb : (sync s sv pl).lb = s.lb := by simpa [sync] using e2
      obtain ⟨i1, i2, i3⟩ := ih hs' (fun sv' pl' hm => by
        have := hev sv' pl' (by simp [hm])
        show sameServers sv sv'
        exact sameServers_trans hsame this)
      simp only [runEvents, picksOf]
      rw [heps] at i1 i2 i3
      rw [hlb] at i1 i3
      exact ⟨i1, i2, i3⟩


/-! ## C14: requests with an authentication pick; probes that change nothing -/

/-- with its own cursors, `PickOne` is invisible to the policies: the forwarded picks are the plain `popMany` -/
theorem runReqs_own (eps : List EP) (lb lbA : List (Key × Nat)) (reqs : List Req) :
    runReqs true eps lb lbA reqs = (popMany eps lb (reqs.map (·.us))).1 := by
  induction reqs generalizing lb lbA with
  | nil => simp [runReqs, popMany]
  | cons r rest ih =>
    cases h : r.authOrder with
    | none => simp [runReqs, h, popMany, ih]
    | some order => simp [runReqs, h, popMany, ih]

/-- requests that involve no `PickOne` are forwarded as plain `popMany`, whatever `PickOne` would do -/
theorem runReqs_noAuth (own : Bool) (eps : List EP) (lb lbA : List (Key × Nat)) (reqs : List Req)
    (h : ∀ r, r ∈ reqs → r.authOrder = none) :
    runReqs own eps lb lbA reqs = (popMany eps lb (reqs.map (·.us))).1 := by
  induction reqs generalizing lb lbA with
  | nil => simp [runReqs, popMany]
  | cons r rest ih =>
    have hr := h r (by simp)
    simp only [runReqs, hr, List.map_cons, popMany]
    rw [ih _ _ (fun r' hr' => h r' (by simp [hr']))]

/-- ops that are not a pick and not a Sync never touch a cursor -/
theorem step_lb_of_status_op (s : State) (op : Op)
    (h : match op with | .updateStatus _ _ | .trigger _ | .ensure _ | .probeFire _ _ => True | _ => False) :
    (step s op).1.lb = s.lb := by
  cases op with
  | updateStatus n hv => rfl
  | trigger n => rfl
  | ensure n => rfl
  | probeFire n hv =>
    simp only [step]
    cases load s.eps n with
    | none => rfl
    | some e => by_cases hc : e.canFire = true <;> simp [hc]
  | sync _ _ => cases h
  | matchAttrs _ _ => cases h
  | pop _ => cases h

theorem readyKey_updateAt (eps : List EP) (n : Name) (f : EP → EP)
    (hf : ∀ e, (f e).name = e.name ∧ (f e).gen = e.gen)
    (hr : ∀ e, load eps n = some e → (f e).isReady = e.isReady) (us : List Name) :
    (readyList (updateAt eps n f) us).map EP.id = (readyList eps us).map EP.id := by
  unfold readyList
  induction us with
  | nil => rfl
  | cons m rest ih =>
    simp only [List.filterMap_cons]
    rw [load_updateAt _ _ _ _ (fun e => (hf e).1)]
    by_cases hm : m = n
    · subst hm
      simp only [if_true]
      cases hl : load eps m with
      | none => simpa using ih
      | some e =>
        simp only [Option.map_some, hr e hl]
        by_cases hre : e.isReady = true
        · simp only [hre, if_true, List.map_cons, ih]
          simp [EP.id, (hf e).1, (hf e).2]
        · simp only [hre]; exact ih
    · simp only [hm, if_false]
      cases hl : load eps m with
      | none => simpa using ih
      | some e =>
        simp only
        by_cases hre : e.isReady = true
        · simp only [hre, if_true, List.map_cons, ih]
        · simp only [hre]; exact ih

/-- a probe whose report repeats the endpoint's current health changes no ordered ready list, hence no cursor key -/
theorem probe_same_health_keeps_keys (s : State) (n : Name) (hv : Bool)
    (hsame : ∀ e, load s.eps n = some e → e.healthy = hv) (us : List Name) :
    (readyList (step s (.probeFire n hv)).1.eps us).map EP.id = (readyList s.eps us).map EP.id := by
  simp only [step]
  cases hl : load s.eps n with
  | none => rfl
  | some e =>
    simp only
    by_cases hc : e.canFire = true
    · simp only [hc, if_true]
      apply readyKey_updateAt _ _ _ (fun e' => ⟨(fire_facts e' hv).1, (fire_facts e' hv).2.1⟩)
      intro e' hl'
      rw [hl] at hl'; injection hl' with hl'; subst hl'
      simp [EP.isReady, (fire_facts e hv).2.2.1, (fire_facts e hv).2.2.2.1, hsame e hl]
    · simp [hc]


/-! ## C14: several policies, each with its own cursors -/

/-- with its own cursors a policy's picks are the plain `popMany` of its own upstream lists, whatever the other policies do -/
theorem runPolicies_own (eps : List EP) (p : Nat) (lbs : Nat → List (Key × Nat)) (evs : List (Nat × List Name)) :
    ((runPolicies true eps lbs evs).filter (fun x => x.1 == p)).map (·.2)
      = (popMany eps (lbs p) ((evs.filter (fun x => x.1 == p)).map (·.2))).1 := by
  induction evs generalizing lbs with
  | nil => simp [runPolicies, popMany]
  | cons ev rest ih =>
    obtain ⟨q, us⟩ := ev
    simp only [runPolicies, if_true]
    by_cases hq : q = p
    · subst hq
      simp only [List.filter_cons, beq_self_eq_true, if_true, List.map_cons, popMany]
      rw [ih]
      simp
    · have hb : (q == p) = false := by simpa using hq
      simp only [List.filter_cons, hb, Bool.false_eq_true, if_false]
      rw [ih]
      have : (if p = q then (pop eps (lbs q) us).2 else lbs p) = lbs p := by
        have : ¬ p = q := fun h => hq h.symm
        simp [this]
      rw [this]

end KG.Lemmas.Endpoints
