import KG.Spec.Endpoints
/-! Helper lemmas for C03 / C14: the endpoint map as a finite function, `syncEndpoints` extensionally,
    the simulation between the model and the abstract state of `KG.Spec.Endpoints`. -/
namespace KG.Lemmas.Endpoints
open KG KG.Model.Endpoints KG.Spec.Endpoints

/-! ## `get` / `updateAt` -/

theorem load_nil (n : Name) : load [] n = none := rfl

theorem load_cons (e : EP) (eps : List EP) (n : Name) :
    load (e :: eps) n = if e.name = n then some e else load eps n := by
  unfold load
  by_cases h : e.name = n <;> simp [List.find?_cons, h]

theorem load_some_name {eps : List EP} {n : Name} {e : EP} (h : load eps n = some e) : e.name = n := by
  unfold load at h
  have := List.find?_some h
  simpa using this

theorem load_some_mem {eps : List EP} {n : Name} {e : EP} (h : load eps n = some e) : e ∈ eps := by
  unfold load at h
  exact List.mem_of_find?_eq_some h

theorem load_none_iff {eps : List EP} {n : Name} : load eps n = none ↔ n ∉ eps.map (·.name) := by
  induction eps with
  | nil => simp [load_nil]
  | cons e eps ih =>
    rw [load_cons]
    by_cases h : e.name = n
    · simp [h]
    · simp only [h, if_false, ih, List.map_cons, List.mem_cons, not_or]
      constructor
      · intro h2; exact ⟨fun h3 => h h3.symm, h2⟩
      · intro h2; exact h2.2

theorem load_isSome_iff {eps : List EP} {n : Name} : (load eps n).isSome = true ↔ n ∈ eps.map (·.name) := by
  cases hg : load eps n with
  | none => simp [load_none_iff.1 hg]
  | some e =>
    simp only [Option.isSome_some, true_iff]
    have := load_some_mem hg
    have hn := load_some_name hg
    exact List.mem_map.2 ⟨e, this, hn⟩

theorem load_updateAt (eps : List EP) (n m : Name) (f : EP → EP) (hf : ∀ e, (f e).name = e.name) :
    load (updateAt eps n f) m = if m = n then (load eps n).map f else load eps m := by
  induction eps with
  | nil => simp [updateAt, load_nil]
  | cons e eps ih =>
    have ih' : load (List.map (fun e => if (e.name == n) = true then f e else e) eps) m
        = if m = n then (load eps n).map f else load eps m := ih
    simp only [updateAt, List.map_cons]
    rw [load_cons, ih', load_cons, load_cons]
    by_cases h1 : e.name = n
    · by_cases h2 : m = n
      · subst h2; simp [h1, hf]
      · have : ¬ n = m := fun h => h2 h.symm
        simp [h1, h2, hf, this]
    · by_cases h2 : m = n
      · subst h2; simp [h1]
      · simp [h1, h2]

theorem names_updateAt (eps : List EP) (n : Name) (f : EP → EP) (hf : ∀ e, (f e).name = e.name) :
    (updateAt eps n f).map (·.name) = eps.map (·.name) := by
  unfold updateAt
  rw [List.map_map]
  apply List.map_congr_left
  intro e _
  simp only [Function.comp]
  split <;> simp [hf]

theorem load_append_single (eps : List EP) (x : EP) (m : Name) :
    load (eps ++ [x]) m = match load eps m with | some e => some e | none => if x.name = m then some x else none := by
  induction eps with
  | nil => simp [load_cons, load_nil]
  | cons e eps ih =>
    simp only [List.cons_append]
    rw [load_cons, load_cons, ih]
    by_cases h : e.name = m <;> simp [h]


/-! ## what the per-object methods change -/

theorem ensureHC_facts (e : EP) :
    e.ensureHC.name = e.name ∧ e.ensureHC.gen = e.gen ∧ e.ensureHC.disabled = e.disabled ∧
    e.ensureHC.healthy = e.healthy ∧ e.ensureHC.probing = !e.disabled := by
  rcases e with ⟨name, gen, dis, healthy, uc, probing, chan, blocked, probes⟩
  cases dis <;> cases probing <;> cases chan <;> simp [EP.ensureHC]

theorem ensureHC_name (e : EP) : e.ensureHC.name = e.name := (ensureHC_facts e).1

theorem trigger_facts (e : EP) :
    e.trigger.name = e.name ∧ e.trigger.gen = e.gen ∧ e.trigger.disabled = e.disabled ∧
    e.trigger.healthy = e.healthy ∧ e.trigger.probing = e.probing := by
  rcases e with ⟨name, gen, dis, healthy, uc, probing, chan, blocked, probes⟩
  cases chan <;> simp [EP.trigger]

theorem updateStatus_facts (e : EP) (h : Bool) :
    (e.updateStatus h).name = e.name ∧ (e.updateStatus h).gen = e.gen ∧ (e.updateStatus h).disabled = e.disabled ∧
    (e.updateStatus h).healthy = h ∧ (e.updateStatus h).probing = e.probing := by
  simp [EP.updateStatus]

theorem fire_facts (e : EP) (h : Bool) :
    (e.fire h).name = e.name ∧ (e.fire h).gen = e.gen ∧ (e.fire h).disabled = e.disabled ∧
    (e.fire h).healthy = h ∧ (e.fire h).probing = e.probing := by
  simp [EP.fire, EP.updateStatus]

theorem setDisabled_facts (e : EP) (d : Bool) :
    (e.setDisabled d).name = e.name ∧ (e.setDisabled d).gen = e.gen ∧ (e.setDisabled d).disabled = d ∧
    (e.setDisabled d).healthy = e.healthy := by
  simp [EP.setDisabled]

/-! ## `addOrUpdateEndpoint` and the loop over the wanted set -/

/-- the object stored under `n` after `addOrUpdateEndpoint … n d` -/
def upserted (gen : Nat) (old : Option EP) (n : Name) (d : Bool) : EP :=
  match old with
  | some e => (e.setDisabled d).ensureHC
  | none => (newEP n gen d).ensureHC

theorem load_addOrUpdate (gen : Nat) (eps : List EP) (n m : Name) (d : Bool) :
    load (addOrUpdateEndpoint gen eps n d) m = if m = n then some (upserted gen (load eps n) n d) else load eps m := by
  unfold addOrUpdateEndpoint
  cases hg : load eps n with
  | some e =>
    simp only
    rw [load_updateAt _ _ _ _ (fun e => by simp [ensureHC_name, EP.setDisabled])]
    simp [hg, upserted]
  | none =>
    simp only
    rw [load_append_single]
    by_cases h : m = n
    · subst h; simp [hg, upserted, ensureHC_name, newEP]
    · have h' : ¬ n = m := fun x => h x.symm
      cases hm : load eps m <;> simp [h, h', ensureHC_name, newEP]

theorem names_addOrUpdate_nodup (gen : Nat) (eps : List EP) (n : Name) (d : Bool)
    (h : (eps.map (·.name)).Nodup) : ((addOrUpdateEndpoint gen eps n d).map (·.name)).Nodup := by
  unfold addOrUpdateEndpoint
  cases hg : load eps n with
  | some e =>
    simp only
    rw [names_updateAt _ _ _ (fun e => by simp [ensureHC_name, EP.setDisabled])]
    exact h
  | none =>
    simp only [List.map_append, List.map_cons, List.map_nil, ensureHC_name, newEP]
    have hn := load_none_iff.1 hg
    rw [List.nodup_append]
    refine ⟨h, by simp, ?_⟩
    intro a ha b hb
    simp at hb
    subst hb
    intro hab
    exact hn (hab ▸ ha)

theorem mem_dedup (l : List Name) (a : Name) : a ∈ dedup l ↔ a ∈ l := by
  induction l with
  | nil => simp [dedup]
  | cons x xs ih =>
    simp only [dedup, List.mem_cons, List.mem_filter, ih]
    by_cases h : a = x
    · simp [h]
    · simp [h]

theorem nodup_dedup (l : List Name) : (dedup l).Nodup := by
  induction l with
  | nil => simp [dedup]
  | cons x xs ih =>
    simp only [dedup, List.nodup_cons]
    constructor
    · simp [List.mem_filter]
    · exact List.Pairwise.filter _ ih

/-- the loop `wantedEPs.Range(addOrUpdateEndpoint)` as a finite function -/
theorem load_foldl_addOrUpdate (gen : Nat) (D : Name → Bool) (wanted : List Name) (hw : wanted.Nodup) (eps : List EP) (m : Name) :
    load (wanted.foldl (fun eps n => addOrUpdateEndpoint gen eps n (D n)) eps) m
      = if m ∈ wanted then some (upserted gen (load eps m) m (D m)) else load eps m := by
  induction wanted generalizing eps with
  | nil => simp
  | cons n rest ih =>
    simp only [List.foldl_cons]
    have hn : n ∉ rest := (List.nodup_cons.1 hw).1
    rw [ih (List.nodup_cons.1 hw).2, load_addOrUpdate]
    by_cases h1 : m ∈ rest
    · have : ¬ m = n := fun h => hn (h ▸ h1)
      simp [h1, this]
    · by_cases h2 : m = n
      · subst h2; simp [h1]
      · simp [h1, h2]

theorem nodup_foldl_addOrUpdate (gen : Nat) (D : Name → Bool) (wanted : List Name) (eps : List EP)
    (h : (eps.map (·.name)).Nodup) :
    ((wanted.foldl (fun eps n => addOrUpdateEndpoint gen eps n (D n)) eps).map (·.name)).Nodup := by
  induction wanted generalizing eps with
  | nil => simpa
  | cons n rest ih =>
    simp only [List.foldl_cons]
    exact ih _ (names_addOrUpdate_nodup gen eps n (D n) h)


/-! ## `syncEndpoints` as a finite function -/

theorem load_filter_name (eps : List EP) (q : Name → Bool) (m : Name) :
    load (eps.filter fun e => q e.name) m = if q m then load eps m else none := by
  induction eps with
  | nil => simp [load_nil]
  | cons e eps ih =>
    by_cases hq : q e.name = true
    · rw [List.filter_cons_of_pos (by simpa using hq), load_cons, load_cons, ih]
      by_cases h : e.name = m
      · subst h; simp [hq]
      · simp [h]
    · rw [List.filter_cons_of_neg (by simpa using hq), ih, load_cons]
      by_cases h : e.name = m
      · subst h; simp [hq]
      · simp [h]

theorem nodup_filter_names (eps : List EP) (p : EP → Bool) (h : (eps.map (·.name)).Nodup) :
    ((eps.filter p).map (·.name)).Nodup :=
  List.Nodup.sublist ((List.filter_sublist).map _) h

theorem disabledSet_contains (servers : List Server) (n : Name) :
    (disabledSet servers).contains n = specDisabled servers n := by
  unfold disabledSet specDisabled
  induction servers with
  | nil => simp
  | cons s rest ih =>
    rw [Bool.eq_iff_iff] at ih ⊢
    by_cases hd : s.disabled = true
    · rw [List.filter_cons_of_pos hd]
      simp only [List.map_cons, List.contains_cons, List.any_cons, Bool.or_eq_true, ih, hd, Bool.and_true]
      constructor
      · rintro (h | h)
        · left; simpa [eq_comm] using h
        · right; exact h
      · rintro (h | h)
        · left; simpa [eq_comm] using h
        · right; exact h
    · rw [List.filter_cons_of_neg hd]
      have hd' : s.disabled = false := by simpa using hd
      simp only [List.any_cons, Bool.or_eq_true, ih, hd', Bool.and_false]
      simp

/-- the endpoints kept by the deletion loop are those still wanted -/
theorem sync_kept (eps : List EP) (wanted : List Name) :
    (eps.filter fun e => !((eps.map (·.name)).filter fun n => !wanted.contains n).contains e.name)
      = eps.filter fun e => wanted.contains e.name := by
  apply List.filter_congr
  intro e he
  have hmem : e.name ∈ eps.map (·.name) := List.mem_map.2 ⟨e, he, rfl⟩
  rw [Bool.eq_iff_iff]
  simp only [Bool.not_eq_true', List.contains_eq_mem, List.mem_filter, decide_eq_false_iff_not, decide_eq_true_eq]
  constructor
  · intro h
    by_cases hw : e.name ∈ wanted
    · exact hw
    · exact absurd ⟨hmem, by simpa using hw⟩ h
  · intro hw h
    have := h.2
    simp [hw] at this

theorem load_syncEndpoints (s : State) (servers : List Server) (m : Name) :
    load (syncEndpoints s servers).eps m
      = if m ∈ serverNames servers then some (upserted s.epoch (load s.eps m) m (specDisabled servers m)) else none := by
  unfold syncEndpoints
  simp only
  rw [sync_kept, load_foldl_addOrUpdate s.epoch (fun n => (disabledSet servers).contains n) _ (nodup_dedup _),
    load_filter_name s.eps (fun n => (dedup (serverNames servers)).contains n)]
  simp only [mem_dedup, List.contains_eq_mem, decide_eq_true_eq, disabledSet_contains]
  by_cases h : m ∈ serverNames servers <;> simp [h]

theorem nodup_syncEndpoints (s : State) (servers : List Server) (h : (s.eps.map (·.name)).Nodup) :
    ((syncEndpoints s servers).eps.map (·.name)).Nodup := by
  unfold syncEndpoints
  simp only
  exact nodup_foldl_addOrUpdate _ _ _ _ (nodup_filter_names _ _ h)

end KG.Lemmas.Endpoints
