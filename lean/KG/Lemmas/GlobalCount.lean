import KG.Spec.GlobalCount
/-!
Helper lemmas for C08 (global count): association-list facts, the arithmetic of one `SetState`, the bucket
potential lemma. Property theorems are in `KG.Props.C08`.
-/
namespace KG.Lemmas.GlobalCount
open KG KG.Model.GlobalCount KG.Spec.GlobalCount

theorem wrap32_id {x : Int} (h : InI32 x) : wrap32 x = x := by
  unfold InI32 at h; unfold wrap32; omega

theorem wrap32_in (x : Int) : InI32 (wrap32 x) := by
  unfold InI32 wrap32; omega

/-! ### association lists -/

theorem find_put_self (k : Str) (v : Inst) (l : States) : find k (put k v l) = some v := by
  induction l with
  | nil => simp [put, find]
  | cons p r ih =>
    obtain ⟨k', v'⟩ := p
    by_cases h : k' = k
    · simp [put, find, h]
    · simp [put, find, h, ih]

theorem find_put_other {k k' : Str} (v : Inst) (l : States) (h : k' ≠ k) : find k' (put k v l) = find k' l := by
  induction l with
  | nil => simp [put, find, Ne.symm h]
  | cons p r ih =>
    obtain ⟨k2, v2⟩ := p
    by_cases h2 : k2 = k
    · subst h2
      simp [put, find, Ne.symm h]
    · simp only [put, h2, if_false, find]
      by_cases h3 : k2 = k'
      · simp [h3]
      · simp [h3, ih]

theorem find_erase_other {k k' : Str} (l : States) (h : k' ≠ k) : find k' (erase k l) = find k' l := by
  induction l with
  | nil => simp [erase, find]
  | cons p r ih =>
    obtain ⟨k2, v2⟩ := p
    by_cases h2 : k2 = k
    · subst h2
      simp [erase, find, Ne.symm h]
    · simp only [erase, h2, if_false, find]
      by_cases h3 : k2 = k'
      · simp [h3]
      · simp [h3, ih]

theorem find_none_of_not_mem_keys {k : Str} {l : States} (h : k ∉ keys l) : find k l = none := by
  induction l with
  | nil => simp [find]
  | cons p r ih =>
    obtain ⟨k2, v2⟩ := p
    simp only [keys, List.map_cons, List.mem_cons, not_or] at h
    have h1 : k2 ≠ k := fun e => h.1 e.symm
    simp only [find, h1, if_false]
    exact ih h.2

theorem mem_keys_of_find {k : Str} {s : Inst} {l : States} (h : find k l = some s) : k ∈ keys l := by
  induction l with
  | nil => simp [find] at h
  | cons p r ih =>
    obtain ⟨k2, v2⟩ := p
    by_cases h2 : k2 = k
    · simp [keys, h2]
    · simp only [find, h2, if_false] at h
      simp only [keys, List.map_cons, List.mem_cons]
      exact Or.inr (ih h)

theorem mem_of_find {k : Str} {s : Inst} {l : States} (h : find k l = some s) : (k, s) ∈ l := by
  induction l with
  | nil => simp [find] at h
  | cons p r ih =>
    obtain ⟨k2, v2⟩ := p
    by_cases h2 : k2 = k
    · simp only [find, h2, if_true, Option.some.injEq] at h
      simp [h2, h]
    · simp only [find, h2, if_false] at h
      exact List.mem_cons_of_mem _ (ih h)

theorem keys_erase_subset (k : Str) (l : States) : ∀ x, x ∈ keys (erase k l) → x ∈ keys l := by
  induction l with
  | nil => simp [erase, keys]
  | cons p r ih =>
    obtain ⟨k2, v2⟩ := p
    intro x hx
    by_cases h2 : k2 = k
    · simp only [erase, h2, if_true] at hx
      simp only [keys, List.map_cons, List.mem_cons]
      exact Or.inr hx
    · simp only [erase, h2, if_false, keys, List.map_cons, List.mem_cons] at hx
      simp only [keys, List.map_cons, List.mem_cons]
      cases hx with
      | inl h => exact Or.inl h
      | inr h => exact Or.inr (ih x h)

theorem nodup_erase {k : Str} {l : States} (h : (keys l).Nodup) : (keys (erase k l)).Nodup := by
  induction l with
  | nil => simp [erase, keys]
  | cons p r ih =>
    obtain ⟨k2, v2⟩ := p
    simp only [keys, List.map_cons, List.nodup_cons] at h
    by_cases h2 : k2 = k
    · simp only [erase, h2, if_true]
      exact h.2
    · simp only [erase, h2, if_false, keys, List.map_cons, List.nodup_cons]
      exact ⟨fun hm => h.1 (keys_erase_subset k r k2 hm), ih h.2⟩

theorem find_erase_self {k : Str} {l : States} (h : (keys l).Nodup) : find k (erase k l) = none := by
  induction l with
  | nil => simp [erase, find]
  | cons p r ih =>
    obtain ⟨k2, v2⟩ := p
    simp only [keys, List.map_cons, List.nodup_cons] at h
    by_cases h2 : k2 = k
    · simp only [erase, h2, if_true]
      subst h2
      exact find_none_of_not_mem_keys h.1
    · simp only [erase, h2, if_false, find]
      exact ih h.2

theorem keys_put (k : Str) (v : Inst) (l : States) :
    keys (put k v l) = if k ∈ keys l then keys l else keys l ++ [k] := by
  induction l with
  | nil => simp [put, keys]
  | cons p r ih =>
    obtain ⟨k2, v2⟩ := p
    by_cases h2 : k2 = k
    · simp [put, keys, h2]
    · have h3 : ¬ k = k2 := fun e => h2 e.symm
      simp only [put, h2, if_false, keys, List.map_cons, List.mem_cons, h3, false_or]
      simp only [keys] at ih
      rw [ih]
      split <;> simp [*]

theorem nodup_put {k : Str} {v : Inst} {l : States} (h : (keys l).Nodup) : (keys (put k v l)).Nodup := by
  rw [keys_put]
  split
  · exact h
  · rename_i hk
    rw [List.nodup_append]
    refine ⟨h, by simp, ?_⟩
    intro a ha b hb
    simp only [List.mem_singleton] at hb
    subst hb
    intro e; subst e; exact hk ha

theorem sum_put_some {k : Str} {v s : Inst} {l : States} (h : find k l = some s) :
    sumStates (put k v l) = sumStates l - s.count + v.count := by
  induction l with
  | nil => simp [find] at h
  | cons p r ih =>
    obtain ⟨k2, v2⟩ := p
    by_cases h2 : k2 = k
    · simp only [find, h2, if_true, Option.some.injEq] at h
      subst h
      simp only [put, h2, if_true, sumStates]
      omega
    · simp only [find, h2, if_false] at h
      simp only [put, h2, if_false, sumStates, ih h]
      omega

theorem sum_put_none {k : Str} {v : Inst} {l : States} (h : find k l = none) :
    sumStates (put k v l) = sumStates l + v.count := by
  induction l with
  | nil => simp [put, sumStates]
  | cons p r ih =>
    obtain ⟨k2, v2⟩ := p
    by_cases h2 : k2 = k
    · simp [find, h2] at h
    · simp only [find, h2, if_false] at h
      simp only [put, h2, if_false, sumStates, ih h]
      omega

theorem sum_erase_some {k : Str} {s : Inst} {l : States} (h : find k l = some s) :
    sumStates (erase k l) = sumStates l - s.count := by
  induction l with
  | nil => simp [find] at h
  | cons p r ih =>
    obtain ⟨k2, v2⟩ := p
    by_cases h2 : k2 = k
    · simp only [find, h2, if_true, Option.some.injEq] at h
      subst h
      simp only [erase, h2, if_true, sumStates]
      omega
    · simp only [find, h2, if_false] at h
      simp only [erase, h2, if_false, sumStates, ih h]
      omega

theorem allOk_put {k : Str} {v : Inst} {l : States} (h : AllOk l) (hv : 0 ≤ v.count ∧ v.count ≤ 2147483647) :
    AllOk (put k v l) := by
  induction l with
  | nil =>
    intro p hp
    simp only [put, List.mem_singleton] at hp
    subst hp; exact hv
  | cons p r ih =>
    obtain ⟨k2, v2⟩ := p
    have hr : AllOk r := fun q hq => h q (List.mem_cons_of_mem _ hq)
    by_cases h2 : k2 = k
    · simp only [put, h2, if_true]
      intro q hq
      cases hq with
      | head => exact hv
      | tail _ hq => exact hr q hq
    · simp only [put, h2, if_false]
      intro q hq
      cases hq with
      | head => exact h _ (List.mem_cons_self ..)
      | tail _ hq => exact ih hr q hq

theorem allOk_erase {k : Str} {l : States} (h : AllOk l) : AllOk (erase k l) := by
  induction l with
  | nil => simpa [erase] using h
  | cons p r ih =>
    obtain ⟨k2, v2⟩ := p
    have hr : AllOk r := fun q hq => h q (List.mem_cons_of_mem _ hq)
    by_cases h2 : k2 = k
    · simpa [erase, h2] using hr
    · simp only [erase, h2, if_false]
      intro q hq
      cases hq with
      | head => exact h _ (List.mem_cons_self ..)
      | tail _ hq => exact ih hr q hq

theorem allOk_find {k : Str} {s : Inst} {l : States} (h : AllOk l) (hf : find k l = some s) :
    0 ≤ s.count ∧ s.count ≤ 2147483647 := h _ (mem_of_find hf)

theorem sum_nonneg {l : States} (h : AllOk l) : 0 ≤ sumStates l := by
  induction l with
  | nil => simp [sumStates]
  | cons p r ih =>
    obtain ⟨k2, v2⟩ := p
    have hr : AllOk r := fun q hq => h q (List.mem_cons_of_mem _ hq)
    have h0 : 0 ≤ v2.count ∧ v2.count ≤ 2147483647 := h (k2, v2) (List.mem_cons_self ..)
    simp only [sumStates]
    have := ih hr
    omega

theorem find_le_sum {k : Str} {s : Inst} {l : States} (h : AllOk l) (hf : find k l = some s) :
    s.count ≤ sumStates l := by
  induction l with
  | nil => simp [find] at hf
  | cons p r ih =>
    obtain ⟨k2, v2⟩ := p
    have hr : AllOk r := fun q hq => h q (List.mem_cons_of_mem _ hq)
    have h0 : 0 ≤ v2.count ∧ v2.count ≤ 2147483647 := h (k2, v2) (List.mem_cons_self ..)
    have hs := sum_nonneg hr
    by_cases h2 : k2 = k
    · simp only [find, h2, if_true, Option.some.injEq] at hf
      subst hf
      simp only [sumStates]; omega
    · simp only [find, h2, if_false] at hf
      have := ih hr hf
      simp only [sumStates]; omega

/-! ### one `SetState` -/

/-- `report` with its `let`s flattened -/
theorem report_eq (g : G) (inst : Str) (state : Inst) (rid cur : Int) :
    report g inst state rid cur =
      if rid > 0 ∧ rid ≤ state.requestId then (g, ⟨false, cur, .requestIDTooOld⟩)
      else
        let delta := wrap32 (cur - state.count)
        let cnt := wrap32 (g.count + delta)
        let ov := wrap32 (cnt - g.max)
        if ov > 0 ∧ delta > 0 then
          ({ g with count := wrap32 (cnt + wrap32 (-delta)),
                    states := put inst ⟨wrap32 (cur + wrap32 (-delta)), newId state rid⟩ g.states },
           ⟨false, state.count, .none⟩)
        else if ov > 0 ∨ (ov = 0 ∧ cur > 0) then
          ({ g with count := cnt, states := put inst ⟨cur, newId state rid⟩ g.states }, ⟨false, cur, .none⟩)
        else
          ({ g with count := cnt, states := put inst ⟨cur, newId state rid⟩ g.states }, ⟨true, cur, .none⟩) := by
  unfold report add newId
  by_cases h : rid > 0 <;> simp only [h] <;> rfl

theorem report_stale (g : G) (inst : Str) (state : Inst) (rid cur : Int)
    (hs : rid > 0 ∧ rid ≤ state.requestId) :
    report g inst state rid cur = (g, ⟨false, cur, .requestIDTooOld⟩) := by
  rw [report_eq, if_pos hs]

/-- the overflow `report` computes (as the code does, in wrapping `int32` arithmetic) -/
def ovf (g : G) (old cur : Int) : Int := wrap32 (wrap32 (g.count + (cur - old)) - g.max)

/-- A report that is not stale is either rolled back (only when it raises the count and the wrapped overflow is
    positive) or applied. -/
theorem report_cases (g : G) (inst : Str) (state : Inst) (rid cur : Int)
    (hc : InI32 g.count) (ho : 0 ≤ state.count ∧ state.count ≤ 2147483647)
    (hcur : 0 ≤ cur ∧ cur ≤ 2147483647) (hns : ¬ (rid > 0 ∧ rid ≤ state.requestId)) :
    (ovf g state.count cur > 0 ∧ cur > state.count ∧
      report g inst state rid cur =
        ({ g with states := put inst ⟨state.count, newId state rid⟩ g.states }, ⟨false, state.count, .none⟩))
    ∨ (¬ (ovf g state.count cur > 0 ∧ cur > state.count) ∧
      report g inst state rid cur =
        ({ g with count := wrap32 (g.count + (cur - state.count)), states := put inst ⟨cur, newId state rid⟩ g.states },
         ⟨decide (¬ (ovf g state.count cur > 0 ∨ (ovf g state.count cur = 0 ∧ cur > 0))), cur, .none⟩)) := by
  have hd : wrap32 (cur - state.count) = cur - state.count := wrap32_id (by unfold InI32; omega)
  rw [report_eq]
  simp only [hns, if_false, hd]
  by_cases hdec : ovf g state.count cur > 0 ∧ cur > state.count
  · left
    refine ⟨hdec.1, hdec.2, ?_⟩
    have h1 : wrap32 (wrap32 (g.count + (cur - state.count)) - g.max) > 0 ∧ cur - state.count > 0 :=
      ⟨hdec.1, by omega⟩
    rw [if_pos h1]
    have e1 : wrap32 (wrap32 (g.count + (cur - state.count)) + wrap32 (-(cur - state.count))) = g.count := by
      unfold InI32 at hc; unfold wrap32; omega
    have e2 : wrap32 (cur + wrap32 (-(cur - state.count))) = state.count := by
      unfold wrap32; omega
    rw [e1, e2]
  · right
    refine ⟨hdec, ?_⟩
    have h1 : ¬ (wrap32 (wrap32 (g.count + (cur - state.count)) - g.max) > 0 ∧ cur - state.count > 0) := by
      intro h; exact hdec ⟨h.1, by omega⟩
    rw [if_neg h1]
    unfold ovf
    by_cases h2 : wrap32 (wrap32 (g.count + (cur - state.count)) - g.max) > 0 ∨
        (wrap32 (wrap32 (g.count + (cur - state.count)) - g.max) = 0 ∧ cur > 0)
    · rw [if_pos h2]; simp [h2]
    · rw [if_neg h2]; simp [h2]

/-- When no `int32` overflow can interfere (`hpre`), the wrapped overflow has the sign of the true one. -/
theorem ovf_exact {g : G} {old cur S : Int} (hS : g.count = S) (hS0 : 0 ≤ S) (hSm : S ≤ 2147483647)
    (ho : 0 ≤ old ∧ old ≤ S) (hcur : 0 ≤ cur ∧ cur ≤ 2147483647) (hm : 0 ≤ g.max ∧ g.max ≤ 2147483647)
    (hpre : S ≤ g.max ∨ S - old + cur ≤ 2147483647) :
    (ovf g old cur > 0 ∧ cur > old ↔ S - old + cur > g.max ∧ cur > old) ∧
    (¬ (S - old + cur > g.max ∧ cur > old) →
      wrap32 (g.count + (cur - old)) = S - old + cur ∧ ovf g old cur = S - old + cur - g.max ∧
      S - old + cur ≤ 2147483647) := by
  subst hS
  unfold ovf wrap32
  omega

theorem setState_report (g : G) (inst : Str) (rid cur : Int) (h : 0 ≤ cur) :
    setState g inst rid cur = report (ensure g inst) inst (stateOf g inst) rid cur := by
  have hn : ¬ cur < 0 := by omega
  unfold setState ensure stateOf
  cases hf : find inst g.states <;> simp only [hn, if_false]

theorem setState_remove_none (g : G) (inst : Str) (rid cur : Int) (h : cur < 0) (hf : find inst g.states = none) :
    setState g inst rid cur = (g, ⟨false, -1, .none⟩) := by
  unfold setState; simp only [hf, h, if_true]

theorem setState_remove_some (g : G) (inst : Str) (rid cur : Int) (s : Inst) (h : cur < 0)
    (hf : find inst g.states = some s) :
    setState g inst rid cur =
      ({ g with states := erase inst g.states, count := wrap32 (g.count + wrap32 (-s.count)) }, ⟨false, -1, .none⟩) := by
  unfold setState add; simp only [hf, h, if_true]

theorem ensure_find (g : G) (inst : Str) : find inst (ensure g inst).states = some (stateOf g inst) := by
  unfold ensure stateOf
  cases hf : find inst g.states
  · simp only [find_put_self]
  · simp only [hf]

theorem ensure_find_other (g : G) (inst j : Str) (h : j ≠ inst) : find j (ensure g inst).states = find j g.states := by
  unfold ensure
  cases hf : find inst g.states
  · simp only [find_put_other _ _ h]
  · rfl

theorem ensure_max (g : G) (inst : Str) : (ensure g inst).max = g.max := by
  unfold ensure; cases find inst g.states <;> rfl

theorem ensure_count (g : G) (inst : Str) : (ensure g inst).count = g.count := by
  unfold ensure; cases find inst g.states <;> rfl

theorem ensure_sum (g : G) (inst : Str) : sumStates (ensure g inst).states = sumStates g.states := by
  unfold ensure
  cases hf : find inst g.states
  · simp only [sum_put_none hf]; omega
  · rfl

theorem ensure_wf {g : G} (inst : Str) (h : WF g) : WF (ensure g inst) := by
  unfold ensure
  cases hf : find inst g.states
  · exact ⟨h.max, h.count, allOk_put h.states (by simp), nodup_put h.nodup⟩
  · exact h

theorem stateOf_count (g : G) (inst : Str) : (stateOf g inst).count = oldCount g inst := by
  unfold stateOf oldCount; cases find inst g.states <;> rfl

theorem stateOf_ok {g : G} (inst : Str) (h : WF g) :
    0 ≤ (stateOf g inst).count ∧ (stateOf g inst).count ≤ 2147483647 := by
  unfold stateOf
  cases hf : find inst g.states
  · simp
  · exact allOk_find h.states hf

theorem stateOf_le_sum {g : G} (inst : Str) (h : WF g) : (stateOf g inst).count ≤ sumStates g.states := by
  unfold stateOf
  cases hf : find inst g.states
  · exact sum_nonneg h.states
  · exact find_le_sum h.states hf

/-- ModInv is preserved by `report` on a registered instance -/
theorem report_modInv {g : G} {inst : Str} {state : Inst} {rid cur : Int}
    (h : ModInv g) (hf : find inst g.states = some state) (hcur : 0 ≤ cur ∧ cur ≤ 2147483647) :
    ModInv (report g inst state rid cur).1 := by
  obtain ⟨wf, hcnt⟩ := h
  have ho := allOk_find wf.states hf
  by_cases hs : rid > 0 ∧ rid ≤ state.requestId
  · rw [report_stale _ _ _ _ _ hs]; exact ⟨wf, hcnt⟩
  · rcases report_cases g inst state rid cur wf.count ho hcur hs with ⟨_, _, e⟩ | ⟨_, e⟩
    · rw [e]
      refine ⟨⟨wf.max, wf.count, allOk_put wf.states ho, nodup_put wf.nodup⟩, ?_⟩
      show g.count = wrap32 (sumStates (put inst _ g.states))
      rw [sum_put_some hf, hcnt]
      show _ = wrap32 (sumStates g.states - state.count + state.count)
      congr 1; omega
    · rw [e]
      refine ⟨⟨wf.max, wrap32_in _, allOk_put wf.states hcur, nodup_put wf.nodup⟩, ?_⟩
      show wrap32 (g.count + (cur - state.count)) = wrap32 (sumStates (put inst _ g.states))
      rw [sum_put_some hf, hcnt]
      show _ = wrap32 (sumStates g.states - state.count + cur)
      unfold wrap32; omega

theorem ensure_modInv {g : G} (inst : Str) (h : ModInv g) : ModInv (ensure g inst) :=
  ⟨ensure_wf inst h.1, by rw [ensure_count, ensure_sum]; exact h.2⟩

theorem setState_modInv {g : G} (inst : Str) (rid cur : Int) (h : ModInv g) (hcur : InI32 cur) :
    ModInv (setState g inst rid cur).1 := by
  by_cases hneg : cur < 0
  · cases hf : find inst g.states with
    | none => rw [setState_remove_none g inst rid cur hneg hf]; exact h
    | some s =>
      rw [setState_remove_some g inst rid cur s hneg hf]
      obtain ⟨wf, hcnt⟩ := h
      refine ⟨⟨wf.max, wrap32_in _, allOk_erase wf.states, nodup_erase wf.nodup⟩, ?_⟩
      show wrap32 (g.count + wrap32 (-s.count)) = wrap32 (sumStates (erase inst g.states))
      rw [sum_erase_some hf, hcnt]
      unfold wrap32; omega
  · have h0 : 0 ≤ cur := by omega
    rw [setState_report g inst rid cur h0]
    exact report_modInv (ensure_modInv inst h) (ensure_find g inst) ⟨h0, hcur.2⟩

theorem report_exact {g : G} {inst : Str} {state : Inst} {rid cur : Int}
    (h : Inv g) (hf : find inst g.states = some state) (hcur : 0 ≤ cur ∧ cur ≤ 2147483647) (hm : 0 ≤ g.max)
    (hpre : sumStates g.states ≤ g.max ∨ sumStates g.states - state.count + cur ≤ 2147483647)
    (hns : ¬ (rid > 0 ∧ rid ≤ state.requestId)) :
    (sumStates g.states - state.count + cur > g.max ∧ cur > state.count ∧
      report g inst state rid cur =
        ({ g with states := put inst ⟨state.count, newId state rid⟩ g.states }, ⟨false, state.count, .none⟩))
    ∨ (¬ (sumStates g.states - state.count + cur > g.max ∧ cur > state.count) ∧
      sumStates g.states - state.count + cur ≤ 2147483647 ∧
      report g inst state rid cur =
        ({ g with count := sumStates g.states - state.count + cur, states := put inst ⟨cur, newId state rid⟩ g.states },
         ⟨decide (sumStates g.states - state.count + cur < g.max ∨
                  (sumStates g.states - state.count + cur = g.max ∧ cur = 0)), cur, .none⟩)) := by
  obtain ⟨wf, hcnt⟩ := h
  have ho := allOk_find wf.states hf
  have hle := find_le_sum wf.states hf
  have hS0 := sum_nonneg wf.states
  have hSm : sumStates g.states ≤ 2147483647 := by have := wf.count; unfold InI32 at this; omega
  have hmm : g.max ≤ 2147483647 := by have := wf.max; unfold InI32 at this; omega
  obtain ⟨hiff, hex⟩ := ovf_exact (g := g) (old := state.count) (cur := cur) hcnt hS0 hSm ⟨ho.1, hle⟩ hcur ⟨hm, hmm⟩ hpre
  rcases report_cases g inst state rid cur wf.count ho hcur hns with ⟨h1, h2, e⟩ | ⟨h1, e⟩
  · left
    have := hiff.1 ⟨h1, h2⟩
    exact ⟨this.1, this.2, e⟩
  · right
    have hn : ¬ (sumStates g.states - state.count + cur > g.max ∧ cur > state.count) := fun hh => h1 (hiff.2 hh)
    obtain ⟨e1, e2, e3⟩ := hex hn
    refine ⟨hn, e3, ?_⟩
    rw [e, e1, e2]
    congr 2
    apply decide_eq_decide.2
    omega

/-- what `report` leaves registered for the instance: request id (no arithmetic involved) -/
theorem report_find_id (g : G) (inst : Str) (state : Inst) (rid cur : Int) (hf : find inst g.states = some state) :
    ∃ s', find inst (report g inst state rid cur).1.states = some s' ∧
      s'.requestId = (if rid > 0 ∧ rid ≤ state.requestId then state.requestId else newId state rid) := by
  rw [report_eq]
  by_cases hs : rid > 0 ∧ rid ≤ state.requestId
  · simp only [hs, and_self, if_true]; exact ⟨state, hf, rfl⟩
  · simp only [hs, if_false]
    split
    · exact ⟨_, find_put_self _ _ _, rfl⟩
    · split <;> exact ⟨_, find_put_self _ _ _, rfl⟩

/-- `report` does not touch other instances -/
theorem report_find_other (g : G) (inst j : Str) (state : Inst) (rid cur : Int) (h : j ≠ inst) :
    find j (report g inst state rid cur).1.states = find j g.states := by
  rw [report_eq]
  split
  · rfl
  · simp only []
    split
    · exact find_put_other _ _ h
    · split <;> exact find_put_other _ _ h

theorem report_max (g : G) (inst : Str) (state : Inst) (rid cur : Int) :
    (report g inst state rid cur).1.max = g.max := by
  rw [report_eq]
  split
  · rfl
  · simp only []
    split
    · rfl
    · split <;> rfl

theorem setState_max (g : G) (inst : Str) (rid cur : Int) : (setState g inst rid cur).1.max = g.max := by
  by_cases hneg : cur < 0
  · cases hf : find inst g.states with
    | none => rw [setState_remove_none g inst rid cur hneg hf]
    | some s => rw [setState_remove_some g inst rid cur s hneg hf]
  · rw [setState_report g inst rid cur (by omega), report_max, ensure_max]

theorem setState_find_other (g : G) (inst j : Str) (rid cur : Int) (h : j ≠ inst) :
    find j (setState g inst rid cur).1.states = find j g.states := by
  by_cases hneg : cur < 0
  · cases hf : find inst g.states with
    | none => rw [setState_remove_none g inst rid cur hneg hf]
    | some s => rw [setState_remove_some g inst rid cur s hneg hf]; exact find_erase_other _ h
  · rw [setState_report g inst rid cur (by omega), report_find_other _ _ _ _ _ _ h, ensure_find_other _ _ _ h]

/-! ### the server token bucket -/

theorem tfn_add (q a b : Int) : tokensFromNs q (a + b) = tokensFromNs q a + tokensFromNs q b := by
  unfold tokensFromNs nsPerSec
  grind

theorem tfn_nonneg (q d : Int) (hq : 0 ≤ q) (hd : 0 ≤ d) : 0 ≤ tokensFromNs q d := by
  unfold tokensFromNs nsPerSec
  have h1 : (0 : Rat) ≤ (d : Rat) := by exact_mod_cast hd
  have h2 : (0 : Rat) ≤ (q : Rat) := by exact_mod_cast hq
  have := Rat.mul_nonneg h1 h2
  grind

theorem tfn_split (q t0 now t : Int) : tokensFromNs q (t - t0) = tokensFromNs q (t - now) + tokensFromNs q (now - t0) := by
  rw [← tfn_add]; congr 1; omega

theorem avail_le_burst (b : Bucket) (t : Int) : avail b t ≤ (b.burst : Rat) := by
  unfold avail advance ratMin
  cases b.last with
  | none => simp
  | some l => simp only; split <;> grind

theorem avail_nonneg (b : Bucket) (t : Int) (hq : 0 ≤ b.qps) (hb : 0 ≤ b.burst) (htok : 0 ≤ b.tokens) (hm : Mono b t) :
    0 ≤ avail b t := by
  unfold avail advance ratMin
  have hbr : (0 : Rat) ≤ (b.burst : Rat) := by exact_mod_cast hb
  cases hl : b.last with
  | none => simpa using hbr
  | some l =>
    have hle := hm l hl
    have hn : ¬ t < l := by omega
    simp only [hn, if_false]
    have := tfn_nonneg b.qps (t - l) hq (by omega)
    split <;> grind

/-- refilling is at most linear: waiting from `t0` to `t` adds at most `qps·(t − t0)` -/
theorem avail_step (b : Bucket) (t0 t : Int) (hq : 0 ≤ b.qps) (hm : Mono b t0) (ht : t0 ≤ t) :
    avail b t ≤ avail b t0 + tokensFromNs b.qps (t - t0) := by
  unfold avail advance ratMin
  have hF := tfn_nonneg b.qps (t - t0) hq (by omega)
  cases hl : b.last with
  | none => simp only; grind
  | some l =>
    have hle := hm l hl
    have hn1 : ¬ t < l := by omega
    have hn2 : ¬ t0 < l := by omega
    simp only [hn1, hn2, if_false]
    have := tfn_split b.qps l t0 t
    split <;> split <;> grind

/-- **The bucket lemma** (potential function): a call at `now` (clock readings in order, `n ≥ 0`) hands out `g`
    tokens and leaves a bucket that, at any later time `t`, holds at most what the old bucket would have held
    at `now`, plus the refill since, minus `g`. -/
theorem allowN_potential (b : Bucket) (now n t : Int) (hq : 0 ≤ b.qps) (hm : Mono b now) (ht : now ≤ t) :
    ((granted (allowN b now n).2 n : Int) : Rat) + avail (allowN b now n).1 t ≤ avail b now + tokensFromNs b.qps (t - now) ∧
    Mono (allowN b now n).1 now ∧ (allowN b now n).1.qps = b.qps ∧ (allowN b now n).1.burst = b.burst ∧
    (0 ≤ b.tokens → 0 ≤ (allowN b now n).1.tokens) ∧
    ((allowN b now n).2 = true → (n : Rat) ≤ avail b now) := by
  have hF := tfn_nonneg b.qps (t - now) hq (by omega)
  have hstep := avail_step b now t hq hm ht
  unfold allowN
  simp only []
  cases hok : (decide (n ≤ b.burst) && decide (0 ≤ (advance b now).2 - (n : Rat))) with
  | true =>
    simp only [if_true]
    have h2 : (0 : Rat) ≤ (advance b now).2 - (n : Rat) := by
      rw [Bool.and_eq_true] at hok; exact of_decide_eq_true hok.2
    refine ⟨?_, ?_, trivial, trivial, fun _ => h2, fun _ => ?_⟩
    · have hnn : ¬ t < now := by omega
      simp only [granted, if_true, avail, advance, hnn, if_false, ratMin]
      split <;> grind
    · intro l hl; simp only [Option.some.injEq] at hl; omega
    · unfold avail; grind
  | false =>
    simp only [Bool.false_eq_true, if_false]
    refine ⟨?_, ?_, trivial, trivial, fun h => h, fun h => by cases h⟩
    · have hsame : avail { b with last := (advance b now).1 } t = avail b t := by
        unfold avail advance
        cases hl : b.last with
        | none => rfl
        | some l =>
          have hle := hm l hl
          have hn1 : ¬ now < l := by omega
          simp only [hn1, if_false]
      rw [hsame]
      simp only [granted, Bool.false_eq_true, if_false]
      have : ((0 : Int) : Rat) = 0 := by norm_cast
      rw [this]; grind
    · intro l hl
      simp only [advance] at hl
      cases hl' : b.last with
      | none => rw [hl'] at hl; simp at hl
      | some l0 =>
        rw [hl'] at hl
        have hle := hm l0 hl'
        have hn1 : ¬ now < l0 := by omega
        simp only [hn1, if_false, Option.some.injEq] at hl
        omega

theorem chain_le_last (t0 : Int) (l : List Int) (h : Chain t0 l) : t0 ≤ lastFrom t0 l := by
  induction l generalizing t0 with
  | nil => exact Int.le_refl _
  | cons x r ih => have := ih x h.2; have := h.1; unfold lastFrom; omega

theorem mono_later {b : Bucket} {t0 t : Int} (h : Mono b t0) (ht : t0 ≤ t) : Mono b t :=
  fun l hl => by have := h l hl; omega

theorem tbDivisor_eq : KG.Gen.C08.tbDivisor = 2 := rfl

/-- potential lemma for the retry loop of `DoAcquire` -/
theorem tbLoop_potential (nows : List Int) (b : Bucket) (token t0 t : Int) (hq : 0 ≤ b.qps) (h0 : 0 ≤ token)
    (hm : Mono b t0) (hc : Chain t0 nows) (ht : lastFrom t0 nows ≤ t) :
    (((tbLoop b token nows).2.2 : Int) : Rat) + avail (tbLoop b token nows).1 t ≤ avail b t0 + tokensFromNs b.qps (t - t0) ∧
    Mono (tbLoop b token nows).1 t ∧ (tbLoop b token nows).1.qps = b.qps ∧ (tbLoop b token nows).1.burst = b.burst ∧
    (0 ≤ b.tokens → 0 ≤ (tbLoop b token nows).1.tokens) ∧
    0 ≤ (tbLoop b token nows).2.2 ∧ (tbLoop b token nows).2.2 ≤ token ∧
    ((tbLoop b token nows).2.1 = false → (tbLoop b token nows).2.2 = 0) := by
  induction nows generalizing b token t0 with
  | nil =>
    simp only [tbLoop, lastFrom] at ht ⊢
    have := avail_step b t0 t hq hm ht
    have h0' : ((0 : Int) : Rat) = 0 := by norm_cast
    refine ⟨by rw [h0']; grind, mono_later hm ht, trivial, trivial, fun h => h, Int.le_refl _, h0, fun _ => trivial⟩
  | cons now rest ih =>
    have hle : t0 ≤ now := hc.1
    have hlast : now ≤ lastFrom now rest := chain_le_last now rest hc.2
    have hnt : now ≤ t := by simp only [lastFrom] at ht; omega
    have hmn : Mono b now := mono_later hm hle
    obtain ⟨p1, p2, p3, p4, p5, _⟩ := allowN_potential b now token t hq hmn hnt
    have hs := avail_step b t0 now hq hm hle
    have hsp := tfn_split b.qps t0 now t
    unfold tbLoop
    simp only []
    cases hok : (allowN b now token).2 with
    | true =>
      simp only [if_true]
      rw [hok] at p1
      simp only [granted, if_true] at p1
      refine ⟨by grind, mono_later p2 hnt, p3, p4, p5, h0, Int.le_refl _, fun h => by cases h⟩
    | false =>
      simp only [Bool.false_eq_true, if_false]
      rw [hok] at p1
      simp only [granted, Bool.false_eq_true, if_false] at p1
      have h0' : ((0 : Int) : Rat) = 0 := by norm_cast
      rw [h0'] at p1
      by_cases hz : token / KG.Gen.C08.tbDivisor ≤ 0
      · simp only [hz, if_true]
        refine ⟨by rw [h0']; grind, mono_later p2 hnt, p3, p4, p5, Int.le_refl _, h0, fun _ => trivial⟩
      · simp only [hz, if_false]
        have hq' : 0 ≤ (allowN b now token).1.qps := by rw [p3]; exact hq
        have ht' : lastFrom now rest ≤ t := by simpa only [lastFrom] using ht
        have hpos : 0 ≤ token / KG.Gen.C08.tbDivisor := by omega
        obtain ⟨q1, q2, q3, q4, q5, q6, q7, q8⟩ :=
          ih (allowN b now token).1 (token / KG.Gen.C08.tbDivisor) now hq' hpos p2 hc.2 ht'
        -- potential of the failed call evaluated at `now`
        obtain ⟨r1, _⟩ := allowN_potential b now token now hq hmn (Int.le_refl _)
        rw [hok] at r1
        simp only [granted, Bool.false_eq_true, if_false] at r1
        rw [h0'] at r1
        have hz0 : tokensFromNs b.qps (now - now) = 0 := by
          have : now - now = 0 := by omega
          rw [this]; unfold tokensFromNs; grind
        rw [hz0] at r1
        rw [p3] at q1
        have hdiv : token / KG.Gen.C08.tbDivisor ≤ token := by rw [tbDivisor_eq]; omega
        refine ⟨by grind, q2, by rw [q3, p3], by rw [q4, p4], fun h => q5 (p5 h), q6, by omega, q8⟩

/-! ### lemmas about runs, interleavings and the judge -/

theorem stale_iff (g : G) (i : Str) (r : Int) :
    stale g i r = true ↔ ∃ s, find i g.states = some s ∧ 0 < r ∧ r ≤ s.requestId := by
  unfold stale
  cases hf : find i g.states with
  | none => simp
  | some s => simp

/-- what a processed (`err = nil`) report leaves registered: the count it answers as `latest` -/
theorem setState_latest (g : G) (i : Str) (r c : Int) (h : WF g) (hc : InI32 c) (h0 : 0 ≤ c)
    (he : (setState g i r c).2.err = .none) :
    (find i (setState g i r c).1.states).map (·.count) = some (setState g i r c).2.latest := by
  rw [setState_report g i r c h0] at he ⊢
  by_cases hs : r > 0 ∧ r ≤ (stateOf g i).requestId
  · rw [report_stale _ _ _ _ _ hs] at he; cases he
  · rcases report_cases (ensure g i) i (stateOf g i) r c (ensure_wf i h).count (stateOf_ok i h) ⟨h0, hc.2⟩ hs with
      ⟨_, _, e⟩ | ⟨_, e⟩
    · rw [e]; show (find i (put i _ _)).map _ = _; rw [find_put_self]; rfl
    · rw [e]; show (find i (put i _ _)).map _ = _; rw [find_put_self]; rfl

theorem init_modInv (m : Int) (hm : InI32 m) : ModInv (G.init m) :=
  ⟨⟨hm, by unfold G.init InI32; simp, fun _ hp => by simp [G.init] at hp, by simp [G.init, keys]⟩, by
    simp [G.init, sumStates, wrap32]⟩

theorem init_inv (m : Int) (hm : InI32 m) : Inv (G.init m) :=
  ⟨(init_modInv m hm).1, by simp [G.init, sumStates]⟩

theorem interleave_mem {ts : List (List Op)} {l : List Op} (h : Interleave ts l) :
    ∀ op ∈ l, ∃ t ∈ ts, op ∈ t := by
  induction h with
  | done => intro op hop; cases hop
  | step ts i op rest l hi _ ih =>
    intro o ho
    have hmem : (op :: rest) ∈ ts := List.mem_of_getElem? hi
    cases ho with
    | head => exact ⟨_, hmem, List.mem_cons_self ..⟩
    | tail _ ho =>
      obtain ⟨t, ht, hot⟩ := ih o ho
      rcases List.mem_or_eq_of_mem_set ht with h1 | h1
      · exact ⟨t, h1, hot⟩
      · subst h1; exact ⟨_, hmem, List.mem_cons_of_mem _ hot⟩

theorem runAcq_potential (reqs : List (List Int × Int)) (b : Bucket) (t0 : Int) (hq : 0 ≤ b.qps)
    (hm : Mono b t0) (hok : TimesOk t0 reqs) :
    (((runAcq b reqs).2 : Int) : Rat) + avail (runAcq b reqs).1 (endTime t0 reqs) ≤
      avail b t0 + tokensFromNs b.qps (endTime t0 reqs - t0) ∧
    Mono (runAcq b reqs).1 (endTime t0 reqs) ∧ (runAcq b reqs).1.qps = b.qps ∧ (runAcq b reqs).1.burst = b.burst ∧
    (0 ≤ b.tokens → 0 ≤ (runAcq b reqs).1.tokens) ∧ t0 ≤ endTime t0 reqs := by
  induction reqs generalizing b t0 with
  | nil =>
    simp only [runAcq, endTime]
    have h0' : ((0 : Int) : Rat) = 0 := by norm_cast
    have hz0 : tokensFromNs b.qps (t0 - t0) = 0 := by
      have : t0 - t0 = 0 := by omega
      rw [this]; unfold tokensFromNs; grind
    refine ⟨by rw [h0', hz0]; grind, hm, trivial, trivial, fun h => h, Int.le_refl _⟩
  | cons rq rest ih =>
    obtain ⟨nows, ask⟩ := rq
    obtain ⟨ha, hc, hrest⟩ := hok
    obtain ⟨p1, p2, p3, p4, p5, _⟩ :=
      tbLoop_potential nows b ask t0 (lastFrom t0 nows) hq ha hm hc (Int.le_refl _)
    have hq' : 0 ≤ (tbLoop b ask nows).1.qps := by rw [p3]; exact hq
    obtain ⟨q1, q2, q3, q4, q5, q6⟩ := ih (tbLoop b ask nows).1 (lastFrom t0 nows) hq' p2 hrest
    have hl := chain_le_last t0 nows hc
    have hsp := tfn_split b.qps t0 (lastFrom t0 nows) (endTime (lastFrom t0 nows) rest)
    simp only [runAcq, endTime]
    rw [p3] at q1
    have hcast : (((tbLoop b ask nows).2.2 + (runAcq (tbLoop b ask nows).1 rest).2 : Int) : Rat) =
        (((tbLoop b ask nows).2.2 : Int) : Rat) + (((runAcq (tbLoop b ask nows).1 rest).2 : Int) : Rat) := by
      push_cast; rfl
    refine ⟨by rw [hcast]; grind, q2, by rw [q3, p3], by rw [q4, p4], fun h => q5 (p5 h), by omega⟩

theorem bucketResize_same (b : Bucket) : bucketResize b b.qps b.burst = (b, false) := by
  unfold bucketResize; simp

theorem tbLoop_params (nows : List Int) (b : Bucket) (t : Int) :
    (tbLoop b t nows).1.qps = b.qps ∧ (tbLoop b t nows).1.burst = b.burst := by
  induction nows generalizing b t with
  | nil => exact ⟨rfl, rfl⟩
  | cons now rest ih =>
    have hp : (allowN b now t).1.qps = b.qps ∧ (allowN b now t).1.burst = b.burst := by
      unfold allowN; simp only []; split <;> exact ⟨rfl, rfl⟩
    unfold tbLoop
    simp only []
    split
    · exact hp
    · split
      · exact hp
      · obtain ⟨a1, a2⟩ := ih (allowN b now t).1 (t / KG.Gen.C08.tbDivisor)
        exact ⟨a1.trans hp.1, a2.trans hp.2⟩

theorem tbRun_potential (steps : List TBStep) (s : TBSys) (hq : 0 ≤ s.b.qps) (hm : Mono s.b s.clock)
    (hres : ∀ st ∈ steps, SameParams s.b.qps s.b.burst st) :
    ((tbRun s steps).granted : Rat) + avail (tbRun s steps).b (tbRun s steps).clock ≤
      (s.granted : Rat) + avail s.b s.clock + tokensFromNs s.b.qps ((tbRun s steps).clock - s.clock) ∧
    Mono (tbRun s steps).b (tbRun s steps).clock ∧ (tbRun s steps).b.qps = s.b.qps ∧
    (tbRun s steps).b.burst = s.b.burst ∧ (0 ≤ s.b.tokens → 0 ≤ (tbRun s steps).b.tokens) ∧
    s.clock ≤ (tbRun s steps).clock := by
  induction steps generalizing s with
  | nil =>
    simp only [tbRun, List.foldl_nil]
    have hz0 : tokensFromNs s.b.qps (s.clock - s.clock) = 0 := by
      have : s.clock - s.clock = 0 := by omega
      rw [this]; unfold tokensFromNs; grind
    refine ⟨by rw [hz0]; grind, hm, trivial, trivial, fun h => h, Int.le_refl _⟩
  | cons st rest ih =>
    cases st with
    | tick d =>
      have hle : s.clock ≤ s.clock + (d : Int) := by omega
      have hs := avail_step s.b s.clock (s.clock + d) hq hm hle
      obtain ⟨q1, q2, q3, q4, q5, q6⟩ := ih (tbStep s (.tick d)) hq (mono_later hm hle)
        (fun st hst => hres st (List.mem_cons_of_mem _ hst))
      simp only [tbStep] at q1 q2 q3 q4 q5 q6
      have hsp := tfn_split s.b.qps s.clock (s.clock + d) (tbRun { s with clock := s.clock + d } rest).clock
      simp only [tbRun, List.foldl_cons, tbStep] at *
      refine ⟨by grind, q2, q3, q4, q5, by omega⟩
    | tryAcquire n =>
      obtain ⟨p1, p2, p3, p4, p5, _⟩ := allowN_potential s.b s.clock n s.clock hq hm (Int.le_refl _)
      have hz0 : tokensFromNs s.b.qps (s.clock - s.clock) = 0 := by
        have : s.clock - s.clock = 0 := by omega
        rw [this]; unfold tokensFromNs; grind
      rw [hz0] at p1
      obtain ⟨q1, q2, q3, q4, q5, q6⟩ := ih (tbStep s (.tryAcquire n)) (by simp only [tbStep]; rw [p3]; exact hq)
        (by simp only [tbStep]; exact p2)
        (by simp only [tbStep]; rw [p3, p4]; exact fun st hst => hres st (List.mem_cons_of_mem _ hst))
      simp only [tbStep] at q1 q2 q3 q4 q5 q6
      simp only [tbRun, List.foldl_cons, tbStep] at *
      rw [p3] at q1
      have hcast : ((s.granted + granted (allowN s.b s.clock n).2 n : Int) : Rat) =
          (s.granted : Rat) + ((granted (allowN s.b s.clock n).2 n : Int) : Rat) := by push_cast; rfl
      rw [hcast] at q1
      refine ⟨by grind, q2, by rw [q3, p3], by rw [q4, p4], fun h => q5 (p5 h), q6⟩
    | resize q bu =>
      -- same parameters: the identity on the bucket
      have hsame : q = s.b.qps ∧ bu = s.b.burst := hres (.resize q bu) (List.mem_cons_self ..)
      have hid : tbStep s (.resize q bu) = s := by
        simp only [tbStep, hsame.1, hsame.2, bucketResize_same]
      have := ih s hq hm (fun st hst => hres st (List.mem_cons_of_mem _ hst))
      simp only [tbRun, List.foldl_cons] at this ⊢
      rw [hid]; exact this

theorem tbLoop_accept_halving (nows : List Int) (b : Bucket) (t : Int)
    (h : (tbLoop b t nows).2.1 = true) : ∃ k, k < nows.length ∧ (tbLoop b t nows).2.2 = halve t k := by
  induction nows generalizing b t with
  | nil => simp [tbLoop] at h
  | cons now rest ih =>
    unfold tbLoop at h ⊢
    simp only [] at h ⊢
    cases hok : (allowN b now t).2 with
    | true => simp only [if_true]; exact ⟨0, by simp, rfl⟩
    | false =>
      simp only [hok, Bool.false_eq_true, if_false] at h ⊢
      by_cases hz : t / KG.Gen.C08.tbDivisor ≤ 0
      · simp only [hz, if_true] at h; cases h
      · simp only [hz, if_false] at h ⊢
        obtain ⟨k, hk, e⟩ := ih _ _ h
        exact ⟨k + 1, by simp; omega, by rw [e]; rfl⟩

/-! ### the fine-grained system: every step preserves `FInv` -/

theorem pcInv_congr {g g' : G} (hc : g'.count = g.count) (hs : g'.states = g.states) (pc : Pc) :
    PcInv g' pc ↔ PcInv g pc := by
  cases pc <;> simp [PcInv, hc, hs]

theorem lt_of_getElem? {l : List Pc} {t : Nat} {pc : Pc} (h : l[t]? = some pc) : t < l.length := by
  rcases Nat.lt_or_ge t l.length with h1 | h1
  · exact h1
  · rw [List.getElem?_eq_none h1] at h; cases h

theorem set_self {l : List Pc} {t : Nat} {pc p' : Pc} (h : l[t]? = some pc) : (l.set t p')[t]? = some p' := by
  rw [List.getElem?_set_self (lt_of_getElem? h)]

theorem set_other {l : List Pc} {t t' : Nat} {p' : Pc} (h : t' ≠ t) : (l.set t p')[t']? = l[t']? := by
  rw [List.getElem?_set_ne (fun e => h e.symm)]

/-- a step of a thread that is outside the critical section and stays outside; it may store `max` -/
theorem frame_outside {s : Fine} {t : Nat} {pc p' : Pc} {g' : G} (h : FInv s) (hp : s.pcs[t]? = some pc)
    (hout : inside pc = false) (hout' : inside p' = false) (hc : g'.count = s.g.count) (hs : g'.states = s.g.states)
    (hargs : ∀ i r c, p' = Pc.wantLock i r c → InI32 c) :
    FInv ⟨g', s.owner, s.pcs.set t p'⟩ := by
  refine ⟨hs ▸ h.allOk, hs ▸ h.nodup, ?_, ?_, ?_, ?_⟩
  · intro t' pc' hp' hin
    by_cases ht : t' = t
    · subst ht; rw [set_self hp] at hp'; cases hp'; rw [hout'] at hin; cases hin
    · rw [set_other ht] at hp'; exact h.excl t' pc' hp' hin
  · intro t' ho
    obtain ⟨pc', hp', hin, hinv⟩ := h.own t' ho
    have ht : t' ≠ t := by
      intro e; subst e; rw [hp] at hp'; cases hp'; rw [hout] at hin; cases hin
    exact ⟨pc', by rw [set_other ht]; exact hp', hin, (pcInv_congr hc hs pc').2 hinv⟩
  · intro ho; show g'.count = wrap32 (sumStates g'.states); rw [hc, hs]; exact h.free ho
  · intro t' i r c hp'
    by_cases ht : t' = t
    · subst ht; rw [set_self hp] at hp'; cases hp'; exact hargs i r c rfl
    · rw [set_other ht] at hp'; exact h.args t' i r c hp'

/-- the owner moves from one pc inside the critical section to another -/
theorem frame_inside {s : Fine} {t : Nat} {pc p' : Pc} {g' : G} (h : FInv s) (hp : s.pcs[t]? = some pc)
    (hin : inside pc = true) (hin' : inside p' = true) (hall : AllOk g'.states) (hnd : (keys g'.states).Nodup)
    (hinv : PcInv g' p') : FInv ⟨g', s.owner, s.pcs.set t p'⟩ := by
  have ho : s.owner = some t := h.excl t pc hp hin
  refine ⟨hall, hnd, ?_, ?_, ?_, ?_⟩
  · intro t' pc' hp' hin2
    by_cases ht : t' = t
    · subst ht; exact ho
    · rw [set_other ht] at hp'; exact h.excl t' pc' hp' hin2
  · intro t' ho'
    have : t' = t := by rw [ho] at ho'; cases ho'; rfl
    subst this
    exact ⟨p', set_self hp, hin', hinv⟩
  · intro ho'; rw [ho] at ho'; cases ho'
  · intro t' i r c hp'
    by_cases ht : t' = t
    · subst ht; rw [set_self hp] at hp'; cases hp'; cases hin'
    · rw [set_other ht] at hp'; exact h.args t' i r c hp'

theorem own_inv {s : Fine} {t : Nat} {pc : Pc} (h : FInv s) (hp : s.pcs[t]? = some pc) (hin : inside pc = true) :
    PcInv s.g pc := by
  obtain ⟨pc', hp', _, hinv⟩ := h.own t (h.excl t pc hp hin)
  rw [hp] at hp'; cases hp'; exact hinv

theorem okCount_of_find {l : States} {k : Str} {st : Inst} (h : AllOk l) (hf : find k l = some st) : okCount st.count :=
  allOk_find h hf

/-- **Every step of the fine-grained system preserves the invariant.** -/
theorem fineStep_inv (s s' : Fine) (t : Nat) (call : Option Op) (h : FInv s)
    (hcall : ∀ op, call = some op → OpI32 op) (hs : fineStep s t call = some s') : FInv s' := by
  unfold fineStep at hs
  cases hp : s.pcs[t]? with
  | none => rw [hp] at hs; cases hs
  | some pc =>
    rw [hp] at hs
    simp only [setPc] at hs
    cases pc with
    | idle =>
      cases call with
      | none => cases hs
      | some op =>
        cases op with
        | set i r c =>
          simp only [Option.some.injEq] at hs; subst hs
          exact frame_outside h hp rfl rfl rfl rfl (fun i' r' c' e => by cases e; exact hcall _ rfl)
        | resize n =>
          simp only at hs
          split at hs <;> (simp only [Option.some.injEq] at hs; subst hs)
          · exact frame_outside h hp rfl rfl rfl rfl (fun _ _ _ e => by cases e)
          · exact frame_outside h hp rfl rfl rfl rfl (fun _ _ _ e => by cases e)
    | resizeStore n =>
      simp only [Option.some.injEq] at hs; subst hs
      exact frame_outside h hp rfl rfl rfl rfl (fun _ _ _ e => by cases e)
    | wantLock i r c =>
      cases ho : s.owner with
      | some _ => rw [ho] at hs; cases hs
      | none =>
        rw [ho] at hs
        simp only [Option.some.injEq] at hs; subst hs
        refine ⟨h.allOk, h.nodup, ?_, ?_, ?_, ?_⟩
        · intro t' pc' hp' hin
          by_cases ht : t' = t
          · subst ht; rfl
          · rw [set_other ht] at hp'
            have := h.excl t' pc' hp' hin
            rw [ho] at this; cases this
        · intro t' ho'
          simp only [Option.some.injEq] at ho'; subst ho'
          exact ⟨_, set_self hp, rfl, h.free ho, h.args t i r c hp⟩
        · intro ho'; cases ho'
        · intro t' i' r' c' hp'
          by_cases ht : t' = t
          · subst ht; rw [set_self hp] at hp'; cases hp'
          · rw [set_other ht] at hp'; exact h.args t' i' r' c' hp'
    | locked i r c =>
      obtain ⟨hcnt, hc⟩ := own_inv h hp rfl
      simp only at hs
      cases hf : find i s.g.states with
      | some st =>
        rw [hf] at hs
        simp only at hs
        split at hs <;> (simp only [Option.some.injEq] at hs; subst hs)
        · -- removal: entry deleted
          have hst := okCount_of_find h.allOk hf
          refine frame_inside h hp rfl rfl (allOk_erase h.allOk) (nodup_erase h.nodup) ⟨?_, hst⟩
          show s.g.count = wrap32 (sumStates (erase i s.g.states) + st.count)
          rw [sum_erase_some hf, hcnt]; congr 1; omega
        · rename_i hneg
          refine frame_inside h hp rfl rfl h.allOk h.nodup ⟨hcnt, ⟨by omega, hc.2⟩, by rw [hf]; rfl⟩
      | none =>
        rw [hf] at hs
        simp only at hs
        split at hs <;> (simp only [Option.some.injEq] at hs; subst hs)
        · exact frame_inside h hp rfl rfl h.allOk h.nodup hcnt
        · rename_i hneg
          refine frame_inside h hp rfl rfl (allOk_put h.allOk (by simp)) (nodup_put h.nodup) ⟨?_, ⟨by omega, hc.2⟩, ?_⟩
          · show s.g.count = wrap32 (sumStates (put i _ s.g.states))
            rw [sum_put_none hf, hcnt]; congr 1; simp
          · show (find i (put i _ s.g.states)).isSome = true
            rw [find_put_self]; rfl
    | rmDeleted st =>
      obtain ⟨hcnt, hst⟩ := own_inv h hp rfl
      simp only [Option.some.injEq] at hs; subst hs
      refine frame_inside h hp rfl rfl h.allOk h.nodup ?_
      show wrap32 (s.g.count + wrap32 (-st.count)) = wrap32 (sumStates s.g.states)
      rw [hcnt]; unfold wrap32; omega
    | unlocking rep =>
      have hcnt : s.g.count = wrap32 (sumStates s.g.states) := own_inv h hp rfl
      have ho : s.owner = some t := h.excl t _ hp rfl
      simp only [Option.some.injEq] at hs; subst hs
      refine ⟨h.allOk, h.nodup, ?_, ?_, fun _ => hcnt, ?_⟩
      · intro t' pc' hp' hin
        by_cases ht : t' = t
        · subst ht; rw [set_self hp] at hp'; cases hp'; cases hin
        · rw [set_other ht] at hp'
          have := h.excl t' pc' hp' hin
          rw [ho] at this; cases this; exact absurd rfl ht
      · intro t' ho'; cases ho'
      · intro t' i' r' c' hp'
        by_cases ht : t' = t
        · subst ht; rw [set_self hp] at hp'; cases hp'
        · rw [set_other ht] at hp'; exact h.args t' i' r' c' hp'
    | haveState i r c =>
      obtain ⟨hcnt, hc, hsome⟩ := own_inv h hp rfl
      simp only at hs
      split at hs
      · cases hf : find i s.g.states with
        | none => rw [hf] at hs; cases hs
        | some st =>
          rw [hf] at hs
          simp only at hs
          split at hs <;> (simp only [Option.some.injEq] at hs; subst hs)
          · exact frame_inside h hp rfl rfl h.allOk h.nodup hcnt
          · exact frame_inside h hp rfl rfl h.allOk h.nodup ⟨hcnt, hc, hsome⟩
      · simp only [Option.some.injEq] at hs; subst hs
        exact frame_inside h hp rfl rfl h.allOk h.nodup ⟨hcnt, hc, hsome⟩
    | idChecked i r c =>
      obtain ⟨hcnt, hc, hsome⟩ := own_inv h hp rfl
      simp only at hs
      cases hf : find i s.g.states with
      | none => rw [hf] at hs; cases hs
      | some st =>
        rw [hf] at hs
        simp only [Option.some.injEq] at hs; subst hs
        have hst := okCount_of_find h.allOk hf
        refine frame_inside h hp rfl rfl (allOk_put h.allOk hst) (nodup_put h.nodup) ⟨?_, hc, ?_⟩
        · show s.g.count = wrap32 (sumStates (put i _ s.g.states))
          rw [sum_put_some hf, hcnt]; congr 1; simp
        · show (find i (put i _ s.g.states)).isSome = true
          rw [find_put_self]; rfl
    | idStored i r c =>
      obtain ⟨hcnt, hc, hsome⟩ := own_inv h hp rfl
      simp only at hs
      cases hf : find i s.g.states with
      | none => rw [hf] at hs; cases hs
      | some st =>
        rw [hf] at hs
        simp only [Option.some.injEq] at hs; subst hs
        have hst := okCount_of_find h.allOk hf
        refine frame_inside h hp rfl rfl (allOk_put h.allOk hc) (nodup_put h.nodup) ⟨?_, hc, hst, ⟨st.requestId, ?_⟩⟩
        · show s.g.count = wrap32 (sumStates (put i _ s.g.states) - c + st.count)
          rw [sum_put_some hf, hcnt]; congr 1; simp
        · show find i (put i _ s.g.states) = _
          rw [find_put_self]
    | swapped i r c old =>
      obtain ⟨hcnt, hc, hold, id, hf⟩ := own_inv h hp rfl
      simp only [Option.some.injEq] at hs; subst hs
      have hd : wrap32 (c - old) = c - old := wrap32_id (by unfold okCount at hc hold; unfold InI32; omega)
      refine frame_inside h hp rfl rfl h.allOk h.nodup ⟨rfl, ?_, hd, hc, hold, ⟨id, hf⟩⟩
      show wrap32 (s.g.count + wrap32 (c - old)) = wrap32 (sumStates s.g.states)
      rw [hd, hcnt]; unfold wrap32; omega
    | added i r c old delta cnt =>
      obtain ⟨hg, hcnt, hdelta, hc, hold, id, hf⟩ := own_inv h hp rfl
      simp only at hs
      have hcnt' : s.g.count = wrap32 (sumStates s.g.states) := by rw [hg]; exact hcnt
      split at hs
      · simp only [Option.some.injEq] at hs; subst hs
        exact frame_inside h hp rfl rfl h.allOk h.nodup ⟨hcnt', hold, c, id, hf, hdelta, hc⟩
      · split at hs <;> (simp only [Option.some.injEq] at hs; subst hs) <;>
          exact frame_inside h hp rfl rfl h.allOk h.nodup hcnt'
    | rollback1 i old delta =>
      obtain ⟨hcnt, hold, c, id, hf, hdelta, hc⟩ := own_inv h hp rfl
      simp only at hs
      rw [hf] at hs
      simp only [Option.some.injEq] at hs; subst hs
      have hback : wrap32 (c + wrap32 (-delta)) = old := by
        subst hdelta; unfold okCount at hc hold; unfold wrap32; omega
      refine frame_inside h hp rfl rfl (allOk_put h.allOk (by show okCount _; simp only; rw [hback]; exact hold))
        (nodup_put h.nodup) ⟨?_, by subst hdelta; unfold okCount at hc hold; unfold InI32; omega⟩
      show s.g.count = wrap32 (sumStates (put i _ s.g.states) + delta)
      rw [sum_put_some hf, hcnt]
      simp only
      congr 1; omega
    | rollback2 old delta =>
      obtain ⟨hcnt, hd⟩ := own_inv h hp rfl
      simp only [Option.some.injEq] at hs; subst hs
      refine frame_inside h hp rfl rfl h.allOk h.nodup ?_
      show wrap32 (s.g.count + wrap32 (-delta)) = wrap32 (sumStates s.g.states)
      rw [hcnt]; unfold InI32 at hd; unfold wrap32; omega

theorem fineInit_inv (m : Int) (n : Nat) : FInv (fineInit m n) := by
  refine ⟨fun _ hp => by simp [fineInit, G.init] at hp, by simp [fineInit, G.init, keys], ?_, ?_, ?_, ?_⟩
  · intro t pc hp hin
    simp only [fineInit] at hp
    have := List.mem_of_getElem? hp
    rw [List.mem_replicate] at this
    rw [this.2] at hin; cases hin
  · intro t ho; cases ho
  · intro _; simp [fineInit, G.init, sumStates, wrap32]
  · intro t i r c hp
    simp only [fineInit] at hp
    have := List.mem_of_getElem? hp
    rw [List.mem_replicate] at this
    cases this.2

theorem fineRun_inv (sched : List (Nat × Option Op)) (s s' : Fine) (h : FInv s)
    (hcalls : ∀ e ∈ sched, ∀ op, e.2 = some op → OpI32 op) (hr : fineRun s sched = some s') : FInv s' := by
  induction sched generalizing s with
  | nil => simp only [fineRun, Option.some.injEq] at hr; subst hr; exact h
  | cons e rest ih =>
    obtain ⟨t, call⟩ := e
    simp only [fineRun] at hr
    cases hst : fineStep s t call with
    | none => rw [hst] at hr; cases hr
    | some s1 =>
      rw [hst] at hr
      exact ih s1 (fineStep_inv s s1 t call h (hcalls (t, call) (List.mem_cons_self ..)) hst)
        (fun e he => hcalls e (List.mem_cons_of_mem _ he)) hr

/-! ### forward simulation: fine-grained steps are matched by at most one atomic step -/

theorem put_put (k : Str) (v w : Inst) (l : States) : put k w (put k v l) = put k w l := by
  induction l with
  | nil => simp [put]
  | cons p r ih =>
    obtain ⟨k2, v2⟩ := p
    by_cases h2 : k2 = k
    · simp [put, h2]
    · simp [put, h2, ih]

theorem put_same {k : Str} {v : Inst} {l : States} (h : find k l = some v) : put k v l = l := by
  induction l with
  | nil => simp [find] at h
  | cons p r ih =>
    obtain ⟨k2, v2⟩ := p
    by_cases h2 : k2 = k
    · simp only [find, h2, if_true, Option.some.injEq] at h
      simp [put, h2, h]
    · simp only [find, h2, if_false] at h
      simp [put, h2, ih h]

theorem G_ext {a b : G} (h1 : a.max = b.max) (h2 : a.count = b.count) (h3 : a.states = b.states) : a = b := by
  cases a; cases b; simp only at h1 h2 h3; subst h1; subst h2; subst h3; rfl

theorem ensure_eq_of_find {g : G} {i : Str} {st : Inst} (h : find i g.states = some st) : ensure g i = g := by
  unfold ensure; rw [h]

theorem stateOf_of_find {g : G} {i : Str} {st : Inst} (h : find i g.states = some st) : stateOf g i = st := by
  unfold stateOf; rw [h]

theorem simPc_congr_max {g a a' : G} (hc : a'.count = a.count) (hs : a'.states = a.states) (pc : Pc) :
    SimPc g a' pc ↔ SimPc g a pc := by
  have he : ∀ i, (ensure a' i).states = (ensure a i).states := by
    intro i; unfold ensure; rw [hs]; cases find i a.states <;> simp [hs]
  have hst : ∀ i, stateOf a' i = stateOf a i := by intro i; unfold stateOf; rw [hs]
  cases pc <;> simp [SimPc, hc, hs, he, hst]

/-- replace the owner's pc, keeping the simulation -/
theorem sim_owner_step {s : Fine} {a' : G} {t : Nat} {pc p' : Pc} {g' : G} (h : FInv s) (hp : s.pcs[t]? = some pc)
    (hin : inside pc = true) (hmax : a'.max = g'.max) (hsim : SimPc g' a' p') :
    Sim ⟨g', s.owner, s.pcs.set t p'⟩ a' := by
  have ho : s.owner = some t := h.excl t pc hp hin
  refine ⟨hmax, ?_⟩
  simp only [ho]
  exact ⟨p', set_self hp, hsim⟩

theorem sim_owner_pc (pc : Pc) {s : Fine} {a : G} {t : Nat} (h : FInv s) (hsim : Sim s a) (hp : s.pcs[t]? = some pc)
    (hin : inside pc = true) : SimPc s.g a pc := by
  have ho : s.owner = some t := h.excl t pc hp hin
  obtain ⟨_, hm⟩ := hsim
  rw [ho] at hm
  obtain ⟨pc', hp', hs⟩ := hm
  rw [hp] at hp'; cases hp'; exact hs

/-- a thread outside the critical section moves (possibly storing `max`); the atomic state changes only in `max` -/
theorem sim_outside {s : Fine} {a a' : G} {t : Nat} {pc p' : Pc} {g' : G} (h : FInv s) (hsim : Sim s a)
    (hp : s.pcs[t]? = some pc) (hout : inside pc = false)
    (hc : g'.count = s.g.count) (hs : g'.states = s.g.states)
    (hmax : a'.max = g'.max) (hac : a'.count = a.count) (has : a'.states = a.states) :
    Sim ⟨g', s.owner, s.pcs.set t p'⟩ a' := by
  refine ⟨hmax, ?_⟩
  obtain ⟨_, hm⟩ := hsim
  cases ho : s.owner with
  | none => rw [ho] at hm; simp only; rw [hac, has, hc, hs]; exact hm
  | some to =>
    rw [ho] at hm
    obtain ⟨pc', hp', hspc⟩ := hm
    have hne : to ≠ t := by
      intro e; subst e
      obtain ⟨pc2, hp2, hin2, _⟩ := h.own to ho
      rw [hp] at hp2; cases hp2; rw [hout] at hin2; cases hin2
    simp only
    refine ⟨pc', by rw [set_other hne]; exact hp', ?_⟩
    have : SimPc g' a pc' := by
      have hg : g' = ⟨g'.max, s.g.count, s.g.states⟩ := G_ext rfl hc hs
      -- SimPc never looks at g.max
      cases pc' <;> simp only [SimPc] at hspc ⊢ <;> (try rw [hc, hs]) <;> exact hspc
    exact (simPc_congr_max hac has pc').2 this

/-- **Forward simulation.** Every step of the fine-grained system is matched by no step or by ONE step of the
    atomic system — the call the stepping thread is executing. -/
theorem fineStep_sim (s s' : Fine) (a : G) (t : Nat) (call : Option Op) (h : FInv s) (hsim : Sim s a)
    (hs : fineStep s t call = some s') :
    ∃ ops : List Op, Sim s' (run a ops) ∧
      ∀ op ∈ ops, (∃ pc, s.pcs[t]? = some pc ∧ pendingOp pc = some op) := by
  unfold fineStep at hs
  cases hp : s.pcs[t]? with
  | none => rw [hp] at hs; cases hs
  | some pc =>
    rw [hp] at hs
    simp only [setPc] at hs
    have hmax0 : a.max = s.g.max := hsim.1
    have none_step : ∀ {s1 : Fine}, Sim s1 a → ∃ ops : List Op, Sim s1 (run a ops) ∧
        ∀ op ∈ ops, (∃ pc', some pc = some pc' ∧ pendingOp pc' = some op) :=
      fun hs1 => ⟨[], hs1, fun _ hm => by cases hm⟩
    have one_step : ∀ {s1 : Fine} (op : Op), Sim s1 (step a op) → pendingOp pc = some op →
        ∃ ops : List Op, Sim s1 (run a ops) ∧ ∀ op ∈ ops, (∃ pc', some pc = some pc' ∧ pendingOp pc' = some op) :=
      fun op hs1 hpo => ⟨[op], hs1, fun o hm => by simp only [List.mem_singleton] at hm; subst hm; exact ⟨pc, rfl, hpo⟩⟩
    cases pc with
    | idle =>
      cases call with
      | none => cases hs
      | some op =>
        cases op with
        | set i r c =>
          simp only [Option.some.injEq] at hs; subst hs
          exact none_step (sim_outside h hsim hp rfl rfl rfl hmax0 rfl rfl)
        | resize n =>
          simp only at hs
          split at hs <;> (simp only [Option.some.injEq] at hs; subst hs) <;>
            exact none_step (sim_outside h hsim hp rfl rfl rfl hmax0 rfl rfl)
    | resizeStore n =>
      simp only [Option.some.injEq] at hs; subst hs
      refine one_step (.resize n) ?_ rfl
      show Sim _ (resize a n).1
      have hr : (resize a n).1.max = n ∧ (resize a n).1.count = a.count ∧ (resize a n).1.states = a.states := by
        unfold resize; split
        · exact ⟨rfl, rfl, rfl⟩
        · rename_i hne; exact ⟨by simpa using hne, rfl, rfl⟩
      exact sim_outside h hsim hp rfl rfl rfl hr.1 hr.2.1 hr.2.2
    | wantLock i r c =>
      cases ho : s.owner with
      | some _ => rw [ho] at hs; cases hs
      | none =>
        rw [ho] at hs
        simp only [Option.some.injEq] at hs; subst hs
        refine none_step ⟨hmax0, ?_⟩
        obtain ⟨_, hm⟩ := hsim
        rw [ho] at hm
        simp only
        exact ⟨_, set_self hp, hm⟩
    | locked i r c =>
      have hpc : SimPc s.g a (Pc.locked i r c) := sim_owner_pc _ h hsim hp rfl
      obtain ⟨hc, hst⟩ := hpc
      simp only at hs
      cases hf : find i s.g.states with
      | some st =>
        have hfa : find i a.states = some st := by rw [hst]; exact hf
        rw [hf] at hs
        simp only at hs
        split at hs <;> (simp only [Option.some.injEq] at hs; subst hs)
        · -- removal takes effect now
          rename_i hneg
          refine one_step (.set i r c) ?_ rfl
          show Sim _ (setState a i r c).1
          rw [setState_remove_some a i r c st hneg hfa]
          refine sim_owner_step h hp rfl hmax0 ⟨by show erase i a.states = erase i s.g.states; rw [hst], ?_⟩
          show wrap32 (a.count + wrap32 (-st.count)) = wrap32 (s.g.count + wrap32 (-st.count))
          rw [hc]
        · rename_i hneg
          refine none_step (sim_owner_step h hp rfl hmax0 ⟨by omega, hc.symm, ?_⟩)
          rw [ensure_eq_of_find hfa, hst]
      | none =>
        have hfa : find i a.states = none := by rw [hst]; exact hf
        rw [hf] at hs
        simp only at hs
        split at hs <;> (simp only [Option.some.injEq] at hs; subst hs)
        · rename_i hneg
          refine one_step (.set i r c) ?_ rfl
          show Sim _ (setState a i r c).1
          rw [setState_remove_none a i r c hneg hfa]
          exact sim_owner_step h hp rfl hmax0 ⟨hc, hst⟩
        · rename_i hneg
          refine none_step (sim_owner_step h hp rfl hmax0 ⟨by omega, hc.symm, ?_⟩)
          show put i _ s.g.states = (ensure a i).states
          unfold ensure; rw [hfa, hst]
    | rmDeleted st =>
      have hpc : SimPc s.g a (Pc.rmDeleted st) := sim_owner_pc _ h hsim hp rfl
      obtain ⟨hst, hc⟩ := hpc
      simp only [Option.some.injEq] at hs; subst hs
      exact none_step (sim_owner_step h hp rfl hmax0 ⟨hc, hst⟩)
    | unlocking rep =>
      have hpc : SimPc s.g a (Pc.unlocking rep) := sim_owner_pc _ h hsim hp rfl
      obtain ⟨hc, hst⟩ := hpc
      simp only [Option.some.injEq] at hs; subst hs
      exact none_step ⟨hmax0, hc, hst⟩
    | haveState i r c =>
      have hpc : SimPc s.g a (Pc.haveState i r c) := sim_owner_pc _ h hsim hp rfl
      obtain ⟨h0, hc, hst⟩ := hpc
      have hfe : find i s.g.states = some (stateOf a i) := by rw [hst]; exact ensure_find a i
      simp only at hs
      split at hs
      · rename_i hr
        rw [hfe] at hs
        simp only at hs
        split at hs <;> (simp only [Option.some.injEq] at hs; subst hs)
        · -- stale: refused now
          rename_i hle
          refine one_step (.set i r c) ?_ rfl
          show Sim _ (setState a i r c).1
          rw [setState_report a i r c h0, report_stale _ _ _ _ _ ⟨hr, hle⟩]
          refine sim_owner_step h hp rfl (by rw [ensure_max]; exact hmax0) ⟨?_, hst.symm⟩
          rw [ensure_count]; exact hc.symm
        · rename_i hle
          exact none_step (sim_owner_step h hp rfl hmax0 ⟨h0, hc, hst, hr, hle⟩)
      · rename_i hr
        simp only [Option.some.injEq] at hs; subst hs
        refine none_step (sim_owner_step (p' := Pc.idStored i r c) h hp rfl hmax0 ⟨h0, hc, fun hh => hr hh.1, ?_⟩)
        have : newId (stateOf a i) r = (stateOf a i).requestId := by unfold newId; rw [if_neg hr]
        rw [this, hst]
        exact (put_same (ensure_find a i)).symm
    | idChecked i r c =>
      have hpc : SimPc s.g a (Pc.idChecked i r c) := sim_owner_pc _ h hsim hp rfl
      obtain ⟨h0, hc, hst, hr, hle⟩ := hpc
      have hfe : find i s.g.states = some (stateOf a i) := by rw [hst]; exact ensure_find a i
      simp only at hs
      rw [hfe] at hs
      simp only [Option.some.injEq] at hs; subst hs
      refine none_step (sim_owner_step h hp rfl hmax0 ⟨h0, hc, fun hh => hle hh.2, ?_⟩)
      have : newId (stateOf a i) r = r := by unfold newId; rw [if_pos hr]
      rw [this, hst]
    | idStored i r c =>
      have hpc : SimPc s.g a (Pc.idStored i r c) := sim_owner_pc _ h hsim hp rfl
      obtain ⟨h0, hc, hns, hst⟩ := hpc
      have hfe : find i s.g.states = some ⟨(stateOf a i).count, newId (stateOf a i) r⟩ := by
        rw [hst]; exact find_put_self _ _ _
      simp only at hs
      rw [hfe] at hs
      simp only [Option.some.injEq] at hs; subst hs
      refine none_step (sim_owner_step h hp rfl hmax0 ⟨h0, hc, hns, rfl, ?_⟩)
      show put i _ s.g.states = _
      rw [hst, put_put]
    | swapped i r c old =>
      have hpc : SimPc s.g a (Pc.swapped i r c old) := sim_owner_pc _ h hsim hp rfl
      obtain ⟨h0, hc, hns, hold, hst⟩ := hpc
      simp only [Option.some.injEq] at hs; subst hs
      refine none_step (sim_owner_step h hp rfl hmax0 ⟨h0, hns, hold, rfl, ?_, rfl, hst⟩)
      rw [hc]
    | added i r c old delta cnt =>
      have hpc : SimPc s.g a (Pc.added i r c old delta cnt) := sim_owner_pc _ h hsim hp rfl
      obtain ⟨h0, hns, hold, hdelta, hcnt, hgc, hst⟩ := hpc
      -- the atomic step, in closed form
      have habs : setState a i r c = report (ensure a i) i (stateOf a i) r c := setState_report a i r c h0
      have hrep := report_eq (ensure a i) i (stateOf a i) r c
      rw [if_neg hns] at hrep
      simp only [ensure_count, ensure_max] at hrep
      rw [← hold, ← hdelta, ← hcnt, hmax0] at hrep
      simp only at hs
      refine one_step (.set i r c) ?_ rfl
      show Sim s' (setState a i r c).1
      rw [habs, hrep]
      split at hs
      · rename_i hdec
        simp only [Option.some.injEq] at hs; subst hs
        rw [if_pos hdec]
        refine sim_owner_step h hp rfl rfl ?_
        refine ⟨c, newId (stateOf a i) r, by rw [hst]; exact find_put_self _ _ _, ?_, ?_⟩
        · show put i _ (ensure a i).states = put i _ s.g.states
          rw [hst, put_put]
        · show wrap32 (cnt + wrap32 (-delta)) = wrap32 (s.g.count + wrap32 (-delta))
          rw [hgc]
      · rename_i hdec
        rw [if_neg hdec]
        split at hs <;> (simp only [Option.some.injEq] at hs; subst hs)
        · rename_i h2
          rw [if_pos h2]
          exact sim_owner_step h hp rfl rfl
            ⟨by show cnt = s.g.count; exact hgc.symm, by show put i _ (ensure a i).states = s.g.states; exact hst.symm⟩
        · rename_i h2
          rw [if_neg h2]
          exact sim_owner_step h hp rfl rfl
            ⟨by show cnt = s.g.count; exact hgc.symm, by show put i _ (ensure a i).states = s.g.states; exact hst.symm⟩
    | rollback1 i old delta =>
      have hpc : SimPc s.g a (Pc.rollback1 i old delta) := sim_owner_pc _ h hsim hp rfl
      obtain ⟨c, id, hf, hst, hc⟩ := hpc
      simp only at hs
      rw [hf] at hs
      simp only [Option.some.injEq] at hs; subst hs
      exact none_step (sim_owner_step h hp rfl hmax0 ⟨hst, hc⟩)
    | rollback2 old delta =>
      have hpc : SimPc s.g a (Pc.rollback2 old delta) := sim_owner_pc _ h hsim hp rfl
      obtain ⟨hst, hc⟩ := hpc
      simp only [Option.some.injEq] at hs; subst hs
      exact none_step (sim_owner_step h hp rfl hmax0 ⟨hc, hst⟩)

/-- shape of a step: only the stepping thread's pc changes, and the call it is executing stays the same, is
    finished, or (from `idle`) is the call handed in -/
theorem fineStep_shape (s s' : Fine) (t : Nat) (call : Option Op) (hs : fineStep s t call = some s') :
    ∃ pc, s.pcs[t]? = some pc ∧ ∃ g' o' p', s' = ⟨g', o', s.pcs.set t p'⟩ ∧
      (pendingOp p' = none ∨ pendingOp p' = pendingOp pc ∨ pendingOp p' = call) := by
  unfold fineStep at hs
  cases hp : s.pcs[t]? with
  | none => rw [hp] at hs; cases hs
  | some pc =>
    rw [hp] at hs
    simp only [setPc] at hs
    refine ⟨pc, rfl, ?_⟩
    cases pc with
    | idle =>
      cases call with
      | none => cases hs
      | some op =>
        cases op with
        | set i r c =>
          simp only [Option.some.injEq] at hs; subst hs
          exact ⟨_, _, _, rfl, Or.inr (Or.inr rfl)⟩
        | resize n =>
          simp only at hs
          split at hs <;> (simp only [Option.some.injEq] at hs; subst hs)
          · exact ⟨_, _, _, rfl, Or.inr (Or.inr rfl)⟩
          · exact ⟨_, _, _, rfl, Or.inl rfl⟩
    | resizeStore n =>
      simp only [Option.some.injEq] at hs; subst hs; exact ⟨_, _, _, rfl, Or.inl rfl⟩
    | wantLock i r c =>
      cases ho : s.owner with
      | some _ => rw [ho] at hs; cases hs
      | none =>
        rw [ho] at hs
        simp only [Option.some.injEq] at hs; subst hs; exact ⟨_, _, _, rfl, Or.inr (Or.inl rfl)⟩
    | locked i r c =>
      simp only at hs
      cases hf : find i s.g.states with
      | some st =>
        rw [hf] at hs
        simp only at hs
        split at hs <;> (simp only [Option.some.injEq] at hs; subst hs)
        · exact ⟨_, _, _, rfl, Or.inl rfl⟩
        · exact ⟨_, _, _, rfl, Or.inr (Or.inl rfl)⟩
      | none =>
        rw [hf] at hs
        simp only at hs
        split at hs <;> (simp only [Option.some.injEq] at hs; subst hs)
        · exact ⟨_, _, _, rfl, Or.inl rfl⟩
        · exact ⟨_, _, _, rfl, Or.inr (Or.inl rfl)⟩
    | rmDeleted st =>
      simp only [Option.some.injEq] at hs; subst hs; exact ⟨_, _, _, rfl, Or.inl rfl⟩
    | unlocking rep =>
      simp only [Option.some.injEq] at hs; subst hs; exact ⟨_, _, _, rfl, Or.inl rfl⟩
    | haveState i r c =>
      simp only at hs
      split at hs
      · cases hf : find i s.g.states with
        | none => rw [hf] at hs; cases hs
        | some st =>
          rw [hf] at hs
          simp only at hs
          split at hs <;> (simp only [Option.some.injEq] at hs; subst hs)
          · exact ⟨_, _, _, rfl, Or.inl rfl⟩
          · exact ⟨_, _, _, rfl, Or.inr (Or.inl rfl)⟩
      · simp only [Option.some.injEq] at hs; subst hs; exact ⟨_, _, _, rfl, Or.inr (Or.inl rfl)⟩
    | idChecked i r c =>
      simp only at hs
      cases hf : find i s.g.states with
      | none => rw [hf] at hs; cases hs
      | some st =>
        rw [hf] at hs
        simp only [Option.some.injEq] at hs; subst hs; exact ⟨_, _, _, rfl, Or.inr (Or.inl rfl)⟩
    | idStored i r c =>
      simp only at hs
      cases hf : find i s.g.states with
      | none => rw [hf] at hs; cases hs
      | some st =>
        rw [hf] at hs
        simp only [Option.some.injEq] at hs; subst hs; exact ⟨_, _, _, rfl, Or.inr (Or.inl rfl)⟩
    | swapped i r c old =>
      simp only [Option.some.injEq] at hs; subst hs; exact ⟨_, _, _, rfl, Or.inr (Or.inl rfl)⟩
    | added i r c old delta cnt =>
      simp only at hs
      split at hs
      · simp only [Option.some.injEq] at hs; subst hs; exact ⟨_, _, _, rfl, Or.inl rfl⟩
      · split at hs <;> (simp only [Option.some.injEq] at hs; subst hs) <;> exact ⟨_, _, _, rfl, Or.inl rfl⟩
    | rollback1 i old delta =>
      simp only at hs
      cases hf : find i s.g.states with
      | none => rw [hf] at hs; cases hs
      | some st =>
        rw [hf] at hs
        simp only [Option.some.injEq] at hs; subst hs; exact ⟨_, _, _, rfl, Or.inl rfl⟩
    | rollback2 old delta =>
      simp only [Option.some.injEq] at hs; subst hs; exact ⟨_, _, _, rfl, Or.inl rfl⟩

/-- **The reduction, along a whole run**: there is a list `lin` of atomic operations — each one a call that some
    thread was executing — whose sequential execution is simulated by the fine-grained run. -/
theorem fineRun_sim (sched : List (Nat × Option Op)) (s s' : Fine) (a : G) (calls : List Op) (h : FInv s)
    (hsim : Sim s a)
    (hpend : ∀ (t : Nat) (pc : Pc) (op : Op), s.pcs[t]? = some pc → pendingOp pc = some op → op ∈ calls)
    (hcalls : ∀ e ∈ sched, ∀ op, e.2 = some op → OpI32 op) (hr : fineRun s sched = some s') :
    ∃ lin : List Op, Sim s' (run a lin) ∧ ∀ op ∈ lin, op ∈ calls ++ sched.filterMap (·.2) := by
  induction sched generalizing s a calls with
  | nil =>
    simp only [fineRun, Option.some.injEq] at hr; subst hr
    exact ⟨[], hsim, fun _ hm => by cases hm⟩
  | cons e rest ih =>
    obtain ⟨t, call⟩ := e
    simp only [fineRun] at hr
    cases hst : fineStep s t call with
    | none => rw [hst] at hr; cases hr
    | some s1 =>
      rw [hst] at hr
      have h1 := fineStep_inv s s1 t call h (hcalls (t, call) (List.mem_cons_self ..)) hst
      obtain ⟨ops, hsim1, hops⟩ := fineStep_sim s s1 a t call h hsim hst
      -- pending calls after the step
      have hpend1 : ∀ (t' : Nat) (pc : Pc) (op : Op), s1.pcs[t']? = some pc → pendingOp pc = some op →
          op ∈ calls ++ call.toList := by
        intro t' pc' op hp' hpo
        obtain ⟨pc, hp, g', o', p', hs1, hsh⟩ := fineStep_shape s s1 t call hst
        subst hs1
        by_cases ht : t' = t
        · subst ht
          rw [set_self hp] at hp'; cases hp'
          rcases hsh with h0 | h0 | h0
          · rw [h0] at hpo; cases hpo
          · rw [h0] at hpo; exact List.mem_append_left _ (hpend t' pc op hp hpo)
          · rw [h0] at hpo; subst hpo; exact List.mem_append_right _ (by simp)
        · rw [set_other ht] at hp'
          exact List.mem_append_left _ (hpend t' pc' op hp' hpo)
      obtain ⟨lin, hsim2, hlin⟩ := ih s1 (run a ops) (calls ++ call.toList) h1 hsim1 hpend1
        (fun e he => hcalls e (List.mem_cons_of_mem _ he)) hr
      refine ⟨ops ++ lin, ?_, ?_⟩
      · have : run a (ops ++ lin) = run (run a ops) lin := by simp [run, List.foldl_append]
        rw [this]; exact hsim2
      · intro op hm
        rw [List.mem_append] at hm
        have hfm : (((t, call) :: rest).filterMap (·.2)) = call.toList ++ rest.filterMap (·.2) := by
          cases call <;> simp
        rw [hfm]
        rcases hm with hm | hm
        · obtain ⟨pc, hp, hpo⟩ := hops op hm
          exact List.mem_append_left _ (hpend t pc op hp hpo)
        · have := hlin op hm
          simp only [List.mem_append] at this ⊢
          rcases this with (h1 | h1) | h1
          · exact Or.inl h1
          · exact Or.inr (Or.inl h1)
          · exact Or.inr (Or.inr h1)


end KG.Lemmas.GlobalCount
