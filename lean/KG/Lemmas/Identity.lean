import KG.Model.Identity
import KG.Spec.Identity
/-! Helper lemmas for C02 (identity propagation). -/
set_option linter.unusedSimpArgs false
namespace KG.Lemmas.Identity
open KG KG.Model.Identity KG.Spec.Identity

/-! ## every byte -/

theorem forall_u8 {P : UInt8 → Prop} (h : ∀ n : Fin 256, P (UInt8.ofNat n.val)) : ∀ c, P c := by
  intro c
  have := h ⟨c.toNat, c.toNat_lt⟩
  simpa using this

/-- the conversion applied to one byte by the canonicalisation loop -/
def conv (upper : Bool) (c : UInt8) : UInt8 :=
  if upper && isLower c then c - 32 else if !upper && isUpper c then c + 32 else c

theorem canonLoop_cons (u : Bool) (c : UInt8) (s : Str) :
    canonLoop u (c :: s) = conv u c :: canonLoop (conv u c == 45) s := by
  simp [canonLoop, conv]

set_option maxRecDepth 100000 in
theorem conv_facts : ∀ c : UInt8, ∀ u : Bool,
    conv u (conv u c) = conv u c ∧ lowerByte (conv u c) = lowerByte c ∧ conv u (lowerByte c) = conv u c ∧
    (isTokenByte c = true → isTokenByte (conv u c) = true) ∧ (isTokenByte c = true → isTokenByte (lowerByte c) = true) := by
  apply forall_u8; decide

set_option maxRecDepth 100000 in
theorem hex_roundtrip : ∀ b : UInt8, ishex (hexUpper (b / 16)) = true ∧ ishex (hexUpper (b % 16)) = true ∧
    unhex (hexUpper (b / 16)) * 16 + unhex (hexUpper (b % 16)) = b ∧
    ishex (lowerByte (hexUpper (b / 16))) = true ∧ ishex (lowerByte (hexUpper (b % 16))) = true ∧
    unhex (lowerByte (hexUpper (b / 16))) * 16 + unhex (lowerByte (hexUpper (b % 16))) = b ∧
    isTokenByte (hexUpper (b / 16)) = true ∧ isTokenByte (hexUpper (b % 16)) = true := by
  apply forall_u8; decide

set_option maxRecDepth 100000 in
theorem escape_byte_facts : ∀ b : UInt8,
    (shouldEscape b = false → (b == 37) = false ∧ (lowerByte b == 37) = false ∧ isTokenByte b = true) ∧
    (shouldEscape b = true → lowerByte b = b) := by
  apply forall_u8; decide

set_option maxRecDepth 100000 in
/-- the table copied into dynamic_impersonate.go is net/http's token table -/
theorem legal_eq_token : ∀ b : UInt8, legalHeaderByte b = isTokenByte b := by
  apply forall_u8; decide

/-! ## url.PathUnescape -/

theorem pathUnescape_cons_ne {c : UInt8} (s : Str) (h : (c == 37) = false) :
    pathUnescape (c :: s) = (pathUnescape s).map (fun t => c :: t) := by
  match s with
  | [] => simp [pathUnescape, h]
  | [a] => simp [pathUnescape, h]
  | a :: b :: r => simp [pathUnescape, h]

theorem pathUnescape_pct (a b : UInt8) (r : Str) :
    pathUnescape (37 :: a :: b :: r) =
      if ishex a && ishex b then (pathUnescape r).map (fun t => (unhex a * 16 + unhex b) :: t) else none := by
  simp [pathUnescape]

theorem escape_roundtrip (k : Str) : pathUnescape (headerKeyEscape k) = some k := by
  induction k with
  | nil => simp [headerKeyEscape, pathUnescape]
  | cons b k ih =>
    by_cases h : shouldEscape b = true
    · have ⟨h1, h2, h3, _⟩ := hex_roundtrip b
      simp [headerKeyEscape, h, pathUnescape_pct, h1, h2, h3, ih]
    · have h' : shouldEscape b = false := by simpa using h
      have := ((escape_byte_facts b).1 h').1
      simp [headerKeyEscape, h', pathUnescape_cons_ne _ this, ih]

theorem escape_token (k : Str) : (headerKeyEscape k).all isTokenByte = true := by
  induction k with
  | nil => simp [headerKeyEscape]
  | cons b k ih =>
    by_cases h : shouldEscape b = true
    · have ⟨_, _, _, _, _, _, h7, h8⟩ := hex_roundtrip b
      have : isTokenByte 37 = true := by decide
      simp [headerKeyEscape, h, h7, h8, this, ih]
    · have h' : shouldEscape b = false := by simpa using h
      have := ((escape_byte_facts b).1 h').2.2
      simp [headerKeyEscape, h', this, ih]

/-- the lower-cased escaped key still decodes, to the key with its ASCII upper-case letters lower-cased -/
theorem escape_lower_decodes (k : Str) : pathUnescape (toLower (headerKeyEscape k)) = some (toLower k) := by
  induction k with
  | nil => simp [headerKeyEscape, toLower, pathUnescape]
  | cons b k ih =>
    by_cases h : shouldEscape b = true
    · have ⟨_, _, _, h4, h5, h6, _⟩ := hex_roundtrip b
      have hb := (escape_byte_facts b).2 h
      have h37 : lowerByte 37 = 37 := by decide
      simp only [toLower] at ih
      simp [headerKeyEscape, h, toLower, h37, pathUnescape_pct, h4, h5, h6, ih, hb]
    · have h' : shouldEscape b = false := by simpa using h
      have := ((escape_byte_facts b).1 h').2.1
      simp only [toLower] at ih
      simp [headerKeyEscape, h', toLower, pathUnescape_cons_ne _ this, ih]

/-! ## CanonicalMIMEHeaderKey -/

theorem toLower_canonLoop (u : Bool) (s : Str) : toLower (canonLoop u s) = toLower s := by
  induction s generalizing u with
  | nil => simp [canonLoop, toLower]
  | cons c s ih =>
    have := (conv_facts c u).2.1
    simp only [toLower] at ih
    simp [canonLoop_cons, toLower, this, ih]

theorem canonLoop_toLower (u : Bool) (s : Str) : canonLoop u (toLower s) = canonLoop u s := by
  induction s generalizing u with
  | nil => simp [canonLoop, toLower]
  | cons c s ih =>
    have := (conv_facts c u).2.2.1
    simp only [toLower] at ih
    simp [canonLoop_cons, toLower, this, ih]

theorem canonLoop_token (u : Bool) (s : Str) (h : s.all isTokenByte = true) : (canonLoop u s).all isTokenByte = true := by
  induction s generalizing u with
  | nil => simp [canonLoop]
  | cons c s ih =>
    simp only [List.all_cons, Bool.and_eq_true] at h
    have := (conv_facts c u).2.2.2.1 h.1
    simp [canonLoop_cons, this, ih _ h.2]

theorem canonLoop_idem (u : Bool) (s : Str) : canonLoop u (canonLoop u s) = canonLoop u s := by
  induction s generalizing u with
  | nil => simp [canonLoop]
  | cons c s ih =>
    have := (conv_facts c u).1
    simp [canonLoop_cons, this, ih]

theorem toLower_token (s : Str) (h : s.all isTokenByte = true) : (toLower s).all isTokenByte = true := by
  induction s with
  | nil => simp [toLower]
  | cons c s ih =>
    simp only [List.all_cons, Bool.and_eq_true] at h
    have := (conv_facts c true).2.2.2.2 h.1
    simp only [toLower] at ih
    simp [toLower, this, ih h.2]

/-- `CanonicalMIMEHeaderKey` is idempotent -/
theorem canonicalKey_idem (s : Str) : canonicalKey (canonicalKey s) = canonicalKey s := by
  by_cases h : s.all isTokenByte = true
  · simp [canonicalKey, h, canonLoop_token true s h, canonLoop_idem]
  · simp [canonicalKey, h]

theorem toLower_canonicalKey (s : Str) : toLower (canonicalKey s) = toLower s := by
  by_cases h : s.all isTokenByte = true
  · simp [canonicalKey, h, toLower_canonLoop]
  · simp [canonicalKey, h]

/-- on names the server accepts, the canonical key depends on the name only up to ASCII case -/
theorem canonicalKey_eq_iff (n m : Str) (hn : n.all isTokenByte = true) (hm : m.all isTokenByte = true) :
    canonicalKey n = canonicalKey m ↔ toLower n = toLower m := by
  constructor
  · intro h
    have := congrArg toLower h
    simpa [toLower_canonicalKey] using this
  · intro h
    simp only [canonicalKey, hn, hm, if_true]
    rw [← canonLoop_toLower true n, ← canonLoop_toLower true m, h]

/-! ## header multimaps -/

theorem values_append (a b : Headers) (k : Str) : values (a ++ b) k = values a k ++ values b k := by
  induction a with
  | nil => simp [values]
  | cons e a ih =>
    obtain ⟨n, vs⟩ := e
    by_cases h : n = k <;> simp [values, h, ih]

theorem values_nil_of_forall (h : Headers) (k : Str) (hk : ∀ e ∈ h, e.1 ≠ k) : values h k = [] := by
  induction h with
  | nil => simp [values]
  | cons e a ih =>
    obtain ⟨n, vs⟩ := e
    have h1 : n ≠ k := hk (n, vs) (by simp)
    have h2 : ∀ e ∈ a, e.1 ≠ k := fun e he => hk e (by simp [he])
    simp [values, h1, ih h2]

theorem values_filter_keep (h : Headers) (p : Str × List Str → Bool) (k : Str)
    (hp : ∀ e ∈ h, e.1 = k → p e = true) : values (h.filter p) k = values h k := by
  induction h with
  | nil => simp [values]
  | cons e a ih =>
    obtain ⟨n, vs⟩ := e
    have h2 : ∀ e ∈ a, e.1 = k → p e = true := fun e he => hp e (by simp [he])
    by_cases hn : n = k
    · subst hn
      have := hp (n, vs) (by simp) rfl
      simp [List.filter_cons, this, values, ih h2]
    · by_cases hpe : p (n, vs) = true
      · simp [List.filter_cons, hpe, values, hn, ih h2]
      · simp [List.filter_cons, hpe, values, hn, ih h2]

theorem values_del_ne (h : Headers) (k k' : Str) (hne : k ≠ k') : values (hdel h k') k = values h k := by
  apply values_filter_keep
  intro e _ he
  simp [he, hne]

theorem values_del_self (h : Headers) (k : Str) : values (hdel h k) k = [] := by
  apply values_nil_of_forall
  intro e he
  simp [hdel] at he
  exact he.2

theorem get_nil_of_values {h : Headers} {k : Str} (hv : values h k = []) : hget h k = [] := by
  simp [hget, hv]

/-! ## the writers of WrapRequest in closed form -/

theorem canonicalKey_hImpUser : canonicalKey hImpUser = hImpUser := by decide
theorem canonicalKey_hImpGroup : canonicalKey hImpGroup = hImpGroup := by decide
theorem canonicalKey_hAuthorization : canonicalKey hAuthorization = hAuthorization := by decide

theorem addGroups_eq (h : Headers) (gs : List Str) :
    addGroups h gs = h ++ gs.map (fun g => (hImpGroup, [g])) := by
  induction gs generalizing h with
  | nil => simp [addGroups]
  | cons g gs ih => simp [addGroups, ih, hadd, canonicalKey_hImpGroup]

theorem addValues_eq (h : Headers) (n : Str) (vs : List Str) :
    addValues h n vs = h ++ vs.map (fun v => (canonicalKey n, [v])) := by
  induction vs generalizing h with
  | nil => simp [addValues]
  | cons v vs ih => simp [addValues, ih, hadd]

theorem addExtras_eq (h : Headers) (es : List (Str × List Str)) :
    addExtras h es = h ++ es.flatMap (fun e => e.2.map (fun v => (canonicalKey (hImpExtraPrefix ++ headerKeyEscape e.1), [v]))) := by
  induction es generalizing h with
  | nil => simp [addExtras]
  | cons e es ih =>
    obtain ⟨k, vv⟩ := e
    simp [addExtras, ih, addValues_eq]

/-- the entries `WrapRequest` writes for a context user -/
def gwEntries (u : Identity) : Headers :=
  [(hImpUser, [u.name])] ++ u.groups.map (fun g => (hImpGroup, [g])) ++
  u.extra.flatMap (fun e => e.2.map (fun v => (canonicalKey (hImpExtraPrefix ++ headerKeyEscape e.1), [v])))

theorem wrapRequest_eq (h : Headers) (u : Identity) (hu : hget h hImpUser = []) :
    wrapRequest h u = hdel (delImpersonate h) hImpUser ++ gwEntries u := by
  simp [wrapRequest, hu, hset, canonicalKey_hImpUser, addGroups_eq, addExtras_eq, gwEntries]

/-- the name under which an extra key travels -/
theorem extraName_eq (k : Str) :
    canonicalKey (hImpExtraPrefix ++ headerKeyEscape k) = hImpExtraPrefix ++ canonLoop true (headerKeyEscape k) := by
  have h1 : hImpExtraPrefix.all isTokenByte = true := by decide
  have h2 := escape_token k
  have : (hImpExtraPrefix ++ headerKeyEscape k).all isTokenByte = true := by simp [List.all_append, h1, h2]
  simp only [canonicalKey, this, if_true]
  rfl

theorem sendOver_eq (up : Bool) (h : Headers) :
    sendOver up h = h.map (fun e => (canonicalKey e.1, e.2.map (carried up))) := by
  cases up <;> simp [sendOver, wire, writeUpgrade, carried, List.map_map, Function.comp_def]

theorem sendOver_append (up : Bool) (a b : Headers) : sendOver up (a ++ b) = sendOver up a ++ sendOver up b := by
  simp [sendOver_eq]

theorem values_send_nil (up : Bool) (h : Headers) (n : Str) (hn : ∀ e ∈ h, canonicalKey e.1 ≠ n) :
    values (sendOver up h) n = [] := by
  apply values_nil_of_forall
  intro e he
  simp [sendOver_eq] at he
  obtain ⟨a, b, hab, rfl⟩ := he
  exact hn (a, b) hab

/-! ## what arrives at the upstream -/

/-- the gateway's impersonation entries with the names as `gatewayHeaders` (the specification) writes them -/
def gwSpecEntries (u : Identity) : Headers :=
  [(hImpUser, [u.name])] ++ u.groups.map (fun g => (hImpGroup, [g])) ++
  u.extra.flatMap (fun e => e.2.map (fun v => (hImpExtraPrefix ++ headerKeyEscape e.1, [v])))

theorem gatewayHeaders_eq (token : Str) (up : Bool) (u : Identity) :
    gatewayHeaders token up u = (if up then [] else [(hAuthorization, [bearerPrefix ++ token])]) ++ gwSpecEntries u := by
  simp [gatewayHeaders, gwSpecEntries, List.append_assoc]

theorem send_gwEntries (up : Bool) (u : Identity) : sendOver up (gwEntries u) = sendOver up (gwSpecEntries u) := by
  simp [sendOver_eq, gwEntries, gwSpecEntries, List.map_append, List.map_flatMap, List.map_map, Function.comp_def,
    canonicalKey_idem]

theorem hasPrefix_iff (s p : Str) : hasPrefix s p = true ↔ ∃ t, s = p ++ t := by
  induction p generalizing s with
  | nil => cases s <;> simp [hasPrefix]
  | cons b p ih =>
    cases s with
    | nil => simp [hasPrefix]
    | cons a s =>
      simp only [hasPrefix, Bool.and_eq_true, beq_iff_eq, ih, List.cons_append, List.cons.injEq]
      constructor
      · rintro ⟨rfl, t, rfl⟩; exact ⟨t, rfl, rfl⟩
      · rintro ⟨t, rfl, rfl⟩; exact ⟨rfl, t, rfl⟩

theorem hasPrefix_append (p t : Str) : hasPrefix (p ++ t) p = true := (hasPrefix_iff _ _).2 ⟨t, rfl⟩

theorem hasPrefix_trans {s p q : Str} (h1 : hasPrefix s p = true) (h2 : hasPrefix p q = true) : hasPrefix s q = true := by
  obtain ⟨t, rfl⟩ := (hasPrefix_iff _ _).1 h1
  obtain ⟨t', rfl⟩ := (hasPrefix_iff _ _).1 h2
  exact (hasPrefix_iff _ _).2 ⟨t' ++ t, by simp⟩

theorem extraPrefix_imp : hasPrefix hImpExtraPrefix hImpPrefix = true := by decide

/-- every entry the gateway writes carries a name of the `Impersonate-` family (also after the wire's canonicalisation) -/
theorem gwEntries_names (u : Identity) : ∀ e ∈ gwEntries u, hasPrefix (canonicalKey e.1) hImpPrefix = true := by
  intro e he
  simp only [gwEntries, List.mem_append, List.mem_cons, List.mem_map, List.mem_flatMap, List.not_mem_nil, or_false] at he
  rcases he with (rfl | ⟨g, _, rfl⟩) | ⟨x, _, v, _, rfl⟩
  · show hasPrefix (canonicalKey hImpUser) hImpPrefix = true
    decide
  · show hasPrefix (canonicalKey hImpGroup) hImpPrefix = true
    decide
  · show hasPrefix (canonicalKey (canonicalKey (hImpExtraPrefix ++ headerKeyEscape x.1))) hImpPrefix = true
    rw [canonicalKey_idem, extraName_eq]
    exact hasPrefix_trans (hasPrefix_append _ _) extraPrefix_imp

theorem authorization_not_imp : hasPrefix hAuthorization hImpPrefix = false := by decide

theorem values_send_gw_authorization (up : Bool) (u : Identity) :
    values (sendOver up (gwEntries u)) hAuthorization = [] := by
  apply values_send_nil
  intro e he h
  have := gwEntries_names u e he
  rw [h, authorization_not_imp] at this
  exact absurd this (by simp)

/-- **Provenance.** With a header set `h1` in which `Authorization` and `Impersonate-User` are gone and whose names
    are canonical, what arrives at the upstream under any identity bearing name is exactly what the gateway itself
    generates for the context user: nothing of `h1` arrives under such a name. -/
theorem wrap_values (token : Str) (up : Bool) (h1 : Headers) (u : Identity)
    (I1 : ∀ e ∈ h1, canonicalKey e.1 = e.1) (I2 : ∀ e ∈ h1, e.1 ≠ hAuthorization)
    (I3 : values h1 hImpUser = []) (n : Str) (hn : isIdentityName n = true) :
    values (sendOver up (wrapRequest (if up then h1 else bearerAuth token h1) u)) n =
      values (sendOver up (gatewayHeaders token up u)) n := by
  have hA : values h1 hAuthorization = [] := values_nil_of_forall _ _ I2
  have hb : bearerAuth token h1 = hdel h1 hAuthorization ++ [(hAuthorization, [bearerPrefix ++ token])] := by
    simp [bearerAuth, get_nil_of_values hA, hset, canonicalKey_hAuthorization]
  have hdelA : hdel h1 hAuthorization = h1 := by
    simp only [hdel, List.filter_eq_self]
    intro e he
    simpa using I2 e he
  rw [hdelA] at hb
  -- the context user's name is written by the gateway: no early return
  have hu2 : hget (if up then h1 else bearerAuth token h1) hImpUser = [] := by
    apply get_nil_of_values
    cases up
    · have : values [(hAuthorization, [bearerPrefix ++ token])] hImpUser = [] := by
        apply values_nil_of_forall; intro e he; simp at he; subst he
        show hAuthorization ≠ hImpUser
        decide
      simp [hb, values_append, I3, this]
    · simpa using I3
  rw [wrapRequest_eq _ _ hu2, sendOver_append, values_append, send_gwEntries, gatewayHeaders_eq, sendOver_append, values_append]
  -- what is left of the client's headers
  have hC : ∀ e ∈ hdel (delImpersonate (if up then h1 else bearerAuth token h1)) hImpUser,
      hasPrefix (canonicalKey e.1) hImpPrefix = false ∧ (e ∈ h1 ∨ (up = false ∧ e = (hAuthorization, [bearerPrefix ++ token]))) := by
    intro e he
    simp only [hdel, delImpersonate, List.mem_filter] at he
    obtain ⟨⟨hm, hp⟩, _⟩ := he
    refine ⟨by simpa using hp, ?_⟩
    cases up
    · simp only [Bool.false_eq_true, if_false, hb, List.mem_append, List.mem_singleton] at hm
      rcases hm with hm | hm
      · exact Or.inl hm
      · exact Or.inr ⟨rfl, hm⟩
    · exact Or.inl (by simpa using hm)
  simp only [isIdentityName, Bool.or_eq_true, beq_iff_eq] at hn
  rcases hn with rfl | hn
  · -- Authorization
    have hG : values (sendOver up (gwSpecEntries u)) hAuthorization = [] := by
      rw [← send_gwEntries]; exact values_send_gw_authorization up u
    rw [hG]
    cases up
    · -- plain path: the bearer wrapper's entry survives, nothing else carries that name
      have hsplit : hdel (delImpersonate (h1 ++ [(hAuthorization, [bearerPrefix ++ token])])) hImpUser =
          hdel (delImpersonate h1) hImpUser ++ [(hAuthorization, [bearerPrefix ++ token])] := by
        have h1' : (!hasPrefix (canonicalKey hAuthorization) hImpPrefix) = true := by decide
        have h2' : (!(hAuthorization == hImpUser)) = true := by decide
        simp [hdel, delImpersonate, List.filter_append, h1', h2']
      have hrest : values (sendOver false (hdel (delImpersonate h1) hImpUser)) hAuthorization = [] := by
        apply values_send_nil
        intro e he
        simp only [hdel, delImpersonate, List.mem_filter] at he
        rw [I1 e he.1.1]
        exact I2 e he.1.1
      simp only [Bool.false_eq_true, if_false, hb, hsplit, sendOver_append, values_append, hrest]
      simp [sendOver_eq, values, canonicalKey_hAuthorization]
    · have hrest : values (sendOver true (hdel (delImpersonate h1) hImpUser)) hAuthorization = [] := by
        apply values_send_nil
        intro e he
        simp only [hdel, delImpersonate, List.mem_filter] at he
        rw [I1 e he.1.1]
        exact I2 e he.1.1
      simp only [if_true, hrest]
      simp [sendOver_eq, values]
  · -- a name of the Impersonate- family
    have hrest : values (sendOver up (hdel (delImpersonate (if up then h1 else bearerAuth token h1)) hImpUser)) n = [] := by
      apply values_send_nil
      intro e he h
      have := (hC e he).1
      rw [h, hn] at this
      exact absurd this (by simp)
    have hauth : values (sendOver up (if up then [] else [(hAuthorization, [bearerPrefix ++ token])])) n = [] := by
      apply values_send_nil
      intro e he h
      cases up
      · simp at he; subst he
        rw [canonicalKey_hAuthorization] at h
        rw [← h, authorization_not_imp] at hn
        exact absurd hn (by simp)
      · simp at he
    rw [hrest, hauth]

/-! ## what the upstream decodes -/

/-- **The loss.** The key a kube-apiserver decodes from the header an extra key travels under is the key with its
    ASCII upper-case letters lower-cased. -/
theorem extra_key_decoded (k : Str) :
    unescapeExtraKey (toLower ((canonicalKey (hImpExtraPrefix ++ headerKeyEscape k)).drop hImpExtraPrefix.length)) = toLower k := by
  rw [extraName_eq, List.drop_left', toLower_canonLoop]
  · simp [unescapeExtraKey, escape_lower_decodes]
  · rfl

theorem toLower_id_of_noUpper (k : Str) (h : k.all (fun c => !isUpper c) = true) : toLower k = k := by
  induction k with
  | nil => simp [toLower]
  | cons c k ih =>
    simp only [List.all_cons, Bool.and_eq_true, Bool.not_eq_true'] at h
    simp only [toLower] at ih
    simp [toLower, lowerByte, h.1, ih (by simpa using h.2)]

theorem decodeExtras_append (a b : Headers) : decodeExtras (a ++ b) = decodeExtras a ++ decodeExtras b := by
  induction a with
  | nil => simp [decodeExtras]
  | cons e a ih =>
    obtain ⟨n, vs⟩ := e
    by_cases h : hasPrefix n hImpExtraPrefix = true <;> simp [decodeExtras, h, ih]

theorem decodeExtras_nil (h : Headers) (hp : ∀ e ∈ h, hasPrefix e.1 hImpExtraPrefix = false) : decodeExtras h = [] := by
  induction h with
  | nil => simp [decodeExtras]
  | cons e a ih =>
    obtain ⟨n, vs⟩ := e
    have h1 : hasPrefix n hImpExtraPrefix = false := hp (n, vs) (by simp)
    have h2 : ∀ e ∈ a, hasPrefix e.1 hImpExtraPrefix = false := fun e he => hp e (by simp [he])
    simp [decodeExtras, h1, ih h2]

theorem not_extraPrefix_of_not_imp {n : Str} (h : hasPrefix n hImpPrefix = false) : hasPrefix n hImpExtraPrefix = false := by
  cases h' : hasPrefix n hImpExtraPrefix with
  | false => rfl
  | true => rw [hasPrefix_trans h' extraPrefix_imp] at h; exact absurd h (by simp)

theorem values_flatMap_singletons (l : List (Str × List Str)) (f : Str → Str) (g : Str → Str) (k : Str) :
    values (l.flatMap (fun e => e.2.map (fun v => (f e.1, [g v])))) k = values (l.map (fun e => (f e.1, e.2.map g))) k := by
  induction l with
  | nil => simp [values]
  | cons e l ih =>
    obtain ⟨n, vs⟩ := e
    simp only [List.flatMap_cons, List.map_cons, values_append, ih]
    congr 1
    induction vs with
    | nil => by_cases h : f n = k <;> simp [values, h]
    | cons v vs ih2 =>
      by_cases h : f n = k
      · simp only [List.map_cons, values, h, if_true] at ih2 ⊢
        simp [ih2]
      · simp only [List.map_cons, values, h, if_false] at ih2 ⊢
        simpa using ih2

theorem decodeExtras_send_extras (up : Bool) (es : List (Str × List Str)) :
    decodeExtras (sendOver up (es.flatMap (fun e => e.2.map (fun v => (canonicalKey (hImpExtraPrefix ++ headerKeyEscape e.1), [v]))))) =
      es.flatMap (fun e => e.2.map (fun v => (toLower e.1, [carried up v]))) := by
  induction es with
  | nil => simp [sendOver_eq, decodeExtras]
  | cons e es ih =>
    obtain ⟨k, vs⟩ := e
    simp only [List.flatMap_cons, sendOver_append, decodeExtras_append, ih]
    congr 1
    induction vs with
    | nil => simp [sendOver_eq, decodeExtras]
    | cons v vs ih2 =>
      have hp : hasPrefix (canonicalKey (hImpExtraPrefix ++ headerKeyEscape k)) hImpExtraPrefix = true := by
        rw [extraName_eq]; exact hasPrefix_append _ _
      simp only [sendOver_eq, List.map_cons, decodeExtras, canonicalKey_idem, hp, if_true, extra_key_decoded] at ih2 ⊢
      rw [ih2]
      rfl

theorem values_send_const (up : Bool) (N : Str) (l : List Str) (n : Str) :
    values (sendOver up (l.map (fun g => (N, [g])))) n = if canonicalKey N = n then l.map (carried up) else [] := by
  induction l with
  | nil => simp [sendOver_eq, values]
  | cons g l ih =>
    simp only [sendOver_eq, List.map_cons, List.map_map] at ih ⊢
    by_cases h : canonicalKey N = n <;> simp [values, h] at ih ⊢ <;> exact ih

/-- **What is decoded.** Under the same conditions as `wrap_values`: the identity a kube-apiserver reconstructs from
    what arrives is the context user with every value as the wire carries it and every extra key lower-cased. -/
theorem decode_wrapped (token : Str) (up : Bool) (h1 : Headers) (u : Identity)
    (I1 : ∀ e ∈ h1, canonicalKey e.1 = e.1) (I2 : ∀ e ∈ h1, e.1 ≠ hAuthorization)
    (I3 : values h1 hImpUser = []) :
    let recv := sendOver up (wrapRequest (if up then h1 else bearerAuth token h1) u)
    values recv hImpUser = [carried up u.name] ∧ values recv hImpGroup = u.groups.map (carried up) ∧
    ∀ k, values (decodeExtras recv) k = values (u.extra.map (fun e => (toLower e.1, e.2.map (carried up)))) k := by
  intro recv
  have hextraNames : ∀ n, hasPrefix n hImpExtraPrefix = false →
      values (sendOver up (u.extra.flatMap (fun e => e.2.map (fun v => (hImpExtraPrefix ++ headerKeyEscape e.1, [v]))))) n = [] := by
    intro n hn
    apply values_send_nil
    intro e he h
    simp only [List.mem_flatMap, List.mem_map] at he
    obtain ⟨x, _, v, _, rfl⟩ := he
    have : hasPrefix (canonicalKey (hImpExtraPrefix ++ headerKeyEscape x.1)) hImpExtraPrefix = true := by
      rw [extraName_eq]; exact hasPrefix_append _ _
    rw [h, hn] at this
    exact absurd this (by simp)
  have hauth : ∀ n, n ≠ hAuthorization →
      values (sendOver up (if up then [] else [(hAuthorization, [bearerPrefix ++ token])])) n = [] := by
    intro n hn
    apply values_send_nil
    intro e he h
    cases up
    · simp at he; subst he; rw [canonicalKey_hAuthorization] at h; exact hn h.symm
    · simp at he
  refine ⟨?_, ?_, ?_⟩
  · show values recv hImpUser = _
    rw [wrap_values token up h1 u I1 I2 I3 hImpUser (by decide), gatewayHeaders_eq, sendOver_append, values_append,
      hauth _ (by decide)]
    simp only [gwSpecEntries, sendOver_append, values_append, hextraNames _ (by decide : hasPrefix hImpUser hImpExtraPrefix = false),
      values_send_const]
    have h1' : canonicalKey hImpGroup ≠ hImpUser := by decide
    simp [sendOver_eq, values, canonicalKey_hImpUser, h1']
  · show values recv hImpGroup = _
    rw [wrap_values token up h1 u I1 I2 I3 hImpGroup (by decide), gatewayHeaders_eq, sendOver_append, values_append,
      hauth _ (by decide)]
    simp only [gwSpecEntries, sendOver_append, values_append, hextraNames _ (by decide : hasPrefix hImpGroup hImpExtraPrefix = false),
      values_send_const]
    have h1' : canonicalKey hImpUser ≠ hImpGroup := by decide
    simp [sendOver_eq, values, canonicalKey_hImpGroup, h1']
  · intro k
    have hA : values h1 hAuthorization = [] := values_nil_of_forall _ _ I2
    have hu2 : hget (if up then h1 else bearerAuth token h1) hImpUser = [] := by
      apply get_nil_of_values
      cases up
      · have hb : bearerAuth token h1 = hdel h1 hAuthorization ++ [(hAuthorization, [bearerPrefix ++ token])] := by
          simp [bearerAuth, get_nil_of_values hA, hset, canonicalKey_hAuthorization]
        have : values [(hAuthorization, [bearerPrefix ++ token])] hImpUser = [] := by
          apply values_nil_of_forall; intro e he; simp at he; subst he
          show hAuthorization ≠ hImpUser
          decide
        simp [hb, values_append, this, values_del_ne _ _ _ (by decide : hImpUser ≠ hAuthorization), I3]
      · simpa using I3
    show values (decodeExtras (sendOver up (wrapRequest _ u))) k = _
    rw [wrapRequest_eq _ _ hu2, sendOver_append, decodeExtras_append]
    have hC : decodeExtras (sendOver up (hdel (delImpersonate (if up then h1 else bearerAuth token h1)) hImpUser)) = [] := by
      apply decodeExtras_nil
      intro e he
      simp only [sendOver_eq, List.mem_map] at he
      obtain ⟨x, hx, rfl⟩ := he
      simp only [hdel, delImpersonate, List.mem_filter] at hx
      exact not_extraPrefix_of_not_imp (by simpa using hx.1.2)
    rw [hC, List.nil_append]
    simp only [gwEntries, sendOver_append, decodeExtras_append, decodeExtras_send_extras]
    have h1' : decodeExtras (sendOver up [(hImpUser, [u.name])]) = [] := by
      apply decodeExtras_nil; intro e he; simp [sendOver_eq] at he; subst he
      show hasPrefix (canonicalKey hImpUser) hImpExtraPrefix = false
      decide
    have h2' : decodeExtras (sendOver up (u.groups.map (fun g => (hImpGroup, [g])))) = [] := by
      apply decodeExtras_nil; intro e he; simp [sendOver_eq] at he; obtain ⟨g, _, rfl⟩ := he
      show hasPrefix (canonicalKey hImpGroup) hImpExtraPrefix = false
      decide
    rw [h1', h2']
    simp [values_flatMap_singletons]

end KG.Lemmas.Identity
