import KG.Model.Identity
import KG.Spec.Identity
/-! Helper lemmas for C02 (identity propagation). -/
set_option linter.unusedSimpArgs false
namespace KG.Lemmas.Identity
open KG KG.Model.Identity KG.Spec.Identity

/-! ## every byte -/

theorem forall_u8 {P : UInt8 → Prop} (h : ∀ n : Fin 256, P (UInt8.ofNat n.val)) : ∀ c, P c := by
  intro c
  have := h ⟨c.toNat, c.toNat_lt⟩
  simpa using this

/-- the conversion applied to one byte by the canonicalisation loop -/
def conv (upper : Bool) (c : UInt8) : UInt8 :=
  if upper && isLower c then c - 32 else if !upper && isUpper c then c + 32 else c

theorem canonLoop_cons (u : Bool) (c : UInt8) (s : Str) :
    canonLoop u (c :: s) = conv u c :: canonLoop (conv u c == 45) s := by
  simp [canonLoop, conv]

set_option maxRecDepth 100000 in
theorem conv_facts : ∀ c : UInt8, ∀ u : Bool,
    conv u (conv u c) = conv u c ∧ lowerByte (conv u c) = lowerByte c ∧ conv u (lowerByte c) = conv u c ∧
    (isTokenByte c = true → isTokenByte (conv u c) = true) ∧ (isTokenByte c = true → isTokenByte (lowerByte c) = true) := by
  apply forall_u8; decide

set_option maxRecDepth 100000 in
theorem hex_roundtrip : ∀ b : UInt8, ishex (hexUpper (b / 16)) = true ∧ ishex (hexUpper (b % 16)) = true ∧
    unhex (hexUpper (b / 16)) * 16 + unhex (hexUpper (b % 16)) = b ∧
    ishex (lowerByte (hexUpper (b / 16))) = true ∧ ishex (lowerByte (hexUpper (b % 16))) = true ∧
    unhex (lowerByte (hexUpper (b / 16))) * 16 + unhex (lowerByte (hexUpper (b % 16))) = b ∧
    isTokenByte (hexUpper (b / 16)) = true ∧ isTokenByte (hexUpper (b % 16)) = true := by
  apply forall_u8; decide

set_option maxRecDepth 100000 in
theorem escape_byte_facts : ∀ b : UInt8,
    (shouldEscape b = false → (b == 37) = false ∧ (lowerByte b == 37) = false ∧ isTokenByte b = true ∧ lowerByte b = b) := by
  apply forall_u8; decide

set_option maxRecDepth 100000 in
/-- the regenerated set of escaped bytes is exactly: not a token byte of net/http, or '%', or an upper-case letter -/
theorem escaped_set : ∀ b : UInt8, shouldEscape b = (!isTokenByte b || b == 37 || isUpper b) := by
  apply forall_u8; decide

/-! ## url.PathUnescape -/

theorem pathUnescape_cons_ne {c : UInt8} (s : Str) (h : (c == 37) = false) :
    pathUnescape (c :: s) = (pathUnescape s).map (fun t => c :: t) := by
  match s with
  | [] => simp [pathUnescape, h]
  | [a] => simp [pathUnescape, h]
  | a :: b :: r => simp [pathUnescape, h]

theorem pathUnescape_pct (a b : UInt8) (r : Str) :
    pathUnescape (37 :: a :: b :: r) =
      if ishex a && ishex b then (pathUnescape r).map (fun t => (unhex a * 16 + unhex b) :: t) else none := by
  simp [pathUnescape]

theorem escape_roundtrip (k : Str) : pathUnescape (headerKeyEscape k) = some k := by
  induction k with
  | nil => simp [headerKeyEscape, pathUnescape]
  | cons b k ih =>
    by_cases h : shouldEscape b = true
    · have ⟨h1, h2, h3, _⟩ := hex_roundtrip b
      simp [headerKeyEscape, h, pathUnescape_pct, h1, h2, h3, ih]
    · have h' : shouldEscape b = false := by simpa using h
      have := (escape_byte_facts b h').1
      simp [headerKeyEscape, h', pathUnescape_cons_ne _ this, ih]

theorem escape_token (k : Str) : (headerKeyEscape k).all isTokenByte = true := by
  induction k with
  | nil => simp [headerKeyEscape]
  | cons b k ih =>
    by_cases h : shouldEscape b = true
    · have ⟨_, _, _, _, _, _, h7, h8⟩ := hex_roundtrip b
      have : isTokenByte 37 = true := by decide
      simp [headerKeyEscape, h, h7, h8, this, ih]
    · have h' : shouldEscape b = false := by simpa using h
      have := (escape_byte_facts b h').2.2.1
      simp [headerKeyEscape, h', this, ih]

/-- the lower-cased escaped key still decodes, to the key itself: every upper-case letter of the key is %-escaped, so
    `ToLower` only touches hexadecimal digits -/
theorem escape_lower_decodes (k : Str) : pathUnescape (toLower (headerKeyEscape k)) = some k := by
  induction k with
  | nil => simp [headerKeyEscape, toLower, pathUnescape]
  | cons b k ih =>
    by_cases h : shouldEscape b = true
    · have ⟨_, _, _, h4, h5, h6, _⟩ := hex_roundtrip b
      have h37 : lowerByte 37 = 37 := by decide
      simp only [toLower] at ih
      simp [headerKeyEscape, h, toLower, h37, pathUnescape_pct, h4, h5, h6, ih]
    · have h' : shouldEscape b = false := by simpa using h
      have hf := escape_byte_facts b h'
      have h1 := hf.2.1
      have h2 := hf.2.2.2
      simp only [toLower] at ih
      rw [h2] at h1
      simp [headerKeyEscape, h', toLower, h2, pathUnescape_cons_ne _ h1, ih]

/-! ## CanonicalMIMEHeaderKey -/

theorem toLower_canonLoop (u : Bool) (s : Str) : toLower (canonLoop u s) = toLower s := by
  induction s generalizing u with
  | nil => simp [canonLoop, toLower]
  | cons c s ih =>
    have := (conv_facts c u).2.1
    simp only [toLower] at ih
    simp [canonLoop_cons, toLower, this, ih]

theorem canonLoop_toLower (u : Bool) (s : Str) : canonLoop u (toLower s) = canonLoop u s := by
  induction s generalizing u with
  | nil => simp [canonLoop, toLower]
  | cons c s ih =>
    have := (conv_facts c u).2.2.1
    simp only [toLower] at ih
    simp [canonLoop_cons, toLower, this, ih]

theorem canonLoop_token (u : Bool) (s : Str) (h : s.all isTokenByte = true) : (canonLoop u s).all isTokenByte = true := by
  induction s generalizing u with
  | nil => simp [canonLoop]
  | cons c s ih =>
    simp only [List.all_cons, Bool.and_eq_true] at h
    have := (conv_facts c u).2.2.2.1 h.1
    simp [canonLoop_cons, this, ih _ h.2]

theorem canonLoop_idem (u : Bool) (s : Str) : canonLoop u (canonLoop u s) = canonLoop u s := by
  induction s generalizing u with
  | nil => simp [canonLoop]
  | cons c s ih =>
    have := (conv_facts c u).1
    simp [canonLoop_cons, this, ih]

theorem toLower_token (s : Str) (h : s.all isTokenByte = true) : (toLower s).all isTokenByte = true := by
  induction s with
  | nil => simp [toLower]
  | cons c s ih =>
    simp only [List.all_cons, Bool.and_eq_true] at h
    have := (conv_facts c true).2.2.2.2 h.1
    simp only [toLower] at ih
    simp [toLower, this, ih h.2]

/-- `CanonicalMIMEHeaderKey` is idempotent -/
theorem canonicalKey_idem (s : Str) : canonicalKey (canonicalKey s) = canonicalKey s := by
  by_cases h : s.all isTokenByte = true
  · simp [canonicalKey, h, canonLoop_token true s h, canonLoop_idem]
  · simp [canonicalKey, h]

theorem toLower_canonicalKey (s : Str) : toLower (canonicalKey s) = toLower s := by
  by_cases h : s.all isTokenByte = true
  · simp [canonicalKey, h, toLower_canonLoop]
  · simp [canonicalKey, h]

/-- on names the server accepts, the canonical key depends on the name only up to ASCII case -/
theorem canonicalKey_eq_iff (n m : Str) (hn : n.all isTokenByte = true) (hm : m.all isTokenByte = true) :
    canonicalKey n = canonicalKey m ↔ toLower n = toLower m := by
  constructor
  · intro h
    have := congrArg toLower h
    simpa [toLower_canonicalKey] using this
  · intro h
    simp only [canonicalKey, hn, hm, if_true]
    rw [← canonLoop_toLower true n, ← canonLoop_toLower true m, h]

/-! ## header multimaps -/

theorem values_append (a b : Headers) (k : Str) : values (a ++ b) k = values a k ++ values b k := by
  induction a with
  | nil => simp [values]
  | cons e a ih =>
    obtain ⟨n, vs⟩ := e
    by_cases h : n = k <;> simp [values, h, ih]

theorem values_nil_of_forall (h : Headers) (k : Str) (hk : ∀ e ∈ h, e.1 ≠ k) : values h k = [] := by
  induction h with
  | nil => simp [values]
  | cons e a ih =>
    obtain ⟨n, vs⟩ := e
    have h1 : n ≠ k := hk (n, vs) (by simp)
    have h2 : ∀ e ∈ a, e.1 ≠ k := fun e he => hk e (by simp [he])
    simp [values, h1, ih h2]

theorem values_filter_keep (h : Headers) (p : Str × List Str → Bool) (k : Str)
    (hp : ∀ e ∈ h, e.1 = k → p e = true) : values (h.filter p) k = values h k := by
  induction h with
  | nil => simp [values]
  | cons e a ih =>
    obtain ⟨n, vs⟩ := e
    have h2 : ∀ e ∈ a, e.1 = k → p e = true := fun e he => hp e (by simp [he])
    by_cases hn : n = k
    · subst hn
      have := hp (n, vs) (by simp) rfl
      simp [List.filter_cons, this, values, ih h2]
    · by_cases hpe : p (n, vs) = true
      · simp [List.filter_cons, hpe, values, hn, ih h2]
      · simp [List.filter_cons, hpe, values, hn, ih h2]

theorem values_del_ne (h : Headers) (k k' : Str) (hne : k ≠ k') : values (hdel h k') k = values h k := by
  apply values_filter_keep
  intro e _ he
  simp [he, hne]

theorem values_del_self (h : Headers) (k : Str) : values (hdel h k) k = [] := by
  apply values_nil_of_forall
  intro e he
  simp [hdel] at he
  exact he.2

theorem get_nil_of_values {h : Headers} {k : Str} (hv : values h k = []) : hget h k = [] := by
  simp [hget, hv]

/-! ## the writers of WrapRequest in closed form -/

theorem canonicalKey_hImpUser : canonicalKey hImpUser = hImpUser := by decide
theorem canonicalKey_hImpGroup : canonicalKey hImpGroup = hImpGroup := by decide
theorem canonicalKey_hAuthorization : canonicalKey hAuthorization = hAuthorization := by decide

theorem addGroups_eq (h : Headers) (gs : List Str) :
    addGroups h gs = h ++ gs.map (fun g => (hImpGroup, [g])) := by
  induction gs generalizing h with
  | nil => simp [addGroups]
  | cons g gs ih => simp [addGroups, ih, hadd, canonicalKey_hImpGroup]

theorem addValues_eq (h : Headers) (n : Str) (vs : List Str) :
    addValues h n vs = h ++ vs.map (fun v => (canonicalKey n, [v])) := by
  induction vs generalizing h with
  | nil => simp [addValues]
  | cons v vs ih => simp [addValues, ih, hadd]

theorem addExtras_eq (h : Headers) (es : List (Str × List Str)) :
    addExtras h es = h ++ es.flatMap (fun e => e.2.map (fun v => (canonicalKey (hImpExtraPrefix ++ headerKeyEscape e.1), [v]))) := by
  induction es generalizing h with
  | nil => simp [addExtras]
  | cons e es ih =>
    obtain ⟨k, vv⟩ := e
    simp [addExtras, ih, addValues_eq]

/-- the entries `WrapRequest` writes for a context user -/
def gwEntries (u : Identity) : Headers :=
  [(hImpUser, [u.name])] ++ u.groups.map (fun g => (hImpGroup, [g])) ++
  u.extra.flatMap (fun e => e.2.map (fun v => (canonicalKey (hImpExtraPrefix ++ headerKeyEscape e.1), [v])))

/-- what `WrapRequest` deletes (regenerated) is the whole family the property speaks of -/
theorem wrap_prefix : hWrapDeletePrefix = hImpPrefix := by decide

theorem delImpersonate_eq (h : Headers) :
    delImpersonate h = h.filter (fun e => !hasPrefix (canonicalKey e.1) hImpPrefix) := by
  simp only [delImpersonate, wrap_prefix]

theorem wrapHeaders_eq (h : Headers) (u : Identity) (hu : hget h hImpUser = []) :
    wrapHeaders h u = hdel (delImpersonate h) hImpUser ++ gwEntries u := by
  simp [wrapHeaders, hu, hset, canonicalKey_hImpUser, addGroups_eq, addExtras_eq, gwEntries]

/-- the name under which an extra key travels -/
theorem extraName_eq (k : Str) :
    canonicalKey (hImpExtraPrefix ++ headerKeyEscape k) = hImpExtraPrefix ++ canonLoop true (headerKeyEscape k) := by
  have h1 : hImpExtraPrefix.all isTokenByte = true := by decide
  have h2 := escape_token k
  have : (hImpExtraPrefix ++ headerKeyEscape k).all isTokenByte = true := by simp [List.all_append, h1, h2]
  simp only [canonicalKey, this, if_true]
  rfl

theorem sendOver_eq (up : Bool) (h : Headers) :
    sendOver up h = h.map (fun e => (canonicalKey e.1, e.2.map (carried up))) := by
  cases up <;> simp [sendOver, wire, writeUpgrade, carried, List.map_map, Function.comp_def]

theorem sendOver_append (up : Bool) (a b : Headers) : sendOver up (a ++ b) = sendOver up a ++ sendOver up b := by
  simp [sendOver_eq]

theorem values_send_nil (up : Bool) (h : Headers) (n : Str) (hn : ∀ e ∈ h, canonicalKey e.1 ≠ n) :
    values (sendOver up h) n = [] := by
  apply values_nil_of_forall
  intro e he
  simp [sendOver_eq] at he
  obtain ⟨a, b, hab, rfl⟩ := he
  exact hn (a, b) hab

/-! ## what arrives at the upstream -/

/-- the gateway's impersonation entries with the names as `gatewayHeaders` (the specification) writes them -/
def gwSpecEntries (u : Identity) : Headers :=
  [(hImpUser, [u.name])] ++ u.groups.map (fun g => (hImpGroup, [g])) ++
  u.extra.flatMap (fun e => e.2.map (fun v => (hImpExtraPrefix ++ headerKeyEscape e.1, [v])))

theorem gatewayHeaders_eq (token : Str) (up : Bool) (u : Identity) :
    gatewayHeaders token up u = (if up then [] else [(hAuthorization, [bearerPrefix ++ token])]) ++ gwSpecEntries u := by
  simp [gatewayHeaders, gwSpecEntries, List.append_assoc]

theorem send_gwEntries (up : Bool) (u : Identity) : sendOver up (gwEntries u) = sendOver up (gwSpecEntries u) := by
  simp [sendOver_eq, gwEntries, gwSpecEntries, List.map_append, List.map_flatMap, List.map_map, Function.comp_def,
    canonicalKey_idem]

theorem hasPrefix_iff (s p : Str) : hasPrefix s p = true ↔ ∃ t, s = p ++ t := by
  induction p generalizing s with
  | nil => cases s <;> simp [hasPrefix]
  | cons b p ih =>
    cases s with
    | nil => simp [hasPrefix]
    | cons a s =>
      simp only [hasPrefix, Bool.and_eq_true, beq_iff_eq, ih, List.cons_append, List.cons.injEq]
      constructor
      · rintro ⟨rfl, t, rfl⟩; exact ⟨t, rfl, rfl⟩
      · rintro ⟨t, rfl, rfl⟩; exact ⟨rfl, t, rfl⟩

theorem hasPrefix_append (p t : Str) : hasPrefix (p ++ t) p = true := (hasPrefix_iff _ _).2 ⟨t, rfl⟩

theorem hasPrefix_trans {s p q : Str} (h1 : hasPrefix s p = true) (h2 : hasPrefix p q = true) : hasPrefix s q = true := by
  obtain ⟨t, rfl⟩ := (hasPrefix_iff _ _).1 h1
  obtain ⟨t', rfl⟩ := (hasPrefix_iff _ _).1 h2
  exact (hasPrefix_iff _ _).2 ⟨t' ++ t, by simp⟩

theorem extraPrefix_imp : hasPrefix hImpExtraPrefix hImpPrefix = true := by decide

/-- every entry the gateway writes carries a name of the `Impersonate-` family (also after the wire's canonicalisation) -/
theorem gwEntries_names (u : Identity) : ∀ e ∈ gwEntries u, hasPrefix (canonicalKey e.1) hImpPrefix = true := by
  intro e he
  simp only [gwEntries, List.mem_append, List.mem_cons, List.mem_map, List.mem_flatMap, List.not_mem_nil, or_false] at he
  rcases he with (rfl | ⟨g, _, rfl⟩) | ⟨x, _, v, _, rfl⟩
  · show hasPrefix (canonicalKey hImpUser) hImpPrefix = true
    decide
  · show hasPrefix (canonicalKey hImpGroup) hImpPrefix = true
    decide
  · show hasPrefix (canonicalKey (canonicalKey (hImpExtraPrefix ++ headerKeyEscape x.1))) hImpPrefix = true
    rw [canonicalKey_idem, extraName_eq]
    exact hasPrefix_trans (hasPrefix_append _ _) extraPrefix_imp

theorem authorization_not_imp : hasPrefix hAuthorization hImpPrefix = false := by decide

theorem values_send_gw_authorization (up : Bool) (u : Identity) :
    values (sendOver up (gwEntries u)) hAuthorization = [] := by
  apply values_send_nil
  intro e he h
  have := gwEntries_names u e he
  rw [h, authorization_not_imp] at this
  exact absurd this (by simp)

/-- **Provenance.** With a header set `h1` in which `Authorization` and `Impersonate-User` are gone and whose names
    are canonical, what arrives at the upstream under any identity bearing name is exactly what the gateway itself
    generates for the context user: nothing of `h1` arrives under such a name. -/
theorem wrap_values (token : Str) (up : Bool) (h1 : Headers) (u : Identity)
    (I1 : ∀ e ∈ h1, canonicalKey e.1 = e.1) (I2 : ∀ e ∈ h1, e.1 ≠ hAuthorization)
    (I3 : hget h1 hImpUser = []) (n : Str) (hn : isIdentityName n = true) :
    values (sendOver up (wrapHeaders (if up then h1 else bearerAuth token h1) u)) n =
      values (sendOver up (gatewayHeaders token up u)) n := by
  have hA : values h1 hAuthorization = [] := values_nil_of_forall _ _ I2
  have hb : bearerAuth token h1 = hdel h1 hAuthorization ++ [(hAuthorization, [bearerPrefix ++ token])] := by
    simp [bearerAuth, get_nil_of_values hA, hset, canonicalKey_hAuthorization]
  have hdelA : hdel h1 hAuthorization = h1 := by
    simp only [hdel, List.filter_eq_self]
    intro e he
    simpa using I2 e he
  rw [hdelA] at hb
  -- the context user's name is written by the gateway: no early return
  have hu2 : hget (if up then h1 else bearerAuth token h1) hImpUser = [] := by
    cases up
    · have : values [(hAuthorization, [bearerPrefix ++ token])] hImpUser = [] := by
        apply values_nil_of_forall; intro e he; simp at he; subst he
        show hAuthorization ≠ hImpUser
        decide
      simpa [hget, hb, values_append, this] using I3
    · simpa using I3
  rw [wrapHeaders_eq _ _ hu2, sendOver_append, values_append, send_gwEntries, gatewayHeaders_eq, sendOver_append, values_append]
  -- what is left of the client's headers
  have hC : ∀ e ∈ hdel (delImpersonate (if up then h1 else bearerAuth token h1)) hImpUser,
      hasPrefix (canonicalKey e.1) hImpPrefix = false ∧ (e ∈ h1 ∨ (up = false ∧ e = (hAuthorization, [bearerPrefix ++ token]))) := by
    intro e he
    simp only [hdel, delImpersonate_eq, List.mem_filter] at he
    obtain ⟨⟨hm, hp⟩, _⟩ := he
    refine ⟨by simpa using hp, ?_⟩
    cases up
    · simp only [Bool.false_eq_true, if_false, hb, List.mem_append, List.mem_singleton] at hm
      rcases hm with hm | hm
      · exact Or.inl hm
      · exact Or.inr ⟨rfl, hm⟩
    · exact Or.inl (by simpa using hm)
  simp only [isIdentityName, Bool.or_eq_true, beq_iff_eq] at hn
  rcases hn with rfl | hn
  · -- Authorization
    have hG : values (sendOver up (gwSpecEntries u)) hAuthorization = [] := by
      rw [← send_gwEntries]; exact values_send_gw_authorization up u
    rw [hG]
    cases up
    · -- plain path: the bearer wrapper's entry survives, nothing else carries that name
      have hsplit : hdel (delImpersonate (h1 ++ [(hAuthorization, [bearerPrefix ++ token])])) hImpUser =
          hdel (delImpersonate h1) hImpUser ++ [(hAuthorization, [bearerPrefix ++ token])] := by
        have h1' : (!hasPrefix (canonicalKey hAuthorization) hImpPrefix) = true := by decide
        have h2' : (!(hAuthorization == hImpUser)) = true := by decide
        simp [hdel, delImpersonate_eq, List.filter_append, h1', h2']
      have hrest : values (sendOver false (hdel (delImpersonate h1) hImpUser)) hAuthorization = [] := by
        apply values_send_nil
        intro e he
        simp only [hdel, delImpersonate_eq, List.mem_filter] at he
        rw [I1 e he.1.1]
        exact I2 e he.1.1
      simp only [Bool.false_eq_true, if_false, hb, hsplit, sendOver_append, values_append, hrest]
      simp [sendOver_eq, values, canonicalKey_hAuthorization]
    · have hrest : values (sendOver true (hdel (delImpersonate h1) hImpUser)) hAuthorization = [] := by
        apply values_send_nil
        intro e he
        simp only [hdel, delImpersonate_eq, List.mem_filter] at he
        rw [I1 e he.1.1]
        exact I2 e he.1.1
      simp only [if_true, hrest]
      simp [sendOver_eq, values]
  · -- a name of the Impersonate- family
    have hrest : values (sendOver up (hdel (delImpersonate (if up then h1 else bearerAuth token h1)) hImpUser)) n = [] := by
      apply values_send_nil
      intro e he h
      have := (hC e he).1
      rw [h, hn] at this
      exact absurd this (by simp)
    have hauth : values (sendOver up (if up then [] else [(hAuthorization, [bearerPrefix ++ token])])) n = [] := by
      apply values_send_nil
      intro e he h
      cases up
      · simp at he; subst he
        rw [canonicalKey_hAuthorization] at h
        rw [← h, authorization_not_imp] at hn
        exact absurd hn (by simp)
      · simp at he
    rw [hrest, hauth]

/-! ## what the upstream decodes -/

/-- The key a kube-apiserver decodes from the header an extra key travels under is the key itself, for every byte string. -/
theorem extra_key_decoded (k : Str) :
    unescapeExtraKey (toLower ((canonicalKey (hImpExtraPrefix ++ headerKeyEscape k)).drop hImpExtraPrefix.length)) = k := by
  rw [extraName_eq, List.drop_left', toLower_canonLoop]
  · simp [unescapeExtraKey, escape_lower_decodes]
  · rfl

theorem toLower_id_of_noUpper (k : Str) (h : k.all (fun c => !isUpper c) = true) : toLower k = k := by
  induction k with
  | nil => simp [toLower]
  | cons c k ih =>
    simp only [List.all_cons, Bool.and_eq_true, Bool.not_eq_true'] at h
    simp only [toLower] at ih
    simp [toLower, lowerByte, h.1, ih (by simpa using h.2)]

theorem decodeExtras_append (a b : Headers) : decodeExtras (a ++ b) = decodeExtras a ++ decodeExtras b := by
  induction a with
  | nil => simp [decodeExtras]
  | cons e a ih =>
    obtain ⟨n, vs⟩ := e
    by_cases h : hasPrefix n hImpExtraPrefix = true <;> simp [decodeExtras, h, ih]

theorem decodeExtras_nil (h : Headers) (hp : ∀ e ∈ h, hasPrefix e.1 hImpExtraPrefix = false) : decodeExtras h = [] := by
  induction h with
  | nil => simp [decodeExtras]
  | cons e a ih =>
    obtain ⟨n, vs⟩ := e
    have h1 : hasPrefix n hImpExtraPrefix = false := hp (n, vs) (by simp)
    have h2 : ∀ e ∈ a, hasPrefix e.1 hImpExtraPrefix = false := fun e he => hp e (by simp [he])
    simp [decodeExtras, h1, ih h2]

theorem not_extraPrefix_of_not_imp {n : Str} (h : hasPrefix n hImpPrefix = false) : hasPrefix n hImpExtraPrefix = false := by
  cases h' : hasPrefix n hImpExtraPrefix with
  | false => rfl
  | true => rw [hasPrefix_trans h' extraPrefix_imp] at h; exact absurd h (by simp)

theorem values_flatMap_singletons (l : List (Str × List Str)) (f : Str → Str) (g : Str → Str) (k : Str) :
    values (l.flatMap (fun e => e.2.map (fun v => (f e.1, [g v])))) k = values (l.map (fun e => (f e.1, e.2.map g))) k := by
  induction l with
  | nil => simp [values]
  | cons e l ih =>
    obtain ⟨n, vs⟩ := e
    simp only [List.flatMap_cons, List.map_cons, values_append, ih]
    congr 1
    induction vs with
    | nil => by_cases h : f n = k <;> simp [values, h]
    | cons v vs ih2 =>
      by_cases h : f n = k
      · simp only [List.map_cons, values, h, if_true] at ih2 ⊢
        simp [ih2]
      · simp only [List.map_cons, values, h, if_false] at ih2 ⊢
        simpa using ih2

theorem decodeExtras_send_extras (up : Bool) (es : List (Str × List Str)) :
    decodeExtras (sendOver up (es.flatMap (fun e => e.2.map (fun v => (canonicalKey (hImpExtraPrefix ++ headerKeyEscape e.1), [v]))))) =
      es.flatMap (fun e => e.2.map (fun v => (e.1, [carried up v]))) := by
  induction es with
  | nil => simp [sendOver_eq, decodeExtras]
  | cons e es ih =>
    obtain ⟨k, vs⟩ := e
    simp only [List.flatMap_cons, sendOver_append, decodeExtras_append, ih]
    congr 1
    induction vs with
    | nil => simp [sendOver_eq, decodeExtras]
    | cons v vs ih2 =>
      have hp : hasPrefix (canonicalKey (hImpExtraPrefix ++ headerKeyEscape k)) hImpExtraPrefix = true := by
        rw [extraName_eq]; exact hasPrefix_append _ _
      simp only [sendOver_eq, List.map_cons, decodeExtras, canonicalKey_idem, hp, if_true, extra_key_decoded] at ih2 ⊢
      rw [ih2]
      rfl

theorem values_send_const (up : Bool) (N : Str) (l : List Str) (n : Str) :
    values (sendOver up (l.map (fun g => (N, [g])))) n = if canonicalKey N = n then l.map (carried up) else [] := by
  induction l with
  | nil => simp [sendOver_eq, values]
  | cons g l ih =>
    simp only [sendOver_eq, List.map_cons, List.map_map] at ih ⊢
    by_cases h : canonicalKey N = n <;> simp [values, h] at ih ⊢ <;> exact ih

/-- **What is decoded.** Under the same conditions as `wrap_values`: the identity a kube-apiserver reconstructs from
    what arrives is the context user with every value as the wire carries it (names, groups, extra keys untouched). -/
theorem decode_wrapped (token : Str) (up : Bool) (h1 : Headers) (u : Identity)
    (I1 : ∀ e ∈ h1, canonicalKey e.1 = e.1) (I2 : ∀ e ∈ h1, e.1 ≠ hAuthorization)
    (I3 : hget h1 hImpUser = []) :
    let recv := sendOver up (wrapHeaders (if up then h1 else bearerAuth token h1) u)
    values recv hImpUser = [carried up u.name] ∧ values recv hImpGroup = u.groups.map (carried up) ∧
    ∀ k, values (decodeExtras recv) k = values (u.extra.map (fun e => (e.1, e.2.map (carried up)))) k := by
  intro recv
  have hextraNames : ∀ n, hasPrefix n hImpExtraPrefix = false →
      values (sendOver up (u.extra.flatMap (fun e => e.2.map (fun v => (hImpExtraPrefix ++ headerKeyEscape e.1, [v]))))) n = [] := by
    intro n hn
    apply values_send_nil
    intro e he h
    simp only [List.mem_flatMap, List.mem_map] at he
    obtain ⟨x, _, v, _, rfl⟩ := he
    have : hasPrefix (canonicalKey (hImpExtraPrefix ++ headerKeyEscape x.1)) hImpExtraPrefix = true := by
      rw [extraName_eq]; exact hasPrefix_append _ _
    rw [h, hn] at this
    exact absurd this (by simp)
  have hauth : ∀ n, n ≠ hAuthorization →
      values (sendOver up (if up then [] else [(hAuthorization, [bearerPrefix ++ token])])) n = [] := by
    intro n hn
    apply values_send_nil
    intro e he h
    cases up
    · simp at he; subst he; rw [canonicalKey_hAuthorization] at h; exact hn h.symm
    · simp at he
  refine ⟨?_, ?_, ?_⟩
  · show values recv hImpUser = _
    rw [wrap_values token up h1 u I1 I2 I3 hImpUser (by decide), gatewayHeaders_eq, sendOver_append, values_append,
      hauth _ (by decide)]
    simp only [gwSpecEntries, sendOver_append, values_append, hextraNames _ (by decide : hasPrefix hImpUser hImpExtraPrefix = false),
      values_send_const]
    have h1' : canonicalKey hImpGroup ≠ hImpUser := by decide
    simp [sendOver_eq, values, canonicalKey_hImpUser, h1']
  · show values recv hImpGroup = _
    rw [wrap_values token up h1 u I1 I2 I3 hImpGroup (by decide), gatewayHeaders_eq, sendOver_append, values_append,
      hauth _ (by decide)]
    simp only [gwSpecEntries, sendOver_append, values_append, hextraNames _ (by decide : hasPrefix hImpGroup hImpExtraPrefix = false),
      values_send_const]
    have h1' : canonicalKey hImpUser ≠ hImpGroup := by decide
    simp [sendOver_eq, values, canonicalKey_hImpGroup, h1']
  · intro k
    have hA : values h1 hAuthorization = [] := values_nil_of_forall _ _ I2
    have hu2 : hget (if up then h1 else bearerAuth token h1) hImpUser = [] := by
      cases up
      · have hb : bearerAuth token h1 = hdel h1 hAuthorization ++ [(hAuthorization, [bearerPrefix ++ token])] := by
          simp [bearerAuth, get_nil_of_values hA, hset, canonicalKey_hAuthorization]
        have : values [(hAuthorization, [bearerPrefix ++ token])] hImpUser = [] := by
          apply values_nil_of_forall; intro e he; simp at he; subst he
          show hAuthorization ≠ hImpUser
          decide
        simpa [hget, hb, values_append, this, values_del_ne _ _ _ (by decide : hImpUser ≠ hAuthorization)] using I3
      · simpa using I3
    show values (decodeExtras (sendOver up (wrapHeaders _ u))) k = _
    rw [wrapHeaders_eq _ _ hu2, sendOver_append, decodeExtras_append]
    have hC : decodeExtras (sendOver up (hdel (delImpersonate (if up then h1 else bearerAuth token h1)) hImpUser)) = [] := by
      apply decodeExtras_nil
      intro e he
      simp only [sendOver_eq, List.mem_map] at he
      obtain ⟨x, hx, rfl⟩ := he
      simp only [hdel, delImpersonate_eq, List.mem_filter] at hx
      exact not_extraPrefix_of_not_imp (by simpa using hx.1.2)
    rw [hC, List.nil_append]
    simp only [gwEntries, sendOver_append, decodeExtras_append, decodeExtras_send_extras]
    have h1' : decodeExtras (sendOver up [(hImpUser, [u.name])]) = [] := by
      apply decodeExtras_nil; intro e he; simp [sendOver_eq] at he; subst he
      show hasPrefix (canonicalKey hImpUser) hImpExtraPrefix = false
      decide
    have h2' : decodeExtras (sendOver up (u.groups.map (fun g => (hImpGroup, [g])))) = [] := by
      apply decodeExtras_nil; intro e he; simp [sendOver_eq] at he; obtain ⟨g, _, rfl⟩ := he
      show hasPrefix (canonicalKey hImpGroup) hImpExtraPrefix = false
      decide
    rw [h1', h2']
    simpa using values_flatMap_singletons u.extra id (carried up) k

/-! ## the impersonation filter against the specification on raw header lines -/

/-- the header map the server builds from accepted lines -/
def parsed (raw : List (Str × Str)) : Headers := raw.map fun l => (canonicalKey l.1, [trimOWS l.2])

def rawValid (raw : List (Str × Str)) : Bool := raw.all (fun l => validName l.1 && validValue l.2)

theorem parse_eq (raw : List (Str × Str)) : parse raw = if rawValid raw then some (parsed raw) else none := rfl

theorem rawValid_cons {l : Str × Str} {raw : List (Str × Str)} (h : rawValid (l :: raw) = true) :
    l.1.all isTokenByte = true ∧ rawValid raw = true := by
  simp only [rawValid, List.all_cons, Bool.and_eq_true] at h
  have h1 := h.1.1
  simp only [validName, Bool.and_eq_true] at h1
  exact ⟨h1.2, by simpa [rawValid] using h.2⟩

theorem canonicalKey_eq_const (n K : Str) (hn : n.all isTokenByte = true) (hK : K.all isTokenByte = true)
    (hKc : canonicalKey K = K) : canonicalKey n = K ↔ toLower n = toLower K := by
  have := canonicalKey_eq_iff n K hn hK
  rw [hKc] at this
  exact this

theorem values_parsed (raw : List (Str × Str)) (hv : rawValid raw = true) (K : Str) (hK : K.all isTokenByte = true)
    (hKc : canonicalKey K = K) : values (parsed raw) K = clientValues raw (toLower K) := by
  induction raw with
  | nil => simp [parsed, values, clientValues]
  | cons l raw ih =>
    obtain ⟨hn, hv'⟩ := rawValid_cons hv
    have ih' := ih hv'
    simp only [parsed, clientValues] at ih' ⊢
    by_cases h : canonicalKey l.1 = K
    · have h' := (canonicalKey_eq_const l.1 K hn hK hKc).1 h
      simp [values, h, List.filter_cons, h', ih']
    · have h' : ¬ toLower l.1 = toLower K := fun x => h ((canonicalKey_eq_const l.1 K hn hK hKc).2 x)
      simp [values, h, List.filter_cons, h', ih']

theorem toLower_append (a b : Str) : toLower (a ++ b) = toLower a ++ toLower b := by simp [toLower]

theorem canonLoop_lowerExtraPrefix (t : Str) :
    canonLoop true (lImpExtraPrefix ++ t) = hImpExtraPrefix ++ canonLoop true t := rfl

/-- a line's name has the extra prefix after canonicalisation iff it has it up to case -/
theorem extraPrefix_ci (n : Str) (hn : n.all isTokenByte = true) :
    hasPrefix (canonicalKey n) hImpExtraPrefix = hasPrefix (toLower n) lImpExtraPrefix := by
  rw [Bool.eq_iff_iff, hasPrefix_iff, hasPrefix_iff]
  constructor
  · rintro ⟨t, ht⟩
    refine ⟨toLower t, ?_⟩
    rw [← toLower_canonicalKey, ht, toLower_append]; rfl
  · rintro ⟨t, ht⟩
    refine ⟨canonLoop true t, ?_⟩
    simp only [canonicalKey, hn, if_true]
    rw [← canonLoop_toLower, ht, canonLoop_lowerExtraPrefix]

theorem extraKey_ci (n : Str) :
    toLower ((canonicalKey n).drop hImpExtraPrefix.length) = (toLower n).drop lImpExtraPrefix.length := by
  have : lImpExtraPrefix.length = hImpExtraPrefix.length := by decide
  rw [this]
  simp only [toLower, ← List.map_drop]
  have := toLower_canonicalKey n
  simp only [toLower] at this
  rw [List.map_drop, List.map_drop, this]

theorem extraRequests_parsed (raw : List (Str × Str)) (hv : rawValid raw = true) :
    extraRequests (parsed raw) = (reqExtras raw).flatMap (fun e => e.2.map (ImpReq.extra e.1)) := by
  induction raw with
  | nil => simp [parsed, extraRequests, reqExtras]
  | cons l raw ih =>
    obtain ⟨hn, hv'⟩ := rawValid_cons hv
    have ih' := ih hv'
    simp only [parsed, reqExtras] at ih' ⊢
    simp only [List.map_cons, extraRequests, extraPrefix_ci l.1 hn, extraKey_ci, List.filterMap_cons]
    by_cases h : hasPrefix (toLower l.1) lImpExtraPrefix = true
    · simp [h, ih']
    · simp [h, ih']

theorem anyExtra_parsed (raw : List (Str × Str)) (hv : rawValid raw = true) :
    (parsed raw).any (fun e => hasPrefix e.1 hImpExtraPrefix) = !(reqExtras raw).isEmpty := by
  induction raw with
  | nil => simp [parsed, reqExtras]
  | cons l raw ih =>
    obtain ⟨hn, hv'⟩ := rawValid_cons hv
    have ih' := ih hv'
    simp only [parsed, reqExtras] at ih' ⊢
    simp only [List.map_cons, List.any_cons, extraPrefix_ci l.1 hn, List.filterMap_cons]
    by_cases h : hasPrefix (toLower l.1) lImpExtraPrefix = true
    · simp [h]
    · simp [h, ih']

theorem authorization_not_extra : hasPrefix hAuthorization hImpExtraPrefix = false := by decide

theorem extraRequests_strip (h : Headers) : extraRequests (authnStrip h) = extraRequests h := by
  induction h with
  | nil => simp [authnStrip, hdel, extraRequests]
  | cons e h ih =>
    obtain ⟨n, vs⟩ := e
    simp only [authnStrip, hdel] at ih ⊢
    by_cases hn : n = hAuthorization
    · subst hn
      simp [List.filter_cons, extraRequests, authorization_not_extra, ih]
    · simp [List.filter_cons, hn, extraRequests, ih]

theorem anyExtra_strip (h : Headers) :
    (authnStrip h).any (fun e => hasPrefix e.1 hImpExtraPrefix) = h.any (fun e => hasPrefix e.1 hImpExtraPrefix) := by
  induction h with
  | nil => simp [authnStrip, hdel]
  | cons e h ih =>
    obtain ⟨n, vs⟩ := e
    simp only [authnStrip, hdel] at ih ⊢
    by_cases hn : n = hAuthorization
    · subst hn
      simp [List.filter_cons, authorization_not_extra, ih]
    · simp [List.filter_cons, hn, ih]

theorem values_strip_user (raw : List (Str × Str)) (hv : rawValid raw = true) :
    values (authnStrip (parsed raw)) hImpUser = clientValues raw lImpUser := by
  rw [authnStrip, values_del_ne _ _ _ (by decide), values_parsed raw hv hImpUser (by decide) (by decide)]; rfl

theorem values_strip_group (raw : List (Str × Str)) (hv : rawValid raw = true) :
    values (authnStrip (parsed raw)) hImpGroup = reqGroups raw := by
  rw [authnStrip, values_del_ne _ _ _ (by decide), values_parsed raw hv hImpGroup (by decide) (by decide)]; rfl

theorem hget_strip_user (raw : List (Str × Str)) (hv : rawValid raw = true) :
    hget (authnStrip (parsed raw)) hImpUser = reqUser raw := by
  simp [hget, values_strip_user raw hv, reqUser]

theorem userReqs_eq (u : Str) :
    (match splitUsername u with
      | some (ns, name) => [ImpReq.sa ns name]
      | none => [ImpReq.user u]) = [userCheck u] := by
  simp only [userCheck]
  cases splitUsername u with
  | none => rfl
  | some p => obtain ⟨ns, name⟩ := p; rfl

/-- `buildImpersonationRequests` on what the server parsed = the checks of the specification -/
theorem build_spec (raw : List (Str × Str)) (hv : rawValid raw = true) :
    buildImpersonationRequests (authnStrip (parsed raw)) =
      if malformed raw then none else if impersonationRequested raw then some (checks raw) else some [] := by
  simp only [buildImpersonationRequests, hget_strip_user raw hv, values_strip_group raw hv, anyExtra_strip,
    anyExtra_parsed raw hv, extraRequests_strip, extraRequests_parsed raw hv, userReqs_eq]
  by_cases hu : (reqUser raw).isEmpty = true
  · by_cases hg : (reqGroups raw).isEmpty = true
    · by_cases he : (reqExtras raw).isEmpty = true
      · have h1 : reqGroups raw = [] := by simpa using hg
        have h2 : reqExtras raw = [] := by simpa using he
        simp [malformed, impersonationRequested, hu, h1, h2]
      · simp [malformed, impersonationRequested, hu, hg, he]
    · simp [malformed, impersonationRequested, hu, hg]
  · have hc : checks raw = [userCheck (reqUser raw)] ++ (reqGroups raw).map ImpReq.group ++
        (reqExtras raw).flatMap (fun e => e.2.map (ImpReq.extra e.1)) := rfl
    have hu' : (reqUser raw).isEmpty = false := by simpa using hu
    simp only [hu', Bool.not_false, Bool.and_false, Bool.false_eq_true, if_false, if_true]
    have hm : malformed raw = !(checks raw).all refUTF8 := by simp [malformed, impersonationRequested, hu']
    have hr : impersonationRequested raw = true := by simp [impersonationRequested, hu']
    rw [hm, hr, hc]
    simp only [userCheck]
    cases hs : splitUsername (reqUser raw) with
    | none =>
      simp only [if_true]
      split <;> simp_all
    | some p =>
      obtain ⟨ns, name⟩ := p
      simp only [if_true]
      split <;> simp_all

/-! ## the authorisation loop -/

/-- the record the filter builds for a reference is the record the specification requires -/
theorem attrsFor_eq_recordOf (r : ImpReq) : attrsFor r = recordOf r := by cases r <;> rfl

theorem authorizeAll_eq (az : Attrs → Decision) (gs : Bool) (a : Acc) (reqs : List ImpReq) :
    authorizeAll az gs a reqs =
      if reqs.all (fun r => (az (attrsFor r)).allowed) then some (reqs.foldl (accStep gs) a) else none := by
  induction reqs generalizing a with
  | nil => simp [authorizeAll]
  | cons r rs ih =>
    by_cases h : (az (attrsFor r)).allowed = true
    · simp [authorizeAll, h, ih]
    · simp [authorizeAll, h]

theorem foldl_groups (gs : Bool) (a : Acc) (l : List Str) :
    (l.map ImpReq.group).foldl (accStep gs) a = { a with groups := a.groups ++ l } := by
  induction l generalizing a with
  | nil => simp
  | cons g l ih => simp [accStep, ih]

theorem foldl_extras (gs : Bool) (a : Acc) (l : List (Str × List Str)) :
    (l.flatMap (fun e => e.2.map (ImpReq.extra e.1))).foldl (accStep gs) a =
      { a with userExtra := a.userExtra ++ l.flatMap (fun e => e.2.map (fun v => (e.1, [v]))) } := by
  induction l generalizing a with
  | nil => simp
  | cons e l ih =>
    obtain ⟨k, vs⟩ := e
    simp only [List.flatMap_cons, List.foldl_append, ih]
    have : ∀ (a : Acc), (vs.map (ImpReq.extra k)).foldl (accStep gs) a =
        { a with userExtra := a.userExtra ++ vs.map (fun v => (k, [v])) } := by
      induction vs with
      | nil => intro a; simp
      | cons v vs ih2 => intro a; simp [accStep, ih2]
    simp [this]

theorem reqExtras_singletons (raw : List (Str × Str)) :
    (reqExtras raw).flatMap (fun e => e.2.map (fun v => (e.1, [v]))) = reqExtras raw := by
  induction raw with
  | nil => simp [reqExtras]
  | cons l raw ih =>
    simp only [reqExtras] at ih ⊢
    by_cases h : hasPrefix (toLower l.1) lImpExtraPrefix = true
    · simp [List.filterMap_cons, h, ih]
    · simp [List.filterMap_cons, h, ih]

/-! ## service account names -/

theorem stripPrefix_eq {s p t : Str} (h : stripPrefix s p = some t) : s = p ++ t := by
  induction p generalizing s with
  | nil => cases s <;> simp [stripPrefix] at h <;> simp [h]
  | cons b p ih =>
    cases s with
    | nil => simp [stripPrefix] at h
    | cons a s =>
      simp only [stripPrefix] at h
      by_cases hab : (a == b) = true
      · simp only [hab, if_true] at h
        have := ih h
        simp at hab
        simp [hab, this]
      · simp [hab] at h

def joinWith (c : UInt8) : List Str → Str
  | [] => []
  | [x] => x
  | x :: y :: r => x ++ c :: joinWith c (y :: r)

theorem splitOn_ne_nil (c : UInt8) (t : Str) : splitOn c t ≠ [] := by
  induction t with
  | nil => simp [splitOn]
  | cons x xs ih =>
    by_cases h : (x == c) = true
    · simp [splitOn, h]
    · cases hs : splitOn c xs with
      | nil => exact absurd hs ih
      | cons p ps => simp [splitOn, h, hs]

theorem joinWith_cons_head (c x : UInt8) (p : Str) (ps : List Str) :
    joinWith c ((x :: p) :: ps) = x :: joinWith c (p :: ps) := by
  cases ps <;> simp [joinWith]

theorem joinWith_splitOn (c : UInt8) (t : Str) : joinWith c (splitOn c t) = t := by
  induction t with
  | nil => simp [splitOn, joinWith]
  | cons x xs ih =>
    by_cases h : (x == c) = true
    · have hx : x = c := by simpa using h
      cases hs : splitOn c xs with
      | nil => exact absurd hs (splitOn_ne_nil c xs)
      | cons p ps =>
        rw [hs] at ih
        simp [splitOn, h, hs, joinWith, ih, hx]
    · cases hs : splitOn c xs with
      | nil => exact absurd hs (splitOn_ne_nil c xs)
      | cons p ps =>
        rw [hs] at ih
        simp [splitOn, h, hs, joinWith_cons_head, ih]

/-- `MakeUsername(SplitUsername(u)) = u` -/
theorem splitUsername_make {u ns name : Str} (h : splitUsername u = some (ns, name)) : makeUsername ns name = u := by
  simp only [splitUsername] at h
  cases hp : stripPrefix u saUsernamePrefix with
  | none => simp [hp] at h
  | some t =>
    simp only [hp] at h
    have hu := stripPrefix_eq hp
    have hj := joinWith_splitOn 58 t
    match hs : splitOn 58 t with
    | [] => simp [hs] at h
    | [a] => simp [hs] at h
    | [a, b] =>
      simp only [hs] at h
      by_cases hv : (isDNS1123Label a && isDNS1123Subdomain b) = true
      · simp only [hv, if_true, Option.some.injEq, Prod.mk.injEq] at h
        obtain ⟨rfl, rfl⟩ := h
        rw [hs] at hj
        simp only [joinWith] at hj
        simp [makeUsername, hu, ← hj]
      · simp [hv] at h
    | a :: b :: c :: r => simp [hs] at h

theorem finalGroups_eq_augment (u : Str) (gs : List Str) : finalGroups u gs = augment u gs := by
  simp only [finalGroups, augment]
  by_cases hu : u = anonymous
  · simp only [hu, ne_eq, not_true_eq_false, if_false, if_true]
    by_cases h : allUnauthenticated ∈ gs
    · have : gs.any (fun g => g == allUnauthenticated) = true := by
        simp only [List.any_eq_true, beq_iff_eq]; exact ⟨_, h, rfl⟩
      simp [this, h]
    · have : gs.any (fun g => g == allUnauthenticated) = false := by
        rw [Bool.eq_false_iff]; intro hc
        simp only [List.any_eq_true, beq_iff_eq] at hc
        obtain ⟨x, hx, rfl⟩ := hc; exact h hx
      simp [this, h]
  · simp only [ne_eq, hu, not_false_eq_true, if_true, if_false]
    by_cases h : allAuthenticated ∈ gs ∨ allUnauthenticated ∈ gs
    · have : gs.any (fun g => g == allAuthenticated || g == allUnauthenticated) = true := by
        simp only [List.any_eq_true, Bool.or_eq_true, beq_iff_eq]
        rcases h with h | h
        · exact ⟨_, h, Or.inl rfl⟩
        · exact ⟨_, h, Or.inr rfl⟩
      simp [this, h]
    · have : gs.any (fun g => g == allAuthenticated || g == allUnauthenticated) = false := by
        rw [Bool.eq_false_iff]; intro hc
        simp only [List.any_eq_true, Bool.or_eq_true, beq_iff_eq] at hc
        obtain ⟨x, hx, hx' | hx'⟩ := hc
        · exact h (Or.inl (hx' ▸ hx))
        · exact h (Or.inr (hx' ▸ hx))
      simp [this, h]

/-- the accumulators after all the checks of a request are the requested identity -/
theorem fold_checks (raw : List (Str × Str)) (a : Acc)
    (ha : a = (checks raw).foldl (accStep (!(reqGroups raw).isEmpty)) ⟨[], [], []⟩) :
    (⟨a.username, finalGroups a.username a.groups, a.userExtra⟩ : Identity) = requestedIdentity raw := by
  simp only [checks, List.foldl_append, foldl_groups, foldl_extras, reqExtras_singletons, List.foldl_cons, List.foldl_nil,
    userCheck] at ha
  simp only [requestedIdentity, impliedGroups]
  cases hs : splitUsername (reqUser raw) with
  | none =>
    simp only [hs, accStep] at ha
    subst ha
    by_cases hg : (reqGroups raw).isEmpty = true
    · have : reqGroups raw = [] := by simpa using hg
      simp [finalGroups_eq_augment, this]
    · simp [finalGroups_eq_augment, hg]
  | some p =>
    obtain ⟨ns, name⟩ := p
    have hm := splitUsername_make hs
    simp only [hs, accStep] at ha
    subst ha
    by_cases hg : (reqGroups raw).isEmpty = true
    · have : reqGroups raw = [] := by simpa using hg
      simp [finalGroups_eq_augment, this, hm, makeGroupNames]
    · simp [finalGroups_eq_augment, hg, hm]

/-- **The filter against the specification.** -/
theorem impersonate_spec (raw : List (Str × Str)) (hv : rawValid raw = true) (u : Identity) (az : Attrs → Decision) :
    impersonate (authnStrip (parsed raw)) u az =
      if !impersonationRequested raw then .pass (authnStrip (parsed raw)) u
      else if malformed raw then .internalError
      else if allAllowed az raw then .pass (clearImpersonation (authnStrip (parsed raw))) (requestedIdentity raw)
      else .forbidden := by
  simp only [impersonate, build_spec raw hv]
  by_cases hm : malformed raw = true
  · have hr : impersonationRequested raw = true := by
      simp only [malformed, Bool.and_eq_true, Bool.or_eq_true] at hm
      rcases hm with ⟨_, h | h⟩ | ⟨h, _⟩
      · simp only [impersonationRequested, Bool.or_eq_true]; exact Or.inl (Or.inr h)
      · simp only [impersonationRequested, Bool.or_eq_true]; exact Or.inr h
      · exact h
    simp [hm, hr]
  · by_cases hr : impersonationRequested raw = true
    · have hc : checks raw = userCheck (reqUser raw) :: ((reqGroups raw).map ImpReq.group ++
          (reqExtras raw).flatMap (fun e => e.2.map (ImpReq.extra e.1))) := by simp [checks]
      simp only [hm, hr, Bool.false_eq_true, if_false, if_true, Bool.not_true]
      rw [hc]
      simp only [← hc, authorizeAll_eq, values_strip_group raw hv, allAllowed, requiredRecords, List.all_map,
        Function.comp_def, attrsFor_eq_recordOf]
      by_cases ha : (checks raw).all (fun r => (az (recordOf r)).allowed) = true
      · simp only [ha, if_true]
        rw [fold_checks raw _ rfl]
      · simp [ha]
    · simp [hm, hr]

/-! ## the whole path -/

theorem map_id_of_forall {α : Type} (l : List α) (f : α → α) (h : ∀ x ∈ l, f x = x) : l.map f = l := by
  induction l with
  | nil => rfl
  | cons x l ih => simp [h x (by simp), ih (fun y hy => h y (by simp [hy]))]



theorem parsed_canonical (raw : List (Str × Str)) : ∀ e ∈ parsed raw, canonicalKey e.1 = e.1 := by
  intro e he
  simp only [parsed, List.mem_map] at he
  obtain ⟨l, _, rfl⟩ := he
  exact canonicalKey_idem _

theorem clearImpersonation_sub (h : Headers) : ∀ e ∈ clearImpersonation h, e ∈ h := by
  intro e he
  simp only [clearImpersonation, hdel, List.mem_filter] at he
  exact he.1.1.1

theorem clearImpersonation_user (h : Headers) : hget (clearImpersonation h) hImpUser = [] := by
  apply get_nil_of_values
  apply values_nil_of_forall
  intro e he
  simp only [clearImpersonation, hdel, List.mem_filter] at he
  simpa using he.1.1.2

theorem hget_h2 (token : Str) (up : Bool) (h1 : Headers) (I2 : ∀ e ∈ h1, e.1 ≠ hAuthorization)
    (I3 : hget h1 hImpUser = []) : hget (if up then h1 else bearerAuth token h1) hImpUser = [] := by
  have hA : values h1 hAuthorization = [] := values_nil_of_forall _ _ I2
  cases up
  · have hb : bearerAuth token h1 = hdel h1 hAuthorization ++ [(hAuthorization, [bearerPrefix ++ token])] := by
      simp [bearerAuth, get_nil_of_values hA, hset, canonicalKey_hAuthorization]
    have : values [(hAuthorization, [bearerPrefix ++ token])] hImpUser = [] := by
      apply values_nil_of_forall; intro e he; simp at he; subst he
      show hAuthorization ≠ hImpUser
      decide
    simpa [hget, hb, values_append, this, values_del_ne _ _ _ (by decide : hImpUser ≠ hAuthorization)] using I3
  · simpa using I3

/-- `WrapRequest` on a header set without `Impersonate-User`: an error iff the identity has a value a header cannot carry -/
theorem wrapRequest_eq (h : Headers) (u : Identity) (hu : hget h hImpUser = []) :
    wrapRequest h u = if checkImpersonationValues u then some (wrapHeaders h u) else none := by
  simp only [wrapRequest, hu]
  cases checkImpersonationValues u <;> simp

/-- the transport part in closed form -/
theorem deliver_eq (token : Str) (up : Bool) (h1 : Headers) (ctx : Identity)
    (I2 : ∀ e ∈ h1, e.1 ≠ hAuthorization) (I3 : hget h1 hImpUser = []) :
    deliver token up h1 ctx =
      if checkImpersonationValues ctx then
        (let h3 := wrapHeaders (if up then h1 else bearerAuth token h1) ctx
         if up then (if transportOK (writeUpgrade h3) then .forwarded (sendOver true h3) ctx else .upstreamRefused)
         else (if transportOK h3 then .forwarded (sendOver false h3) ctx else .transportRefused))
      else .valueRefused := by
  simp only [deliver, wrapRequest_eq _ _ (hget_h2 token up h1 I2 I3)]
  cases checkImpersonationValues ctx <;> simp

theorem deliver_forwarded (token : Str) (up : Bool) (h1 : Headers) (ctx : Identity)
    (I2 : ∀ e ∈ h1, e.1 ≠ hAuthorization) (I3 : hget h1 hImpUser = []) (recv : Headers) (ctx' : Identity)
    (h : deliver token up h1 ctx = .forwarded recv ctx') :
    ctx' = ctx ∧ checkImpersonationValues ctx = true ∧
      recv = sendOver up (wrapHeaders (if up then h1 else bearerAuth token h1) ctx) := by
  rw [deliver_eq token up h1 ctx I2 I3] at h
  cases hc : checkImpersonationValues ctx with
  | false => simp [hc] at h
  | true =>
    simp only [hc, if_true] at h
    cases up
    · simp only [Bool.false_eq_true, if_false] at h
      split at h
      · simp only [Outcome.forwarded.injEq] at h
        exact ⟨h.2.symm, rfl, by rw [← h.1]; simp⟩
      · cases h
    · simp only [if_true] at h
      split at h
      · simp only [Outcome.forwarded.injEq] at h
        exact ⟨h.2.symm, rfl, by rw [← h.1]; simp⟩
      · cases h

/-- what the filters hand to the dispatcher, in terms of the specification: for accepted lines and an authenticated client
    either the gateway answers (500 / 403) or `deliver` runs with a header set without `Authorization`, without
    `Impersonate-User`, with canonical names, for exactly the identity the specification names -/
theorem serve_spec (token : Str) (raw : List (Str × Str)) (u : Identity) (az : Attrs → Decision) (up : Bool)
    (hv : rawValid raw = true) :
    (∃ s, expected raw u az = .answered s ∧
      ((s = 500 ∧ serveWith token raw (some u) az up = .internalError) ∨ (s = 403 ∧ serveWith token raw (some u) az up = .forbidden))) ∨
    (∃ ctx h1, expected raw u az = .forward ctx ∧ (∀ e ∈ h1, canonicalKey e.1 = e.1) ∧ (∀ e ∈ h1, e.1 ≠ hAuthorization) ∧
      hget h1 hImpUser = [] ∧ serveWith token raw (some u) az up = deliver token up h1 ctx) := by
  have hS1 : ∀ e ∈ authnStrip (parsed raw), canonicalKey e.1 = e.1 := by
    intro e he; simp only [authnStrip, hdel, List.mem_filter] at he; exact parsed_canonical raw e he.1
  have hS2 : ∀ e ∈ authnStrip (parsed raw), e.1 ≠ hAuthorization := by
    intro e he; simp only [authnStrip, hdel, List.mem_filter] at he; simpa using he.2
  simp only [serveWith, parse_eq, hv, if_true, impersonate_spec raw hv u az, expected]
  by_cases hr : impersonationRequested raw = true
  · by_cases hm : malformed raw = true
    · exact Or.inl ⟨500, by simp [hr, hm]⟩
    · by_cases ha : allAllowed az raw = true
      · refine Or.inr ⟨requestedIdentity raw, clearImpersonation (authnStrip (parsed raw)), by simp [hr, hm, ha],
          fun e he => hS1 e (clearImpersonation_sub _ e he), fun e he => hS2 e (clearImpersonation_sub _ e he),
          clearImpersonation_user _, by simp [hr, hm, ha]⟩
      · exact Or.inl ⟨403, by simp [hr, hm, ha]⟩
  · refine Or.inr ⟨u, authnStrip (parsed raw), by simp [hr], hS1, hS2, ?_, by simp [hr]⟩
    rw [hget_strip_user raw hv]
    simp only [impersonationRequested, Bool.or_eq_true, not_or] at hr
    simpa using hr.1.1

/-- Everything that can be said about a forwarded request: the client's lines were accepted, the client was
    authenticated, the specification says "forward as `ctx`", every value of `ctx` survives a header, and what arrives is
    what `WrapRequest` makes of a header set without `Authorization`, without `Impersonate-User`, with canonical names. -/
theorem serve_forwarded (token : Str) (raw : List (Str × Str)) (auth : Option Identity) (az : Attrs → Decision)
    (up : Bool) (recv : Headers) (ctx : Identity) (h : serveWith token raw auth az up = .forwarded recv ctx) :
    ∃ u h1, rawValid raw = true ∧ auth = some u ∧ expected raw u az = .forward ctx ∧
      (∀ e ∈ h1, canonicalKey e.1 = e.1) ∧ (∀ e ∈ h1, e.1 ≠ hAuthorization) ∧ hget h1 hImpUser = [] ∧
      checkImpersonationValues ctx = true ∧
      recv = sendOver up (wrapHeaders (if up then h1 else bearerAuth token h1) ctx) := by
  by_cases hv : rawValid raw = true
  · cases auth with
    | none => simp [serveWith, parse_eq, hv] at h
    | some u =>
      rcases serve_spec token raw u az up hv with ⟨s, _, ⟨_, hs⟩ | ⟨_, hs⟩⟩ | ⟨ctx0, h1, he, I1, I2, I3, hs⟩
      · rw [hs] at h; cases h
      · rw [hs] at h; cases h
      · rw [hs] at h
        obtain ⟨hc, hk, hr⟩ := deliver_forwarded token up h1 ctx0 I2 I3 recv ctx h
        subst hc
        exact ⟨u, h1, hv, rfl, he, I1, I2, I3, hk, hr⟩
  · simp [serveWith, parse_eq, hv] at h

/-! ## values a header carries -/

theorem dropWhile_of_head {α : Type} (p : α → Bool) (l : List α) (a : α) (h1 : l.head? = some a) (h2 : p a = false) :
    l.dropWhile p = l := by
  cases l with
  | nil => rfl
  | cons x xs =>
    simp only [List.head?_cons, Option.some.injEq] at h1
    subst h1
    simp [List.dropWhile_cons, h2]

set_option maxRecDepth 100000 in
theorem ctl_not_newline : ∀ c : UInt8, ((c < 32 && c != 9) || c == 127) = false → (c == 10 || c == 13) = false := by
  apply forall_u8; decide

/-- a value that survives arrives as it is, on both paths -/
theorem survives_carried (up : Bool) (v : Str) (h : headerValueSurvives v = true) : carried up v = v := by
  simp only [headerValueSurvives, Bool.and_eq_true, Bool.not_eq_true', List.all_eq_true] at h
  obtain ⟨he, hb⟩ := h
  have hnl : newlineToSpace v = v := by
    simp only [newlineToSpace]
    apply map_id_of_forall
    intro c hc
    have := hb c hc
    have hk := ctl_not_newline c this
    simp [hk]
  have ht : trimOWS v = v := by
    cases v with
    | nil => rfl
    | cons a w =>
      cases hl : (a :: w).getLast? with
      | none => simp at hl
      | some z =>
        simp only [List.head?_cons, hl, Bool.or_eq_false_iff] at he
        have h1 : (a :: w).dropWhile isOWS = a :: w := dropWhile_of_head _ _ a rfl he.1
        have h2 : ((a :: w).reverse).dropWhile isOWS = (a :: w).reverse :=
          dropWhile_of_head _ _ z (by rw [List.head?_reverse]; exact hl) he.2
        simp only [trimOWS, h1, h2, List.reverse_reverse]
  cases up <;> simp [carried, hnl, ht]

theorem check_valuesCarried (up : Bool) (id : Identity) (h : checkImpersonationValues id = true) :
    valuesCarried up id = true := by
  simp only [checkImpersonationValues, Bool.and_eq_true, List.all_eq_true] at h
  obtain ⟨⟨h1, h2⟩, h3⟩ := h
  simp only [valuesCarried, Bool.and_eq_true, beq_iff_eq, List.all_eq_true]
  exact ⟨⟨survives_carried up _ h1, fun g hg => survives_carried up g (h2 g hg)⟩,
    fun e he v hv => survives_carried up v (h3 e he v hv)⟩

/-! ## the wired authorizer -/

theorem wired_allowed {u : Identity} {policy : Attrs → Decision} {a : Attrs}
    (h : (wiredAuthorizer u policy a).allowed = true) : (policy (jsonAttrs a)).allowed = true := by
  simp only [wiredAuthorizer] at h
  split at h
  · simp [Decision.allowed] at h
  · exact h

/-- the identity of `.forward` and the statuses 400 / 401 / 500 do not depend on the authorizer; only "forward the requested
    identity" versus 403 does -/
theorem expectedFor_cases (raw : List (Str × Str)) (auth : Option Identity) :
    (∃ e, (∀ az', expectedFor raw auth az' = e)) ∨
    (∃ u, auth = some u ∧ rawValid raw = true ∧ impersonationRequested raw = true ∧ malformed raw = false ∧
      ∀ az, expectedFor raw auth az = if allAllowed az raw then .forward (requestedIdentity raw) else .answered 403) := by
  by_cases hv : rawValid raw = true
  · have hv' : raw.all (fun l => validName l.1 && validValue l.2) = true := hv
    cases auth with
    | none => exact Or.inl ⟨.answered 401, fun az' => by simp [expectedFor, hv']⟩
    | some u =>
      by_cases hr : impersonationRequested raw = true
      · by_cases hm : malformed raw = true
        · exact Or.inl ⟨.answered 500, fun az' => by simp [expectedFor, hv', expected, hr, hm]⟩
        · exact Or.inr ⟨u, rfl, hv, hr, by simpa using hm, fun az => by simp [expectedFor, hv', expected, hr, hm]⟩
      · exact Or.inl ⟨.forward u, fun az' => by simp [expectedFor, hv', expected, hr]⟩
  · have hv' : raw.all (fun l => validName l.1 && validValue l.2) = false := by simpa [rawValid] using hv
    exact Or.inl ⟨.answered 400, fun az' => by simp [expectedFor, hv']⟩

theorem allAllowed_wired {u : Identity} {policy : Attrs → Decision} {raw : List (Str × Str)}
    (h : allAllowed (wiredAuthorizer u policy) raw = true) : allAllowed (fun a => policy (jsonAttrs a)) raw = true := by
  simp only [allAllowed, List.all_eq_true] at h ⊢
  exact fun a ha => wired_allowed (h a ha)

theorem allAllowed_carried {policy : Attrs → Decision} {raw : List (Str × Str)} (hc : recordsCarried raw = true) :
    allAllowed (fun a => policy (jsonAttrs a)) raw = allAllowed policy raw := by
  simp only [recordsCarried, List.all_eq_true, beq_iff_eq] at hc
  simp only [allAllowed]
  rw [Bool.eq_iff_iff]
  simp only [List.all_eq_true]
  constructor
  · intro h a ha; have := h a ha; rwa [hc a ha] at this
  · intro h a ha; rw [hc a ha]; exact h a ha

theorem refUTF8_carried (r : ImpReq) (h : refUTF8 r = true) : jsonAttrs (recordOf r) = recordOf r := by
  have c0 : jsonCarried ([] : Str) = [] := by decide
  have c1 : jsonCarried resServiceAccounts = resServiceAccounts := by decide
  have c2 : jsonCarried resUsers = resUsers := by decide
  have c3 : jsonCarried resGroups = resGroups := by decide
  have c4 : jsonCarried resUserExtras = resUserExtras := by decide
  have c5 : jsonCarried authenticationGroup = authenticationGroup := by decide
  cases r <;> simp only [refUTF8, utf8Valid, Bool.and_eq_true, beq_iff_eq] at h <;>
    simp [jsonAttrs, recordOf, c0, c1, c2, c3, c4, c5, h]

/-- a well-formed impersonation only requires records a SubjectAccessReview carries unchanged -/
theorem wellformed_recordsCarried (raw : List (Str × Str)) (hr : impersonationRequested raw = true)
    (hm : malformed raw = false) : recordsCarried raw = true := by
  simp only [malformed, hr, Bool.true_and, Bool.or_eq_false_iff, Bool.not_eq_false'] at hm
  have hall := hm.2
  simp only [List.all_eq_true] at hall
  simp only [recordsCarried, requiredRecords, List.all_map, List.all_eq_true, Function.comp_def, beq_iff_eq]
  exact fun r hr' => refUTF8_carried r (hall r hr')

/-! ## small facts used by the property theorems -/

theorem carryIdentity_id (up : Bool) (id : Identity) (h : valuesCarried up id = true) : carryIdentity up id = id := by
  simp only [valuesCarried, Bool.and_eq_true, beq_iff_eq, List.all_eq_true] at h
  obtain ⟨⟨h1, h2⟩, h3⟩ := h
  have hg : id.groups.map (carried up) = id.groups := map_id_of_forall _ _ h2
  have he : id.extra.map (fun e => (e.1, e.2.map (carried up))) = id.extra := by
    apply map_id_of_forall
    intro e he
    have := map_id_of_forall e.2 (carried up) (h3 e he)
    rw [this]
  cases id
  simp_all [carryIdentity]

theorem multimapAgree_of_values (a b : Headers) (h : ∀ k, values a k = values b k) : multimapAgree a b = true := by
  simp only [multimapAgree, List.all_eq_true, beq_iff_eq]
  intro e _
  rw [h]

theorem imp_isIdentityName {n : Str} (h : hasPrefix n hImpPrefix = true) : isIdentityName n = true := by
  simp [isIdentityName, h]

theorem decodeExtras_identityPart (h : Headers) :
    decodeExtras (h.filter (fun e => isIdentityName e.1)) = decodeExtras h := by
  induction h with
  | nil => rfl
  | cons e h ih =>
    obtain ⟨n, vs⟩ := e
    by_cases hp : hasPrefix n hImpExtraPrefix = true
    · have : isIdentityName n = true := imp_isIdentityName (hasPrefix_trans hp extraPrefix_imp)
      simp [this, decodeExtras, hp, ih]
    · by_cases hi : isIdentityName n = true
      · simp [hi, decodeExtras, hp, ih]
      · simp [hi, decodeExtras, hp, ih]

theorem values_identityPart (h : Headers) (n : Str) (hn : isIdentityName n = true) :
    values (h.filter (fun e => isIdentityName e.1)) n = values h n :=
  values_filter_keep h _ n (fun e _ he => by simpa [he] using hn)

end KG.Lemmas.Identity
