import KG.Model.RemoteLimiter
import KG.Spec.RemoteLimiter
/-!
# Lemmas for C09: the clamp invariant of the gateway side of the global limiter

`Inv K cfg st m` relates a model state `st` with the judge's monitor `m` (KG.Spec.RemoteLimiter) for operation
lists whose schemas are all valid and of one type `K`. `step_inv` shows that every operation preserves it, never
panics, and produces an observation the judge accepts.
-/
namespace KG.Lemmas.RemoteLimiter
open KG.Model.RemoteLimiter KG.Spec.RemoteLimiter KG.Gen.C09

/-! ## arithmetic -/

theorem toU32_id {x : Int} (h0 : 0 ≤ x) (h1 : x ≤ maxInt32) : toU32 x = x := by
  unfold toU32; unfold maxInt32 at h1; omega

theorem toI32_id {x : Int} (h0 : 0 ≤ x) (h1 : x ≤ maxInt32) : toI32 x = x := by
  unfold toI32; unfold maxInt32 at h1; omega

theorem bound_range (v g : Int) (hg : 0 ≤ g) : 0 ≤ bound v g ∧ bound v g ≤ g := by
  simp only [bound]
  constructor <;> (split <;> split <;> omega)

theorem miReserve_range {m : Int} (h0 : 0 ≤ m) : 0 ≤ miReserve m ∧ miReserve m ≤ m := by
  simp only [miReserve, globalMaxInflightBurstMinInflight]
  generalize i32div (i32mul m globalMaxInflightBurstPercent) 100 = r
  by_cases h : r < 1
  · simp only [h, if_true]; constructor <;> (split <;> omega)
  · simp only [h, if_false]; constructor <;> (split <;> omega)

theorem tdiv_between {num den lo hi : Int} (hd : 0 < den) (hl : 0 ≤ lo)
    (h1 : ¬ num < lo * den) (h2 : ¬ num > hi * den) : lo ≤ Int.tdiv num den ∧ Int.tdiv num den ≤ hi := by
  have hn : 0 ≤ num := by
    have : 0 ≤ lo * den := Int.mul_nonneg hl (by omega)
    omega
  rw [Int.tdiv_eq_ediv_of_nonneg hn]
  exact ⟨Int.le_ediv_of_mul_le hd (by omega), Int.ediv_le_of_le_mul hd (by omega)⟩

theorem clampAccept_range {limit reserve wmax : Int} (h0 : 0 ≤ reserve) (h1 : reserve ≤ wmax) :
    0 ≤ clampAccept limit reserve wmax ∧ clampAccept limit reserve wmax ≤ wmax := by
  simp only [clampAccept]
  by_cases h : limit < reserve
  · simp only [h, if_true]; constructor <;> (split <;> omega)
  · simp only [h, if_false]; constructor <;> (split <;> omega)

theorem miFallback_range {obs l wmax : Int} (h0 : 0 ≤ l) (h1 : 0 ≤ wmax) :
    0 ≤ miFallback obs l wmax ∧ miFallback obs l wmax ≤ wmax := by
  simp only [miFallback]
  by_cases h : obs < l
  · simp only [h, if_true]; constructor <;> (split <;> omega)
  · simp only [h, if_false]; constructor <;> (split <;> omega)

/-! ## limiters -/

@[simp] theorem resize_mi (s n b : Int) : ((Lim.mi s).resize n b).1 = .mi n := by
  simp only [Lim.resize]; split
  · rfl
  · rename_i h; simp only [ne_eq, Decidable.not_not] at h; rw [h]

@[simp] theorem resize_tb (q u n b : Int) : ((Lim.tb q u).resize n b).1 = .tb n b := by
  simp only [Lim.resize]; split
  · rfl
  · rename_i h
    have h1 : q = n := by false_or_by_contra; exact h (Or.inl ‹_›)
    have h2 : u = b := by false_or_by_contra; exact h (Or.inr ‹_›)
    rw [h1, h2]

/-! ## valid schemas -/

/-- a schema accepted by validation that carries a global limit, by type -/
inductive VS : Kind → Schema → Prop
  | mi (st : Strategy) (l g : Int) (h0 : 0 ≤ l) (h1 : l ≤ g) (h2 : g ≤ maxInt32) :
      VS .mi { strategy := st, exempt := false, mi := some l, tb := none, gmi := some g, gtb := none }
  | tb (st : Strategy) (q b gq gb : Int) (h0 : 0 < q) (h1 : q ≤ b) (h2 : q ≤ gq) (h3 : b ≤ gb)
      (h4 : gq ≤ maxInt32) (h5 : gb ≤ maxInt32) :
      VS .tb { strategy := st, exempt := false, mi := none, tb := some ⟨q, b⟩, gmi := none, gtb := some ⟨gq, gb⟩ }

theorem VS_of_valid {s : Schema} (h : validSchema s = true) : VS (guessType s) s := by
  obtain ⟨st, ex, mi, tb, gmi, gtb⟩ := s
  cases ex <;> cases mi <;> cases gmi <;> cases tb <;> cases gtb <;>
    simp [validSchema, guessType] at h ⊢
  · rename_i t gt
    obtain ⟨q, b⟩ := t; obtain ⟨gq, gb⟩ := gt
    simp at h
    exact VS.tb st q b gq gb (by omega) (by omega) (by omega) (by omega) (by omega) (by omega)
  · rename_i l g
    exact VS.mi st l g (by omega) (by omega) (by omega)

theorem valid_of_VS {K : Kind} {s : Schema} (h : VS K s) : validSchema s = true ∧ guessType s = K := by
  cases h <;> simp [validSchema, guessType] <;> omega

theorem VS_guess {K : Kind} {s : Schema} (h : VS K s) : guessType s = K := (valid_of_VS h).2

theorem VS_limOf_kind {K : Kind} {s : Schema} (h : VS K s) : (limOf s).kind = K := by
  cases h <;> rfl

theorem VS_newLim {K : Kind} {s : Schema} (h : VS K s) : newLim s = .ok (limOf s) := by
  cases h with
  | mi st l g h0 h1 h2 =>
    simp [newLim, guessType, limOf, toU32_id h0 (by omega : l ≤ maxInt32)]
  | tb st q b gq gb h0 h1 h2 h3 h4 h5 =>
    simp [newLim, guessType, limOf, toU32_id (by omega : 0 ≤ q) (by omega : q ≤ maxInt32),
      toU32_id (by omega : 0 ≤ b) (by omega : b ≤ maxInt32)]

theorem VS_enable {K : Kind} {s : Schema} (h : VS K s) :
    enableGlobal s = (decide (s.strategy = .alloc) || decide (s.strategy = .count)) := by
  cases h with
  | mi st l g h0 h1 h2 => cases st <;> simp [enableGlobal]
  | tb st q b gq gb h0 h1 h2 h3 h4 h5 => cases st <;> simp [enableGlobal]

/-- the global bound of a valid schema is a pair of int32 naturals -/
structure BoundOK (b : Bound) : Prop where
  mi0 : 0 ≤ b.mi
  mi1 : b.mi ≤ maxInt32
  q0 : 0 ≤ b.qps
  q1 : b.qps ≤ maxInt32
  b0 : 0 ≤ b.burst
  b1 : b.burst ≤ maxInt32

theorem VS_globalOK {K : Kind} {s : Schema} (h : VS K s) : BoundOK (globalOf s) := by
  cases h with
  | mi st l g h0 h1 h2 =>
    refine ⟨?_, ?_, ?_, ?_, ?_, ?_⟩ <;> simp only [globalOf, maxInt32] at * <;> omega
  | tb st q b gq gb h0 h1 h2 h3 h4 h5 =>
    refine ⟨?_, ?_, ?_, ?_, ?_, ?_⟩ <;> simp only [globalOf, maxInt32] at * <;> omega

/-! ## bounds -/

def BLe (a b : Bound) : Prop := a.mi ≤ b.mi ∧ a.qps ≤ b.qps ∧ a.burst ≤ b.burst

theorem BLe.refl (a : Bound) : BLe a a := ⟨Int.le_refl _, Int.le_refl _, Int.le_refl _⟩

theorem BLe.sup_left (a b : Bound) : BLe a (a.sup b) := by
  simp only [BLe, Bound.sup]; refine ⟨?_, ?_, ?_⟩ <;> (split <;> omega)

theorem BLe.sup_right (a b : Bound) : BLe b (a.sup b) := by
  simp only [BLe, Bound.sup]; refine ⟨?_, ?_, ?_⟩ <;> (split <;> omega)

theorem sup_eq_left {a b : Bound} (h : BLe b a) : a.sup b = a := by
  obtain ⟨h1, h2, h3⟩ := h
  cases a; cases b
  simp only [Bound.sup, Bound.mk.injEq] at *
  refine ⟨?_, ?_, ?_⟩ <;> (split <;> omega)

/-- an item whose quotas are within a bound -/
structure ItemLe (a : Item) (b : Bound) : Prop where
  mi : ∀ m, a.mi = some m → 0 ≤ m ∧ m ≤ b.mi
  tb : ∀ t, a.tb = some t → 0 ≤ t.qps ∧ t.qps ≤ b.qps ∧ 0 ≤ t.burst ∧ t.burst ≤ b.burst

theorem bound_itemLe (s : Schema) (i : Item) (h : BoundOK (globalOf s)) :
    ItemLe (boundByGlobalLimit s i) (globalOf s) := by
  constructor
  · intro m hm
    simp only [boundByGlobalLimit, Option.map_eq_some_iff] at hm
    obtain ⟨v, _, rfl⟩ := hm
    exact bound_range _ _ h.mi0
  · intro t ht
    simp only [boundByGlobalLimit, Option.map_eq_some_iff] at ht
    obtain ⟨v, _, rfl⟩ := ht
    exact ⟨(bound_range _ _ h.q0).1, (bound_range _ _ h.q0).2, (bound_range _ _ h.b0).1, (bound_range _ _ h.b0).2⟩

theorem bound_itemType (s : Schema) (i : Item) : itemType (boundByGlobalLimit s i) = itemType i := by
  simp only [itemType, boundByGlobalLimit, Option.isSome_map]

theorem bound_strategy (s : Schema) (i : Item) : (boundByGlobalLimit s i).strategy = i.strategy := rfl

end KG.Lemmas.RemoteLimiter
